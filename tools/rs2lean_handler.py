"""Translator extension: the daemon's request handler (vhost-user-backend/src/handler.rs) -> lean/VhostModel/Gen/HandlerOps.lean.

For every method of `impl VhostUserBackendReqHandlerMut for VhostUserHandler<T>`, in source order, the list of *events*
of its body in the vocabulary of lean/VhostModel/Base/HandlerSig.lean:

  * guards with the error they return: `indexBound` (`self.vrings.get(index as usize).ok_or(E)?`), `featureAcked bit`
    (`check_feature(F)?`, the flag resolved to its bit number), `valueCheck cond` (`if cond { return Err(E) }`),
    `requireSome` (`let Some(..) = X else { return Err(E) }`), `addrTranslate` (`self.vmm_va_to_gpa(a).map_err(..)?`),
    `vringTry` (fallible calls on the vring object), `backendTry` (`self.backend.m(..).map_err(..)?`), `libTry`
    (fallible calls into vm-memory / the bitmap module / userfaultfd, each a *named* entry of `LIB_TRY`);
  * effects: `setField`, `vringCall`, `vringGet`, `backendCall`, `channelCall`, `libCall`, `helperCall` (a private helper
    of the inherent impls; its own body, extracted the same way, is carried along — recursively), `epollRegister` /
    `epollUnregister`, `memReplace`, `mappingsAssign/Push/Retain`, `logAssign`, `bitmapReplace`, `localNew/localPush`,
    `bind` (a pure `let`);
  * structure: `forEachVring [..]`, `forEach coll [..]`, `ifCond cond [..] [..]`, `ifSome what [..] [..]`, `brk`;
  * the result: `ok`, `okValue e`, `okBackend m`, `retBackend m E`, `err E`, `value e`, `done`.

Conditions and values are emitted as identifiers (the canonical rendering of the Rust expression) and, where they are pure
arithmetic / bit tests over the arguments, the handler's fields and the locals bound by earlier events, as Lean functions of
`Base.HIn` together with the side condition under which their `u64`/`usize` arithmetic does not overflow (`boolExprs`,
`natExprs`; the expression translation is `rs2lean_helpers.Tr`, with the name resolution of this file).  Expressions
that are not of that kind are listed in `opaqueExprs`.

Every statement must be of a shape recognised below; anything else raises `Untranslatable` naming the file, the method and
the statement.  Statements under `#[cfg(feature = F)]` with `F` not among the features the crates are built with
(`rsparse.BODY_FEATURES`; notably `verif-hooks`) are compiled out, as in every other extension of the translator.

Picked up by tools/rs2lean.py through `generators(repo)`.
"""
import os
import re

from rsparse import (Untranslatable, tokenize, scan_items, impl_header, impl_fns, Node, OPEN)
from rs2lean import FEATURES, LEAN_HEADER, INT_BITS
from rs2lean_frontend import FParser, split_params, unparen
import rs2lean_helpers as H

REL = "vhost-user-backend/src/handler.rs"
TRAIT = "VhostUserBackendReqHandlerMut"
TYPE = "VhostUserHandler"

# ------------------------------------------------------------------------------------------------------------------
# the recognised vocabulary

# `Base.HIn` (lean/VhostModel/Base/HandlerSig.lean): the names an expression with a Lean translation may refer to
HIN_NAT = {"index", "num", "base", "features", "descriptor", "used", "available", "offset", "size", "vmm_va", "feat",
           "region_guest_phys_addr", "region_memory_size", "region_user_addr",
           "acked_features", "acked_protocol_features", "num_queues", "max_queue_size", "backend_features",
           "desc_table", "avail_ring", "used_ring", "idx", "next_avail",
           "mapping_vmm_addr", "mapping_size", "mapping_gpa_base", "queues_mask"}
HIN_BOOL = {"enable", "owned", "features_acked", "mappings_empty", "ring_ready", "ring_enabled", "ring_kick_some"}

# constants of crates outside /repo (not readable by the translator; emitted as `externalConsts` for the record)
EXTERNAL_CONSTS = {"VIRTIO_RING_F_EVENT_IDX": (29, "virtio-bindings: virtio_ring.rs")}

SELF_NAT = {"acked_features": 64, "acked_protocol_features": 64, "num_queues": 64, "max_queue_size": 64}
SELF_BOOL = {"owned", "features_acked"}
SELF_ASSIGNABLE = {"owned", "features_acked", "acked_features", "acked_protocol_features", "uffd"}

# calls on the vring object (`T::Vring: VringT`)
VRING_SETTERS = {"set_queue_size": 1, "set_queue_next_avail": 1, "set_queue_next_used": 1, "set_enabled": 1, "set_kick": 1,
                 "set_call": 1, "set_err": 1, "set_queue_ready": 1, "set_queue_event_idx": 1}
VRING_TRY = {"set_queue_info": 3, "queue_used_idx": 0}
VRING_GET = {"queue_next_avail": 0, "get_ref": 0}

# fallible calls into libraries, by the name they get in a `libTry` event
LIB_TRY = ("mmap_region", "GuestRegionMmap::new", "GuestMemoryMmap::from_regions", "insert_region", "remove_region",
           "MmapLogReg::from_file", "InnerBitmap::new", "UffdBuilder::create", "uffd.register")
# infallible opaque calls with an effect outside the handler
LIB_CALL = ("libc::dup", "File::from_raw_fd")
# constructors / conversions without an effect
PURE_FNS = ("GuestAddress", "Arc::new", "Arc::clone", "Some", "u64::from", "u32::from", "VhostUserVringState::new",
            "io::Error::other", "io::Error::last_os_error", "Vec::new", "UffdBuilder::new")
PURE_METHODS = ("memory", "clone", "as_fd", "as_raw_fd", "as_ptr", "into", "iter", "count_ones", "as_ref",
                "close_on_exec", "non_blocking", "user_mode_only")

ITERABLES = {
    "ctx.iter().zip(files)": ("( region , file )", {"region": "memregion", "file": "opaque"}),
    "self.mappings.iter()": ("mapping", {"mapping": "mapping"}),
    "self.queues_per_thread.iter().enumerate()": ("( thread_index , queues_mask )", {"thread_index": "opaque", "queues_mask": "nat64"}),
    "mem.iter()": ("region", {"region": "guestregion"}),
}
VRING_LOOPS = {"self.vrings.iter().enumerate()": "( index , vring )", "self.vrings.iter_mut()": "vring"}

EPOLL_ARGS = "fd.as_raw_fd(), EventSet::IN, u64::from(evt_idx)"


# ------------------------------------------------------------------------------------------------------------------
# parser: FParser plus `break`, `let PAT = E else { .. }`, qualified paths `<T as Tr>::X`, `as *mut T`, attributes on the
# fields of a struct literal

class HParser(FParser):
    def sub(self, toks):
        return HParser(toks, self.where)

    def block(self):
        stmts = []
        while self.peek().kind != "eof":
            if self.at("#"):
                if self.attrs():
                    sub = self.sub(self.t[self.i:])
                    sub.one_stmt()
                    self.i += sub.i
                continue
            if self.at("let"):
                l_ = self.let_()
                e_ = l_.args[1] if len(l_.args) > 1 else None
                if not (l_.args[0] == "_" and e_ is not None and e_.op == "ref" and e_.args and e_.args[0] is not None and e_.args[0].op == "path"):
                    stmts.append(l_)   # (`let _ = &x;` does nothing)
            elif self.at("return"):
                self.eat()
                e = None if self.at(";") else self.expr()
                if self.at(";"):
                    self.eat()
                stmts.append(Node("return", e))
            elif self.at("break"):
                self.eat()
                if self.at(";"):
                    self.eat()
                else:
                    self.err("`break` with a value or label")
                stmts.append(Node("break"))
            else:
                e = self.expr()
                if self.peek().kind == "punct" and self.peek().text in ("=", "+=", "-=", "|=", "&=", "^=", "*=", "/=",
                                                                        "<<=", ">>="):
                    op = self.eat().text
                    rhs = self.expr()
                    e = Node("assign", op, e, rhs)
                if self.at(";"):
                    self.eat()
                    if e.op == "macro" and e.args and e.args[0] in ("debug_assert", "debug_assert_eq", "debug_assert_ne"):
                        continue   # no release semantics; a failing one panics in the correspondence runs (debug assertions on)
                    stmts.append(Node("stmt", e))
                elif e.op in ("if", "match", "block", "for") and self.peek().kind != "eof":
                    stmts.append(Node("stmt", e))
                else:
                    stmts.append(Node("tail", e))
        return stmts

    def let_(self):
        self.eat("let")
        mut = False
        if self.at("mut"):
            self.eat()
            mut = True
        pat, depth = [], 0
        while True:
            t = self.peek()
            if t.kind == "eof":
                self.err("`let` without `=`")
            if depth == 0 and t.text in (":", "="):
                break
            if t.text in OPEN:
                depth += 1
            elif t.text in (")", "]", "}"):
                depth -= 1
            pat.append(self.eat().text)
        ty = None
        if self.at(":"):
            self.eat()
            ty = self.type_()
        self.eat("=")
        e = self.expr()
        els = None
        if self.at("else"):
            self.eat()
            els = self.block_expr()
        self.eat(";")
        return Node("let", " ".join(pat), e, ty=ty, mut=mut, els=els)

    def primary(self):
        t = self.peek()
        if t.kind == "punct" and t.text in ("<", "<<"):
            depth, txt = 0, []
            while True:
                x = self.eat()
                if x.kind == "eof":
                    self.err("unbalanced qualified path")
                txt.append(x.text)
                depth += {"<": 1, "<<": 2, ">": -1, ">>": -2}.get(x.text, 0)
                if depth == 0:
                    break
            q = " ".join(txt).replace(" :: ", "::").replace("< ", "<").replace(" >", ">").replace("<< ", "<<")
            path = [q]
            while self.at("::"):
                self.eat()
                path.append(self.eat().text)
            return Node("path", *path)
        if t.kind == "ident" and t.text in ("break", "continue", "loop", "while"):
            self.err(f"`{t.text}` in expression position is outside the translated subset")
        return super().primary()

    def cast(self):
        e = self.postfix()
        while self.at("as"):
            self.eat()
            if self.at("*"):
                self.eat()
                q = self.eat().text
                if q not in ("mut", "const"):
                    self.err("malformed raw pointer type")
                ty = "*" + q + " " + self.type_atom()
            else:
                ty = self.type_atom()
            e = Node("cast", e, ty)
        return e

    def _struct_fields(self, toks):
        p = HParser(toks, self.where)
        fields = []
        while p.peek().kind != "eof":
            skip = p.attrs() if p.at("#") else False
            if p.at(".."):
                p.err("struct update syntax")
            name = p.eat().text
            if p.at(":"):
                p.eat()
                e = p.expr()
            else:
                e = Node("path", name)
            if not skip:
                fields.append((name, e))
            if p.at(","):
                p.eat()
        return fields


# ------------------------------------------------------------------------------------------------------------------
# rendering

def rend(n):
    """canonical text of an expression: the identifier of a condition / value"""
    if n is None:
        return ""
    op, a = n.op, n.args
    if op == "int":
        return str(a[0]) + (n.kw.get("sfx") or "")
    if op == "str":
        return a[0].strip('"')
    if op == "unit":
        return "()"
    if op == "path":
        s = "::".join(a)
        g = n.kw.get("generics")
        return s + ("::<" + ",".join(g) + ">" if g else "")
    if op == "field":
        return f"{rend(a[0])}.{a[1]}"
    if op == "mcall":
        return f"{rend(a[0])}.{a[1]}({', '.join(rend(x) for x in a[2:])})"
    if op == "call":
        return f"{rend(a[0])}({', '.join(rend(x) for x in a[1:])})"
    if op == "bin":
        return f"{rend(a[1])} {a[0]} {rend(a[2])}"
    if op == "not":
        return "!" + rend(a[0])
    if op == "neg":
        return "-" + rend(a[0])
    if op == "paren":
        return "(" + rend(a[0]) + ")"
    if op == "ref":
        return "&" + rend(a[0])
    if op == "deref":
        return "*" + rend(a[0])
    if op == "cast":
        return f"{rend(a[0])} as {a[1]}"
    if op == "try":
        return rend(a[0]) + "?"
    if op == "tuple":
        return "(" + ", ".join(rend(x) for x in a) + ")"
    if op == "index":
        return f"{rend(a[0])}[{rend(a[1])}]"
    if op == "closure":
        return "|" + ", ".join(a[0]) + "| " + rend(a[1])
    if op == "struct":
        return a[0] + " { " + ", ".join(f"{k}: {rend(v)}" for k, v in a[1]) + " }"
    if op == "block" and len(a) == 1 and a[0].op == "tail":
        return "{ " + rend(a[0].args[0]) + " }"
    raise Untranslatable(f"{REL}: cannot render expression {n!r}"[:300])


def lstr(s):
    s = re.sub(r"\s+", " ", s).strip()
    if '"' in s or "\\" in s:
        raise Untranslatable(f"{REL}: text not representable as a Lean string literal: {s!r}")
    return '"' + s + '"'


def short(s):
    try:
        if s.op == "let":
            return f"let {s.args[0]} = {rend(s.args[1])}"
        if s.op in ("stmt", "tail", "return"):
            e = s.args[0] if s.args else None
            if e is not None and e.op == "for":
                return f"for {e.args[0]} in {rend(e.args[1])} {{ .. }}"
            if e is not None and e.op == "assign":
                return f"{rend(e.args[1])} {e.args[0]} {rend(e.args[2])}"
            return H.show(e) if e is not None else s.op
        return H.show(s)
    except Exception:
        return repr(s)[:200]


def peel(n):
    """through parentheses, references and single-expression blocks (`unsafe { e }`)"""
    while n is not None:
        if n.op in ("paren", "ref"):
            n = n.args[0]
        elif n.op == "block" and len(n.args) == 1 and n.args[0].op == "tail":
            n = n.args[0].args[0]
        else:
            return n
    return n


def is_self(n):
    n = unparen(n)
    return n is not None and n.op == "path" and list(n.args) == ["self"]


def self_field(n, name=None):
    n = unparen(n)
    return n is not None and n.op == "field" and is_self(n.args[0]) and (name is None or n.args[1] == name)


def local_name(n):
    n = peel(n)
    if n is not None and n.op == "deref":
        n = peel(n.args[0])
    if n is not None and n.op == "path" and len(n.args) == 1:
        return n.args[0]
    return None


def path_text(n):
    n = unparen(n)
    if n is not None and n.op == "path":
        return "::".join(n.args)
    return None


def err_name(n, where):
    """`VhostUserError::E`, `VhostUserError::E(..)`, `Err(..)` of these, `|e| VhostUserError::E(..)` -> E"""
    n = unparen(n)
    if n is not None and n.op == "closure":
        return err_name(n.args[1], where)
    if n is not None and n.op == "call" and path_text(n.args[0]) == "Err" and len(n.args) == 2:
        return err_name(n.args[1], where)
    if n is not None and n.op == "call":
        n = unparen(n.args[0])
    if n is not None and n.op == "path" and len(n.args) == 2 and n.args[0] in ("VhostUserError", "VhostUserHandlerError"):
        return n.args[1]
    raise Untranslatable(f"{where}: unrecognised error value `{H.show(n)}`")


def ok_arg(n):
    n = unparen(n)
    if n is not None and n.op == "call" and path_text(n.args[0]) == "Ok" and len(n.args) == 2:
        return n.args[1]
    return None


def is_err(n):
    n = unparen(n)
    return n is not None and n.op == "call" and path_text(n.args[0]) == "Err" and len(n.args) == 2


# ------------------------------------------------------------------------------------------------------------------
# expression translation: rs2lean_helpers.Tr with the name resolution of the handler

class HTr(H.Tr):
    def __init__(self, body):
        super().__init__(body.X.world, {}, body.fname, "x")
        self.b = body
        self.depth = 0

    def where(self):
        return self.b.where

    def fail(self, msg):
        raise Untranslatable(f"{self.b.where}: {msg}")

    def tr(self, n):
        op, a = n.op, n.args
        if op == "int":
            v = super().tr(n)
            v.cv = a[0]
            return v
        if op == "not":
            v = self.tr(a[0])
            if v.kind == "nat":
                # bitwise complement at the operand's width
                return H.nat(f"({2 ** v.bits - 1} - {v.e})", v.bits, v.d, flags=v.flags)
            if v.kind == "bool":
                return H.boolean(f"(!{v.e})", v.d)
            self.fail(f"`!` on `{H.show(a[0])}`")
        if op == "bin" and a[0] in ("<<", ">>"):
            x, y = self.tr(a[1]), self.tr(a[2])
            if x.kind != "nat" or y.kind != "nat":
                self.fail(f"shift of non-numbers in `{H.show(n)}`")
            cx, cy = getattr(x, "cv", None), getattr(y, "cv", None)
            if cx is not None and cy is not None:
                if cy >= x.bits:
                    self.fail(f"constant shift `{H.show(n)}` overflows")
                val = (cx << cy) % (2 ** x.bits) if a[0] == "<<" else cx >> cy
                v = H.nat(f"({hex(val)} /- {H.show(n)} -/)", x.bits)
                v.cv = val
                return v
            d = H.d_and(H.d_and(x.d, y.d), f"(decide ({y.e} < {x.bits}))")
            if a[0] == ">>":
                return H.nat(f"({x.e} >>> {y.e})", x.bits, d)
            return H.nat(f"(({x.e} <<< {y.e}) % {2 ** x.bits})", x.bits, d)
        return super().tr(n)

    def tr_path(self, n):
        p = n.args
        if len(p) == 1:
            nm = p[0]
            if nm in ("true", "false"):
                return H.boolean(nm)
            if nm in EXTERNAL_CONSTS:
                val = EXTERNAL_CONSTS[nm][0]
                self.b.X.externals[nm] = EXTERNAL_CONSTS[nm]
                v = H.nat(f"({val} /- {nm} -/)", 64)
                v.cv = val
                return v
            if nm in self.w.consts:
                ty, val = self.w.consts[nm]
                v = H.nat(f"({hex(val)} /- {nm} -/)", INT_BITS[ty])
                v.cv = val
                return v
            r = self.b.resolve(nm, self)
            if r is not None:
                return r
            self.fail(f"`{nm}` is not a number or truth value of the input vocabulary")
        return super().tr_path(n)

    def tr_field(self, n):
        base, f = unparen(n.args[0]), n.args[1]
        if is_self(base):
            if f in SELF_NAT:
                return H.nat(f"x.{f}", SELF_NAT[f])
            if f in SELF_BOOL:
                return H.boolean(f"x.{f}")
            self.fail(f"field `self.{f}` is not part of the input vocabulary")
        nm = local_name(base)
        kind = self.b.locals.get(nm) if nm else None
        if kind == "mapping" and f in ("vmm_addr", "size", "gpa_base"):
            return H.nat(f"x.mapping_{f}", 64)
        if kind in ("memregion", "singleregion") and f in ("guest_phys_addr", "memory_size", "user_addr"):
            return H.nat(f"x.region_{f}", 64)
        self.fail(f"field access `{H.show(n)}` is not part of the input vocabulary")

    def tr_mcall(self, n):
        recv, name, args = unparen(n.args[0]), n.args[1], n.args[2:]
        txt = rend(n)
        if txt == "self.mappings.is_empty()":
            return H.boolean("x.mappings_empty")
        if txt == "self.backend.features()":
            return H.nat("x.backend_features", 64)
        rn = local_name(recv)
        if txt.startswith("vring_state.") and self.b.locals.get("vring_state") == "vring_state":
            m = {"vring_state.get_queue().ready()": "x.ring_ready", "vring_state.is_enabled()": "x.ring_enabled",
                 "vring_state.get_kick().is_some()": "x.ring_kick_some"}.get(txt)
            if m:
                return H.boolean(m)
            self.fail(f"`{txt}`: unknown query of the ring state")
        if rn and self.b.locals.get(rn) == "flagparam" and name == "bits" and not args:
            return H.nat("x.feat", 64, flags=True)
        if is_self(recv) and name in self.b.X.helper_fns:
            return self.b.X.inline_value(name, args, self)
        if name == "bits" and not args:
            v = self.tr(recv)
            if v.kind == "nat" and v.flags:
                r = H.nat(v.e, v.bits, v.d)
                if hasattr(v, "cv"):
                    r.cv = v.cv
                return r
        self.fail(f"method call `{txt}` is not part of the input vocabulary")

    def tr_call(self, n):
        f = path_text(n.args[0])
        if f in ("u64::from", "u32::from", "usize::from") and len(n.args) == 2:
            v = self.tr(n.args[1])
            if v.kind != "nat":
                self.fail(f"`{rend(n)}` of a non-number")
            r = H.nat(v.e, INT_BITS[f.split("::")[0]], v.d)
            if hasattr(v, "cv"):
                r.cv = v.cv
            return r
        self.fail(f"call `{rend(n)}` is not part of the input vocabulary")


# ------------------------------------------------------------------------------------------------------------------
# one function body

class Body:
    def __init__(self, X, fname, params, ret, where, bound=None):
        self.X, self.fname, self.where0 = X, fname, where
        self.cur = None
        self.params = split_params(params, where)
        self.ret = "".join(t.text for t in ret)
        self.locals = {}
        self.pure = {}       # local name -> AST of a pure `let` (inlined into translated expressions)
        self.bound = bound or {}
        for pn, pt in self.params:
            self.locals[pn] = self.param_kind(pn, pt)

    @property
    def where(self):
        s = self.where0
        if self.cur is not None:
            s += ": statement `" + re.sub(r"\s+", " ", short(self.cur))[:160] + "`"
        return s

    def fail(self, msg):
        raise Untranslatable(f"{self.where}: {msg}")

    def param_kind(self, pn, pt):
        if pt in ("u8", "u16", "u32", "u64", "usize"):
            return "nat" + str(INT_BITS[pt])
        if pt == "bool":
            return "bool"
        if pt == "&T::Vring":
            return "vring"
        if pt in ("VhostUserVirtioFeatures", "VhostUserProtocolFeatures"):
            return "flagparam"
        if pt == "&VhostUserSingleMemoryRegion":
            return "singleregion"
        if pt == "Backend":
            return "channel"
        if pt == "&GuestRegionMmap<T::Bitmap>":
            return "guestregion"
        return "opaque"

    # ---- names in translated expressions
    def resolve(self, nm, tr):
        if nm in self.pure:
            if tr.depth > 8:
                self.fail(f"`let` chain too deep at `{nm}`")
            tr.depth += 1
            try:
                return tr.tr(self.pure[nm])
            finally:
                tr.depth -= 1
        k = self.locals.get(nm)
        if k is None:
            return None
        if k.startswith("nat"):
            if nm not in HIN_NAT:
                self.fail(f"`{nm}` is not part of the input vocabulary (Base.HIn)")
            return H.nat(f"x.{nm}", int(k[3:]))
        if k == "bool":
            if nm not in HIN_BOOL:
                self.fail(f"`{nm}` is not part of the input vocabulary (Base.HIn)")
            return H.boolean(f"x.{nm}")
        return None

    # ---- expression ids
    def leaves_known(self, n):
        """every name of an expression kept as an identifier only is a local, a parameter, `self` or a constant path"""
        n_ = n
        if n_ is None:
            return True
        op, a = n_.op, n_.args
        if op in ("int", "str", "unit"):
            return True
        if op == "path":
            if len(a) == 1:
                return a[0] in self.locals or a[0] in ("self", "true", "false", "None") or a[0] in self.X.world.consts
            return True
        if op in ("paren", "ref", "deref", "not", "neg", "try"):
            return self.leaves_known(a[0])
        if op == "cast":
            return self.leaves_known(a[0])
        if op == "field":
            return self.leaves_known(a[0])
        if op == "bin":
            return self.leaves_known(a[1]) and self.leaves_known(a[2])
        if op == "mcall":
            return a[1] in PURE_METHODS + ("bits", "is_empty", "is_some", "is_none", "features", "ready", "get_queue",
                                           "get_kick", "is_enabled") and \
                self.leaves_known(a[0]) and all(self.leaves_known(x) for x in a[2:])
        if op == "call":
            return path_text(a[0]) in PURE_FNS and all(self.leaves_known(x) for x in a[1:])
        if op == "tuple":
            return all(self.leaves_known(x) for x in a)
        if op == "struct":
            return all(self.leaves_known(v) for _, v in a[1])
        if op == "block" and len(a) == 1 and a[0].op == "tail":
            return self.leaves_known(a[0].args[0])
        return False

    def expr_id(self, n, want):
        """register expression `n` (want: 'bool' | 'nat' | 'any'); returns its identifier"""
        ident = rend(n)
        try:
            v = HTr(self).tr(n)
            if v.kind not in ("bool", "nat") or (want != "any" and v.kind != want):
                raise Untranslatable(f"{self.where}: `{ident}` is a {v.kind}, expected {want}")
            entry = (v.kind, v.e, v.d or "true")
        except Untranslatable as ex:
            if not self.leaves_known(n):
                raise Untranslatable(f"{self.where}: expression `{ident}` is neither translatable ({ex}) nor of a "
                                     f"recognised opaque shape")
            entry = ("opaque", str(ex), None)
        old = self.X.exprs.get(ident)
        if old is not None and old != entry and not (old[0] == "opaque" and entry[0] == "opaque"):
            raise Untranslatable(f"{self.where}: expression identifier `{ident}` has two different translations")
        if old is None:
            self.X.exprs[ident] = entry
        return ident

    # ---- library expressions
    def lib(self, n):
        """events of the library calls inside an expression, in evaluation order; fails on anything unknown"""
        n = unparen(n)
        if n is None:
            return []
        op, a = n.op, n.args
        if op in ("int", "str", "unit"):
            return []
        if op == "path":
            if len(a) == 1 and a[0] not in self.locals and a[0] not in ("self", "None", "true", "false") and \
                    a[0] not in self.X.world.consts:
                self.fail(f"unknown name `{a[0]}`")
            return []
        if op in ("field", "ref", "deref", "cast", "not", "neg"):
            return self.lib(a[0])
        if op == "bin":
            return self.lib(a[1]) + self.lib(a[2])
        if op == "tuple":
            return sum((self.lib(x) for x in a), [])
        if op == "struct":
            return sum((self.lib(v) for _, v in a[1]), [])
        if op == "block" and len(a) == 1 and a[0].op == "tail":
            return self.lib(a[0].args[0])
        if op == "try":
            return self.lib_try(a[0])
        if op == "call":
            f = path_text(a[0])
            if f is not None and f.endswith("::InnerBitmap::new"):
                self.fail("`InnerBitmap::new` whose result is not propagated with `?`")
            if f in PURE_FNS:
                return sum((self.lib(x) for x in a[1:]), [])
            if f in LIB_CALL:
                return sum((self.lib(x) for x in a[1:]), []) + [("libCall", f)]
            self.fail(f"call of `{f}` is not recognised")
        if op == "mcall":
            if a[1] in PURE_METHODS:
                return self.lib(a[0]) + sum((self.lib(x) for x in a[2:]), [])
            self.fail(f"method call `{rend(n)}` is not recognised")
        self.fail(f"expression `{H.show(n)}` is not recognised")

    def lib_try(self, x):
        x = unparen(x)
        err = "*"
        if x.op == "mcall" and x.args[1] in ("map_err", "ok_or") and len(x.args) == 3:
            err = err_name(x.args[2], self.where)
            x = unparen(x.args[0])
        name, args = None, []
        if x.op == "mcall":
            recv, m, args = unparen(x.args[0]), x.args[1], x.args[2:]
            rn = local_name(recv)
            if m == "mmap_region" and rn and self.locals.get(rn) in ("memregion", "singleregion"):
                name = "mmap_region"
            elif m in ("insert_region", "remove_region") and rend(recv) == "self.atomic_mem.memory()":
                name = m
            elif m == "create" and rend(recv).startswith("uffd_builder.") and self.locals.get("uffd_builder") == "lib":
                name = "UffdBuilder::create"
                args = list(args) + [recv]
            elif m == "register" and rn and self.locals.get(rn) == "uffd":
                name = "uffd.register"
        elif x.op == "call":
            f = path_text(x.args[0])
            args = x.args[1:]
            if f in ("GuestRegionMmap::new", "GuestMemoryMmap::from_regions", "MmapLogReg::from_file"):
                name = f
            elif f is not None and f.endswith("::InnerBitmap::new") and f.startswith("<"):
                name = "InnerBitmap::new"
        if name is None:
            self.fail(f"`{rend(x)}?`: not a recognised fallible library call")
        assert name in LIB_TRY
        return sum((self.lib(y) for y in args), []) + [("libTry", name, err)]

    # ---- statements
    def run(self, stmts, top=True):
        evs = []
        for k, s in enumerate(stmts):
            self.cur = s
            last = k == len(stmts) - 1
            if s.op == "let":
                evs += self.let(s)
            elif s.op == "return":
                evs += self.ret_value(s.args[0], explicit=True)
            elif s.op == "break":
                evs.append(("brk",))
            elif s.op == "stmt":
                evs += self.stmt(s.args[0])
            elif s.op == "tail":
                if not last:
                    self.fail("value expression in the middle of a block")
                evs += self.tail(s.args[0], top)
            else:
                self.fail(f"unsupported statement ({s.op})")
        self.cur = None
        return evs

    def sub_block(self, block, extra=None, top=False):
        saved, saved_pure = dict(self.locals), dict(self.pure)
        if extra:
            self.locals.update(extra)
        try:
            return self.run(block.args, top)
        finally:
            self.locals, self.pure = saved, saved_pure

    def let(self, s):
        name, e, els = s.args[0], s.args[1], s.kw.get("els")
        pe = peel(e)
        if els is not None:
            m = re.match(r"Some \( (ref )?(\w+) \)$", name)
            if m and self_field(pe) and len(els.args) == 1 and els.args[0].op == "return" and is_err(els.args[0].args[0]):
                self.locals[m.group(2)] = "uffd" if pe.args[1] == "uffd" else "opaque"
                return [("requireSome", rend(pe), err_name(els.args[0].args[0], self.where))]
            self.fail("unrecognised `let … else`")
        if not re.match(r"\w+$|\( [\w ,]+ \)$", name):
            self.fail(f"unrecognised pattern `{name}`")
        single = re.match(r"\w+$", name) is not None
        inner = pe.args[0] if pe.op == "try" else None
        # let vring = self.vrings.get(index as usize).ok_or(E)?;
        if single and inner is not None:
            x = unparen(inner)
            if x.op == "mcall" and x.args[1] == "ok_or" and len(x.args) == 3:
                g = unparen(x.args[0])
                if g.op == "mcall" and g.args[1] == "get" and self_field(g.args[0], "vrings") and len(g.args) == 3:
                    if rend(g.args[2]) != "index as usize" or not str(self.locals.get("index", "")).startswith("nat"):
                        self.fail("ring lookup by something other than `index as usize`")
                    self.locals[name] = "vring"
                    return [("indexBound", err_name(x.args[2], self.where))]
        # let X = self.vmm_va_to_gpa(ARG).map_err(..)?;
        if single and inner is not None:
            x = unparen(inner)
            if x.op == "mcall" and x.args[1] == "map_err" and len(x.args) == 3:
                c = unparen(x.args[0])
                if c.op == "mcall" and is_self(c.args[0]) and c.args[1] == "vmm_va_to_gpa" and len(c.args) == 3:
                    self.X.need_helper("vmm_va_to_gpa", self.where)
                    arg = self.expr_id(c.args[2], "nat")
                    self.locals[name] = "nat64"
                    return [("addrTranslate", arg, err_name(x.args[2], self.where), name)]
                if c.op == "mcall" and local_name(c.args[0]) and self.locals.get(local_name(c.args[0])) == "vring" and \
                        c.args[1] in VRING_TRY:
                    ev = self.vring_try(c, err_name(x.args[2], self.where), name)
                    self.locals[name] = "nat16"
                    return [ev]
        # let X = vring.getter();
        if single and pe.op == "mcall" and local_name(pe.args[0]) and self.locals.get(local_name(pe.args[0])) == "vring" and \
                pe.args[1] in VRING_GET and len(pe.args) == 2:
            self.locals[name] = "vring_state" if pe.args[1] == "get_ref" else "nat16"
            return [("vringGet", pe.args[1], name)]
        # let mut X = Vec::new();
        if single and pe.op == "call" and path_text(pe.args[0]) == "Vec::new" and len(pe.args) == 1:
            self.locals[name] = "vec"
            return [("localNew", name)]
        # let _ = self.handlers[thread_index].unregister_event(..);
        if name == "_":
            if pe.op == "mcall" and pe.args[1] == "unregister_event" and rend(pe.args[0]) == "self.handlers[thread_index]" and \
                    ", ".join(rend(x) for x in pe.args[2:]) == EPOLL_ARGS and self.epoll_ctx():
                return [("epollUnregister",)]
            self.fail("unrecognised discarded value")
        # a pure number / truth value: inlined into later expressions
        if single and pe.op in ("bin", "not", "cast", "int", "paren", "field", "path", "mcall") and not self.has_try(pe):
            try:
                v = HTr(self).tr(pe)
            except Untranslatable:
                v = None
            if v is not None and v.kind in ("bool", "nat"):
                ident = self.expr_id(pe, v.kind)
                self.pure[name] = pe
                self.locals[name] = "pure"
                return [("bind", name, ident)]
            if self.leaves_known(pe) and pe.op in ("bin", "cast") :
                ident = self.expr_id(pe, "any")
                self.locals[name] = "opaque"
                return [("bind", name, ident)]
        # a value built from library calls
        evs = self.lib(e)
        for nm in re.findall(r"\w+", name):
            if nm != "_":
                self.locals[nm] = "lib"
        if single and name == "uffd":
            self.locals[name] = "uffd"
        if not evs:
            if not self.leaves_known(pe):
                self.fail("unrecognised value")
            ident = rend(pe)
            self.X.exprs.setdefault(ident, ("opaque", "library value", None))
            return [("bind", name, ident)]
        return evs

    def has_try(self, n):
        if n is None or not isinstance(n, Node):
            return False
        if n.op == "try":
            return True
        for x in n.args:
            if isinstance(x, Node) and self.has_try(x):
                return True
            if isinstance(x, list):
                for y in x:
                    if isinstance(y, Node) and self.has_try(y):
                        return True
                    if isinstance(y, tuple) and any(isinstance(z, Node) and self.has_try(z) for z in y):
                        return True
        return False

    def epoll_ctx(self):
        return self.locals.get("fd") == "opaque" and "evt_idx" in self.locals and "thread_index" in self.locals

    def vring_try(self, c, err, bind):
        m, args = c.args[1], c.args[2:]
        if len(args) != VRING_TRY[m]:
            self.fail(f"`{m}` with {len(args)} arguments")
        return ("vringTry", m, [self.expr_id(x, "any") for x in args], err, bind)

    def call_args(self, args):
        out = []
        for x in args:
            px = peel(x)
            if px.op == "path" and len(px.args) == 1 and self.locals.get(px.args[0]) in ("vring", "opaque", "lib", "channel",
                                                                                         "guestregion", "vec"):
                out.append(rend(px))
            elif px.op == "path" and list(px.args) == ["None"]:
                out.append("None")
            elif px.op == "path" and len(px.args) == 2 and px.args[0] in self.X.world.flags:
                out.append(rend(px))
            else:
                out.append(self.expr_id(px, "any"))
        return out

    def stmt(self, e):
        """an expression statement"""
        pe = peel(e)
        if pe.op == "assign":
            return self.assign(pe)
        if pe.op == "if":
            return self.if_(pe, tail=False)
        if pe.op == "for":
            return self.for_(pe)
        tried = pe.op == "try"
        x = unparen(pe.args[0]) if tried else pe
        err = None
        if tried and x.op == "mcall" and x.args[1] == "map_err" and len(x.args) == 3:
            err = err_name(x.args[2], self.where)
            x = unparen(x.args[0])
        if x.op != "mcall":
            self.fail("unrecognised statement")
        recv, m, args = unparen(x.args[0]), x.args[1], x.args[2:]
        rn = local_name(recv)
        rk = self.locals.get(rn) if rn else None
        # calls on the vring object
        if rk == "vring":
            if m in VRING_SETTERS and not tried:
                if len(args) != VRING_SETTERS[m]:
                    self.fail(f"`{m}` with {len(args)} arguments")
                return [("vringCall", m, self.call_args(args))]
            if m in VRING_TRY and tried and err is not None:
                return [self.vring_try(x, err, "")]
            self.fail(f"call `{rend(x)}` on the vring object is not recognised")
        # private helpers
        if is_self(recv):
            if m not in self.X.helper_fns:
                self.fail(f"`self.{m}` is not a method of the inherent impls of {TYPE}")
            if err is not None:
                self.fail(f"`self.{m}(..)` with `map_err`")
            return [self.X.helper_call(m, args, tried, self)]
        # the backend object
        if self_field(recv, "backend"):
            self.no_effects(args)
            if tried:
                if err is None:
                    self.fail("backend call under `?` without `map_err`")
                return [("backendTry", m, self.call_args(args), err)]
            return [("backendCall", m, self.call_args(args))]
        # memory object and translation table
        if rend(x) in ("self.atomic_mem.lock().unwrap().replace(mem)",) and self.locals.get("mem") == "lib" and not tried:
            return [("memReplace",)]
        if self_field(recv, "mappings") and not tried:
            if m == "push" and len(args) == 1:
                self.no_effects(args)
                return [("mappingsPush", self.call_args(args)[0])]
            if m == "retain" and len(args) == 1 and unparen(args[0]).op == "closure" and len(unparen(args[0]).args[0]) == 1:
                cl = unparen(args[0])
                saved = dict(self.locals)
                self.locals[cl.args[0][0]] = "mapping"
                try:
                    ident = self.expr_id(cl.args[1], "bool")
                finally:
                    self.locals = saved
                return [("mappingsRetain", ident)]
        if rk == "vec" and m == "push" and len(args) == 1 and not tried:
            self.no_effects(args)
            return [("localPush", rn, self.call_args(args)[0])]
        # region.bitmap().replace(bitmap)
        if m == "replace" and len(args) == 1 and recv.op == "mcall" and recv.args[1] == "bitmap" and len(recv.args) == 2 and \
                local_name(recv.args[0]) and self.locals.get(local_name(recv.args[0])) in ("guestregion", "lib") and \
                local_name(args[0]) and self.locals.get(local_name(args[0])) == "lib" and not tried:
            return [("bitmapReplace",)]
        # the channel handed over by SET_BACKEND_REQ_FD
        if rk == "channel" and not tried:
            return [("channelCall", m, self.call_args(args))]
        if tried:
            return self.lib(pe)
        self.fail(f"call `{rend(x)}` is not recognised")

    def no_effects(self, args):
        for a in args:
            if self.lib(a):
                self.fail(f"argument `{rend(a)}` has an effect of its own")

    def assign(self, e):
        op, lhs, rhs = e.args
        lhs = unparen(lhs)
        if op != "=" or not self_field(lhs):
            self.fail("unrecognised assignment")
        f = lhs.args[1]
        prhs = peel(rhs)
        if f == "mappings":
            if local_name(prhs) == "mappings" and self.locals.get("mappings") == "vec":
                return [("mappingsAssign",)]
            self.fail("`self.mappings` is assigned something other than the local table built before")
        if f == "logmem":
            if rend(prhs) == "Some(logmem)" and self.locals.get("logmem") == "lib":
                return [("logAssign",)]
            self.fail("`self.logmem` is assigned something other than the mapping made before")
        if f not in SELF_ASSIGNABLE:
            self.fail(f"assignment to unknown field `self.{f}`")
        if self.lib(rhs):
            self.fail("right-hand side with an effect of its own")
        if f == "uffd":
            return [("setField", f, rend(prhs))]
        return [("setField", f, self.expr_id(prhs, "bool" if f in SELF_BOOL else "nat"))]

    def if_(self, e, tail):
        cond, th, el = e.args
        if cond.op == "iflet":
            pat, scrut = cond.args
            ps = unparen(scrut)
            m = re.match(r"Some \( (\w+) \)$", pat)
            if m and rend(ps) in ("vring_state.get_kick()", "self.logmem.as_ref()") and \
                    (rend(ps) != "vring_state.get_kick()" or self.locals.get("vring_state") == "vring_state"):
                t = self.sub_block(th, {m.group(1): "opaque" if rend(ps).startswith("vring") else "lib"})
                f = self.else_(el, tail)
                return [("ifSome", rend(ps), t, f)]
            # if let Err(e) = self.handlers[thread_index].register_event(..) { if e.kind() != AlreadyExists { return Err(E(e)) } }
            m = re.match(r"Err \( (\w+) \)$", pat)
            if m and el is None and ps.op == "mcall" and ps.args[1] == "register_event" and \
                    rend(ps.args[0]) == "self.handlers[thread_index]" and \
                    ", ".join(rend(x) for x in ps.args[2:]) == EPOLL_ARGS and self.epoll_ctx() and len(th.args) == 1 and \
                    th.args[0].op in ("stmt", "tail") and th.args[0].args[0].op == "if":
                i2 = th.args[0].args[0]
                c2, t2, e2 = i2.args
                mm = re.match(rf"{m.group(1)}\.kind\(\) != io::ErrorKind::(\w+)$", rend(c2)) if c2.op != "iflet" else None
                if mm and e2 is None and len(t2.args) == 1 and t2.args[0].op == "return" and is_err(t2.args[0].args[0]):
                    return [("epollRegister", mm.group(1), err_name(t2.args[0].args[0], self.where))]
            self.fail("unrecognised `if let`")
        ident = self.expr_id(cond, "bool")
        t = self.sub_block(th, top=tail)
        f = self.else_(el, tail)
        if not f and len(t) == 1 and t[0][0] == "err" and not tail:
            return [("valueCheck", ident, t[0][1])]
        return [("ifCond", ident, t, f)]

    def else_(self, el, tail):
        if el is None:
            return []
        if el.op == "if":
            return self.if_(el, tail)
        return self.sub_block(el, top=tail)

    def for_(self, e):
        pat, it, body = e.args
        key = rend(unparen(it))
        if key in VRING_LOOPS:
            if pat != VRING_LOOPS[key]:
                self.fail(f"loop over the vrings with pattern `{pat}`")
            extra = {"vring": "vring"}
            if "index" in pat:
                extra["index"] = "nat64"
            return [("forEachVring", self.sub_block(body, extra))]
        if key in ITERABLES:
            want, kinds = ITERABLES[key]
            if pat != want:
                self.fail(f"loop over `{key}` with pattern `{pat}`")
            if key == "mem.iter()" and self.locals.get("mem") not in ("lib", "opaque"):
                self.fail("`mem` is not the memory snapshot")
            return [("forEach", key, self.sub_block(body, kinds))]
        if self.locals.get(key) == "vec":
            names = re.findall(r"\w+", pat)
            return [("forEach", key, self.sub_block(body, {n: "lib" for n in names}))]
        self.fail(f"loop over `{key}` is not recognised")

    def ret_value(self, e, explicit=False):
        if e is None:
            self.fail("`return` without a value")
        pe = unparen(e)
        if is_err(pe):
            return [("err", err_name(pe, self.where))]
        v = ok_arg(pe)
        if v is not None:
            pv = unparen(v)
            if pv.op == "unit":
                return [("ok",)]
            if pv.op == "mcall" and self_field(pv.args[0], "backend"):
                self.no_effects(pv.args[2:])
                return [("okBackend", pv.args[1], self.call_args(pv.args[2:]))]
            if self.lib(pv):
                self.fail("returned value with an effect of its own")
            if not self.leaves_known(pv):
                self.fail("returned value of an unrecognised shape")
            return [("okValue", self.expr_id(pv, "any"))]
        return None

    def tail(self, e, top):
        pe = unparen(e)
        if pe.op == "if":
            return self.if_(pe, tail=True)
        if pe.op == "for":
            return self.for_(pe)
        r = self.ret_value(pe)
        if r is not None:
            return r
        # self.backend.m(..).map_err(E)
        if pe.op == "mcall" and pe.args[1] == "map_err" and len(pe.args) == 3:
            c = unparen(pe.args[0])
            if c.op == "mcall" and self_field(c.args[0], "backend"):
                self.no_effects(c.args[2:])
                return [("retBackend", c.args[1], self.call_args(c.args[2:]), err_name(pe.args[2], self.where))]
        # match self.backend.m(..) { Ok(v) => Ok(v), Err(e) => Err(E(..)) }
        if pe.op == "match":
            c = unparen(pe.args[0])
            arms = pe.args[1]
            if c.op == "mcall" and self_field(c.args[0], "backend") and len(arms) == 2 and all(g is None for _, g, _ in arms):
                pats = {p.replace(" ", ""): b for p, _, b in arms}
                okp = [p for p in pats if re.match(r"Ok\(\w+\)$", p)]
                erp = [p for p in pats if re.match(r"Err\(\w+\)$", p)]
                if len(okp) == 1 and len(erp) == 1:
                    var = okp[0][3:-1]
                    if rend(unparen(pats[okp[0]])) == f"Ok({var})" and is_err(pats[erp[0]]):
                        self.no_effects(c.args[2:])
                        return [("retBackend", c.args[1], self.call_args(c.args[2:]), err_name(pats[erp[0]], self.where))]
            self.fail("unrecognised `match`")
        # self.helper(..) as the result  (= `self.helper(..)?; Ok(())` for a helper returning `Result<()>`)
        if pe.op == "mcall" and is_self(pe.args[0]) and pe.args[1] in self.X.helper_fns:
            hret = "".join(t.text for t in self.X.helper_fns[pe.args[1]][1])
            if "Result<()>" in hret and "Result<()>" in self.ret:
                return [self.X.helper_call(pe.args[1], pe.args[2:], True, self), ("ok",)]
            self.fail("helper call as the result of a function of a different type")
        # a plain value
        if "Result" not in self.ret and self.ret:
            return [("value", self.expr_id(pe, "bool" if self.ret == "->bool" else "any"))]
        self.fail("unrecognised result expression")

    def finish(self, evs):
        """a function returning `()` ends without a result expression"""
        def ends(es):
            if not es:
                return False
            k = es[-1][0]
            if k in ("ok", "okValue", "okBackend", "retBackend", "err", "value", "done"):
                return True
            if k in ("ifCond", "ifSome"):
                return ends(es[-1][-2]) and ends(es[-1][-1])
            return False
        if not self.ret:
            if ends(evs):
                self.fail("function without a return type ends in a result")
            return evs + [("done",)]
        if not ends(evs):
            self.fail("function ends without a recognised result")
        return evs


# ------------------------------------------------------------------------------------------------------------------
# the file

class Extract:
    def __init__(self, world, repo):
        self.world = world
        self.exprs = {}        # id -> (kind, lean, defined)
        self.externals = {}
        self.helpers = {}      # name -> generic body events
        self.value_fns = {}
        self.stack = []
        path = os.path.join(repo, REL)
        items = scan_items(tokenize(open(path).read()), FEATURES)
        self.api, self.helper_fns = [], {}
        seen_trait = False
        for it in items:
            if it.kind != "impl":
                continue
            trait, ty = impl_header(it)
            if ty != TYPE:
                continue
            if trait == TRAIT:
                seen_trait = True
                for name, attrs, params, ret, b in impl_fns(it, FEATURES):
                    if b is None:
                        raise Untranslatable(f"{REL}: impl {TRAIT} for {TYPE}: fn {name} has no body")
                    self.api.append((name, params, ret, b))
            elif trait is None:
                for name, attrs, params, ret, b in impl_fns(it, FEATURES):
                    if b is not None:
                        self.helper_fns[name] = (params, ret, b)
        if not seen_trait:
            raise Untranslatable(f"{REL}: impl {TRAIT} for {TYPE} not found")

    def need_helper(self, name, where):
        if name not in self.helper_fns:
            raise Untranslatable(f"{where}: helper `{name}` not found in the inherent impls of {TYPE}")
        if name in self.helpers:
            return self.helpers[name]
        if name in self.stack:
            raise Untranslatable(f"{where}: helper `{name}` is recursive")
        self.stack.append(name)
        try:
            params, ret, b = self.helper_fns[name]
            w = f"{REL}: fn {name}"
            body = Body(self, name, params, ret, w)
            evs = body.finish(body.run(HParser(b, w).block()))
            self.helpers[name] = evs
        finally:
            self.stack.pop()
        return evs

    def helper_call(self, name, args, tried, caller):
        generic = self.need_helper(name, caller.where)
        params = split_params(self.helper_fns[name][0], caller.where)
        if len(params) != len(args):
            caller.fail(f"`self.{name}` called with {len(args)} arguments")
        hret = "".join(t.text for t in self.helper_fns[name][1])
        if tried != ("Result" in hret):
            caller.fail(f"`self.{name}(..)`: `?` does not match the helper's result type `{hret}`")
        body = generic
        # check_feature(F): the flag is resolved at the call
        if len(generic) == 1 and generic[0][0] == "ifCond" and generic[0][1] == "self.acked_features & feat.bits() != 0" and \
                generic[0][2] == [("ok",)] and len(generic[0][3]) == 1 and generic[0][3][0][0] == "err" and \
                [pt for _, pt in params] == ["VhostUserVirtioFeatures"]:
            a = unparen(args[0])
            if a.op != "path" or len(a.args) != 2 or a.args[0] != "VhostUserVirtioFeatures":
                caller.fail(f"feature argument `{rend(a)}` is not `VhostUserVirtioFeatures::NAME`")
            from rs2lean_frontend import bit_of
            body = [("featureAcked", bit_of(self.world, a.args[0], a.args[1], caller.where), generic[0][3][0][1])]
        return ("helperCall", name, caller.call_args(args), tried, body)

    def inline_value(self, name, args, tr):
        """`self.helper(args)` inside a condition, for a helper whose body is `let vring_state = vring.get_ref(); EXPR`"""
        self.need_helper(name, tr.b.where)
        params, ret, b = self.helper_fns[name]
        w = f"{REL}: fn {name}"
        stmts = HParser(b, w).block()
        body = Body(self, name, params, ret, w)
        for s in stmts[:-1]:
            body.cur = s
            body.let(s)
        if not stmts or stmts[-1].op != "tail":
            tr.fail(f"helper `{name}` used as a value has no result expression")
        return HTr(body).tr(stmts[-1].args[0])

    def run(self):
        rows = []
        for name, params, ret, b in self.api:
            w = f"{REL}: {TRAIT}::{name}"
            body = Body(self, name, params, ret, w)
            rows.append((name, body.finish(body.run(HParser(b, w).block()))))
        return rows


# ------------------------------------------------------------------------------------------------------------------
# emission

def lean_list(xs):
    return "[" + ", ".join(xs) + "]"


def lean_ev(ev, ind):
    k = ev[0]
    pad = " " * ind

    def body(es):
        if not es:
            return "[]"
        return "[\n" + ",\n".join(pad + "  " + lean_ev(x, ind + 2) for x in es) + "]"
    if k in ("brk", "ok", "done", "memReplace", "mappingsAssign", "logAssign", "bitmapReplace", "epollUnregister"):
        return "." + k
    if k == "featureAcked":
        return f".featureAcked {ev[1]} {lstr(ev[2])}"
    if k in ("indexBound", "err", "okValue", "value", "libCall", "localNew", "mappingsPush", "mappingsRetain"):
        return f".{k} {lstr(ev[1])}"
    if k in ("valueCheck", "requireSome", "libTry", "setField", "vringGet", "bind", "epollRegister", "localPush"):
        return f".{k} {lstr(ev[1])} {lstr(ev[2])}"
    if k == "addrTranslate":
        return f".addrTranslate {lstr(ev[1])} {lstr(ev[2])} {lstr(ev[3])}"
    if k in ("vringCall", "channelCall", "backendCall", "okBackend"):
        return f".{k} {lstr(ev[1])} {lean_list(lstr(a) for a in ev[2])}"
    if k in ("backendTry", "retBackend"):
        return f".{k} {lstr(ev[1])} {lean_list(lstr(a) for a in ev[2])} {lstr(ev[3])}"
    if k == "vringTry":
        return f".vringTry {lstr(ev[1])} {lean_list(lstr(a) for a in ev[2])} {lstr(ev[3])} {lstr(ev[4])}"
    if k == "helperCall":
        return f".helperCall {lstr(ev[1])} {lean_list(lstr(a) for a in ev[2])} {'true' if ev[3] else 'false'} {body(ev[4])}"
    if k == "forEachVring":
        return f".forEachVring {body(ev[1])}"
    if k == "forEach":
        return f".forEach {lstr(ev[1])} {body(ev[2])}"
    if k in ("ifCond", "ifSome"):
        return f".{k} {lstr(ev[1])} {body(ev[2])} {body(ev[3])}"
    raise Untranslatable(f"{REL}: internal: event kind {k}")


def gen_handler(world):
    try:
        return _gen_handler(world)
    except Untranslatable:
        raise
    except Exception as e:   # an unexpected shape must not surface as a Python error (or be skipped)
        raise Untranslatable(f"{REL}: handler translation: unexpected shape ({type(e).__name__}: {e})")


def _gen_handler(world):
    X = Extract(world, gen_handler.repo)
    rows = X.run()
    out = [LEAN_HEADER, "import VhostModel.Base.HandlerSig", "", "set_option linter.unusedVariables false", "",
           f"/-! Events of the methods of `impl {TRAIT} for {TYPE}<T>` and of the private helpers they call",
           f"({REL}); vocabulary: `VhostModel/Base/HandlerSig.lean`. -/", "namespace Gen.HandlerOps", "open Base", "",
           "/-- one row per method, in source order -/", "def rows : List (String × List HEvent) := ["]
    out.append(",\n".join("  (%s, [\n%s])" % (lstr(n), ",\n".join("    " + lean_ev(e, 4) for e in evs)) for n, evs in rows))
    out += ["]", "", "/-- the private helpers reached from the rows (bodies as written, arguments not substituted), in the",
            "order in which they are first needed -/", "def helpers : List (String × List HEvent) := ["]
    out.append(",\n".join("  (%s, [\n%s])" % (lstr(n), ",\n".join("    " + lean_ev(e, 4) for e in evs))
                          for n, evs in X.helpers.items()))
    out += ["]", ""]
    bools = [(i, e) for i, e in X.exprs.items() if e[0] == "bool"]
    nats = [(i, e) for i, e in X.exprs.items() if e[0] == "nat"]
    opq = [i for i, e in X.exprs.items() if e[0] == "opaque"]
    out += ["/-- the conditions that are pure tests over `Base.HIn`: identifier, value, side condition under which the",
            "`u64`/`usize` arithmetic is defined -/", "def boolExprs : List (String × (HIn → Bool) × (HIn → Bool)) := ["]
    out.append(",\n".join(f"  ({lstr(i)},\n    (fun x => {e[1]}),\n    (fun x => {e[2]}))" for i, e in bools))
    out += ["]", "", "/-- the values that are pure arithmetic over `Base.HIn` -/",
            "def natExprs : List (String × (HIn → Nat) × (HIn → Bool)) := ["]
    out.append(",\n".join(f"  ({lstr(i)},\n    (fun x => {e[1]}),\n    (fun x => {e[2]}))" for i, e in nats))
    out += ["]", "", "/-- expressions kept as identifiers only (library values, descriptors, host-side numbers) -/",
            "def opaqueExprs : List String := ["]
    out.append(",\n".join("  " + lstr(i) for i in opq))
    out += ["]", "", "/-- constants of crates outside /repo used by the expressions above (value assumed by the translator) -/",
            "def externalConsts : List (String × Nat) := " +
            lean_list(f"({lstr(n)}, {v})" for n, (v, _) in sorted(X.externals.items())), "",
            "end Gen.HandlerOps"]
    return "\n".join(out) + "\n"


def generators(repo):
    gen_handler.repo = repo
    return [("HandlerOps", gen_handler)]
