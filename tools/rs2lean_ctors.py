"""Translator extension: the constructors of the wire structs (`new`, `from_config_data`, `default`) of
vhost_user/message.rs and vhost_user/gpu_message.rs  →  lean/VhostModel/Gen/Ctors.lean.

Every constructor whose body is `let …;* <struct literal | Self::default()>` becomes a `Base.CtorSig.Ctor`: its parameters
and, per field of the literal, *what is stored there* (`Base.CtorSig.Init`: the parameter itself, `p.bits()`, `p as ty`, a
literal, `[0; n]`, a field of a struct parameter, `p.f.unwrap_or(d)`, a nested constructor applied to parameters, the
first-n-padded-with-zero array `from_fn(|i| *p.get(i).unwrap_or(&0))`, `(p & MASK.bits()) | v`, …).  Local `let`s are
substituted.  An initialiser of a shape not listed here is rendered as `.other "<normalised source text>"`: the translator does
not refuse it, the theorems of `Props/Ctors.lean` about the table do.
"""
import os
import sys

sys.path.insert(0, os.path.dirname(os.path.abspath(__file__)))
from rsparse import Untranslatable, parse_block      # noqa: E402
from rs2lean_arith import Unit, show                # noqa: E402

FILES = ["vhost/src/vhost_user/message.rs", "vhost/src/vhost_user/gpu_message.rs"]
NAMES = ("new", "from_config_data", "default")


def lstr(s):
    return '"' + s.replace("\\", "\\\\").replace('"', '\\"') + '"'


def is_path(e, n=None):
    return e is not None and e.op == "path" and (n is None or e.args == [n])


def classify(e, params, lets, let_tys, cur_ty=None, depth=0):
    """Init constructor text for expression e"""
    if e is None:
        return '.other ""'
    if e.op == "paren":
        return classify(e.args[0], params, lets, let_tys, cur_ty, depth)
    if e.op == "path" and len(e.args) == 1:
        x = e.args[0]
        if x in lets and depth < 8:
            return classify(lets[x], params, lets, let_tys, let_tys.get(x), depth + 1)
        if x in params:
            return f".param {lstr(x)}"
        if x == "PhantomData":
            return ".phantom"
    if e.op == "int":
        return f".lit {int(e.args[0])}"
    if e.op == "array":
        t = [x.strip() for x in e.args[0].split(";")]
        if len(t) == 2 and t[0] == "0" and t[1].isdigit():
            return f".zeros {t[1]}"
    if e.op == "mcall" and len(e.args) == 2 and is_path(e.args[0]) and len(e.args[0].args) == 1 and e.args[0].args[0] in params:
        if e.args[1] == "bits":
            return f".bits {lstr(e.args[0].args[0])}"
        if e.args[1] == "into":
            return f".into {lstr(e.args[0].args[0])}"
    if e.op == "cast" and is_path(e.args[0]) and len(e.args[0].args) == 1 and e.args[0].args[0] in params:
        return f".cast {lstr(e.args[0].args[0])} {lstr(e.args[1])}"
    if e.op == "field" and is_path(e.args[0]) and len(e.args[0].args) == 1 and e.args[0].args[0] in params:
        return f".field {lstr(e.args[0].args[0])} {lstr(e.args[1])}"
    if (e.op == "mcall" and e.args[1] == "unwrap_or" and len(e.args) == 3 and e.args[2].op == "int" and e.args[0].op == "field"
            and is_path(e.args[0].args[0]) and e.args[0].args[0].args[0] in params):
        return f".fieldOr {lstr(e.args[0].args[0].args[0])} {lstr(e.args[0].args[1])} {int(e.args[2].args[0])}"
    if (e.op == "call" and is_path(e.args[0]) and len(e.args[0].args) == 2 and len(e.args) == 1 and e.args[0].args[1] == "default"
            and e.args[0].args[0] in ("u8", "u16", "u32", "u64", "usize", "i8", "i16", "i32", "i64")):
        return ".lit 0"        # `u32::default()`
    if e.op == "call" and is_path(e.args[0]) and len(e.args[0].args) == 2 and all(is_path(a) and len(a.args) == 1 and a.args[0] in params for a in e.args[1:]):
        ty, fn = e.args[0].args
        return f".ctor {lstr(ty)} {lstr(fn)} [" + ", ".join(lstr(a.args[0]) for a in e.args[1:]) + "]"
    if e.op == "bin" and e.args[0] == "|" and e.args[2].op == "int":
        l = e.args[1]
        while l.op == "paren":
            l = l.args[0]
        if (l.op == "bin" and l.args[0] == "&" and is_path(l.args[1]) and len(l.args[1].args) == 1 and l.args[1].args[0] in params
                and l.args[2].op == "mcall" and l.args[2].args[1] == "bits" and is_path(l.args[2].args[0])):
            return f".masked {lstr(l.args[1].args[0])} {lstr('::'.join(l.args[2].args[0].args))} {int(e.args[2].args[0])}"
    # std::array::from_fn(|i| *p.get(i).unwrap_or(&0)) with the declared type [T; n]
    if e.op == "call" and is_path(e.args[0]) and e.args[0].args[-1] == "from_fn" and len(e.args) == 2 and e.args[1].op == "closure":
        cl = e.args[1]
        body = cl.args[1]
        iv = cl.args[0]
        n = None
        ty = cur_ty if isinstance(cur_ty, str) else None
        if ty:
            t = ty.replace(" ", "").strip("[]").split(";")
            if len(t) == 2 and t[1].isdigit():
                n = int(t[1])
        if (n is not None and len(iv) == 1 and body.op == "deref" and body.args[0].op == "mcall" and body.args[0].args[1] == "unwrap_or"
                and len(body.args[0].args) == 3 and body.args[0].args[2].op == "ref" and body.args[0].args[2].args[0].op == "int"
                and int(body.args[0].args[2].args[0].args[0]) == 0):
            g = body.args[0].args[0]
            if (g.op == "mcall" and g.args[1] == "get" and len(g.args) == 3 and is_path(g.args[2], iv[0]) and is_path(g.args[0])
                    and len(g.args[0].args) == 1 and g.args[0].args[0] in params):
                return f".prefixPad {lstr(g.args[0].args[0])} {n}"
    return f".other {lstr(show(e))}"


def extract(repo):
    rows = []
    for rel in FILES:
        u = Unit(repo, rel)
        for trait, ty, fns, _ in u.impls:
            for name in NAMES:
                if name not in fns:
                    continue
                if name == "default" and trait != "Default":
                    continue
                params, ret, body = fns[name]
                where = f"{rel}: {ty}::{name}"
                pnames = [p[0] for p in params if p[0] not in ("self", "&self")]
                ptys = {p[0]: p[1] for p in params}
                try:
                    stmts = parse_block(body, where)
                except Untranslatable:
                    # syntax outside the subset of tools/rsparse.py: the constructor is rendered as its token text
                    text = " ".join(t.text for t in body)
                    rows.append((ty, name, "?", [(p, ptys[p].replace(" ", "")) for p in pnames], [("*", f".other {lstr(text)}")]))
                    continue
                lets, let_ty = {}, {}
                tail = None
                for s in stmts:
                    if s.op == "let" and tail is None:
                        lets[s.args[0]] = s.args[1]
                        let_ty[s.args[0]] = s.kw.get("ty")
                    elif s.op == "tail" and tail is None:
                        tail = s.args[0]
                    else:
                        # a body of another shape (assignments, loops, several expressions): not refused, but rendered as one
                        # `.other` initialiser for the whole value, which the theorems about the table do not accept
                        tail = None
                        break
                if tail is None:
                    fields = [("*", f".other {lstr(' '.join(show(x) for x in stmts))}")]
                    lit = "?"
                elif tail.op == "struct":
                    fields = [(f, classify(e, pnames, lets, let_ty)) for f, e in tail.args[1]]
                    lit = tail.args[0]
                    # initialisers are pure: the order in which the literal lists the fields means nothing; use the struct's
                    decl = [n for n, _ in u.structs.get(ty, [])]
                    if sorted(decl) == sorted(f for f, _ in fields):
                        fields.sort(key=lambda x: decl.index(x[0]))
                elif tail.op == "call" and is_path(tail.args[0]) and tail.args[0].args == ["Self", "default"] and len(tail.args) == 1:
                    fields = [("*", ".dflt")]
                    lit = "Self"
                else:
                    fields = [("*", f".other {lstr(show(tail))}")]
                    lit = "?"
                rows.append((ty, name, lit, [(p, ptys[p].replace(" ", "")) for p in pnames], fields))
    return rows


def gen_ctors_for(repo):
    def gen(_world):
        rows = extract(repo)
        out = ["-- GENERATED by tools/rs2lean_ctors.py from /repo — do not edit.", "",
               "import VhostModel.Base.CtorSig", "", "namespace Gen.Ctors", "open Base.CtorSig", "",
               "def ctors : List Ctor := ["]
        items = []
        for ty, name, lit, params, fields in rows:
            ps = ", ".join(f"({lstr(p)}, {lstr(t)})" for p, t in params)
            fs = ", ".join(f"({lstr(f)}, {i})" for f, i in fields)
            items.append(f"  {{ ty := {lstr(ty)}, fn := {lstr(name)}, lit := {lstr(lit)}, params := [{ps}],\n    fields := [{fs}] }}")
        out.append(",\n".join(items))
        out += ["]", "", "end Gen.Ctors"]
        return "\n".join(out) + "\n"
    return gen


def generators(repo):
    return [("Ctors", gen_ctors_for(repo))]


if __name__ == "__main__":
    print(gen_ctors_for(sys.argv[1] if len(sys.argv) > 1 else "/repo")(None))
