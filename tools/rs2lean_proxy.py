"""Translator extension: the two request proxies and the acknowledgement path of the frontend's request server
-> lean/VhostModel/Gen/ProxyOps.lean  (vocabulary: lean/VhostModel/Base/ProxySig.lean, Base/HelperSig.lean).

(a) vhost/src/vhost_user/backend_req.rs
      * `impl BackendInternal`: `check_state`, `send_message`, `wait_for_ack` as statement programs (`ProxySig.Stmt`): the
        early exits with the Rust condition translated to a Lean `Bool` function of the inputs, the header that is built
        (`VhostUserMsgHeader::new` is inlined from message.rs, `hdr.set_need_reply(..)` is executed on it), the socket
        write with the parameters handed on, the socket read, the value returned;
      * `impl VhostUserFrontendReqHandler for Backend`: per method the gate (field tested, translated condition, error),
        the helper called, `BackendReq::X` resolved to its number, body type and its size, descriptor;
      * `impl Backend`: the initial state (`new`) and the flag setters.
(b) vhost/src/vhost_user/gpu_backend_req.rs: the same for `BackendInternal::{check_state, send_header, send_message,
      send_message_with_payload, recv_reply}` and the 12 request methods of `GpuBackend` (`GpuBackendReq::X` resolved,
      helper, body type / payload, descriptor, reply type or none, what is returned).
(c) vhost/src/vhost_user/frontend_req_handler.rs, `impl FrontendReqHandler`: `check_state`, `check_msg_size`,
      `extract_msg_body`, `new_reply_header` as guard programs (translated by `rs2lean_helpers.Tr`, same vocabulary as
      Gen/Helpers.lean), `send_ack_message` (condition of the send, the inlined `new_reply_header::<VhostUserU64>`, the
      value: the nested `match res { .. }` becomes a nested Lean `match` over `ProxySig.ResV`, `-e as u64` on an `i32`
      becomes `Int.toNat ((-e) % 2^64)` with the side condition `e ≠ -2^31`), initial state and setters.

Every function of the impls named above must be one this file knows, and every statement of every translated body must
be of a known shape; anything else raises `Untranslatable` naming file, function and statement.

Picked up by tools/rs2lean.py through `generators(repo)`.
"""
import os
import re

from rsparse import (Untranslatable, tokenize, scan_items, impl_header, impl_fns, parse_block, Node, match_close)
from rs2lean import FEATURES, LEAN_HEADER, INT_BITS
from rs2lean_helpers import (Tr, V, nat, boolean, show, lean_str, strip, split_params, struct_sa, d_and, rewrite_tokens)
try:
    from rs2lean_conn import ERRNO
except Exception:  # pragma: no cover  (stand-alone use)
    ERRNO = {"EINVAL": 22}

REL_B = "vhost/src/vhost_user/backend_req.rs"
REL_G = "vhost/src/vhost_user/gpu_backend_req.rs"
REL_F = "vhost/src/vhost_user/frontend_req_handler.rs"

PERRS = {"SocketBroken": "socketBroken", "InvalidMessage": "invalidMessage",
         "FrontendInternalError": "frontendInternal"}

SELF_B = {"reply_ack_negotiated": ("bool", "replyAck"), "shared_object_negotiated": ("bool", "sharedObject"),
          "shmem_negotiated": ("bool", "shmem"), "error": ("opt", "errorIsSome"), "sock": ("sock",)}
SELF_G = {"error": ("opt", "errorIsSome"), "sock": ("sock",)}
SELF_F = {"reply_ack_negotiated": ("bool", "replyAck"), "error": ("opt", "errorIsSome"), "sub_sock": ("sock",),
          "backend": ("backend",)}

SEND_ARITY = {"send_header": ("hdr", "fds"), "send_message": ("hdr", "body", "fds"),
              "send_message_with_payload": ("hdr", "body", "data", "fds")}


# ------------------------------------------------------------------------------------------------------------------
# source access

def load_file(repo, rel):
    """(impls, fns): impls = [(trait, type, [(name, params, ret, body)])] in source order; fns = free functions"""
    path = os.path.join(repo, rel)
    impls, fns = [], {}
    for it in scan_items(tokenize(open(path).read()), FEATURES):
        if it.kind == "impl":
            trait, ty = impl_header(it)
            impls.append((trait, ty, [(n, p, r, b) for n, a, p, r, b in impl_fns(it, FEATURES) if b is not None]))
        elif it.kind == "fn":
            fns[it.name] = it.toks
    return impls, fns


def impl_of(impls, trait, ty, rel):
    found = [fs for t, y, fs in impls if t == trait and y == ty]
    if len(found) != 1:
        raise Untranslatable(f"{rel}: expected exactly one `impl {trait + ' for ' if trait else ''}{ty}`, "
                             f"found {len(found)}")
    return found[0]


def size_of_struct(world, ty, where):
    """`size_of::<ty>()`: 0 for a field-less struct (whatever its repr), otherwise the repr(C)/packed layout"""
    if not world.structs[ty]["fields"]:
        return 0
    return struct_sa(world, ty, where)[0]


def text(toks):
    return " ".join(t.text for t in toks)


def unref(n):
    n = strip(n)
    while n is not None and n.op in ("ref", "paren"):
        n = n.args[0]
    return n


def is_path(n, *names):
    n = strip(n)
    return n is not None and n.op == "path" and list(n.args) == list(names) and not n.kw.get("generics")


def is_self_call(n, recv, name):
    n = strip(n)
    return n is not None and n.op == "mcall" and is_path(n.args[0], recv) and n.args[1] == name


def block_single(b):
    """the only statement of a block (a `return` node or an expression), or None"""
    if b is None or b.op != "block" or len(b.args) != 1:
        return None
    s = b.args[0]
    if s.op == "return":
        return s
    if s.op in ("stmt", "tail"):
        return s.args[0] if s.args[0].op != "return" else s.args[0]
    return None


# ------------------------------------------------------------------------------------------------------------------
# expression translation over `ProxySig.PIn` (conditions and values of the BackendInternal helpers)

class PTr(Tr):
    def __init__(self, world, rel, fname, selfmap, inp="x", fns=None):
        super().__init__(world, fns or {}, fname, inp)
        self.rel, self.selfmap = rel, selfmap

    def where(self):
        s = f"{self.rel}: fn {' -> '.join(self.fn_stack)}"
        if self.cur is not None:
            s += ": statement `" + re.sub(r"\s+", " ", show(self.cur))[:200] + "`"
        return s

    def tr_field(self, n):
        b = self.tr(n.args[0])
        f = n.args[1]
        IN = self.IN
        if b.kind == "self":
            m = self.selfmap.get(f)
            if m is None:
                self.fail(f"field `self.{f}` is not part of the input vocabulary")
            if m[0] == "bool":
                return boolean(f"{IN}.{m[1]}")
            if m[0] == "opt":
                return V("opt", isSome=f"{IN}.{m[1]}", inner=V("opaque"))
            return V(m[0])
        if b.kind == "rbody":
            if b.ty == "VhostUserU64" and f == "value":
                return nat(f"{IN}.value", 64)
            self.fail(f"field `{f}` of a received body of type {b.ty}")
        return super().tr_field(n)

    def tr_mcall(self, n):
        recv, name, args = n.args[0], n.args[1], n.args[2:]
        IN = self.IN
        r = strip(recv)
        if r.op == "path" and len(r.args) == 1 and r.args[0] in self.locals:
            v = self.locals[r.args[0]]
            if v.kind == "replyhdr" and name == "is_reply_for" and len(args) == 1:
                a = self.tr(unref(args[0]))
                if a.kind != "reqhdr":
                    self.fail(f"`{show(n)}`: the argument is not the request header handed to the function")
                return boolean(f"{IN}.isReplyFor")
            if v.kind == "rfds" and not args and name in ("is_some", "is_none"):
                return boolean(f"{IN}.rfdsIsSome" if name == "is_some" else f"(!{IN}.rfdsIsSome)")
            if v.kind == "rbody" and name == "is_valid" and not args:
                return boolean(f"{IN}.bodyValid")
            if v.kind == "data" and name == "len" and not args:
                return nat(f"{IN}.dataLen")
            if v.kind in ("replyhdr", "rfds", "rbody", "data", "reqhdr", "bodyparam", "fdsparam"):
                self.fail(f"unsupported method call `{show(n)}` (receiver: {v.kind})")
        return super().tr_mcall(n)


def perr_of(n, where, gate=False):
    """`Err(X)`, `Error::V[(..)]`, `io_err_convert_fn("..")(X)`, (gate only) `io::Error::other("..")` -> PErr constructor"""
    n = strip(n)
    if n is not None and n.op == "call" and is_path(n.args[0], "Err") and len(n.args) == 2:
        return perr_of(n.args[1], where, gate)
    if n is not None and n.op == "call" and strip(n.args[0]).op == "call" and \
            is_path(strip(n.args[0]).args[0], "io_err_convert_fn") and len(n.args) == 2:
        return perr_of(n.args[1], where, gate)
    if gate and n is not None and n.op == "call" and is_path(n.args[0], "io", "Error", "other") and len(n.args) == 2 \
            and strip(n.args[1]).op == "str":
        return "notNegotiated"
    m = n
    if m is not None and m.op == "call" and strip(m.args[0]).op == "path":
        m = strip(m.args[0])
    if m is not None and m.op == "path" and len(m.args) == 2 and m.args[0] == "Error":
        if m.args[1] in PERRS:
            return PERRS[m.args[1]]
        raise Untranslatable(f"{where}: error variant `Error::{m.args[1]}` is not part of the vocabulary")
    raise Untranslatable(f"{where}: unrecognised error value `{show(n)}`")


def ok_arg(n):
    """`Ok(e)` -> e"""
    n = strip(n)
    if n is not None and n.op == "call" and is_path(n.args[0], "Ok") and len(n.args) == 2:
        return strip(n.args[1])
    return None


# ------------------------------------------------------------------------------------------------------------------
# the private helpers of a `BackendInternal`

class HelperWalk:
    def __init__(self, world, rel, fns, name, selfmap, hdr_ty, req_enum):
        self.w, self.rel, self.fns, self.name = world, rel, fns, name
        self.selfmap, self.hdr_ty, self.req_enum = selfmap, hdr_ty, req_enum
        self.t = PTr(world, rel, name, selfmap)
        self.out = []
        self.sizes = {}
        self.params = []

    def fail(self, msg):
        self.t.fail(msg)

    # ---- check_state
    def check_state_check(self):
        """(isSome expression, error) of `match self.error { Some(e) => Err(E), None => Ok(..) }`"""
        if "check_state" not in self.fns:
            self.fail("`check_state` not found in impl BackendInternal")
        params, ret, body = self.fns["check_state"]
        if split_params(params):
            self.fail("`check_state` takes parameters")
        t = PTr(self.w, self.rel, "check_state", self.selfmap)
        t.fn_stack = self.t.fn_stack + ["check_state"] if self.name != "check_state" else ["check_state"]
        stmts = parse_block(body, t.where())
        if len(stmts) != 1 or stmts[0].op != "tail" or strip(stmts[0].args[0]).op != "match":
            t.fail("body is not a single `match self.error { .. }`")
        t.cur = stmts[0]
        m = strip(stmts[0].args[0])
        sv = t.tr(m.args[0])
        if sv.kind != "opt" or show(m.args[0]) != "self.error":
            t.fail("the scrutinee is not `self.error`")
        arms = [(p.replace(" ", ""), g, b) for p, g, b in m.args[1]]
        if len(arms) != 2 or any(g is not None for _, g, _ in arms):
            t.fail("expected the two arms `Some(e) => Err(..)`, `None => Ok(..)`")
        some = [a for a in arms if re.match(r"Some\(\w+\)$", a[0])]
        none = [a for a in arms if a[0] == "None"]
        if len(some) != 1 or len(none) != 1:
            t.fail("expected the two arms `Some(e) => Err(..)`, `None => Ok(..)`")
        okv = ok_arg(none[0][2])
        if okv is None or not (okv.op == "unit" or (okv.op == "int" and okv.args[0] == 0)):
            t.fail("the `None` arm is not `Ok(0)` / `Ok(())`")
        err = perr_of(some[0][2], t.where())
        return sv.isSome, err, ("0" if okv.op == "int" else "()")

    # ---- header mutation `hdr.set_xxx(lit)`
    def mutate_hdr(self, hv, mc):
        name, args = mc.args[1], mc.args[2:]
        fn = self.w.impls.get(self.hdr_ty, {}).get(name)
        if fn is None:
            self.fail(f"`{self.hdr_ty}::{name}` not found")
        params = split_params(fn[0])
        if len(params) != 1 or params[0][1] != "bool" or len(args) != 1 or \
                not (is_path(args[0], "true") or is_path(args[0], "false")):
            self.fail(f"`{show(mc)}`: only a header setter with one literal `bool` argument is supported")
        lit = strip(args[0]).args[0] == "true"
        where = f"{self.rel}: fn {self.name} -> {self.hdr_ty}::{name}"
        stmts = parse_block(fn[2], where)
        if len(stmts) != 1 or strip(stmts[0].args[0]).op != "if":
            raise Untranslatable(f"{where}: body is not a single `if {params[0][0]} {{ .. }} else {{ .. }}`")
        c, th, el = strip(stmts[0].args[0]).args
        if not is_path(c, params[0][0]) or el is None or el.op != "block":
            raise Untranslatable(f"{where}: body is not a single `if {params[0][0]} {{ .. }} else {{ .. }}`")
        blk = th if lit else el
        if len(blk.args) != 1 or blk.args[0].op != "stmt" or blk.args[0].args[0].op != "assign":
            raise Untranslatable(f"{where}: branch is not a single assignment to `self.flags`")
        op, lhs, rhs = blk.args[0].args[0].args
        if show(lhs) != "self.flags" or op not in ("|=", "&="):
            raise Untranslatable(f"{where}: branch is not `self.flags |= ..` / `self.flags &= !..`")
        fields = dict(hv.fields)
        old = fields["flags"]
        rhs = strip(rhs)
        sub = PTr(self.w, self.rel, self.name, self.selfmap)
        sub.fn_stack = [self.name, f"{self.hdr_ty}::{name}"]
        if op == "|=":
            r = sub.tr(rhs)
            if r.kind != "nat" or r.d is not None:
                raise Untranslatable(f"{where}: unsupported right-hand side `{show(rhs)}`")
            new = nat(f"({old.e} ||| {r.e})", 32, old.d)
        else:
            if rhs.op != "not":
                raise Untranslatable(f"{where}: `&=` with a right-hand side that is not `!mask`")
            r = sub.tr(strip(rhs.args[0]))
            if r.kind != "nat" or r.d is not None:
                raise Untranslatable(f"{where}: unsupported right-hand side `{show(rhs)}`")
            new = nat(f"({old.e} &&& (4294967295 ^^^ {r.e}))", 32, old.d)
        return V("structval", ty=hv.ty, fields=[(k, new if k == "flags" else v) for k, v in hv.fields])

    def emit_header(self, hv):
        f = dict(hv.fields)
        d = None
        for k in ("request", "flags", "size"):
            if k not in f:
                self.fail(f"header without field `{k}`")
            d = d_and(d, f[k].d)
        self.out.append(f".header (fun x => {f['request'].e}) (fun x => {f['flags'].e}) (fun x => {f['size'].e}) "
                        f"(fun x => {d or 'true'})")

    def sock_call(self, n):
        """`self.sock.m(args)[.map_err(io_err_convert_fn(".."))]` -> (m, args, turbofish) or None"""
        n = strip(n)
        if n.op == "mcall" and n.args[1] == "map_err" and len(n.args) == 3:
            a = strip(n.args[2])
            if not (a.op == "call" and is_path(a.args[0], "io_err_convert_fn") and len(a.args) == 2 and
                    strip(a.args[1]).op == "str"):
                self.fail(f"`map_err` with something else than `io_err_convert_fn(\"..\")`: `{show(n)}`")
            n = strip(n.args[0])
        if n.op == "mcall" and strip(n.args[0]).op == "field":
            v = self.t.tr(n.args[0])
            if v.kind == "sock":
                return n.args[1], n.args[2:], n.kw.get("turbofish")
        return None

    # ---- the walk
    def run(self):
        t = self.t
        params_t, ret_t, body = self.fns[self.name]
        for pn, pt in split_params(params_t):
            if pt == self.req_enum:
                t.locals[pn] = nat("x.code", 32)
            elif pt == "&T":
                t.locals[pn] = V("bodyparam")
            elif pt == "&[u8]":
                t.locals[pn] = V("data")
            elif pt == "Option<&[RawFd]>":
                t.locals[pn] = V("fdsparam")
            elif pt == f"&{self.hdr_ty}<{self.req_enum}>":
                t.locals[pn] = V("reqhdr")
            else:
                self.fail(f"parameter `{pn}: {pt}` is not part of the input vocabulary")
            self.params.append((pn, pt))
        stmts = parse_block(body, t.where())
        done = False
        for k, s in enumerate(stmts):
            t.cur = s
            if done:
                self.fail("statement after the value of the function")
            last = k == len(stmts) - 1
            if s.op == "stmt":
                self.do_stmt(strip(s.args[0]))
            elif s.op == "let":
                self.do_let(s)
            elif s.op == "tail" and last:
                self.do_tail(strip(s.args[0]))
                done = True
            else:
                self.fail(f"unsupported statement ({s.op})")
        if not done:
            t.cur = None
            self.fail("the function has no value expression")
        t.cur = None
        return self.out

    def do_stmt(self, e):
        t = self.t
        if e.op == "try":
            inner = strip(e.args[0])
            if is_self_call(inner, "self", "check_state") and len(inner.args) == 2:
                is_some, err, _ = self.check_state_check()
                self.out.append(f".check {lean_str('self.check_state()?')} (fun x => {is_some}) .{err}")
                return
            sc = self.sock_call(inner)
            if sc is not None and sc[0] in SEND_ARITY:
                return self.do_send(sc, inner)
            self.fail("unsupported `?` statement")
        if e.op == "if":
            c, th, el = e.args
            if c.op == "iflet" or el is not None:
                self.fail("unsupported `if` statement (if-let / else)")
            cv = t.tr(c)
            if cv.kind != "bool" or cv.d is not None:
                self.fail("condition is not a boolean of the input vocabulary")
            one = block_single(th)
            if one is not None and one.op == "return" and one.args[0] is not None:
                rv = strip(one.args[0])
                okv = ok_arg(rv)
                if okv is not None:
                    v = t.tr(okv)
                    if v.kind != "nat" or v.d is not None:
                        self.fail("early `return Ok(v)` with a value that is not a number")
                    self.out.append(f".retOkIf {lean_str('if ' + show(c) + ' { return ' + show(rv) + ' }')} "
                                    f"(fun x => {cv.e}) (fun x => {v.e})")
                    return
                err = perr_of(rv, t.where())
                self.out.append(f".check {lean_str('if ' + show(c) + ' { return Err(..) }')} (fun x => {cv.e}) .{err}")
                return
            # header mutations under the condition
            muts = []
            for st in th.args:
                x = strip(st.args[0]) if st.op == "stmt" else None
                if x is None or x.op != "mcall" or strip(x.args[0]).op != "path" or len(strip(x.args[0]).args) != 1 or \
                        t.locals.get(strip(x.args[0]).args[0], V("?")).kind != "structval":
                    self.fail("conditional block that neither returns nor only mutates the header")
                muts.append(x)
            if not muts:
                self.fail("empty conditional block")
            for x in muts:
                hn = strip(x.args[0]).args[0]
                old = t.locals[hn]
                new = self.mutate_hdr(old, x)
                of, nf = dict(old.fields), dict(new.fields)
                merged = []
                for kf, _ in old.fields:
                    if of[kf].e == nf[kf].e:
                        merged.append((kf, of[kf]))
                    else:
                        merged.append((kf, nat(f"(if {cv.e} then {nf[kf].e} else {of[kf].e})", of[kf].bits,
                                               d_and(of[kf].d, nf[kf].d))))
                t.locals[hn] = V("structval", ty=old.ty, fields=merged)
            return
        if e.op == "mcall" and strip(e.args[0]).op == "path" and len(strip(e.args[0]).args) == 1 and \
                t.locals.get(strip(e.args[0]).args[0], V("?")).kind == "structval":
            hn = strip(e.args[0]).args[0]
            t.locals[hn] = self.mutate_hdr(t.locals[hn], e)
            return
        self.fail("unsupported statement shape")

    def do_send(self, sc, node):
        t = self.t
        method, args, _ = sc
        want = SEND_ARITY[method]
        if len(args) != len(want):
            self.fail(f"`{show(node)}`: arity of `{method}`")
        present = {"body": False, "data": False, "fds": False}
        for role, a in zip(want, args):
            v = t.tr(unref(a))
            if role == "hdr":
                if v.kind != "structval" or v.ty != self.hdr_ty:
                    self.fail(f"`{show(node)}`: the first argument is not the header built by `{self.hdr_ty}::new`")
                self.emit_header(v)
            elif role == "body":
                if v.kind != "bodyparam":
                    self.fail(f"`{show(node)}`: the body is not the `body` parameter")
                present["body"] = True
            elif role == "data":
                if v.kind != "data":
                    self.fail(f"`{show(node)}`: the payload is not the `data` parameter")
                present["data"] = True
            else:
                if v.kind == "fdsparam":
                    present["fds"] = True
                elif v.kind != "none":
                    self.fail(f"`{show(node)}`: descriptors that are neither the `fds` parameter nor `None`")
        b = lambda x: "true" if x else "false"
        self.out.append(f".send {lean_str(method)} {b(present['body'])} {b(present['data'])} {b(present['fds'])}")

    def do_let(self, s):
        t = self.t
        name, e = s.args[0], strip(s.args[1])
        if name.startswith("("):
            names = [x for x in re.split(r"[\s(),]+", name) if x]
            inner = strip(e.args[0]) if e.op == "try" else None
            sc = self.sock_call(inner) if inner is not None else None
            if sc is None or sc[0] != "recv_body" or sc[1] or len(names) != 3 or not sc[2]:
                self.fail("tuple `let` that is not `let (reply, body, rfds) = self.sock.recv_body::<T>()?`")
            ty = sc[2]
            if ty in self.w.structs:
                self.sizes[ty] = size_of_struct(self.w, ty, t.where())
            elif not re.match(r"[A-Z]$", ty):
                self.fail(f"recv_body::<{ty}>: unknown type")
            self.out.append(f".recvBody {lean_str(ty)}")
            t.locals[names[0]] = V("replyhdr")
            t.locals[names[1]] = V("rbody", ty=ty)
            t.locals[names[2]] = V("rfds")
            return
        v = t.tr(e)
        if v.kind == "structval":
            if v.ty != self.hdr_ty:
                self.fail(f"`let` of a struct that is not the header ({v.ty})")
            t.locals[name] = v
            return
        if v.kind == "nat":
            t.locals[name] = v       # its side condition travels with it into the header
            return
        self.fail(f"unsupported `let` of a value of kind {v.kind}")

    def do_tail(self, e):
        t = self.t
        if e.op == "mcall" and is_path(e.args[0], "self") and e.args[1] in self.fns and e.args[1] != self.name:
            args = e.args[2:]
            if len(args) != 1 or t.tr(unref(args[0])).kind != "structval":
                self.fail("tail call that does not pass the header just sent")
            self.out.append(f".tailCall {lean_str(e.args[1])}")
            return
        if e.op == "match" and self.name == "check_state":
            is_some, err, okv = self.check_state_check()
            self.out.append(f".check {lean_str('match self.error { Some(e) => Err(..), .. }')} (fun x => {is_some}) .{err}")
            self.out.append(f".okVal {lean_str(okv)} (fun x => 0)")
            return
        okv = ok_arg(e)
        if okv is not None:
            if okv.op == "path" and len(okv.args) == 1 and okv.args[0] in t.locals:
                v = t.locals[okv.args[0]]
                if v.kind == "structval":
                    self.out.append(".okHdr")
                    return
                if v.kind == "rbody":
                    self.out.append(".okBody")
                    return
            v = t.tr(okv)
            if v.kind == "nat" and v.d is None:
                self.out.append(f".okVal {lean_str(show(okv))} (fun x => {v.e})")
                return
        self.fail("unsupported value expression")


# ------------------------------------------------------------------------------------------------------------------
# initial state and setters

def init_of(fns, ctor_ty, inner_ty, rel):
    """field initialisers of the `inner_ty { .. }` literal inside `ctor_ty::new`"""
    if "new" not in fns:
        raise Untranslatable(f"{rel}: fn new not found in impl {ctor_ty}")
    where = f"{rel}: fn {ctor_ty}::new"
    body = fns["new"][2]
    # locate `inner_ty {` and parse the literal's fields
    toks = body
    for i, tk in enumerate(toks):
        if tk.kind == "ident" and tk.text == inner_ty and i + 1 < len(toks) and toks[i + 1].text == "{":
            k = match_close(toks, i + 1)
            inner = toks[i + 2:k]
            break
    else:
        raise Untranslatable(f"{where}: no `{inner_ty} {{ .. }}` literal")
    fields, cur, depth = [], [], 0
    for tk in inner + [None]:
        if tk is not None and tk.text in ("(", "[", "{", "<"):
            depth += 1
        elif tk is not None and tk.text in (")", "]", "}", ">"):
            depth -= 1
        elif tk is not None and tk.text == ">>":
            depth -= 2
        if tk is None or (tk.text == "," and depth == 0):
            if cur:
                fields.append(cur)
            cur = []
        else:
            cur.append(tk)
    out = []
    for f in fields:
        if len(f) == 1:
            out.append((f[0].text, f[0].text))
        elif len(f) >= 3 and f[1].text == ":":
            out.append((f[0].text, "".join(x.text for x in f[2:])))
        else:
            raise Untranslatable(f"{where}: unsupported field initialiser `{text(f)}`")
    return out


def setter_of(name, params_t, body, recv_texts, rel, ty):
    """`RECV.field = p;` / `RECV.field = Some(p);` / `if p == 0 { RECV.field = None; } else { RECV.field = Some(p); }`"""
    where = f"{rel}: fn {ty}::{name}"
    params = split_params(params_t)
    if len(params) != 1:
        raise Untranslatable(f"{where}: a setter with {len(params)} parameters")
    p = params[0][0]
    stmts = parse_block(body, where)
    if len(stmts) != 1:
        raise Untranslatable(f"{where}: body is not a single statement")

    def assign(st):
        e = st.args[0] if st.op in ("stmt", "tail") else None
        if e is None or e.op != "assign" or e.args[0] != "=":
            return None
        lhs, rhs = strip(e.args[1]), strip(e.args[2])
        if lhs.op != "field" or show(lhs.args[0]) not in recv_texts:
            return None
        return lhs.args[1], rhs
    a = assign(stmts[0])
    if a is not None:
        f, rhs = a
        if is_path(rhs, p):
            return f, f".param {lean_str(p)}"
        if rhs.op == "call" and is_path(rhs.args[0], "Some") and len(rhs.args) == 2 and is_path(rhs.args[1], p):
            return f, f".someParam {lean_str(p)}"
        raise Untranslatable(f"{where}: unsupported right-hand side `{show(rhs)}`")
    e = strip(stmts[0].args[0])
    if e.op == "if" and e.args[2] is not None and e.args[2].op == "block" and e.args[0].op == "bin":
        c = e.args[0]
        if c.args[0] == "==" and is_path(c.args[1], p) and strip(c.args[2]).op == "int" and strip(c.args[2]).args[0] == 0 \
                and len(e.args[1].args) == 1 and len(e.args[2].args) == 1:
            a1, a2 = assign(e.args[1].args[0]), assign(e.args[2].args[0])
            if a1 and a2 and a1[0] == a2[0] and is_path(a1[1], "None") and a2[1].op == "call" and \
                    is_path(a2[1].args[0], "Some") and len(a2[1].args) == 2 and is_path(a2[1].args[1], p):
                return a1[0], f".zeroNoneElseSome {lean_str(p)}"
    raise Untranslatable(f"{where}: statement `{show(stmts[0])[:160]}` is not a recognised field assignment")


def expect_text(fns, name, want, rel, ty):
    if name not in fns:
        raise Untranslatable(f"{rel}: fn {name} not found in impl {ty}")
    norm = lambda x: x.replace(" ", "").replace(",)", ")")
    got = text(fns[name][2])
    if norm(got) not in [norm(w) for w in want]:
        raise Untranslatable(f"{rel}: fn {ty}::{name}: body changed: `{got}`")


def lean_list(items, indent="  "):
    if not items:
        return "[]"
    return "[\n" + indent + (",\n" + indent).join(items) + "\n]"


def emit_prog(out, name, doc, stmts):
    out.append(f"/-- {doc} -/")
    out.append(f"def {name}.stmts : List Stmt := " + lean_list(stmts))
    out.append("")


# ------------------------------------------------------------------------------------------------------------------
# (a) backend_req.rs


def _uncalled(repo, rel, name):
    """a function whose name occurs only once in the file (its own definition) is called by nothing in it: dead code that cannot
    change what the translated functions do"""
    import re as _re
    txt = open(os.path.join(repo, rel)).read()
    txt = _re.sub(r"//[^\n]*", "", txt)
    return len(_re.findall(r"\b%s\b" % _re.escape(name), txt)) == 1


def gen_backend(world, repo, sizes):
    rel = REL_B
    impls, free = load_file(repo, rel)
    internal = {n: (p, r, b) for n, p, r, b in impl_of(impls, None, "BackendInternal", rel)}
    inherent = {n: (p, r, b) for n, p, r, b in impl_of(impls, None, "Backend", rel)}
    trait_fns = impl_of(impls, "VhostUserFrontendReqHandler", "Backend", rel)
    for t, y, _ in impls:
        if y in ("Backend", "BackendInternal") and (t, y) not in ((None, "Backend"), (None, "BackendInternal"),
                                                                 ("VhostUserFrontendReqHandler", "Backend")):
            raise Untranslatable(f"{rel}: unexpected `impl {t} for {y}`")
    known = ("check_state", "send_message", "wait_for_ack")
    for n in internal:
        if n not in known and not _uncalled(repo, rel, n):
            raise Untranslatable(f"{rel}: impl BackendInternal: unknown function `{n}`")
    for n in known:
        if n not in internal:
            raise Untranslatable(f"{rel}: impl BackendInternal: function `{n}` not found")
    if "BackendReq" not in world.enums:
        raise Untranslatable(f"{rel}: enum BackendReq unknown")
    codes = dict(world.enums["BackendReq"][1])
    out = ["/-! ## (a) `backend_req.rs` -/", "namespace Backend", ""]
    # state
    init = init_of(inherent, "Backend", "BackendInternal", rel)
    out.append("/-- `Backend::new`: the initial `BackendInternal` -/")
    out.append("def init : List (String × String) := [" + ", ".join(f"({lean_str(a)}, {lean_str(b)})" for a, b in init) + "]")
    setters = []
    for n, (p, r, b) in inherent.items():
        if n == "new":
            continue
        if n == "from_stream":
            expect_text(inherent, n, ("Self :: new ( Endpoint :: < VhostUserMsgHeader < BackendReq > > :: from_stream ( sock , ) )",
                                      "Self :: new ( Endpoint :: < VhostUserMsgHeader < BackendReq > > :: from_stream ( sock ) )"),
                        rel, "Backend")
            continue
        f, src = setter_of(n, p, b, ("self.inner.lock().unwrap()",), rel, "Backend")
        if f not in SELF_B:
            raise Untranslatable(f"{rel}: fn Backend::{n}: assigns unknown field `{f}`")
        setters.append(f"⟨{lean_str(n)}, {lean_str(f)}, {src}⟩")
    out.append("/-- the setters of `impl Backend`: `self.inner.lock().unwrap().field = ..` -/")
    out.append("def setters : List Setter := " + lean_list(setters))
    out.append("")
    # helpers
    for n in known:
        hw = HelperWalk(world, rel, internal, n, SELF_B, "VhostUserMsgHeader", "BackendReq")
        stmts = hw.run()
        sizes.update(hw.sizes)
        emit_prog(out, n, f"`BackendInternal::{n}` ({rel})", stmts)
    # public methods
    rows = []
    for n, p, r, b in trait_fns:
        where = f"{rel}: fn Backend::{n}"
        params = split_params(p)
        ptypes = dict(params)
        t = PTr(world, rel, f"Backend::{n}", SELF_B)
        stmts = parse_block(b, where)
        if len(stmts) != 3:
            raise Untranslatable(f"{where}: expected `let mut guard = ..; if !guard.F {{ return Err(..) }}; Ok(guard.helper(..)?)`")
        s0, s1, s2 = stmts
        t.cur = s0
        if s0.op != "let" or show(s0.args[1]) != "self.inner.lock().unwrap()":
            t.fail("the first statement is not `let mut guard = self.inner.lock().unwrap()`")
        g = s0.args[0]
        t.locals[g] = V("self")
        t.cur = s1
        e = strip(s1.args[0]) if s1.op == "stmt" else None
        if e is None or e.op != "if" or e.args[2] is not None or e.args[0].op == "iflet":
            t.fail("the second statement is not the feature gate `if !guard.F { return Err(..) }`")
        c = strip(e.args[0])
        if c.op != "not" or strip(c.args[0]).op != "field" or not is_path(strip(c.args[0]).args[0], g):
            t.fail("the gate condition is not `!guard.FIELD`")
        field = strip(c.args[0]).args[1]
        cv = t.tr(c)
        if cv.kind != "bool":
            t.fail("the gate condition is not boolean")
        one = block_single(e.args[1])
        if one is None or one.op != "return" or one.args[0] is None:
            t.fail("the gate does not `return Err(..)`")
        gerr = perr_of(one.args[0], t.where(), gate=True)
        t.cur = s2
        okv = ok_arg(s2.args[0]) if s2.op == "tail" else None
        if okv is None or okv.op != "try" or strip(okv.args[0]).op != "mcall" or not is_path(strip(okv.args[0]).args[0], g):
            t.fail("the value is not `Ok(guard.helper(..)?)`")
        mc = strip(okv.args[0])
        helper, args = mc.args[1], mc.args[2:]
        if helper not in internal or helper != "send_message":
            t.fail(f"`{helper}` is not the send helper of BackendInternal")
        hp = split_params(internal[helper][0])
        if len(args) != len(hp) or [x[1] for x in hp] != ["BackendReq", "&T", "Option<&[RawFd]>"]:
            t.fail(f"`{show(mc)}`: arity / parameter types of `{helper}` changed")
        a0 = strip(args[0])
        if a0.op != "path" or len(a0.args) != 2 or a0.args[0] != "BackendReq" or a0.args[1] not in codes:
            t.fail(f"`{show(a0)}` is not a `BackendReq` code")
        a1 = strip(args[1])
        if a1.op != "path" or len(a1.args) != 1 or a1.args[0] not in ptypes or not ptypes[a1.args[0]].startswith("&"):
            t.fail(f"the body `{show(a1)}` is not a reference parameter of the method")
        bty = ptypes[a1.args[0]][1:]
        if bty not in world.structs:
            t.fail(f"body type {bty} unknown")
        bsz, _ = struct_sa(world, bty, t.where())
        sizes[bty] = bsz
        a2 = strip(args[2])
        if is_path(a2, "None"):
            fd = False
        elif a2.op == "call" and is_path(a2.args[0], "Some") and len(a2.args) == 2 and unref(a2.args[1]).op == "array":
            m = re.match(r"(\w+) \. as_raw_fd \( \)$", unref(a2.args[1]).args[0])
            if not m or ptypes.get(m.group(1)) != "&dynAsRawFd":
                t.fail(f"`{show(a2)}`: expected `Some(&[fd.as_raw_fd()])` for a parameter `fd: &dyn AsRawFd`")
            fd = True
        else:
            t.fail(f"unsupported descriptor argument `{show(a2)}`")
        rows.append(f"/- {a0.args[1]} -/ {{ row := {{ name := {lean_str(n)}, gateField := {lean_str(field)}, helper := {lean_str(helper)}, "
                    f"code := {codes[a0.args[1]]}, body := {lean_str(bty)}, size := {bsz}, fd := {'true' if fd else 'false'} }}, "
                    f"gateFails := (fun x => {cv.e}), gateErr := .{gerr} }}")
    out.append(f"/-- the methods of `impl VhostUserFrontendReqHandler for Backend` ({rel}), in source order -/")
    out.append("def methods : List PxMethod := " + lean_list(rows))
    out += ["", "end Backend", ""]
    return out


# ------------------------------------------------------------------------------------------------------------------
# (b) gpu_backend_req.rs

IO_ERR_FN = ("fn io_err_convert_fn ( info : & str ) -> impl Fn ( vhost_user :: Error ) -> io :: Error + '_ "
             "{ move | e | io :: Error :: other ( format ! ( \"{info}: {e}\" ) ) }")


def gen_gpu(world, repo, sizes):
    rel = REL_G
    impls, free = load_file(repo, rel)
    internal = {n: (p, r, b) for n, p, r, b in impl_of(impls, None, "BackendInternal", rel)}
    inherent = impl_of(impls, None, "GpuBackend", rel)
    for t, y, _ in impls:
        if y in ("GpuBackend", "BackendInternal") and t is not None:
            raise Untranslatable(f"{rel}: unexpected `impl {t} for {y}`")
    if "io_err_convert_fn" not in free or text(free["io_err_convert_fn"]) != IO_ERR_FN:
        raise Untranslatable(f"{rel}: fn io_err_convert_fn: missing or changed (expected a wrapper into `io::Error::other`)")
    known = ("check_state", "send_header", "send_message", "send_message_with_payload", "recv_reply")
    for n in internal:
        if n not in known and not _uncalled(repo, rel, n):
            raise Untranslatable(f"{rel}: impl BackendInternal: unknown function `{n}`")
    for n in known:
        if n not in internal:
            raise Untranslatable(f"{rel}: impl BackendInternal: function `{n}` not found")
    if "GpuBackendReq" not in world.enums:
        raise Untranslatable(f"{rel}: enum GpuBackendReq unknown")
    codes = dict(world.enums["GpuBackendReq"][1])
    out = ["/-! ## (b) `gpu_backend_req.rs` -/", "namespace Gpu", ""]
    ifn = {n: (p, r, b) for n, p, r, b in inherent}
    init = init_of(ifn, "GpuBackend", "BackendInternal", rel)
    out.append("/-- `GpuBackend::new`: the initial `BackendInternal` -/")
    out.append("def init : List (String × String) := [" + ", ".join(f"({lean_str(a)}, {lean_str(b)})" for a, b in init) + "]")
    expect_text(ifn, "node", ("self . node . lock ( ) . unwrap ( )",), rel, "GpuBackend")
    expect_text(ifn, "from_stream", ("Self :: new ( Endpoint :: < VhostUserGpuMsgHeader < GpuBackendReq > > :: from_stream ( sock ) )",
                                     "Self :: new ( Endpoint :: < VhostUserGpuMsgHeader < GpuBackendReq > > :: from_stream ( sock , ) )"),
                rel, "GpuBackend")
    f, src = setter_of("set_failed", ifn["set_failed"][0], ifn["set_failed"][2], ("self.node()",), rel, "GpuBackend") \
        if "set_failed" in ifn else (None, None)
    if f != "error":
        raise Untranslatable(f"{rel}: fn GpuBackend::set_failed: missing or not an assignment to `error`")
    out.append("def setters : List Setter := [⟨\"set_failed\", \"error\", " + src + "⟩]")
    out.append("")
    for n in known:
        hw = HelperWalk(world, rel, internal, n, SELF_G, "VhostUserGpuMsgHeader", "GpuBackendReq")
        stmts = hw.run()
        sizes.update(hw.sizes)
        rt = "".join(x.text for x in internal[n][1])
        if n == "recv_reply" and (rt != "->io::Result<V>" or '.recvBody "V"' not in stmts or stmts[-1] != ".okBody"):
            raise Untranslatable(f"{rel}: fn recv_reply: expected `-> io::Result<V>`, one `recv_body::<V>()` and the value "
                                 f"`Ok(body)` (the reply type of a method is the `V` its call of `recv_reply` is typed with)")
        if n.startswith("send_") and (rt != "->io::Result<VhostUserGpuMsgHeader<GpuBackendReq>>" or stmts[-1] != ".okHdr"):
            raise Untranslatable(f"{rel}: fn {n}: expected `-> io::Result<VhostUserGpuMsgHeader<GpuBackendReq>>` and the "
                                 f"value `Ok(hdr)`")
        emit_prog(out, n, f"`BackendInternal::{n}` ({rel})", stmts)
    rows = []
    for n, p, r, b in inherent:
        if n in ("new", "node", "from_stream", "set_failed"):
            continue
        where = f"{rel}: fn GpuBackend::{n}"
        params = split_params(p)
        ptypes = dict(params)
        t = PTr(world, rel, f"GpuBackend::{n}", SELF_G)
        stmts = parse_block(b, where)
        t.cur = stmts[0] if stmts else None
        if not stmts or stmts[0].op != "let" or show(stmts[0].args[1]) != "self.node()":
            t.fail("the first statement is not `let mut node = self.node()`")
        g = stmts[0].args[0]
        rest = stmts[1:]
        fdvar = None
        if len(rest) >= 2 and rest[0].op == "let" and rest[1].op == "let" and \
                show(rest[0].args[1]).endswith(".map(AsRawFd::as_raw_fd)"):
            t.cur = rest[0]
            src0 = show(rest[0].args[1])[:-len(".map(AsRawFd::as_raw_fd)")]
            if ptypes.get(src0) != "Option<&implAsRawFd>":
                t.fail(f"`{src0}` is not a parameter of type `Option<&impl AsRawFd>`")
            t.cur = rest[1]
            if show(rest[1].args[1]) != f"{rest[0].args[0]}.as_ref().map(slice::from_ref)":
                t.fail("expected `let fd = fd.as_ref().map(slice::from_ref)`")
            fdvar = rest[1].args[0]
            rest = rest[2:]
        if not rest:
            t.fail("no request is sent")

        def send_of(e):
            """`node.helper(args)?` -> (helper, args)"""
            e = strip(e)
            if e.op == "try" and strip(e.args[0]).op == "mcall" and is_path(strip(e.args[0]).args[0], g):
                mc_ = strip(e.args[0])
                return mc_.args[1], mc_.args[2:]
            return None
        s = rest[0]
        t.cur = s
        hdrvar = None
        if s.op == "let":
            hdrvar = s.args[0]
            snd = send_of(s.args[1])
        elif s.op == "stmt":
            snd = send_of(s.args[0])
        else:
            snd = None
        if snd is None or snd[0] not in ("send_header", "send_message", "send_message_with_payload"):
            t.fail("the statement is not `[let hdr =] node.send_*(..)?`")
        helper, args = snd
        hp = [x[1] for x in split_params(internal[helper][0])]
        want = {"send_header": ["GpuBackendReq", "Option<&[RawFd]>"],
                "send_message": ["GpuBackendReq", "&T", "Option<&[RawFd]>"],
                "send_message_with_payload": ["GpuBackendReq", "&T", "&[u8]", "Option<&[RawFd]>"]}[helper]
        if hp != want or len(args) != len(want):
            t.fail(f"arity / parameter types of `{helper}` changed")
        a0 = strip(args[0])
        if a0.op != "path" or len(a0.args) != 2 or a0.args[0] != "GpuBackendReq" or a0.args[1] not in codes:
            t.fail(f"`{show(a0)}` is not a `GpuBackendReq` code")
        bty, bsz, payload = None, 0, False
        for role, a in zip(want[1:-1], args[1:-1]):
            a = strip(a)
            if a.op != "path" or len(a.args) != 1 or a.args[0] not in ptypes:
                t.fail(f"argument `{show(a)}` is not a parameter of the method")
            pt = ptypes[a.args[0]]
            if role == "&T":
                if not pt.startswith("&") or pt[1:] not in world.structs:
                    t.fail(f"body parameter `{a.args[0]}: {pt}` is not a reference to a message struct")
                bty = pt[1:]
                bsz, _ = struct_sa(world, bty, t.where())
                sizes[bty] = bsz
            else:
                if not re.match(r"&\[u8(;.*)?\]$", pt):
                    t.fail(f"payload parameter `{a.args[0]}: {pt}` is not a byte slice / array")
                payload = True
        al = strip(args[-1])
        if is_path(al, "None"):
            fd = False
        elif fdvar is not None and is_path(al, fdvar):
            fd = True
        else:
            t.fail(f"unsupported descriptor argument `{show(al)}`")
        if fdvar is not None and not fd:
            t.fail("the descriptor parameter is converted but not passed on")
        rest = rest[1:]
        rty = re.match(r"->io::Result<(.*)>$", "".join(x.text for x in r))
        if not rty:
            t.fail("return type is not `io::Result<..>`")
        rty = rty.group(1)

        def recv_of(e):
            e = strip(e)
            if e.op == "try":
                e = strip(e.args[0])
            if e.op == "mcall" and is_path(e.args[0], g) and e.args[1] == "recv_reply" and len(e.args) == 3 and \
                    hdrvar is not None and is_path(unref(e.args[2]), hdrvar) and not e.kw.get("turbofish"):
                return True
            return False
        reply, ret = None, None
        if len(rest) == 1 and rest[0].op == "tail":
            t.cur = rest[0]
            e = strip(rest[0].args[0])
            okv = ok_arg(e)
            if okv is not None and okv.op == "unit" and rty == "()":
                ret = ".unit"
            elif e.op == "mcall" and recv_of(e):
                if rty not in world.structs:
                    t.fail(f"reply type {rty} unknown")
                reply, ret = rty, ".body"
            else:
                t.fail("unsupported value expression")
        elif len(rest) == 2 and rest[0].op == "let" and rest[1].op == "tail":
            t.cur = rest[0]
            e = strip(rest[0].args[1])
            if rest[0].args[0] != "_" or rest[0].kw.get("ty") is None or e.op != "try" or not recv_of(e):
                t.fail("expected `let _: V = node.recv_reply(&hdr)?`")
            reply = rest[0].kw["ty"]
            if reply not in world.structs:
                t.fail(f"reply type {reply} unknown")
            t.cur = rest[1]
            okv = ok_arg(rest[1].args[0])
            if okv is None or okv.op != "unit" or rty != "()":
                t.fail("expected `Ok(())`")
            ret = ".unit"
        else:
            t.fail("unsupported statements after the send")
        if reply is None and hdrvar is not None:
            t.fail("the header returned by the send helper is bound but no reply is read")
        if reply is not None:
            sizes[reply] = size_of_struct(world, reply, t.where())
        opt = lambda x: "none" if x is None else f"(some {lean_str(x)})"
        rows.append(f"/- {a0.args[1]} -/ {{ name := {lean_str(n)}, helper := {lean_str(helper)}, code := {codes[a0.args[1]]}, "
                    f"body := {opt(bty)}, size := {bsz}, payload := {'true' if payload else 'false'}, "
                    f"fd := {'true' if fd else 'false'}, reply := {opt(reply)}, ret := {ret} }}")
    out.append(f"/-- the request methods of `impl GpuBackend` ({rel}), in source order -/")
    out.append("def methods : List GxRow := " + lean_list(rows))
    out += ["", "end Gpu", ""]
    return out


# ------------------------------------------------------------------------------------------------------------------
# (c) frontend_req_handler.rs

class FTr(PTr):
    """`rs2lean_helpers.Tr` over the functions of `impl FrontendReqHandler`"""

    def __init__(self, world, fns, helper, inp):
        super().__init__(world, REL_F, helper, SELF_F, inp, fns)
        self.int_locals = {}

    def inline(self, mc):
        if mc.args[1] not in self.fns:
            self.fail(f"helper `{mc.args[1]}` not found in impl FrontendReqHandler")
        return super().inline(mc)

    # ---- signed values -------------------------------------------------------------------------------------------
    def tr_int(self, n):
        """expression of integer type -> V nat (unsigned, as HelperSig) or V int (signed: e is a Lean `Int` term)"""
        n = strip(n)
        op, a = n.op, n.args
        if op == "neg":
            x = strip(a[0]) if a[0].op != "paren" else a[0]
            if x.op == "cast":
                # rsparse reads `-e as T` as `-(e as T)`; Rust reads it as `(-e) as T`
                return self.tr_int(Node("cast", Node("neg", x.args[0]), x.args[1]))
            v = self.tr_int(a[0])
            if v.kind != "int":
                self.fail(f"unary minus on an unsigned value `{show(n)}`")
            lo = 2 ** (v.bits - 1)
            return V("int", e=f"(-{v.e})", bits=v.bits, d=d_and(v.d, f"(decide ({v.e} ≠ -{lo}))"))
        if op == "cast":
            v = self.tr_int(a[0])
            to = a[1]
            if v.kind == "int":
                if to not in ("u8", "u16", "u32", "u64", "usize"):
                    self.fail(f"unsupported cast of a signed value `{show(n)}`")
                return nat(f"(Int.toNat ({v.e} % {2 ** INT_BITS[to]}))", INT_BITS[to], v.d)
            return self.tr_cast_nat(v, to, n)
        if op == "deref":
            return self.tr_int(a[0])
        if op == "path" and len(a) == 1 and a[0] in self.int_locals:
            return self.int_locals[a[0]]
        if op == "path" and len(a) == 2 and a[0] == "libc" and a[1] in ERRNO:
            return V("int", e=f"({ERRNO[a[1]]} /- libc::{a[1]} -/ : Int)", bits=32, d=None)
        if op == "mcall" and len(a) == 2 and a[1] in ("unwrap_or_default",):
            v = self.tr_optint(a[0])
            if v is not None:
                return V("int", e=f"({v}.getD 0)", bits=32, d=None)
        if op == "mcall" and len(a) == 3 and a[1] == "unwrap_or":
            v = self.tr_optint(a[0])
            if v is not None:
                dv = self.tr_int(a[2])
                if dv.kind != "int" or dv.d is not None:
                    self.fail(f"unsupported default in `{show(n)}`")
                return V("int", e=f"({v}.getD {dv.e})", bits=32, d=None)
        v = self.tr(n)
        if v.kind != "nat":
            self.fail(f"`{show(n)}` is not a number")
        return v

    def tr_cast_nat(self, v, to, n):
        if v.kind != "nat" or to not in INT_BITS:
            self.fail(f"unsupported cast `{show(n)}`")
        tb = INT_BITS[to]
        if tb >= v.bits:
            return nat(v.e, tb, v.d)
        return nat(f"({v.e} % {2 ** tb})", tb, v.d)

    def tr_optint(self, n):
        """`ioerr.raw_os_error()` -> the Lean variable holding it"""
        n = strip(n)
        if n.op == "mcall" and n.args[1] == "raw_os_error" and len(n.args) == 2:
            r = strip(n.args[0])
            if r.op == "path" and len(r.args) == 1 and self.locals.get(r.args[0], V("?")).kind == "ioerr":
                return self.locals[r.args[0]].var
        return None

    # ---- `match res { .. }`: (value, defined) as two Lean match expressions of the same shape -----------------------
    def tr_res_value(self, n, indent):
        n = strip(n)
        if n.op != "match":
            v = self.tr_int(n)
            if v.kind != "nat":
                self.fail(f"`{show(n)}` is not an unsigned value")
            return v.e, (v.d or "true")
        scrut = strip(n.args[0])
        arms = [(p.replace(" ", ""), g, b) for p, g, b in n.args[1]]
        if any(g is not None for _, g, _ in arms):
            self.fail("match guard in the value of the acknowledgement")
        pad = " " * indent
        saved, saved_int = dict(self.locals), dict(self.int_locals)
        rows_e, rows_d = [], []

        def arm(pat_lean, binds, body):
            self.locals, self.int_locals = dict(saved), dict(saved_int)
            for k, (kind, val) in binds.items():
                if kind == "int":
                    self.int_locals[k] = val
                    self.locals.pop(k, None)
                else:
                    self.locals[k] = val
                    self.int_locals.pop(k, None)
            e, d = self.tr_res_value(body, indent + 4)
            rows_e.append(f"{pad}  | {pat_lean} => {e}")
            rows_d.append(f"{pad}  | {pat_lean} => {d}")
        try:
            sk = None
            if scrut.op == "path" and len(scrut.args) == 1 and scrut.args[0] in self.locals:
                sk = self.locals[scrut.args[0]]
            if sk is not None and sk.kind == "res64":
                head = f"match {self.IN_RES} with"
                seen = set()
                for p, _, b in arms:
                    m = re.match(r"(Ok|Err)\((\w+)\)$", p)
                    if not m or m.group(1) in seen:
                        self.fail(f"unsupported pattern `{p}` in `match {show(scrut)}`")
                    seen.add(m.group(1))
                    var = "v_" + m.group(2)
                    if m.group(1) == "Ok":
                        arm(f".ok {var}", {m.group(2): ("nat", nat(var, 64))}, b)
                    else:
                        arm(f".err {var}", {m.group(2): ("errref", V("errref", var=var))}, b)
                if seen != {"Ok", "Err"}:
                    self.fail("`match res` without both `Ok(..)` and `Err(..)` arms")
            elif sk is not None and sk.kind == "errref":
                head = f"match {sk.var} with"
                for k, (p, _, b) in enumerate(arms):
                    m = re.match(r"Error::ReqHandlerError\((\w+)\)$", p)
                    if m:
                        var = "v_" + m.group(1)
                        arm(f".reqHandler {var}", {m.group(1): ("ioerr", V("ioerr", var=var))}, b)
                    elif p == "_" and k == len(arms) - 1:
                        arm("_", {}, b)
                    else:
                        self.fail(f"unsupported pattern `{p}` in `match {show(scrut)}`")
                if arms[-1][0] != "_":
                    self.fail("`match e` without a catch-all last arm")
            elif self.tr_optint(scrut) is not None:
                head = f"match {self.tr_optint(scrut)} with"
                seen = set()
                for p, _, b in arms:
                    m = re.match(r"Some\((\w+)\)$", p)
                    if m and "Some" not in seen:
                        seen.add("Some")
                        var = "v_" + m.group(1)
                        arm(f"some {var}", {m.group(1): ("int", V("int", e=var, bits=32, d=None))}, b)
                    elif p == "None" and "None" not in seen:
                        seen.add("None")
                        arm("none", {}, b)
                    else:
                        self.fail(f"unsupported pattern `{p}` in `match {show(scrut)}`")
                if seen != {"Some", "None"}:
                    self.fail("`match ioerr.raw_os_error()` without both `Some(..)` and `None` arms")
            else:
                self.fail(f"unsupported scrutinee `{show(scrut)}` in the value of the acknowledgement")
        finally:
            self.locals, self.int_locals = saved, saved_int
        return ("(" + head + "\n" + "\n".join(rows_e) + ")", "(" + head + "\n" + "\n".join(rows_d) + ")")

    def do_let(self, s):
        name, e = s.args[0], strip(s.args[1])
        if "res64" in [v.kind for v in self.locals.values()]:
            if e.op == "path" and len(e.args) == 2 and e.args[0] == "libc":
                v = self.tr_int(e)
                self.int_locals[name] = v
                return
            if e.op == "match":
                ve, vd = self.tr_res_value(e, 6)
                v = nat(ve, 64, vd if "decide" in vd else None)
                self.flush_defd(v, f"let {name} = match res {{ .. }} (negation of an i32)")
                self.locals[name] = v
                return
        return super().do_let(s)

    # ---- send_ack_message ---------------------------------------------------------------------------------------
    def top_ack(self):
        params_t, ret_t, body = self.fns[self.helper]
        self.IN_RES = "x.res"
        for pn, pt in split_params(params_t):
            if re.match(r"&VhostUserMsgHeader<(\w+)>$", pt):
                self.hdr_req = re.match(r"&VhostUserMsgHeader<(\w+)>$", pt).group(1)
                self.locals[pn] = V("hdr")
            elif pt == "&Result<u64>":
                self.locals[pn] = V("res64")
            else:
                self.fail(f"parameter `{pn}: {pt}` is not part of the input vocabulary")
        r = self.exec(parse_block(rewrite_tokens(body, self.where()), self.where()))
        self.cur = None
        if self.sendif is None or self.call is not None or self.reply_arms is not None:
            self.fail("expected `if COND { .. self.sub_sock.send_message(&hdr, &msg, None)?; } Ok(())`")
        if not (r.kind == "ok" and r.inner.kind == "unit"):
            self.fail("the function does not end in `Ok(())`")
        cond, inner, sd = self.sendif
        h = dict(sd.hdr.fields)
        return self.steps, cond, inner, h, sd.msg


def fe_fns(impls):
    return {n: (p, r, b) for n, p, r, b in impl_of(impls, None, "FrontendReqHandler", REL_F)}


def gen_fesrv(world, repo, sizes):
    rel = REL_F
    impls, free = load_file(repo, rel)
    fns = fe_fns(impls)
    for t, y, _ in impls:
        if y == "FrontendReqHandler" and t not in (None, "AsRawFd"):
            raise Untranslatable(f"{rel}: unexpected `impl {t} for {y}`")
    translated = ["check_state", "check_msg_size", "extract_msg_body", "new_reply_header"]
    elsewhere = ("handle_request", "check_attached_files")       # Gen/DispatchFe.lean
    plain = ("new", "get_tx_raw_fd", "set_reply_ack_flag", "set_failed")
    for n in fns:
        if n not in translated and n not in elsewhere and n not in plain and n != "send_ack_message" and not _uncalled(repo, rel, n):
            raise Untranslatable(f"{rel}: impl FrontendReqHandler: unknown function `{n}`")
    for n in translated + ["send_ack_message", "set_reply_ack_flag", "set_failed", "new"]:
        if n not in fns:
            raise Untranslatable(f"{rel}: impl FrontendReqHandler: function `{n}` not found")
    out = ["/-! ## (c) `frontend_req_handler.rs`: the acknowledgement path of `FrontendReqHandler` -/", "namespace FeSrv", ""]
    init = init_of(fns, "FrontendReqHandler", "FrontendReqHandler", rel)
    out.append("/-- `FrontendReqHandler::new` -/")
    out.append("def init : List (String × String) := [" + ", ".join(f"({lean_str(a)}, {lean_str(b)})" for a, b in init) + "]")
    setters = []
    for n in ("set_reply_ack_flag", "set_failed"):
        f, src = setter_of(n, fns[n][0], fns[n][2], ("self",), rel, "FrontendReqHandler")
        if f not in SELF_F:
            raise Untranslatable(f"{rel}: fn FrontendReqHandler::{n}: assigns unknown field `{f}`")
        setters.append(f"⟨{lean_str(n)}, {lean_str(f)}, {src}⟩")
    out.append("def setters : List Setter := " + lean_list(setters))
    expect_text(fns, "get_tx_raw_fd", ("self . tx_sock . as_raw_fd ( )",), rel, "FrontendReqHandler")
    out.append("")
    for h in translated:
        t = FTr(world, fns, h, "x")
        steps, defs, term = t.top()
        if t.msg_ty or t.slice_ty or t.call is not None:
            raise Untranslatable(f"{rel}: fn {h}: decodes a concrete message / invokes the handler (unexpected)")
        sizes.update(t.sizes)
        out += [f"/-! ### `fn {h}` -/", f"namespace {h}", "", "abbrev Env := HIn", "def bufLen (x : Env) : Nat := x.bufLen", ""]
        out.append("def steps : List (Step Env) := [" + ("\n  " + ",\n  ".join(steps) + "\n]" if steps else "]"))
        out.append("")
        for name, ty, val in defs:
            out.append(f"def {name} : {ty} := {val}")
        out.append(f"def term : Term Env := {term}")
        out += ["", f"end {h}", ""]
    t = FTr(world, fns, "send_ack_message", "x.i")
    steps, cond, inner, h, msg = t.top_ack()
    sizes.update(t.sizes)
    out += ["/-! ### `fn send_ack_message` -/", "namespace send_ack_message", "", "abbrev Env := AckEnv",
            "def bufLen (x : Env) : Nat := x.i.bufLen", ""]
    out.append("/-- early exits in front of the conditional block -/")
    out.append("def steps : List (Step Env) := [" + ("\n  " + ",\n  ".join(steps) + "\n]" if steps else "]"))
    out.append("/-- the condition of the `if` around the send -/")
    out.append(f"def sendCond : Env → Bool := (fun x => {cond})")
    out.append("/-- inside the block, in front of the send: the inlined `new_reply_header::<VhostUserU64>(req)?` and the side "
               "condition of the value's arithmetic -/")
    out.append("def sendSteps : List (Step Env) := [" + ("\n  " + ",\n  ".join(inner) + "\n]" if inner else "]"))
    out.append("/-- the header handed to `send_message`: request, flags, size -/")
    out.append(f"def sendHdr : List (Env → Nat) := [(fun x => {h['request'].e}), (fun x => {h['flags'].e}), (fun x => {h['size'].e})]")
    out.append(f"/-- the fields of the `{msg.ty}` sent -/")
    out.append("def sendFields : List (Env → Nat) := [" + ", ".join(f"(fun x => {v.e})" for _, v in msg.fields) + "]")
    out.append(f"def sendTy : String := {lean_str(msg.ty)}")
    out.append("/-- after the block: `Ok(())` (the caller returns the handler's result) -/")
    out.append("def ret : String := \"Ok(())\"")
    out += ["", "end send_ack_message", "", "end FeSrv", ""]
    return out


# ------------------------------------------------------------------------------------------------------------------

def gen_proxy(world):
    try:
        return _gen_proxy(world)
    except Untranslatable:
        raise
    except Exception as e:   # an unexpected shape must not surface as a Python error (or be skipped)
        raise Untranslatable(f"{REL_B} / {REL_G} / {REL_F}: proxy translation: unexpected shape ({type(e).__name__}: {e})")


def _gen_proxy(world):
    repo = gen_proxy.repo
    sizes = {}
    a = gen_backend(world, repo, sizes)
    b = gen_gpu(world, repo, sizes)
    c = gen_fesrv(world, repo, sizes)
    out = [LEAN_HEADER, "import VhostModel.Base", "import VhostModel.Base.HelperSig", "import VhostModel.Base.ProxySig",
           "import VhostModel.Gen.Codes", "", "set_option linter.unusedVariables false", "",
           f"/-! The request proxies `Backend` ({REL_B}) and `GpuBackend` ({REL_G}) and the acknowledgement path of",
           f"`FrontendReqHandler` ({REL_F}); vocabulary: `VhostModel/Base/ProxySig.lean`, `VhostModel/Base/HelperSig.lean`. -/",
           "namespace Gen.ProxyOps", "open HelperSig ProxySig", "",
           "/-- `mem::size_of::<T>()` as computed by the translator from the struct definitions (cross-checked against the",
           "generated layout table by `Props.ProxyOps.sizes_match_layout`) -/",
           "def sizes : List (String × Nat) := [" + ", ".join(f'("{k}", {v})' for k, v in sorted(sizes.items())) + "]", ""]
    out += a + b + c
    out.append("end Gen.ProxyOps")
    return "\n".join(out) + "\n"


def generators(repo):
    gen_proxy.repo = repo
    return [("ProxyOps", gen_proxy)]
