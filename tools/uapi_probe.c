/* uapi_probe: prints every VHOST_* ioctl of <linux/vhost.h> (direction, type, number, argument size,
 * full request value) and sizeof/alignof/offsetof of every struct of <linux/vhost_types.h>, as the C
 * compiler sees them.  checks/c19.py compares this output with what the Spec driver reports from
 * lean/VhostModel/Spec/Uapi.lean for the same names; a mismatch is a framework error (the hand
 * transcription of the UAPI is wrong), never a property violation.
 *
 * output lines:
 *   ioctl <NAME> <dir 0..3> <type hex> <nr hex> <size dec> <request hex>
 *   sizeof <struct> <size dec> <align dec>
 *   offsetof <struct> <field> <offset dec> <width dec>
 *   const <NAME> <value dec>
 */
#include <stdio.h>
#include <stddef.h>
#include <sys/ioctl.h>
#include <linux/vhost.h>

#define IO(n) printf("ioctl %s %u %x %x %u %lx\n", #n, (unsigned)_IOC_DIR(n), (unsigned)_IOC_TYPE(n), \
                     (unsigned)_IOC_NR(n), (unsigned)_IOC_SIZE(n), (unsigned long)(n))
#define SZ(s) printf("sizeof %s %zu %zu\n", #s, sizeof(struct s), _Alignof(struct s))
#define OFF(s, f) printf("offsetof %s %s %zu %zu\n", #s, #f, offsetof(struct s, f), sizeof(((struct s *)0)->f))
#define OFF0(s, f) printf("offsetof %s %s %zu 0\n", #s, #f, offsetof(struct s, f))
#define CONST(n) printf("const %s %ld\n", #n, (long)(n))

int main(void)
{
    IO(VHOST_GET_FEATURES);
    IO(VHOST_SET_FEATURES);
    IO(VHOST_SET_OWNER);
    IO(VHOST_RESET_OWNER);
    IO(VHOST_SET_MEM_TABLE);
    IO(VHOST_SET_LOG_BASE);
    IO(VHOST_SET_LOG_FD);
    IO(VHOST_SET_VRING_NUM);
    IO(VHOST_SET_VRING_ADDR);
    IO(VHOST_SET_VRING_BASE);
    IO(VHOST_GET_VRING_BASE);
    IO(VHOST_SET_VRING_ENDIAN);
    IO(VHOST_GET_VRING_ENDIAN);
    IO(VHOST_SET_VRING_KICK);
    IO(VHOST_SET_VRING_CALL);
    IO(VHOST_SET_VRING_ERR);
    IO(VHOST_SET_VRING_BUSYLOOP_TIMEOUT);
    IO(VHOST_GET_VRING_BUSYLOOP_TIMEOUT);
    IO(VHOST_SET_BACKEND_FEATURES);
    IO(VHOST_GET_BACKEND_FEATURES);
    IO(VHOST_NET_SET_BACKEND);
    IO(VHOST_SCSI_SET_ENDPOINT);
    IO(VHOST_SCSI_CLEAR_ENDPOINT);
    IO(VHOST_SCSI_GET_ABI_VERSION);
    IO(VHOST_SCSI_SET_EVENTS_MISSED);
    IO(VHOST_SCSI_GET_EVENTS_MISSED);
    IO(VHOST_VSOCK_SET_GUEST_CID);
    IO(VHOST_VSOCK_SET_RUNNING);
    IO(VHOST_VDPA_GET_DEVICE_ID);
    IO(VHOST_VDPA_GET_STATUS);
    IO(VHOST_VDPA_SET_STATUS);
    IO(VHOST_VDPA_GET_CONFIG);
    IO(VHOST_VDPA_SET_CONFIG);
    IO(VHOST_VDPA_SET_VRING_ENABLE);
    IO(VHOST_VDPA_GET_VRING_NUM);
    IO(VHOST_VDPA_SET_CONFIG_CALL);
    IO(VHOST_VDPA_GET_IOVA_RANGE);
    IO(VHOST_VDPA_GET_CONFIG_SIZE);
    IO(VHOST_VDPA_GET_VQS_COUNT);
    IO(VHOST_VDPA_GET_GROUP_NUM);
    IO(VHOST_VDPA_GET_AS_NUM);
    IO(VHOST_VDPA_GET_VRING_GROUP);
    IO(VHOST_VDPA_SET_GROUP_ASID);
    IO(VHOST_VDPA_SUSPEND);

    SZ(vhost_vring_state); OFF(vhost_vring_state, index); OFF(vhost_vring_state, num);
    SZ(vhost_vring_file); OFF(vhost_vring_file, index); OFF(vhost_vring_file, fd);
    SZ(vhost_vring_addr); OFF(vhost_vring_addr, index); OFF(vhost_vring_addr, flags);
    OFF(vhost_vring_addr, desc_user_addr); OFF(vhost_vring_addr, used_user_addr);
    OFF(vhost_vring_addr, avail_user_addr); OFF(vhost_vring_addr, log_guest_addr);
    SZ(vhost_iotlb_msg); OFF(vhost_iotlb_msg, iova); OFF(vhost_iotlb_msg, size); OFF(vhost_iotlb_msg, uaddr);
    OFF(vhost_iotlb_msg, perm); OFF(vhost_iotlb_msg, type);
    SZ(vhost_msg); OFF(vhost_msg, type); OFF(vhost_msg, iotlb); OFF(vhost_msg, padding);
    SZ(vhost_msg_v2); OFF(vhost_msg_v2, type); OFF(vhost_msg_v2, asid); OFF(vhost_msg_v2, iotlb);
    OFF(vhost_msg_v2, padding);
    SZ(vhost_memory_region); OFF(vhost_memory_region, guest_phys_addr); OFF(vhost_memory_region, memory_size);
    OFF(vhost_memory_region, userspace_addr); OFF(vhost_memory_region, flags_padding);
    SZ(vhost_memory); OFF(vhost_memory, nregions); OFF(vhost_memory, padding); OFF0(vhost_memory, regions);
    SZ(vhost_scsi_target); OFF(vhost_scsi_target, abi_version); OFF(vhost_scsi_target, vhost_wwpn);
    OFF(vhost_scsi_target, vhost_tpgt); OFF(vhost_scsi_target, reserved);
    SZ(vhost_vdpa_config); OFF(vhost_vdpa_config, off); OFF(vhost_vdpa_config, len); OFF0(vhost_vdpa_config, buf);
    SZ(vhost_vdpa_iova_range); OFF(vhost_vdpa_iova_range, first); OFF(vhost_vdpa_iova_range, last);

    CONST(VHOST_VIRTIO);
    CONST(VHOST_IOTLB_MSG); CONST(VHOST_IOTLB_MSG_V2);
    CONST(VHOST_ACCESS_RO); CONST(VHOST_ACCESS_WO); CONST(VHOST_ACCESS_RW);
    CONST(VHOST_IOTLB_MISS); CONST(VHOST_IOTLB_UPDATE); CONST(VHOST_IOTLB_INVALIDATE);
    CONST(VHOST_IOTLB_ACCESS_FAIL); CONST(VHOST_IOTLB_BATCH_BEGIN); CONST(VHOST_IOTLB_BATCH_END);
    CONST(VHOST_BACKEND_F_IOTLB_MSG_V2); CONST(VHOST_VRING_F_LOG);
    return 0;
}
