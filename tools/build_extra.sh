#!/bin/sh
# Extra native pieces (called by setup.sh and by checks/c19.py when outputs are missing or stale):
#   tools/build/uapi_probe            — prints ioctl numbers / sizeof / offsetof from /usr/include/linux/vhost.h
#   tools/build/libioctl_interpose.so — LD_PRELOAD interposer for the `kern` harness family
set -e
here="$(cd "$(dirname "$0")" && pwd)"
mkdir -p "$here/build"
gcc -O1 -Wall -o "$here/build/uapi_probe" "$here/uapi_probe.c"
gcc -O1 -Wall -shared -fPIC -o "$here/build/libioctl_interpose.so" "$here/ioctl_interpose.c" -ldl
echo "build_extra: ok"
