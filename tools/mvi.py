#!/usr/bin/env python3
"""dev helper: model-vs-implementation diff for one family generator.  usage: tools/mvi.py <module.Class> [n]"""
import sys, os, importlib
sys.path.insert(0, os.path.dirname(os.path.dirname(os.path.abspath(__file__))))
from checks import common as C
modname, cls = sys.argv[1].rsplit(".", 1)
fam = getattr(importlib.import_module("checks." + modname), cls)()
tier = sys.argv[2] if len(sys.argv) > 2 else "quick"
lines = fam.generate(tier, C.Rng(int(os.environ.get("VERIF_SEED", "1"))))
impl, errs = C.run_lines_parallel(C.HARNESS_BIN, [fam.harness_cmd], lines, jobs=16)
model, _ = C.run_lines_parallel(C.DRIVER, [], lines, jobs=16)
bad = 0
for l in lines:
    if impl.get(l) != model.get(l):
        bad += 1
        if bad <= int(os.environ.get("SHOW", "5")):
            print("SCEN ", l[:1500]); print("IMPL ", (impl.get(l) or "")[:1500]); print("MODEL", (model.get(l) or "")[:1500]); print()
print(f"{len(lines)} scenarios, {bad} differ, harness errs={errs}")
