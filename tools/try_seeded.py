#!/usr/bin/env python3
"""Apply a seeded change to /repo, run the given checks, undo it.  usage: tools/try_seeded.py <patch.diff> C07 [C04 ...]"""
import subprocess, sys, os, re, json
V = os.path.dirname(os.path.dirname(os.path.abspath(__file__)))
patch = os.path.abspath(sys.argv[1])
props = sys.argv[2:]
st = subprocess.run(["git", "-C", "/repo", "status", "--porcelain"], capture_output=True, text=True).stdout.strip()
if st:
    print("refusing: /repo working tree is not clean:\n" + st); sys.exit(2)
r = subprocess.run(["git", "-C", "/repo", "apply", patch], capture_output=True, text=True)
if r.returncode != 0:
    print("patch does not apply:", r.stderr); sys.exit(2)
res = {}
import shutil, tempfile
evbak = tempfile.mkdtemp(prefix="evbak")
shutil.copytree(os.path.join(V, "evidence"), os.path.join(evbak, "evidence"))
try:
    for p in props:
        o = subprocess.run([os.path.join(V, "check.py"), p], capture_output=True, text=True, cwd=V)
        lines = [l for l in o.stdout.splitlines() if l.startswith("[") or l.startswith("VIOLATION")]
        lines = lines[:6] + [l for l in o.stdout.splitlines() if l.startswith("KNOWN")][:2]
        res[p] = {"exit": o.returncode, "lines": lines}
        print(p, "exit", o.returncode)
        for l in lines:
            print("   ", l[:400])
finally:
    subprocess.run(["git", "-C", "/repo", "checkout", "--", "."], check=True)
    subprocess.run(["git", "-C", "/repo", "clean", "-fdq", "--", "vhost/tests", "vhost-user-backend/tests"], check=False)
    # evidence must describe the unchanged tree: put back what was there
    shutil.rmtree(os.path.join(V, "evidence")); shutil.copytree(os.path.join(evbak, "evidence"), os.path.join(V, "evidence")); shutil.rmtree(evbak)
    # regenerate Gen/*.lean from the clean tree, rebuild the harness against it
    subprocess.run([sys.executable, os.path.join(V, "tools", "rs2lean.py")], capture_output=True)
    subprocess.run(["cargo", "build", "--release", "--offline"], cwd=os.path.join(V, "harness"), capture_output=True)
print(json.dumps(res))
