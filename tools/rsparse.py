"""A small Rust tokenizer / item scanner / expression parser.

This is *not* a Rust front end.  It recognises the fixed set of item shapes that
rs2lean.py translates and raises `Untranslatable` (naming file and item) for anything else.
"""
import re


class Untranslatable(Exception):
    pass


class Tok:
    __slots__ = ("kind", "text", "line")

    def __init__(self, kind, text, line):
        self.kind, self.text, self.line = kind, text, line

    def __repr__(self):
        return f"{self.kind}:{self.text}@{self.line}"


_PUNCT3 = ["<<=", ">>=", "...", "..="]
_PUNCT2 = ["::", "->", "=>", "==", "!=", "<=", ">=", "&&", "||", "<<", ">>", "+=", "-=", "*=", "/=",
           "|=", "&=", "^=", "..", "%="]


def tokenize(src):
    toks = []
    i, n, line = 0, len(src), 1
    while i < n:
        c = src[i]
        if c == "\n":
            line += 1
            i += 1
        elif c.isspace():
            i += 1
        elif src.startswith("//", i):
            j = src.find("\n", i)
            i = n if j < 0 else j
        elif src.startswith("/*", i):
            depth, j = 1, i + 2
            while j < n and depth:
                if src.startswith("/*", j):
                    depth += 1
                    j += 2
                elif src.startswith("*/", j):
                    depth -= 1
                    j += 2
                else:
                    if src[j] == "\n":
                        line += 1
                    j += 1
            i = j
        elif c == '"':
            j = i + 1
            while j < n and src[j] != '"':
                if src[j] == "\\":
                    j += 1
                if src[j] == "\n":
                    line += 1
                j += 1
            toks.append(Tok("str", src[i:j + 1], line))
            i = j + 1
        elif c == "r" and re.match(r'r#*"', src[i:i + 8]):
            m = re.match(r'r(#*)"', src[i:])
            end = '"' + m.group(1)
            j = src.find(end, i + len(m.group(0)))
            line += src[i:j].count("\n")
            toks.append(Tok("str", src[i:j + len(end)], line))
            i = j + len(end)
        elif c == "'":
            # char literal or lifetime
            m = re.match(r"'(\\.[^']*|[^'\\])'", src[i:])
            if m:
                toks.append(Tok("char", m.group(0), line))
                i += len(m.group(0))
            else:
                m = re.match(r"'[A-Za-z_][A-Za-z0-9_]*", src[i:])
                toks.append(Tok("lifetime", m.group(0), line))
                i += len(m.group(0))
        elif c.isdigit():
            m = re.match(r"0x[0-9a-fA-F_]+|0b[01_]+|0o[0-7_]+|[0-9][0-9_]*", src[i:])
            txt = m.group(0)
            j = i + len(txt)
            suf = re.match(r"(u8|u16|u32|u64|u128|usize|i8|i16|i32|i64|isize)", src[j:])
            sfx = ""
            if suf:
                sfx = suf.group(0)
                j += len(sfx)
            t = Tok("int", txt.replace("_", ""), line)
            toks.append(t)
            if sfx:
                toks.append(Tok("intsuffix", sfx, line))
            i = j
        elif c.isalpha() or c == "_":
            m = re.match(r"[A-Za-z_][A-Za-z0-9_]*", src[i:])
            toks.append(Tok("ident", m.group(0), line))
            i += len(m.group(0))
        else:
            for p in _PUNCT3 + _PUNCT2:
                if src.startswith(p, i):
                    toks.append(Tok("punct", p, line))
                    i += len(p)
                    break
            else:
                toks.append(Tok("punct", c, line))
                i += 1
    return toks


OPEN = {"(": ")", "[": "]", "{": "}"}


def match_close(toks, i):
    """toks[i] is an opening delimiter; return index of its matching close."""
    stack = [OPEN[toks[i].text]]
    j = i + 1
    while stack:
        t = toks[j]
        if t.kind == "punct":
            if t.text in OPEN:
                stack.append(OPEN[t.text])
            elif t.text in (")", "]", "}"):
                if t.text != stack.pop():
                    raise Untranslatable(f"unbalanced delimiter at line {t.line}")
        j += 1
    return j - 1


def int_value(t):
    s = t.text
    if s.startswith("0x"):
        return int(s, 16)
    if s.startswith("0b"):
        return int(s, 2)
    if s.startswith("0o"):
        return int(s, 8)
    return int(s)


# ------------------------------------------------------------------------------------------
# item scanner


class Item:
    def __init__(self, kind, name, attrs, toks, extra=None):
        self.kind, self.name, self.attrs, self.toks, self.extra = kind, name, attrs, toks, extra or {}


def _attr_text(toks):
    return "".join(t.text for t in toks)


def cfg_excluded(attrs, features=()):
    """True if an item guarded by these attributes is compiled out (tests; features not enabled)."""
    for a in attrs:
        m = re.match(r'#\[cfg\((.*)\)\]$', a)
        if not m:
            continue
        c = m.group(1)
        if c == "test" or "test," in c or c.startswith("all(test"):
            return True
        m2 = re.match(r'feature="([^"]+)"$', c)
        if m2:
            if m2.group(1) not in features:
                return True
            continue
        m2 = re.match(r'not\(feature="([^"]+)"\)$', c)
        if m2:
            if m2.group(1) in features:
                return True
            continue
        m2 = re.match(r'any\((.*)\)$', c)
        if m2:
            fs = re.findall(r'feature="([^"]+)"', m2.group(1))
            if fs and not any(f in features for f in fs):
                return True
            continue
    return False


def scan_items(toks, features=()):
    """Yield module-level items (recursing into nothing)."""
    items = []
    i, n = 0, len(toks)
    attrs = []
    while i < n:
        t = toks[i]
        if t.kind == "punct" and t.text == "#":
            j = i + 1
            if toks[j].text == "!":
                j += 1
            k = match_close(toks, j)
            if toks[i + 1].text != "!":
                attrs.append(_attr_text(toks[i:k + 1]))
            i = k + 1
            continue
        if t.kind == "ident" and t.text == "pub":
            i += 1
            if toks[i].text == "(":
                i = match_close(toks, i) + 1
            continue
        if t.kind == "ident" and t.text in ("enum_value", "bitflags") and toks[i + 1].text == "!":
            k = match_close(toks, i + 2)
            if not cfg_excluded(attrs, features):
                items.append(Item(t.text, None, attrs, toks[i + 3:k]))
            attrs = []
            i = k + 1
            if i < n and toks[i].text == ";":
                i += 1
            continue
        if t.kind == "ident" and t.text == "const" and toks[i + 1].kind == "ident" and toks[i + 2].text == ":":
            j = i
            while toks[j].text != ";":
                if toks[j].text in OPEN:
                    j = match_close(toks, j)
                j += 1
            if not cfg_excluded(attrs, features):
                items.append(Item("const", toks[i + 1].text, attrs, toks[i + 1:j]))
            attrs = []
            i = j + 1
            continue
        if t.kind == "ident" and t.text in ("struct", "union"):
            name = toks[i + 1].text
            j = i + 2
            while toks[j].text not in ("{", ";", "("):
                j += 1
            if toks[j].text == "{":
                k = match_close(toks, j)
                if not cfg_excluded(attrs, features):
                    items.append(Item(t.text, name, attrs, toks[j + 1:k]))
                i = k + 1
            elif toks[j].text == "(":
                k = match_close(toks, j)
                i = k + 1
                while toks[i].text != ";":
                    i += 1
                i += 1
            else:
                if not cfg_excluded(attrs, features):
                    items.append(Item(t.text, name, attrs, []))
                i = j + 1
            attrs = []
            continue
        if t.kind == "ident" and t.text == "impl":
            j = i + 1
            # header tokens up to the body brace (skipping generic brackets)
            depth = 0
            while not (toks[j].text == "{" and depth == 0):
                if toks[j].text == "<":
                    depth += 1
                elif toks[j].text == ">":
                    depth -= 1
                elif toks[j].text == ">>":
                    depth -= 2
                j += 1
            k = match_close(toks, j)
            header = toks[i + 1:j]
            if not cfg_excluded(attrs, features):
                items.append(Item("impl", None, attrs, toks[j + 1:k], {"header": header}))
            attrs = []
            i = k + 1
            continue
        if t.kind == "ident" and t.text in ("mod", "fn", "trait", "enum", "unsafe", "type", "use", "extern",
                                            "static", "macro_rules"):
            if t.text == "unsafe" and toks[i + 1].text == "impl":
                i += 1
                continue
            # skip to end of item
            j = i
            while toks[j].text not in ("{", ";"):
                if toks[j].text in ("(", "["):
                    j = match_close(toks, j)
                j += 1
            if toks[j].text == "{":
                k = match_close(toks, j)
                if t.text == "fn" and not cfg_excluded(attrs, features):
                    items.append(Item("fn", toks[i + 1].text, attrs, toks[i:k + 1]))
                j = k
            attrs = []
            i = j + 1
            continue
        # anything else: skip one token
        attrs = []
        i += 1
    return items


def impl_header(item):
    """Return (trait_name or None, type_name) for an impl item."""
    h = item.extra["header"]
    # drop leading generics
    i = 0
    if h and h[0].text == "<":
        depth = 0
        while True:
            if h[i].text == "<":
                depth += 1
            elif h[i].text == ">":
                depth -= 1
            i += 1
            if depth == 0:
                break
    rest = h[i:]
    # cut a trailing where-clause
    for k, t in enumerate(rest):
        if t.kind == "ident" and t.text == "where":
            rest = rest[:k]
            break
    names = []
    depth = 0
    cur = []
    for t in rest:
        if t.text == "<":
            depth += 1
        elif t.text == ">":
            depth -= 1
        elif depth == 0:
            if t.kind == "ident" and t.text == "for":
                names.append(cur)
                cur = []
            else:
                cur.append(t)
    names.append(cur)

    def last_ident(ts):
        ids = [t.text for t in ts if t.kind == "ident"]
        return ids[-1] if ids else None

    if len(names) == 2:
        return last_ident(names[0]), last_ident(names[1])
    return None, last_ident(names[0])


def impl_fns(item, features=()):
    """Yield (name, attrs, param_tokens, ret_tokens, body_tokens) for each fn in an impl body."""
    toks = item.toks
    i, n = 0, len(toks)
    attrs = []
    out = []
    while i < n:
        t = toks[i]
        if t.text == "#":
            k = match_close(toks, i + 1)
            attrs.append(_attr_text(toks[i:k + 1]))
            i = k + 1
            continue
        if t.kind == "ident" and t.text == "fn":
            name = toks[i + 1].text
            j = i + 2
            while toks[j].text != "(":
                j += 1
            k = match_close(toks, j)
            params = toks[j + 1:k]
            j = k + 1
            ret = []
            while toks[j].text not in ("{", ";"):
                ret.append(toks[j])
                j += 1
            if toks[j].text == "{":
                k = match_close(toks, j)
                body = toks[j + 1:k]
                j = k
            else:
                body = None
            if not cfg_excluded(attrs, features):
                out.append((name, attrs, params, ret, body))
            attrs = []
            i = j + 1
            continue
        if t.kind == "ident" and t.text in ("type", "const"):
            while toks[i].text != ";":
                if toks[i].text in OPEN:
                    i = match_close(toks, i)
                i += 1
            i += 1
            attrs = []
            continue
        i += 1
    return out


# ------------------------------------------------------------------------------------------
# expression / statement parser (subset)


class Node:
    def __init__(self, op, *args, **kw):
        self.op, self.args, self.kw = op, list(args), kw

    def __repr__(self):
        return f"({self.op} {' '.join(map(repr, self.args))}{' ' + repr(self.kw) if self.kw else ''})"


_BINPREC = [
    ("||",), ("&&",), ("==", "!=", "<", ">", "<=", ">="), ("|",), ("^",), ("&",), ("<<", ">>"), ("+", "-"),
    ("*", "/", "%"),
]


BODY_FEATURES = ("vhost-user", "vhost-user-frontend", "vhost-user-backend", "vhost-kern", "vhost-vdpa", "vhost-net",
                 "vhost-vsock", "postcopy")


class Parser:
    def __init__(self, toks, where="?"):
        self.t, self.i, self.where = toks, 0, where

    def attrs(self):
        """consume `#[...]` attributes; returns True if the following item is compiled out"""
        out = []
        while self.at("#"):
            k = match_close(self.t, self.i + 1)
            out.append("".join(x.text for x in self.t[self.i:k + 1]))
            self.i = k + 1
        return cfg_excluded(out, BODY_FEATURES)

    def err(self, msg):
        line = self.t[self.i].line if self.i < len(self.t) else (self.t[-1].line if self.t else 0)
        raise Untranslatable(f"{self.where}: line {line}: {msg}")

    def peek(self, k=0):
        return self.t[self.i + k] if self.i + k < len(self.t) else Tok("eof", "", 0)

    def eat(self, text=None):
        t = self.peek()
        if text is not None and t.text != text:
            self.err(f"expected {text!r}, found {t.text!r}")
        self.i += 1
        return t

    def at(self, text):
        return self.peek().text == text

    # block := stmt* [expr]
    def block(self):
        stmts = []
        while self.peek().kind != "eof":
            if self.at("#"):
                if self.attrs():
                    # compiled out: parse the statement and drop it
                    sub = Parser(self.t[self.i:], self.where)
                    one = sub.one_stmt()
                    self.i += sub.i
                continue
            if self.at("let"):
                self.eat()
                mut = False
                if self.at("mut"):
                    self.eat()
                    mut = True
                if self.at("("):
                    # tuple pattern
                    k = match_close(self.t, self.i)
                    name = " ".join(x.text for x in self.t[self.i:k + 1])
                    self.i = k + 1
                else:
                    name = self.eat().text
                ty = None
                if self.at(":"):
                    self.eat()
                    ty = self.type_()
                self.eat("=")
                e = self.expr()
                self.eat(";")
                if not (name == "_" and e is not None and e.op == "ref" and e.args and e.args[0] is not None and e.args[0].op == "path"):   # `let _ = &x;` does nothing
                    stmts.append(Node("let", name, e, ty=ty, mut=mut))
            elif self.at("return"):
                self.eat()
                e = None if self.at(";") else self.expr()
                if self.at(";"):
                    self.eat()
                stmts.append(Node("return", e))
            else:
                e = self.expr()
                if self.peek().kind == "punct" and self.peek().text in ("=", "+=", "-=", "|=", "&=", "^=", "*=", "/=", "<<=", ">>="):
                    op = self.eat().text
                    rhs = self.expr()
                    e = Node("assign", op, e, rhs)
                if self.at(";"):
                    self.eat()
                    if e.op == "macro" and e.args and e.args[0] in ("debug_assert", "debug_assert_eq", "debug_assert_ne"):
                        # no effect on release semantics; a failing one panics in the correspondence runs (the harness is
                        # built with debug assertions on), so it is not part of what the translators render
                        continue
                    stmts.append(Node("stmt", e))
                elif e.op in ("if", "match", "block") and self.peek().kind != "eof":
                    stmts.append(Node("stmt", e))
                else:
                    stmts.append(Node("tail", e))
        return stmts

    def one_stmt(self):
        """parse exactly one statement (used to skip cfg'd-out statements)"""
        if self.at("let"):
            depth = 0
            while True:
                t = self.eat()
                if t.text in OPEN:
                    depth += 1
                elif t.text in (")", "]", "}"):
                    depth -= 1
                elif t.text == ";" and depth == 0:
                    return None
        e = self.expr()
        if self.at(";"):
            self.eat()
        return e

    def type_(self):
        # path type possibly with generics / array / reference
        out = []
        depth = 0
        while True:
            t = self.peek()
            if t.kind == "eof":
                break
            if depth == 0 and t.text in ("=", ";", ",", ")", "{", ">") and t.text != ">":
                break
            if t.text == ">" and depth == 0:
                break
            if t.text in ("<", "["):
                depth += 1
            elif t.text in (">", "]"):
                depth -= 1
            out.append(self.eat().text)
        return "".join(out)

    def expr(self, level=0):
        if level == len(_BINPREC):
            return self.unary()
        lhs = self.expr(level + 1)
        while self.peek().kind == "punct" and self.peek().text in _BINPREC[level]:
            # `<` after an expression inside this subset is always comparison
            op = self.eat().text
            rhs = self.expr(level + 1)
            lhs = Node("bin", op, lhs, rhs)
        return lhs

    def unary(self):
        t = self.peek()
        if t.text == "!":
            self.eat()
            return Node("not", self.unary())
        if t.text == "-":
            self.eat()
            return Node("neg", self.unary())
        if t.text == "&":
            self.eat()
            if self.at("mut"):
                self.eat()
            return Node("ref", self.unary())
        if t.text == "*":
            self.eat()
            return Node("deref", self.unary())
        return self.cast()

    def cast(self):
        e = self.postfix()
        while self.at("as"):
            self.eat()
            ty = self.type_atom()
            e = Node("cast", e, ty)
        return e

    def type_atom(self):
        t = self.eat()
        s = t.text
        while self.at("::"):
            self.eat()
            s += "::" + self.eat().text
        return s

    def args(self):
        self.eat("(")
        out = []
        while not self.at(")"):
            out.append(self.closure_or_expr())
            if self.at(","):
                self.eat()
        self.eat(")")
        return out

    def closure_or_expr(self):
        if self.at("|") or self.at("||"):
            if self.at("||"):
                self.eat()
                params = []
            else:
                self.eat("|")
                params = []
                while not self.at("|"):
                    params.append(self.eat().text)
                self.eat("|")
            body = self.expr()
            return Node("closure", params, body)
        return self.expr()

    def postfix(self):
        e = self.primary()
        while True:
            if self.at("."):
                self.eat()
                name = self.eat()
                if self.at("("):
                    a = self.args()
                    e = Node("mcall", e, name.text, *a)
                elif self.at("::"):
                    # turbofish: .method::<T>(..)
                    self.eat()
                    self.eat("<")
                    depth = 1
                    tf = []
                    while depth:
                        x = self.eat().text
                        if x == "<":
                            depth += 1
                        elif x == ">":
                            depth -= 1
                        if depth:
                            tf.append(x)
                    a = self.args()
                    e = Node("mcall", e, name.text, *a, turbofish="".join(tf))
                else:
                    e = Node("field", e, name.text)
            elif self.at("("):
                a = self.args()
                e = Node("call", e, *a)
            elif self.at("["):
                self.eat()
                idx = self.expr()
                self.eat("]")
                e = Node("index", e, idx)
            elif self.at("?"):
                self.eat()
                e = Node("try", e)
            else:
                return e

    def primary(self):
        t = self.peek()
        if t.kind == "int":
            self.eat()
            sfx = None
            if self.peek().kind == "intsuffix":
                sfx = self.eat().text
            return Node("int", int_value(t), sfx=sfx)
        if t.kind == "str":
            self.eat()
            return Node("str", t.text)
        if t.text == "(":
            self.eat()
            if self.at(")"):
                self.eat()
                return Node("unit")
            e = self.expr()
            if self.at(","):
                items = [e]
                while self.at(","):
                    self.eat()
                    if self.at(")"):
                        break
                    items.append(self.expr())
                self.eat(")")
                return Node("tuple", *items)
            self.eat(")")
            return Node("paren", e)
        if t.text == "[":
            k = match_close(self.t, self.i)
            inner = " ".join(x.text for x in self.t[self.i + 1:k])
            self.i = k + 1
            return Node("array", inner)
        if t.text == "{":
            k = match_close(self.t, self.i)
            inner = Parser(self.t[self.i + 1:k], self.where).block()
            self.i = k + 1
            return Node("block", *inner)
        if t.kind == "ident" and t.text == "if":
            return self.if_()
        if t.kind == "ident" and t.text == "match":
            return self.match_()
        if t.kind == "ident" and t.text == "unsafe":
            self.eat()
            return self.primary()
        if t.kind == "ident":
            path = [self.eat().text]
            generics = []
            while self.at("::"):
                self.eat()
                if self.at("<"):
                    # generic args in path: kept as text
                    depth = 0
                    g = []
                    while True:
                        x = self.eat().text
                        if x == "<":
                            depth += 1
                        elif x == ">":
                            depth -= 1
                        elif x == ">>":
                            depth -= 2
                        if depth == 0:
                            break
                        if not (x == "<" and depth == 1):
                            g.append(x)
                    generics.append("".join(g))
                    continue
                path.append(self.eat().text)
            # macro invocation: name!(..) / name![..] / name!{..}
            if self.at("!") and self.peek(1).text in ("(", "[", "{"):
                self.eat()
                k = match_close(self.t, self.i)
                inner = self.t[self.i + 1:k]
                self.i = k + 1
                return Node("macro", "::".join(path), " ".join(x.text for x in inner))
            # struct literal: Path { field: expr, .. } — only when path starts uppercase & next is `{`
            # and we are not in a condition context (conditions in this subset never name structs).
            if self.at("{") and path[-1][0].isupper() and self._struct_lit_ok():
                k = match_close(self.t, self.i)
                inner = self.t[self.i + 1:k]
                self.i = k + 1
                return Node("struct", "::".join(path), self._struct_fields(inner))
            return Node("path", *path, generics=generics) if generics else Node("path", *path)
        self.err(f"unexpected token {t.text!r}")

    no_struct = 0

    def _struct_lit_ok(self):
        return self.no_struct == 0

    def _struct_fields(self, toks):
        p = Parser(toks, self.where)
        fields = []
        while p.peek().kind != "eof":
            if p.at(".."):
                p.eat()
                fields.append(("..", p.expr()))
                break
            name = p.eat().text
            if p.at(":"):
                p.eat()
                e = p.expr()
            else:
                e = Node("path", name)
            fields.append((name, e))
            if p.at(","):
                p.eat()
        return fields

    def cond(self):
        self.no_struct += 1
        try:
            if self.at("let"):
                self.eat()
                pat = self.pattern()
                self.eat("=")
                e = self.expr()
                return Node("iflet", pat, e)
            return self.expr()
        finally:
            self.no_struct -= 1

    def block_expr(self):
        self.eat("{") if False else None
        if not self.at("{"):
            self.err("expected block")
        k = match_close(self.t, self.i)
        inner = Parser(self.t[self.i + 1:k], self.where).block()
        self.i = k + 1
        return Node("block", *inner)

    def if_(self):
        self.eat("if")
        c = self.cond()
        th = self.block_expr()
        el = None
        if self.at("else"):
            self.eat()
            if self.at("if"):
                el = self.if_()
            else:
                el = self.block_expr()
        return Node("if", c, th, el)

    def pattern(self):
        # tokens up to `=>`, `=` or `if` at depth 0
        out = []
        depth = 0
        while True:
            t = self.peek()
            if t.kind == "eof":
                break
            if depth == 0 and t.text in ("=>", "=", "if"):
                break
            if t.text in OPEN:
                depth += 1
            elif t.text in (")", "]", "}"):
                depth -= 1
            out.append(self.eat().text)
        return " ".join(out)

    def match_(self):
        self.eat("match")
        self.no_struct += 1
        scrut = self.expr()
        self.no_struct -= 1
        if not self.at("{"):
            self.err("expected match body")
        k = match_close(self.t, self.i)
        p = Parser(self.t[self.i + 1:k], self.where)
        self.i = k + 1
        arms = []
        while p.peek().kind != "eof":
            skip = p.attrs() if p.at("#") else False
            pat = p.pattern()
            guard = None
            if p.at("if"):
                p.eat()
                guard = p.expr()
            p.eat("=>")
            if p.at("return"):
                p.eat()
                body = Node("return", None if p.at(",") else p.expr())
            else:
                body = p.expr()
            if p.at(","):
                p.eat()
            if not skip:
                arms.append((pat, guard, body))
        return Node("match", scrut, arms)


def parse_block(toks, where="?"):
    return Parser(toks, where).block()


def parse_expr(toks, where="?"):
    p = Parser(toks, where)
    e = p.expr()
    if p.peek().kind != "eof":
        p.err(f"trailing tokens after expression: {p.peek().text!r}")
    return e
