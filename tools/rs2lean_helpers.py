"""Translator extension: the bodies of the private helper functions of `BackendReqHandler`
(vhost/src/vhost_user/backend_req_handler.rs) -> lean/VhostModel/Gen/Helpers.lean.

Each helper becomes a *guard program* (vocabulary: lean/VhostModel/Base/HelperSig.lean): the ordered early exits
(`Step.check`: the Rust condition translated to a Lean `Bool` function of the inputs + the side condition under which its
`usize` arithmetic is defined + the error), the raw reads of the message buffer (`Step.decode`) and the terminal action
(`Term`).  Calls of other helpers under `?` are inlined with the actual arguments.  Anything that is not one of the
statement / expression shapes handled below raises `Untranslatable` naming file, function and statement.
"""
import os
import re
from rsparse import (Untranslatable, Tok, tokenize, scan_items, impl_header, impl_fns, parse_block, Node, match_close,
                     OPEN)
from rs2lean import FEATURES, LEAN_HEADER, INT_BITS

REL = "vhost/src/vhost_user/backend_req_handler.rs"
REL_MOD = "vhost/src/vhost_user/mod.rs"

HELPERS = ["check_state", "check_request_size", "check_attached_files", "extract_request_body",
           "handle_vring_fd_request", "set_mem_table", "get_config", "set_config", "set_backend_req_fd",
           "set_gpu_socket", "check_feature", "check_proto_feature", "new_reply_header", "send_ack_message"]

ERRS = {"InvalidMessage": "invalidMessage", "InvalidParam": "invalidParam", "InvalidOperation": "invalidOperation",
        "InactiveFeature": "inactiveFeature", "InactiveOperation": "inactiveOperation", "IncorrectFds": "incorrectFds",
        "SocketBroken": "socketBroken"}


# ------------------------------------------------------------------------------------------------------------------
# token-level rewrites of three shapes the expression parser of rsparse.py does not know

def _mk(kind, text, line):
    return Tok(kind, text, line)


def rewrite_tokens(toks, where):
    """`as *const T` -> `as __ptr_T`;  `e[a..]` -> `e[__from(a)]`;  `for P in E { B }` -> `match __for(E) { P => { B } }`"""
    out = []
    i, n = 0, len(toks)
    while i < n:
        t = toks[i]
        if t.kind == "ident" and t.text == "as" and i + 3 < n and toks[i + 1].text == "*" and \
                toks[i + 2].text in ("const", "mut") and toks[i + 3].kind == "ident":
            out.append(t)
            out.append(_mk("ident", "__ptr_" + toks[i + 3].text, t.line))
            i += 4
            continue
        if t.kind == "punct" and t.text == "[" :
            k = match_close(toks, i)
            if k - 1 > i and toks[k - 1].text == "..":
                inner = rewrite_tokens(toks[i + 1:k - 1], where)
                out += [t, _mk("ident", "__from", t.line), _mk("punct", "(", t.line)] + inner + \
                       [_mk("punct", ")", t.line), toks[k]]
                i = k + 1
                continue
        if t.kind == "ident" and t.text == "for" and i + 1 < n and toks[i + 1].kind == "ident":
            # for PAT in EXPR { BODY }
            j = i + 1
            while j < n and not (toks[j].kind == "ident" and toks[j].text == "in"):
                if toks[j].text in OPEN:
                    j = match_close(toks, j)
                j += 1
            if j >= n:
                raise Untranslatable(f"{where}: line {t.line}: `for` without `in`")
            pat = toks[i + 1:j]
            b = j + 1
            while b < n and toks[b].text != "{":
                if toks[b].text in ("(", "["):
                    b = match_close(toks, b)
                b += 1
            if b >= n:
                raise Untranslatable(f"{where}: line {t.line}: `for` without body")
            e = match_close(toks, b)
            ln = t.line
            out += [_mk("ident", "match", ln), _mk("ident", "__for", ln), _mk("punct", "(", ln)] + \
                   rewrite_tokens(toks[j + 1:b], where) + [_mk("punct", ")", ln), _mk("punct", "{", ln)] + pat + \
                   [_mk("punct", "=>", ln), _mk("punct", "{", ln)] + rewrite_tokens(toks[b + 1:e], where) + \
                   [_mk("punct", "}", ln), _mk("punct", "}", ln)]
            i = e + 1
            continue
        out.append(t)
        i += 1
    return out


# ------------------------------------------------------------------------------------------------------------------
# source text of an expression (documentation strings of the generated file)

def show(n):
    if n is None:
        return ""
    op = n.op
    a = n.args
    if op == "int":
        return str(a[0]) + (n.kw.get("sfx") or "")
    if op == "path":
        s = "::".join(a)
        g = n.kw.get("generics")
        return s + ("::<" + ",".join(g) + ">" if g else "")
    if op == "paren":
        return "(" + show(a[0]) + ")"
    if op == "not":
        return "!" + show(a[0])
    if op == "ref":
        return "&" + show(a[0])
    if op == "deref":
        return "*" + show(a[0])
    if op == "neg":
        return "-" + show(a[0])
    if op == "try":
        return show(a[0]) + "?"
    if op == "cast":
        ty = a[1]
        return show(a[0]) + " as " + (("*const " + ty[6:]) if ty.startswith("__ptr_") else ty)
    if op == "bin":
        return f"{show(a[1])} {a[0]} {show(a[2])}"
    if op == "field":
        return show(a[0]) + "." + a[1]
    if op == "mcall":
        tf = n.kw.get("turbofish")
        return show(a[0]) + "." + a[1] + ("::<" + tf + ">" if tf else "") + "(" + ", ".join(show(x) for x in a[2:]) + ")"
    if op == "call":
        if a[0].op == "path" and a[0].args == ["__from"]:
            return show(a[1]) + ".."
        return show(a[0]) + "(" + ", ".join(show(x) for x in a[1:]) + ")"
    if op == "index":
        return show(a[0]) + "[" + show(a[1]) + "]"
    if op == "tuple":
        return "(" + ", ".join(show(x) for x in a) + ")"
    if op == "unit":
        return "()"
    if op == "closure":
        return "|" + ",".join(a[0]) + "| " + show(a[1])
    if op == "block":
        return "{ " + " ".join(show(x) for x in a) + " }"
    if op in ("tail", "stmt"):
        return show(a[0])
    if op == "return":
        return "return " + show(a[0])
    if op == "let":
        return f"let {a[0]} = {show(a[1])};"
    if op == "if":
        c = a[0]
        cs = ("let " + c.args[0] + " = " + show(c.args[1])) if c.op == "iflet" else show(c)
        return "if " + cs + " " + show(a[1]) + (" else " + show(a[2]) if a[2] is not None else "")
    if op == "match":
        return "match " + show(a[0]) + " { " + ", ".join(
            p.replace(" ", "") + (" if " + show(g) if g is not None else "") + " => " + show(b) for p, g, b in a[1]) + " }"
    if op == "struct":
        return a[0] + " { .. }"
    if op == "macro":
        return a[0] + "!(..)"
    if op == "array":
        return "[" + a[0] + "]"
    if op == "str":
        return a[0]
    return f"<{op}>"


def lean_str(s):
    s = re.sub(r"\s+", " ", s).strip()
    return '"' + s.replace("\\", "\\\\").replace('"', '\\"') + '"'


# ------------------------------------------------------------------------------------------------------------------
# struct sizes: the layout algorithm of rustc for repr(C) / packed / transparent (cross-checked in Lean against
# `Base.layoutByName Gen.Layout.structs` by `Props.Helpers.sizes_match_layout`)

def _ty_sa(world, t, where, depth=0):
    t = t.strip()
    if depth > 6:
        raise Untranslatable(f"{where}: type nesting too deep at {t}")
    if t == "Uuid":
        return 16, 1
    if t in INT_BITS:
        b = INT_BITS[t] // 8
        return b, b
    m = re.match(r"\[(.+);(.+)\]$", t)
    if m:
        s, a = _ty_sa(world, m.group(1), where, depth + 1)
        c = m.group(2).strip()
        c = world.consts[c][1] if c in world.consts else int(c, 0)
        return s * c, a
    if t.startswith("PhantomData"):
        return 0, 1
    if t in world.structs:
        return struct_sa(world, t, where, depth + 1)
    raise Untranslatable(f"{where}: size of type {t} unknown")


def struct_sa(world, name, where, depth=0):
    sd = world.structs[name]
    if sd["repr"] not in ("c", "packed", "transparent"):
        raise Untranslatable(f"{where}: size_of::<{name}>() of a struct without a defined layout (repr {sd['repr']})")
    packed = sd["repr"] == "packed"
    off, al = 0, 1
    for fn, ft in sd["fields"]:
        s, a = _ty_sa(world, ft, where, depth)
        a = 1 if packed else a
        off = (off + a - 1) // a * a
        off += s
        al = max(al, a)
    if not packed:
        off = (off + al - 1) // al * al
    return off, (1 if packed else al)


# ------------------------------------------------------------------------------------------------------------------
# symbolic values

class V:
    def __init__(self, kind, **kw):
        self.kind = kind
        self.__dict__.update(kw)

    def __repr__(self):
        return f"V({self.kind} {self.__dict__})"


def nat(e, bits=64, d=None, flags=False):
    return V("nat", e=e, bits=bits, d=d, flags=flags)


def boolean(e, d=None):
    return V("bool", e=e, d=d)


def d_and(a, b):
    if a is None:
        return b
    if b is None:
        return a
    return f"({a} && {b})"


def d_or_sc(x, dx, dy):
    """`x || y` is defined iff x is, and y is whenever it is evaluated (x false)"""
    if dy is None:
        return dx
    return d_and(dx, f"({x} || {dy})")


def d_and_sc(x, dx, dy):
    if dy is None:
        return dx
    return d_and(dx, f"((!{x}) || {dy})")


PARAM_FIELD = {"size": "size", "expected": "expected", "payload_size": "payloadSize"}
SELF_NAT = {"acked_virtio_features": "ackedVirtio", "acked_protocol_features": "ackedProto"}
HDR_FIELD = {"flags": ("hdrFlags", 32), "size": ("hdrSize", 32), "request": ("code", 32)}


def strip(n):
    while n is not None and n.op in ("paren",):
        n = n.args[0]
    return n


def err_of(n, where):
    """Error::X, Error::X(..), Err(Error::X), Err(Error::X(..)) -> lean HErr constructor"""
    n = strip(n)
    if n is not None and n.op == "call" and n.args[0].op == "path" and n.args[0].args == ["Err"] and len(n.args) == 2:
        return err_of(n.args[1], where)
    if n is not None and n.op == "call" and n.args[0].op == "path":
        n = n.args[0]
    if n is not None and n.op == "path" and len(n.args) == 2 and n.args[0] == "Error" and n.args[1] in ERRS:
        return ERRS[n.args[1]]
    raise Untranslatable(f"{where}: unrecognised error value `{show(n)}`")


def is_ok_unit(n):
    n = strip(n)
    return n is not None and n.op == "call" and n.args[0].op == "path" and n.args[0].args == ["Ok"] and \
        len(n.args) == 2 and strip(n.args[1]).op == "unit"


def split_params(toks):
    """[(name, type text)] of a parameter list (self dropped)"""
    out, cur, depth = [], [], 0
    for t in toks + [Tok("punct", ",", 0)]:
        if t.text in ("<", "(", "["):
            depth += 1
        elif t.text in (">", ")", "]"):
            depth -= 1
        elif t.text == ">>":
            depth -= 2
        if t.text == "," and depth == 0:
            if cur:
                txt = [x.text for x in cur]
                if "self" not in txt[:3]:
                    i = txt.index(":")
                    name = [x for x in txt[:i] if x != "mut"][-1]
                    out.append((name, "".join(txt[i + 1:])))
            cur = []
        else:
            cur.append(t)
    return out


# ------------------------------------------------------------------------------------------------------------------
# the translator proper

class Tr:
    def __init__(self, world, fns, helper, inp):
        self.w, self.fns, self.helper, self.IN = world, fns, helper, inp
        self.steps = []
        self.fn_stack = [helper]
        self.locals = {}
        self.generics = {}
        self.hdr_req = None
        self.msg_ty = None        # concrete struct decoded into `x.msg`
        self.slice_ty = None      # concrete struct decoded into `x.regions`
        self.sizes = {}           # struct name -> size (for the cross-check table)
        self.call = None          # (method, [V], [src]) handler invocation
        self.call_dropped = False
        self.reply_arms = None
        self.sendif = None
        self.sends = []
        self.file_codes = None
        self.cur = None

    # ---- errors
    def where(self):
        s = f"{REL}: fn {' -> '.join(self.fn_stack)}"
        if self.cur is not None:
            s += ": statement `" + re.sub(r"\s+", " ", show(self.cur))[:200] + "`"
        return s

    def fail(self, msg):
        raise Untranslatable(self.where() + ": " + msg)

    # ---- emission
    def emit_check(self, src, fails, d, err):
        self.steps.append(f".check {lean_str(src)} (fun x => {fails}) (fun x => {d or 'true'}) .{err}")

    def emit_decode(self, ty, off, length):
        if off.d is not None or length.d is not None:
            self.emit_check(f"(offset arithmetic of the read of {ty})", "false", d_and(off.d, length.d), "invalidMessage")
        self.steps.append(f".decode {lean_str(ty)} (fun x => {off.e}) (fun x => {length.e})")

    def flush_defd(self, v, src):
        """a value whose arithmetic may be undefined is computed here: record the side condition once"""
        if v.kind in ("nat", "bool") and v.d is not None:
            self.emit_check(src, "false", v.d, "invalidMessage")
            v.d = None
        return v

    # ---- sizes
    def size_of(self, t):
        t = self.generics.get(t, t)
        if t is None or (t not in self.w.structs and len(t) == 1):
            return nat(f"{self.IN}.sizeOfT")
        if t not in self.w.structs:
            self.fail(f"size_of::<{t}>(): unknown type")
        s, _ = struct_sa(self.w, t, self.where())
        self.sizes[t] = s
        return nat(f"({s} /- size_of {t} -/)")

    def resolve_ty(self, t):
        t = self.generics.get(t, t)
        if t in self.w.structs:
            return t
        if len(t) == 1:
            return None   # generic parameter of the helper
        self.fail(f"unknown message type {t}")

    # ---- expressions
    def tr(self, n):
        op, a = n.op, n.args
        if op == "paren":
            return self.tr(a[0])
        if op == "int":
            return nat(hex(a[0]) if a[0] > 9 else str(a[0]), INT_BITS.get(n.kw.get("sfx"), 64))
        if op == "unit":
            return V("unit")
        if op == "path":
            return self.tr_path(n)
        if op == "field":
            return self.tr_field(n)
        if op == "not":
            v = self.tr(a[0])
            if v.kind != "bool":
                self.fail(f"`!` on a non-boolean `{show(a[0])}`")
            return boolean(f"(!{v.e})", v.d)
        if op == "ref":
            return self.tr(a[0])
        if op == "deref":
            v = self.tr(a[0])
            if v.kind == "ptr" and v.ty is not None:
                return V("read", ty=v.ty, off=v.off)
            return v
        if op == "cast":
            return self.tr_cast(n)
        if op == "bin":
            return self.tr_bin(n)
        if op == "index":
            b = self.tr(a[0])
            i = strip(a[1])
            if b.kind == "buf" and i.op == "call" and i.args[0].op == "path" and i.args[0].args == ["__from"]:
                off = self.tr(i.args[1])
                if off.kind != "nat":
                    self.fail("slice start is not a number")
                return V("bufslice", off=off)
            self.fail(f"unsupported indexing `{show(n)}`")
        if op == "mcall":
            return self.tr_mcall(n)
        if op == "call":
            return self.tr_call(n)
        if op == "try":
            return self.tr_try(n)
        if op == "tuple":
            return V("tuple", items=[self.tr(x) for x in a], srcs=[show(x) for x in a])
        if op == "block":
            if len(a) == 1 and a[0].op == "tail":
                return self.tr(a[0].args[0])
            self.fail(f"unsupported block expression `{show(n)}`")
        if op == "closure":
            return V("closure", params=a[0], body=a[1])
        if op == "struct":
            return self.tr_struct_lit(n)
        self.fail(f"unsupported expression `{show(n)}` ({op})")

    def tr_path(self, n):
        p = n.args
        if len(p) == 1:
            nm = p[0]
            if nm in self.locals:
                return self.locals[nm]
            if nm == "self":
                return V("self")
            if nm in ("true", "false"):
                return boolean(nm)
            if nm == "None":
                return V("none")
            if nm == "PhantomData":
                return V("opaque")
            if nm in self.w.consts:
                ty, v = self.w.consts[nm]
                return nat(f"({hex(v)} /- {nm} -/)", INT_BITS[ty])
            self.fail(f"unknown name `{nm}`")
        if len(p) == 2 and p[0] in self.w.flags:
            rty, consts = self.w.flags[p[0]]
            for cn, v in consts:
                if cn == p[1]:
                    return nat(f"({hex(v)} /- {p[0]}::{p[1]} -/)", INT_BITS[rty], flags=True)
        if len(p) == 2 and p[0] in self.w.structs and not n.kw.get("generics"):
            return V("unitstruct", ty=p[0])
        self.fail(f"unknown path `{show(n)}`")

    def tr_field(self, n):
        b = self.tr(n.args[0])
        f = n.args[1]
        IN = self.IN
        if b.kind == "self":
            if f in SELF_NAT:
                return nat(f"{IN}.{SELF_NAT[f]}", 64)
            if f == "reply_ack_enabled":
                return boolean(f"{IN}.replyAck")
            if f == "error":
                return V("opt", isSome=f"{IN}.errorIsSome", inner=V("opaque"))
            if f == "backend":
                return V("backend")
            if f == "main_sock":
                return V("sock")
            self.fail(f"field `self.{f}` is not part of the input vocabulary")
        if b.kind == "hdrself":
            if f in HDR_FIELD:
                fld, bits = HDR_FIELD[f]
                return nat(f"{IN}.{fld}", bits)
            self.fail(f"header field `{f}`")
        if b.kind in ("msg", "loopvar"):
            if b.ty is None:
                self.fail(f"field `{f}` of a message of generic type")
            for fn_, ft in self.w.structs[b.ty]["fields"]:
                if fn_ == f:
                    if ft not in INT_BITS or INT_BITS[ft] > 64:
                        self.fail(f"field {b.ty}.{f} of unsupported type {ft}")
                    var = "x.msg" if b.kind == "msg" else b.var
                    return nat(f"{var}.{f}", INT_BITS[ft])
            self.fail(f"unknown field {b.ty}.{f}")
        self.fail(f"field access `{show(n)}` on {b.kind}")

    def tr_cast(self, n):
        to = n.args[1]
        v = self.tr(n.args[0])
        if to.startswith("__ptr_"):
            if v.kind != "ptr" or v.ty is not None:
                self.fail(f"pointer cast of something that is not `buf.as_ptr()[.add(..)]`: `{show(n)}`")
            return V("ptr", ty=to[6:], off=v.off)
        if v.kind != "nat" or to not in INT_BITS:
            self.fail(f"unsupported cast `{show(n)}`")
        tb = INT_BITS[to]
        if tb >= v.bits:
            return nat(v.e, tb, v.d)
        return nat(f"({v.e} % {2 ** tb})", tb, v.d)

    def tr_bin(self, n):
        o, l, r = n.args
        x, y = self.tr(l), self.tr(r)
        if o in ("||", "&&"):
            if x.kind != "bool" or y.kind != "bool":
                self.fail(f"`{o}` on non-booleans in `{show(n)}`")
            if o == "||":
                return boolean(f"({x.e} || {y.e})", d_or_sc(x.e, x.d, y.d))
            return boolean(f"({x.e} && {y.e})", d_and_sc(x.e, x.d, y.d))
        if x.kind != "nat" or y.kind != "nat":
            self.fail(f"`{o}` on non-numbers in `{show(n)}` ({x.kind}, {y.kind})")
        d = d_and(x.d, y.d)
        bits = max(x.bits, y.bits)
        if o in ("==", "!="):
            return boolean(f"({x.e} {o} {y.e})", d)
        if o in ("<", ">", "<=", ">="):
            lo = {"<": "<", ">": ">", "<=": "≤", ">=": "≥"}[o]
            return boolean(f"(decide ({x.e} {lo} {y.e}))", d)
        if o in ("+", "*"):
            e = f"({x.e} {o} {y.e})"
            return nat(e, bits, d_and(d, f"(decide ({x.e} {o} {y.e} < {2 ** bits}))"))
        if o == "-":
            return nat(f"({x.e} - {y.e})", bits, d_and(d, f"(decide ({y.e} ≤ {x.e}))"))
        if o in ("&", "|"):
            return nat(f"({x.e} {'&&&' if o == '&' else '|||'} {y.e})", bits, d, flags=x.flags or y.flags)
        self.fail(f"operator `{o}` is not supported")

    def tr_try(self, n):
        inner = strip(n.args[0])
        # helper of the same impl under `?`: inlined
        if inner.op == "mcall" and inner.args[0].op == "path" and inner.args[0].args == ["self"] and \
                "self" not in self.locals:
            return self.inline(inner)
        v = self.tr(inner)
        if v.kind == "tryable":
            if v.err is None:
                self.fail(f"`?` on a result whose error is not known: `{show(n)}`")
            self.emit_check(show(inner) + "?", f"(!{v.isSome})", None, v.err)
            return v.inner
        if v.kind == "send":
            self.sends.append(v)
            return V("unit")
        self.fail(f"`?` on unsupported value `{show(inner)}` ({v.kind})")

    def tr_struct_lit(self, n):
        ty, fields = n.args
        ty = ty.split("::")[-1]
        if ty == "Self" and self.fn_stack[-1].endswith("::new"):
            ty = self.fn_stack[-1][:-5]
        if ty not in self.w.structs:
            self.fail(f"struct literal of unknown type {ty}")
        vals = {}
        for fname, fe in fields:
            v = self.tr(fe)
            vals[fname] = v
        out = []
        for fname, ft in self.w.structs[ty]["fields"]:
            if fname not in vals:
                self.fail(f"struct literal {ty}: field {fname} missing")
            if ft in INT_BITS:
                if vals[fname].kind != "nat":
                    self.fail(f"struct literal {ty}: field {fname} is not a number")
                out.append((fname, vals[fname]))
        return V("structval", ty=ty, fields=out)

    def ctor(self, ty, args, n):
        fn = self.w.impls.get(ty, {}).get("new")
        if fn is None:
            self.fail(f"no `{ty}::new` in message.rs")
        params = split_params(fn[0])
        if len(params) != len(args):
            self.fail(f"`{show(n)}`: {ty}::new takes {len(params)} arguments")
        saved, saved_stack = self.locals, self.fn_stack
        self.locals = {pn: self.tr_saved(saved, a) for (pn, _), a in zip(params, args)}
        self.fn_stack = self.fn_stack + [f"{ty}::new"]
        try:
            stmts = parse_block(fn[2], self.where())
            for s in stmts[:-1]:
                if s.op != "let":
                    self.fail("constructor body: only `let` before the struct literal")
                self.locals[s.args[0]] = self.tr(s.args[1])
            if not stmts or stmts[-1].op != "tail":
                self.fail("constructor body without a tail expression")
            v = self.tr(stmts[-1].args[0])
            if v.kind != "structval":
                self.fail("constructor body does not end in a struct literal")
            return v
        finally:
            self.locals, self.fn_stack = saved, saved_stack

    def tr_saved(self, scope, node):
        cur = self.locals
        self.locals = scope
        try:
            return self.tr(node)
        finally:
            self.locals = cur

    # ---- method calls
    def take_single_is_some(self):
        return f"(take_single_file.isSome {self.IN})"

    def tr_mcall(self, n):
        recv, name, args = n.args[0], n.args[1], n.args[2:]
        IN = self.IN
        v = self.tr(recv)
        k = v.kind
        if k == "hdr":
            fn = self.w.impls.get("VhostUserMsgHeader", {}).get(name)
            if fn is None or args:
                self.fail(f"unknown header accessor `{name}`")
            saved, saved_stack = self.locals, self.fn_stack
            self.locals = {"self": V("hdrself")}
            self.fn_stack = self.fn_stack + [f"VhostUserMsgHeader::{name}"]
            try:
                stmts = parse_block(fn[2], self.where())
                if len(stmts) != 1 or stmts[0].op != "tail":
                    self.fail("header accessor is not a single expression")
                return self.tr(stmts[0].args[0])
            finally:
                self.locals, self.fn_stack = saved, saved_stack
        if k == "buf":
            if name == "len" and not args:
                return nat(f"{IN}.bufLen")
            if name == "as_ptr" and not args:
                return V("ptr", ty=None, off=nat("0"))
        if k == "ptr" and name == "add" and len(args) == 1 and v.ty is None and v.off.e == "0":
            off = self.tr(args[0])
            if off.kind != "nat":
                self.fail("pointer offset is not a number")
            return V("ptr", ty=None, off=off)
        if k == "files":
            if v.state == "opt":
                if name == "is_some" and not args:
                    return boolean(f"{IN}.filesIsSome")
                if name == "is_none" and not args:
                    return boolean(f"(!{IN}.filesIsSome)")
                if name == "as_ref" and not args:
                    return v
                if name == "ok_or" and len(args) == 1:
                    return V("tryable", isSome=f"{IN}.filesIsSome", err=err_of(args[0], self.where()),
                             inner=V("files", state="vec"))
                if name == "map_or" and len(args) == 2:
                    dflt = self.tr(args[0])
                    cl = self.tr(args[1])
                    if cl.kind != "closure" or len(cl.params) != 1 or dflt.kind != "nat":
                        self.fail(f"unsupported `map_or` in `{show(n)}`")
                    saved = self.locals
                    self.locals = dict(saved)
                    self.locals[cl.params[0]] = V("files", state="vec")
                    try:
                        body = self.tr(cl.body)
                    finally:
                        self.locals = saved
                    if body.kind != "nat" or body.d is not None:
                        self.fail(f"unsupported closure in `{show(n)}`")
                    return nat(f"(if {IN}.filesIsSome then {body.e} else {dflt.e})", body.bits)
            else:
                if name == "len" and not args:
                    return nat(f"{IN}.nfiles")
                if name == "swap_remove" and len(args) == 1 and strip(args[0]).op == "int" and strip(args[0]).args[0] == 0:
                    return V("file")
        if k == "optfile":
            if name == "is_some" and not args:
                return boolean(self.take_single_is_some())
            if name == "is_none" and not args:
                return boolean(f"(!{self.take_single_is_some()})")
            if name == "ok_or" and len(args) == 1:
                return V("tryable", isSome=self.take_single_is_some(), err=err_of(args[0], self.where()), inner=V("file"))
        if k == "opt":
            if name == "is_some" and not args:
                return boolean(v.isSome)
            if name == "is_none" and not args:
                return boolean(f"(!{v.isSome})")
            if name == "ok_or" and len(args) == 1:
                return V("tryable", isSome=v.isSome, err=err_of(args[0], self.where()), inner=v.inner)
        if k == "tryable" and name == "map_err" and len(args) == 1:
            cl = self.tr(args[0])
            if cl.kind != "closure":
                self.fail(f"`map_err` without a closure in `{show(n)}`")
            return V("tryable", isSome=v.isSome, err=err_of(cl.body, self.where()), inner=v.inner)
        if k == "nat":
            if name == "bits" and not args and v.flags:
                return nat(v.e, v.bits, v.d)
            if name == "into" and not args:
                return v
        if k == "feat" and name == "bits" and not args:
            return nat(f"{IN}.feat", 64, flags=True)
        if k == "file" and name == "into_raw_fd" and not args:
            return v
        if k == "resbuf":
            if name == "len" and not args:
                return nat(f"{IN}.resLen")
            if name == "as_slice" and not args:
                return v
        if k == "slice" and name == "iter" and not args:
            return v
        if k in ("msg", "loopvar") and name == "is_valid" and not args:
            if v.ty is None:
                return boolean(f"{IN}.msgValid")
            if v.ty not in self.w.validators:
                self.fail(f"{v.ty} has no VhostUserMsgValidator impl")
            var = "x.msg" if k == "msg" else v.var
            return boolean(f"(Gen.{v.ty}.isValid {var}.bv)")
        if k == "backend":
            vals = [self.tr(x) for x in args]
            return V("hcall", method=name, args=vals, srcs=[show(x) for x in args])
        if k == "sock" and name in ("send_message", "send_message_with_payload"):
            vals = [self.tr(x) for x in args]
            want = 3 if name == "send_message" else 4
            if len(vals) != want or vals[-1].kind != "none":
                self.fail(f"unsupported `{show(n)}` (descriptors attached or wrong arity)")
            return V("send", hdr=vals[0], msg=vals[1], payload=vals[2] if want == 4 else None)
        if k == "self":
            self.fail(f"call of `self.{name}` that is not under `?` cannot be inlined")
        self.fail(f"unsupported method call `{show(n)}` (receiver: {k})")

    def tr_call(self, n):
        f, args = n.args[0], n.args[1:]
        if f.op != "path":
            self.fail(f"unsupported call `{show(n)}`")
        p = f.args
        gen = f.kw.get("generics") or []
        last = p[-1]
        if last == "size_of" and len(gen) == 1 and not args:
            return self.size_of(gen[0])
        if p == ["take_single_file"] and len(args) == 1:
            v = self.tr(args[0])
            if v.kind != "files" or v.state != "opt":
                self.fail("take_single_file of something that is not the received `files`")
            return V("optfile")
        if p == ["Ok"] and len(args) == 1:
            return V("ok", inner=self.tr(args[0]), src=show(args[0]))
        if p == ["Err"] and len(args) == 1:
            return V("err", err=err_of(args[0], self.where()))
        if p == ["Some"] and len(args) == 1:
            return V("some", inner=self.tr(args[0]))
        if last == "from_bits" and len(p) == 2 and p[0] in self.w.flags and len(args) == 1:
            rty, consts = self.w.flags[p[0]]
            allm = 0
            for _, c in consts:
                allm |= c
            v = self.tr(args[0])
            if v.kind != "nat" or v.d is not None:
                self.fail(f"unsupported argument of from_bits in `{show(n)}`")
            return V("opt", isSome=f"(({v.e} &&& ({hex(allm)} /- {p[0]}::all -/)) == {v.e})",
                     inner=nat(v.e, v.bits, flags=True))
        if last == "new" and len(p) == 2 and p[0] in self.w.structs:
            return self.ctor(p[0], args, n)
        if last == "read_unaligned" and len(args) == 1:
            v = self.tr(args[0])
            if v.kind != "ptr" or v.ty is None:
                self.fail(f"read_unaligned of something that is not a cast of `buf.as_ptr()`: `{show(n)}`")
            return V("read", ty=v.ty, off=v.off)
        if last == "from_raw_parts" and len(args) == 2:
            v = self.tr(args[0])
            c = self.tr(args[1])
            if v.kind != "ptr" or v.ty is None or c.kind != "nat":
                self.fail(f"unsupported from_raw_parts: `{show(n)}`")
            return V("readn", ty=v.ty, off=v.off, count=c)
        if (p in (["UnixStream", "from_raw_fd"], ["Backend", "from_stream"], ["GpuBackend", "from_stream"])) and len(args) == 1:
            v = self.tr(args[0])
            if v.kind != "file":
                self.fail(f"`{show(n)}`: the argument is not the received file")
            return v
        if last == "try_from" and len(p) == 2 and len(args) == 1 and "self" in self.locals and \
                self.locals["self"].kind == "hdrself":
            v = self.tr(args[0])
            if self.hdr_req is None or self.hdr_req not in self.w.enums:
                self.fail("request enum of the header is unknown")
            return V("tryable", isSome=f"(Base.codeOk Gen.Codes.{self.hdr_req}.table {v.e})", err=None, inner=v)
        self.fail(f"unsupported call `{show(n)}`")

    # ---- inlining of `self.helper(args)?`
    def inline(self, mc):
        name, args = mc.args[1], mc.args[2:]
        if name not in self.fns:
            self.fail(f"helper `{name}` not found in impl BackendReqHandler")
        if len(self.fn_stack) > 6:
            self.fail(f"inlining too deep at `{name}`")
        params_t, ret_t, body = self.fns[name]
        params = split_params(params_t)
        if len(params) != len(args):
            self.fail(f"`{show(mc)}`: arity")
        newloc = {}
        for (pn, pt), a in zip(params, args):
            v = self.tr(a)
            want = self.param_kind(pt)
            if want is None or v.kind != want:
                self.fail(f"`{show(mc)}`: argument `{show(a)}` for parameter `{pn}: {pt}` ({v.kind})")
            self.flush_defd(v, f"(argument {show(a)})")
            newloc[pn] = v
        saved = (self.locals, self.generics, self.fn_stack, self.call, self.reply_arms, self.sendif, self.cur)
        self.locals = newloc
        tf = mc.kw.get("turbofish")
        self.generics = {"T": self.generics.get(tf, tf)} if tf else {}
        self.fn_stack = self.fn_stack + [name]
        try:
            r = self.exec(parse_block(rewrite_tokens(body, self.where()), self.where()))
            if (self.call, self.reply_arms, self.sendif) != saved[3:6]:
                self.fail(f"helper `{name}` invokes the handler / sends: cannot be inlined")
        finally:
            self.locals, self.generics, self.fn_stack, self.call, self.reply_arms, self.sendif, self.cur = saved
        if r.kind != "ok":
            self.fail(f"helper `{name}` does not end in `Ok(..)`")
        return r.inner

    def param_kind(self, pt):
        if "VhostUserMsgHeader" in pt:
            return "hdr"
        if pt in ("usize", "u32", "u64"):
            return "nat"
        if pt == "&[u8]":
            return "buf"
        if pt in ("Option<Vec<File>>", "&Option<Vec<File>>"):
            return "files"
        if pt in ("VhostUserVirtioFeatures", "VhostUserProtocolFeatures"):
            return "feat"
        if pt == "Result<()>":
            return "res"
        return None

    # ---- statements
    def exec(self, stmts):
        for k, s in enumerate(stmts):
            self.cur = s
            if s.op == "let":
                self.do_let(s)
            elif s.op == "stmt":
                self.do_stmt(strip(s.args[0]))
            elif s.op == "tail":
                if k != len(stmts) - 1:
                    self.fail("value expression in the middle of a block")
                return self.do_tail(strip(s.args[0]))
            else:
                self.fail(f"unsupported statement ({s.op})")
        return V("unit")

    def ret_err(self, block):
        """the block `{ return Err(E); }` -> E"""
        if block is None or block.op != "block" or len(block.args) != 1:
            return None
        s = block.args[0]
        if s.op in ("stmt", "tail"):
            s = s.args[0]
        if s.op == "return" and s.args[0] is not None:
            e = strip(s.args[0])
            if e.op == "call" and e.args[0].op == "path" and e.args[0].args == ["Err"]:
                return err_of(e, self.where())
        return None

    def bind_read(self, name, v):
        IN = self.IN
        if v.kind == "read":
            ty = self.resolve_ty(v.ty)
            ln = self.size_of(v.ty)
            self.emit_decode(v.ty if ty is None else ty, v.off, ln)
            if ty is not None:
                if self.msg_ty not in (None, ty):
                    self.fail(f"a second message type ({ty}) is decoded (already {self.msg_ty})")
                self.msg_ty = ty
            self.locals[name] = V("msg", ty=ty)
        else:
            ty = self.resolve_ty(v.ty)
            if ty is None:
                self.fail("array of a generic type")
            sz = self.size_of(v.ty)
            ln = nat(f"({v.count.e} * {sz.e})", 64, d_and(v.count.d, f"(decide ({v.count.e} * {sz.e} < {2 ** 64}))"))
            self.emit_decode(ty, v.off, ln)
            if self.slice_ty not in (None, ty):
                self.fail("a second array is decoded")
            self.slice_ty = ty
            v.count.d = None
            v.off.d = None
            self.locals[name] = V("slice", ty=ty, off=v.off, count=v.count)

    def do_let(self, s):
        name, e = s.args[0], strip(s.args[1])
        IN = self.IN
        if e.op == "match":
            scrut = self.tr(e.args[0])
            arms = e.args[1]
            pats = [(p.replace(" ", ""), g, b) for p, g, b in arms]
            if scrut.kind == "opt" and len(pats) == 2:
                some = [x for x in pats if re.match(r"Some\((\w+)\)$", x[0])]
                none = [x for x in pats if x[0] == "None"]
                if len(some) == 1 and len(none) == 1 and some[0][1] is None and none[0][1] is None:
                    var = re.match(r"Some\((\w+)\)$", some[0][0]).group(1)
                    sb, nb = strip(some[0][2]), none[0][2]
                    if sb.op == "path" and sb.args == [var] and nb.op == "return":
                        self.emit_check(show(e), f"(!{scrut.isSome})", None, err_of(nb.args[0], self.where()))
                        self.locals[name] = scrut.inner
                        return
            if scrut.kind == "res" and len(pats) == 2 and pats[0][0] == "Ok(_)" and pats[1][0] == "Err(_)" and \
                    all(g is None for _, g, _ in pats):
                a, b = self.tr(pats[0][2]), self.tr(pats[1][2])
                if a.kind == "nat" and b.kind == "nat" and a.d is None and b.d is None:
                    self.locals[name] = nat(f"(if {IN}.resOk then {a.e} else {b.e})", max(a.bits, b.bits))
                    return
            self.fail("unsupported `let … = match`")
        v = self.tr(e)
        if v.kind in ("read", "readn"):
            self.bind_read(name, v)
            return
        if v.kind == "hcall":
            if self.call is not None:
                self.fail("a second handler invocation")
            self.call = v
            self.locals[name] = V("res")
            return
        if v.kind in ("nat", "bool"):
            self.flush_defd(v, f"let {name} = {show(e)}")
        if v.kind == "structval":
            for fname, fv in v.fields:
                self.flush_defd(fv, f"let {name} = {show(e)} (field {fname})")
        if v.kind in ("nat", "bool", "files", "optfile", "file", "structval", "msg", "unit"):
            self.locals[name] = v
            return
        self.fail(f"unsupported `let` of a value of kind {v.kind}")

    def do_stmt(self, e):
        if e.op == "if":
            c, th, el = e.args
            if c.op == "iflet" or el is not None:
                self.fail("unsupported `if` statement (if-let / else)")
            cv = self.tr(c)
            if cv.kind != "bool":
                self.fail("condition is not boolean")
            err = self.ret_err(th)
            if err is not None:
                self.emit_check(f"if {show(c)} {{ return Err(..) }}", cv.e, cv.d, err)
                return
            # a conditional block that falls through (send_ack_message)
            if cv.d is not None or self.sendif is not None:
                self.fail("unsupported conditional block")
            saved_steps, saved_sends, saved_loc = self.steps, self.sends, dict(self.locals)
            self.steps, self.sends = [], []
            r = self.exec(th.args)
            inner, sends = self.steps, self.sends
            self.steps, self.sends, self.locals = saved_steps, saved_sends, saved_loc
            if r.kind != "unit" or len(sends) != 1 or sends[0].payload is not None:
                self.fail("conditional block: expected exactly one `send_message(..)?` and no value")
            sd = sends[0]
            if sd.hdr.kind != "structval" or sd.hdr.ty != "VhostUserMsgHeader" or sd.msg.kind != "structval":
                self.fail("conditional block: send_message arguments")
            self.sendif = (cv.e, inner, sd)
            return
        if e.op == "try":
            v = self.tr(e)
            if v.kind != "unit":
                self.fail("value of a `?` statement is not `()`")
            return
        if e.op == "match":
            scrut = strip(e.args[0])
            if scrut.op == "call" and scrut.args[0].op == "path" and scrut.args[0].args == ["__for"]:
                return self.do_for(e, scrut)
            sv = self.tr(scrut)
            if sv.kind == "res":
                return self.do_reply_match(e)
            self.fail("unsupported `match` statement")
        if e.op == "mcall":
            v = self.tr(e)
            if v.kind == "hcall":
                if self.call is not None:
                    self.fail("a second handler invocation")
                self.call = v
                self.call_dropped = True
                return
        self.fail("unsupported statement shape")

    def do_for(self, e, scrut):
        it = self.tr(scrut.args[1])
        arms = e.args[1]
        if it.kind != "slice" or len(arms) != 1 or arms[0][1] is not None:
            self.fail("unsupported `for` loop (only over the decoded array)")
        var, body = arms[0][0].strip(), arms[0][2]
        if not re.match(r"\w+$", var) or body.op != "block" or len(body.args) != 1:
            self.fail("unsupported `for` loop body")
        inner = strip(body.args[0].args[0])
        if inner.op != "if" or inner.args[2] is not None or inner.args[0].op == "iflet":
            self.fail("unsupported `for` loop body (expected a single early-exit `if`)")
        err = self.ret_err(inner.args[1])
        if err is None:
            self.fail("`for` loop body: the `if` does not `return Err(..)`")
        saved = self.locals
        self.locals = dict(saved)
        self.locals[var] = V("loopvar", var=var, ty=it.ty)
        try:
            cv = self.tr(inner.args[0])
        finally:
            self.locals = saved
        if cv.kind != "bool" or cv.d is not None:
            self.fail("`for` loop condition")
        self.emit_check(f"for {var} in {show(scrut.args[1])} {{ if {show(inner.args[0])} {{ return Err(..) }} }}",
                        f"(x.regions.any (fun {var} => {cv.e}))", None, err)

    def do_reply_match(self, e):
        """match res { Ok(ref buf) if g => {reply}, Ok(_) => {reply}, Err(_) => {reply} }"""
        if self.call is None or self.reply_arms is not None:
            self.fail("`match res` without a preceding handler invocation")
        IN = self.IN
        arms = []
        for pat, guard, body in e.args[1]:
            p = pat.replace(" ", "")
            saved = self.locals
            self.locals = dict(saved)
            try:
                if p == "Ok(_)":
                    base = f"{IN}.resOk"
                elif p == "Err(_)":
                    base = f"(!{IN}.resOk)"
                elif re.match(r"Ok\(ref(\w+)\)$", p) and "ref " in pat:
                    var = re.match(r"Ok\(ref(\w+)\)$", p).group(1)
                    self.locals[var] = V("resbuf")
                    base = f"{IN}.resOk"
                else:
                    self.fail(f"unsupported pattern `{pat}` in `match res`")
                g = None
                if guard is not None:
                    gv = self.tr(guard)
                    if gv.kind != "bool" or gv.d is not None:
                        self.fail("unsupported match guard")
                    g = gv.e
                cond = base if g is None else f"({base} && {g})"
                if body.op != "block":
                    self.fail("reply arm is not a block")
                saved_steps, saved_sends = self.steps, self.sends
                self.steps, self.sends = [], []
                self.reply = None
                r = self.exec_reply_block(body.args)
                self.steps, self.sends = saved_steps, saved_sends
                arms.append((re.sub(r"\s*([()])\s*", r"\1", pat) + (" if " + show(guard) if guard is not None else ""), cond) + r)
            finally:
                self.locals = saved
        self.reply_arms = arms

    def exec_reply_block(self, stmts):
        """{ let reply = T::new(..); self.send_reply_message(hdr, &reply)? | self.send_reply_with_payload(hdr, &reply, p)? }"""
        if len(stmts) != 2 or stmts[0].op != "let" or stmts[1].op not in ("stmt", "tail"):
            self.fail("unsupported reply arm (expected `let reply = T::new(..); self.send_reply_*(..)?;`)")
        self.cur = stmts[0]
        rv = self.tr(strip(stmts[0].args[1]))
        if rv.kind != "structval" or any(v.d is not None for _, v in rv.fields):
            self.fail("reply value is not a struct built by `T::new`")
        self.locals[stmts[0].args[0]] = rv
        self.cur = stmts[1]
        e = strip(stmts[1].args[0])
        if e.op != "try" or strip(e.args[0]).op != "mcall":
            self.fail("reply is not sent with `self.send_reply_*(..)?`")
        mc = strip(e.args[0])
        name, args = mc.args[1], mc.args[2:]
        if not (mc.args[0].op == "path" and mc.args[0].args == ["self"]) or name not in ("send_reply_message", "send_reply_with_payload"):
            self.fail("reply is not sent with `self.send_reply_message / send_reply_with_payload`")
        vals = [self.tr(a) for a in args]
        if vals[0].kind != "hdr" or strip(args[1]).op != "ref" or strip(strip(args[1]).args[0]).args != [stmts[0].args[0]]:
            self.fail("send_reply_*: arguments")
        shape = self.sender_shape(name)
        if shape == "payload":
            if len(vals) != 3 or vals[2].kind != "resbuf":
                self.fail("send_reply_with_payload: the payload is not the handler's buffer")
            return (rv, True, f"{self.IN}.resLen")
        if len(vals) != 2:
            self.fail("send_reply_message: arity")
        return (rv, False, "0")

    def sender_shape(self, name):
        """check the body of send_reply_message / send_reply_with_payload:
        let hdr = self.new_reply_header::<T>(req, 0 | payload.len())?; self.main_sock.send_message[_with_payload](&hdr, msg, [payload,] None)?; Ok(())"""
        if name not in self.fns:
            self.fail(f"helper `{name}` not found")
        params, _, body = self.fns[name]
        pn = [p for p, _ in split_params(params)]
        stmts = parse_block(body, f"{REL}: fn {name}")
        ok = len(stmts) == 3 and stmts[0].op == "let" and stmts[1].op == "stmt" and stmts[2].op == "tail" and is_ok_unit(stmts[2].args[0])
        if ok:
            h = strip(stmts[0].args[1])
            ok = h.op == "try" and strip(h.args[0]).op == "mcall" and strip(h.args[0]).args[1] == "new_reply_header" and \
                strip(h.args[0]).kw.get("turbofish") == "T"
        if ok:
            hargs = strip(h.args[0]).args[2:]
            snd = strip(stmts[1].args[0])
            ok = snd.op == "try" and strip(snd.args[0]).op == "mcall"
        if ok:
            sm = strip(snd.args[0])
            sargs = [show(x) for x in sm.args[2:]]
            if name == "send_reply_message":
                ok = pn == ["req", "msg"] and [show(x) for x in hargs] == ["req", "0"] and sm.args[1] == "send_message" and \
                    sargs == ["&" + stmts[0].args[0], "msg", "None"]
                shape = "plain"
            else:
                ok = pn == ["req", "msg", "payload"] and [show(x) for x in hargs] == ["req", "payload.len()"] and \
                    sm.args[1] == "send_message_with_payload" and sargs == ["&" + stmts[0].args[0], "msg", "payload", "None"]
                shape = "payload"
        if not ok:
            raise Untranslatable(f"{REL}: fn {name}: body is not `let hdr = self.new_reply_header::<T>(req, ..)?; "
                                 f"self.main_sock.send_message..(&hdr, msg, .., None)?; Ok(())`")
        return shape

    def do_tail(self, e):
        IN = self.IN
        if e.op == "if":
            c, th, el = e.args
            if c.op == "iflet" or el is None or el.op != "block":
                self.fail("unsupported tail `if`")
            cv = self.tr(c)
            if cv.kind != "bool":
                self.fail("condition is not boolean")

            def one(b):
                if len(b.args) == 1 and b.args[0].op == "tail":
                    return strip(b.args[0].args[0])
                return None
            t, f = one(th), one(el)
            if t is not None and f is not None and is_ok_unit(t):
                self.emit_check(show(e), f"(!{cv.e})", cv.d, err_of(f, self.where()))
                return V("ok", inner=V("unit"), src="()")
            if t is not None and f is not None and is_ok_unit(f):
                self.emit_check(show(e), cv.e, cv.d, err_of(t, self.where()))
                return V("ok", inner=V("unit"), src="()")
            self.fail("unsupported tail `if` (expected Ok(()) / Err(..) branches)")
        if e.op == "match":
            return self.do_tail_match(e)
        v = self.tr(e)
        if v.kind == "ok":
            return v
        if v.kind == "res":
            return v
        if v.kind == "hcall":
            if self.call is not None:
                self.fail("a second handler invocation")
            self.call = v
            return V("res")
        self.fail(f"unsupported tail expression ({v.kind})")

    def do_tail_match(self, e):
        """a `match` whose arms are `Ok(())` / `Err(E)`: every Err arm becomes a check (fails = no earlier arm matched ∧ this one does)"""
        IN = self.IN
        sv = self.tr(e.args[0])
        conds = []
        for pat, guard, body in e.args[1]:
            p = pat.replace(" ", "")
            if sv.kind == "tryable" and sv.inner.kind == "nat" and sv.inner.e == f"{IN}.code":
                # match hdr.get_code() { Ok(A | B | ..) => .., _ [if g] => .. }
                if p == "_":
                    c = "true"
                else:
                    m = re.match(r"Ok\((.*?),?\)$", p)
                    if not m:
                        self.fail(f"unsupported pattern `{pat}`")
                    codes = []
                    rty, variants = self.w.enums[self.hdr_req]
                    cm = dict(variants)
                    for alt in m.group(1).split("|"):
                        mm = re.match(rf"{self.hdr_req}::(\w+)$", alt)
                        if not mm or mm.group(1) not in cm:
                            self.fail(f"unsupported alternative `{alt}` in `{pat}`")
                        codes.append((mm.group(1), cm[mm.group(1)]))
                    if self.file_codes is not None:
                        self.fail("a second code-list pattern")
                    self.file_codes = codes
                    c = f"(fileCodes.contains {IN}.code)"
            elif sv.kind == "opt":
                if re.match(r"Some\(\w+\)$", p):
                    c = sv.isSome
                elif p == "None":
                    c = f"(!{sv.isSome})"
                elif p == "_":
                    c = "true"
                else:
                    self.fail(f"unsupported pattern `{pat}`")
            else:
                self.fail("unsupported scrutinee of a tail `match`")
            if guard is not None:
                gv = self.tr(guard)
                if gv.kind != "bool" or gv.d is not None:
                    self.fail("unsupported match guard")
                c = gv.e if c == "true" else f"({c} && {gv.e})"
            b = strip(body)
            not_before = "".join(f"(!{x}) && " for x in conds)
            if is_ok_unit(b):
                pass
            else:
                err = err_of(b, self.where())
                self.emit_check(f"match {show(e.args[0])} {{ .. {p[:40]}{' if ' + show(guard) if guard is not None else ''} => Err(..) }}",
                                f"({not_before}{c})", None, err)
            conds.append(c)
        exhaustive = bool(conds) and (conds[-1] == "true" or (sv.kind == "opt" and len(conds) == 2 and "true" not in conds))
        if not exhaustive:
            self.fail("tail `match` without a catch-all last arm")
        return V("ok", inner=V("unit"), src="()")

    # ---- values handed over
    def val(self, v, src):
        if v.kind == "nat":
            if v.d is not None:
                self.fail(f"argument `{src}` with arithmetic that may be undefined")
            return f".nat {lean_str(src)} (fun x => {v.e})"
        if v.kind == "bufslice":
            if v.off.d is not None:
                self.fail(f"argument `{src}`: offset arithmetic")
            return f".bufFrom {lean_str(src)} (fun x => {v.off.e})"
        if v.kind == "optfile":
            return f".optFile {lean_str(src)} (fun x => {self.take_single_is_some()})"
        if v.kind == "file":
            return f".file {lean_str(src)}"
        if v.kind == "files" and v.state == "vec":
            return f".files {lean_str(src)}"
        if v.kind == "msg":
            return f".msg {lean_str(src)} {lean_str(v.ty or 'T')}"
        if v.kind == "slice":
            return f".slice {lean_str(src)} {lean_str(v.ty)} (fun x => {v.off.e}) (fun x => {v.count.e})"
        self.fail(f"value `{src}` of kind {v.kind} cannot be handed over")

    def top(self):
        """translate the helper itself; returns (steps, extra defs, term)"""
        params_t, ret_t, body = self.fns[self.helper]
        IN = self.IN
        for pn, pt in split_params(params_t):
            k = self.param_kind(pt)
            if k == "hdr":
                m = re.search(r"VhostUserMsgHeader<(\w+)>", pt)
                self.hdr_req = m.group(1) if m else None
                self.locals[pn] = V("hdr")
            elif k == "nat":
                if pn not in PARAM_FIELD:
                    self.fail(f"parameter `{pn}: {pt}` is not part of the input vocabulary")
                self.locals[pn] = nat(f"{IN}.{PARAM_FIELD[pn]}")
            elif k == "buf":
                self.locals[pn] = V("buf")
            elif k == "files":
                self.locals[pn] = V("files", state="opt")
            elif k == "feat":
                self.locals[pn] = V("feat")
            elif k == "res":
                self.locals[pn] = V("res")
            else:
                self.fail(f"parameter `{pn}: {pt}` is not part of the input vocabulary")
        if self.hdr_req is None:
            self.hdr_req = "FrontendReq"
        r = self.exec(parse_block(rewrite_tokens(body, self.where()), self.where()))
        self.cur = None
        defs = []
        if self.sendif is not None:
            cond, inner, sd = self.sendif
            if r.kind != "res" or self.call is not None or self.reply_arms is not None:
                self.fail("conditional send that is not followed by returning `res`")
            fields = ", ".join(f"(fun x => {v.e})" for _, v in sd.msg.fields)
            defs.append(("sendSteps", "List (Step Env)", "[\n    " + ",\n    ".join(inner) + "\n  ]" if inner else "[]"))
            h = dict(sd.hdr.fields)
            defs.append(("sendHdr", "List (Env → Nat)", f"[(fun x => {h['request'].e}), (fun x => {h['flags'].e}), (fun x => {h['size'].e})]"))
            defs.append(("sendFields", "List (Env → Nat)", f"[{fields}]"))
            term = f".sendIf (fun x => {cond}) sendSteps sendFields"
        elif self.reply_arms is not None:
            c = self.call
            args = [self.val(v, s) for v, s in zip(c.args, c.srcs)]
            defs.append(("args", "List (Val Env)", "[" + ", ".join(args) + "]"))
            rows = []
            for src, cond, rv, payload, plen in self.reply_arms:
                fl = ", ".join(f"(fun x => {v.e})" for _, v in rv.fields)
                rows.append(f"{{ src := {lean_str(src)}, guard := (fun x => {cond}), fields := [{fl}], "
                            f"payload := {'true' if payload else 'false'}, payloadLen := (fun x => {plen}) }}")
                self.reply_ty = rv.ty
            defs.append(("arms", "List (ReplyArm Env)", "[\n    " + ",\n    ".join(rows) + "\n  ]"))
            if not (r.kind == "ok" and r.inner.kind == "unit"):
                self.fail("reply match that is not followed by `Ok(())`")
            term = f".callReply {lean_str(c.method)} args arms"
        elif self.call is not None:
            c = self.call
            args = [self.val(v, s) for v, s in zip(c.args, c.srcs)]
            defs.append(("args", "List (Val Env)", "[" + ", ".join(args) + "]"))
            if r.kind == "res" and not self.call_dropped:
                ret = ".res"
            elif r.kind == "ok" and r.inner.kind == "unit" and self.call_dropped:
                ret = ".ok"
            else:
                self.fail("the handler's result is neither returned as it is nor dropped in favour of `Ok(())`")
            term = f".call {lean_str(c.method)} args {ret}"
        elif r.kind == "ok":
            iv = r.inner
            if iv.kind == "unit":
                vals = []
            elif iv.kind == "tuple":
                vals = [self.val(v, s) for v, s in zip(iv.items, iv.srcs)]
            elif iv.kind == "structval" and iv.ty == "VhostUserMsgHeader":
                f = dict(iv.fields)
                for v in f.values():
                    self.flush_defd(v, "(header field)")
                vals = None
                term = f".hdr (fun x => {f['request'].e}) (fun x => {f['flags'].e}) (fun x => {f['size'].e})"
            else:
                vals = [self.val(iv, r.src)]
            if vals is not None:
                defs.append(("rets", "List (Val Env)", "[" + ", ".join(vals) + "]"))
                term = ".ret rets"
        else:
            self.fail("the function does not end in a recognised terminal action")
        return self.steps, defs, term


# ------------------------------------------------------------------------------------------------------------------
# `take_single_file` (vhost/src/vhost_user/mod.rs)

def gen_take_single(world, repo):
    path = os.path.join(repo, REL_MOD)
    where = f"{REL_MOD}: fn take_single_file"
    body = None
    for it in scan_items(tokenize(open(path).read()), FEATURES):
        if it.kind == "fn" and it.name == "take_single_file":
            t = it.toks
            i = next(k for k, x in enumerate(t) if x.text == "(")
            j = match_close(t, i)
            params = split_params(t[i + 1:j])
            b = next(k for k in range(j, len(t)) if t[k].text == "{")
            body = t[b + 1:match_close(t, b)]
    if body is None:
        raise Untranslatable(f"{where}: not found")
    if len(params) != 1 or params[0][1] != "Option<Vec<std::fs::File>>":
        raise Untranslatable(f"{where}: parameter list changed")
    tr = Tr(world, {}, "take_single_file", "i")
    tr.fn_stack = ["take_single_file"]

    def fail(msg):
        raise Untranslatable(f"{where}: {msg}")
    tr.fail = lambda msg: fail(msg)
    tr.locals[params[0][0]] = V("files", state="opt")
    stmts = parse_block(body, where)
    exits = []
    for k, s in enumerate(stmts):
        e = strip(s.args[1] if s.op == "let" else s.args[0])
        if s.op == "let" and e.op == "try":
            v = tr.tr(e.args[0])
            if v.kind != "files" or v.state != "opt":
                fail(f"unsupported statement `{show(s)}`")
            exits.append("(!i.filesIsSome)")
            tr.locals[s.args[0]] = V("files", state="vec")
        elif s.op == "stmt" and e.op == "if" and e.args[2] is None and e.args[0].op != "iflet":
            blk = e.args[1]
            r = blk.args[0] if len(blk.args) == 1 else None
            if r is not None and r.op in ("stmt", "tail"):
                r = r.args[0]
            if r is None or r.op != "return" or show(r.args[0]) != "None":
                fail(f"unsupported statement `{show(s)}`")
            cv = tr.tr(e.args[0])
            if cv.kind != "bool" or cv.d is not None:
                fail("condition")
            exits.append(cv.e)
        elif s.op == "tail" and k == len(stmts) - 1:
            v = tr.tr(e)
            if v.kind != "some" or v.inner.kind != "file":
                fail("the value returned is not `Some(files.swap_remove(0))`")
        else:
            fail(f"unsupported statement `{show(s)}`")
    if not stmts or stmts[-1].op != "tail":
        fail("no value returned")
    return " && ".join(f"(!{x})" for x in exits) or "true"


# ------------------------------------------------------------------------------------------------------------------
# emission

def n_struct(world, ty):
    sd = world.structs[ty]
    fields = []
    for fn, ft in sd["fields"]:
        if ft in INT_BITS:
            fields.append((fn, INT_BITS[ft]))
        elif ft in world.structs:
            raise Untranslatable(f"{sd['file']}: {ty}.{fn}: nested struct in a message decoded by a helper")
    out = [f"/-- the fields of a decoded `{ty}` ({sd['file']}) as naturals -/", f"structure {ty}N where"]
    for fn, b in fields:
        out.append(f"  {fn} : Nat")
    out.append("  deriving Repr")
    out.append(f"/-- the record the generated validator `Gen.{ty}.isValid` takes -/")
    out.append(f"def {ty}N.bv (m : {ty}N) : Gen.{ty} :=")
    out.append("  ⟨" + ", ".join(f"BitVec.ofNat {b} m.{fn}" for fn, b in fields) + "⟩")
    out.append("")
    return out


def load_fns(repo):
    path = os.path.join(repo, REL)
    fns = {}
    for it in scan_items(tokenize(open(path).read()), FEATURES):
        if it.kind == "impl":
            trait, ty = impl_header(it)
            if trait is None and ty == "BackendReqHandler":
                for name, attrs, params, ret, b in impl_fns(it, FEATURES):
                    if b is not None:
                        fns[name] = (params, ret, b)
    return fns


def gen_helpers(world):
    try:
        return _gen_helpers(world)
    except Untranslatable:
        raise
    except Exception as e:   # an unexpected shape must not surface as a Python error (or be skipped)
        raise Untranslatable(f"{REL}: helper translation: unexpected shape ({type(e).__name__}: {e})")


def _gen_helpers(world):
    repo = gen_helpers.repo
    fns = load_fns(repo)
    missing = [h for h in HELPERS if h not in fns]
    if missing:
        raise Untranslatable(f"{REL}: helper function(s) not found in impl BackendReqHandler: {', '.join(missing)}")
    single = gen_take_single(world, repo)
    blocks, nstructs, sizes = [], [], {}
    for h in HELPERS:
        # pass 1 discovers whether the helper decodes a concrete message (then the inputs live in `x.i`)
        t = Tr(world, fns, h, "x.i")
        t.top()
        inp = "x.i" if (t.msg_ty or t.slice_ty) else "x"
        t = Tr(world, fns, h, inp)
        steps, defs, term = t.top()
        sizes.update(t.sizes)
        for ty in (t.msg_ty, t.slice_ty):
            if ty and ty not in nstructs:
                nstructs.append(ty)
        b = [f"/-! ### `fn {h}` -/", f"namespace {h}", ""]
        if inp == "x":
            b += ["abbrev Env := HIn", "def bufLen (x : Env) : Nat := x.bufLen", ""]
        else:
            b += ["structure Env where", "  i : HIn"]
            if t.msg_ty:
                b.append(f"  msg : {t.msg_ty}N")
            if t.slice_ty:
                b.append(f"  regions : List {t.slice_ty}N")
            b += ["def bufLen (x : Env) : Nat := x.i.bufLen", ""]
        if t.file_codes is not None:
            b.append("/-- the request codes of the first arm -/")
            b.append("def fileCodes : List Nat := [" + ", ".join(f"{c} /- {n} -/" for n, c in t.file_codes) + "]")
            b.append("")
        b.append("def steps : List (Step Env) := [" + ("\n  " + ",\n  ".join(steps) + "\n]" if steps else "]"))
        b.append("")
        for name, ty, val in defs:
            b.append(f"def {name} : {ty} := {val}")
        b.append(f"def term : Term Env := {term}")
        b += ["", f"end {h}", ""]
        blocks.append(b)
    out = [LEAN_HEADER, "import VhostModel.Base", "import VhostModel.Base.HelperSig", "import VhostModel.Gen.Codes",
           "import VhostModel.Gen.Validators", "", "set_option linter.unusedVariables false", "",
           "/-! Guard programs of the helper functions of `impl BackendReqHandler` (" + REL + ");",
           "vocabulary and semantics: `VhostModel/Base/HelperSig.lean`. -/", "namespace Gen.Helpers", "open HelperSig", "",
           "/-- `mem::size_of::<T>()` as computed by the translator from the struct definitions (cross-checked against the",
           "generated layout table by `Props.Helpers.sizes_match_layout`) -/",
           "def sizes : List (String × Nat) := [" + ", ".join(f'("{k}", {v})' for k, v in sorted(sizes.items())) + "]", ""]
    for ty in nstructs:
        out += n_struct(world, ty)
    out += [f"/-! ### `fn take_single_file` ({REL_MOD}) -/", "namespace take_single_file",
            "/-- `take_single_file(files).is_some()` -/", f"def isSome (i : HIn) : Bool := {single}",
            "end take_single_file", ""]
    for b in blocks:
        out += b
    out.append("end Gen.Helpers")
    return "\n".join(out) + "\n"


def generators(repo):
    gen_helpers.repo = repo
    return [("Helpers", gen_helpers)]
