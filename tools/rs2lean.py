#!/usr/bin/env python3
"""Translator: declarative items of /repo's Rust source -> generated Lean (lean/VhostModel/Gen/*.lean).

Run by every check before `lake build`.  Fails loudly (exit 2, message naming file and item) on a
shape it does not recognise.  Output files are rewritten only when their content changes.

usage: rs2lean.py [--repo /repo] [--out /verif/lean/VhostModel/Gen] [--only codes,flags,...]
"""
import argparse
import json
import os
import re
import sys

sys.path.insert(0, os.path.dirname(os.path.abspath(__file__)))
from rsparse import (Untranslatable, tokenize, scan_items, impl_header, impl_fns, parse_block, parse_expr,
                     Node, match_close, int_value, Parser)

INT_BITS = {"u8": 8, "u16": 16, "u32": 32, "u64": 64, "usize": 64, "i32": 32, "i64": 64, "isize": 64,
            "u128": 128, "Uuid": 128, "i8": 8, "i16": 16}

# cargo features the harness builds the crates with (xen is never enabled)
FEATURES = ("vhost-user", "vhost-user-frontend", "vhost-user-backend", "vhost-kern", "vhost-vdpa",
            "vhost-net", "vhost-vsock", "postcopy")


def read_items(path):
    with open(path) as f:
        src = f.read()
    return scan_items(tokenize(src), FEATURES)


# ------------------------------------------------------------------------------------------
# constants, enums, bitflags


class World:
    """Everything extracted from the source files, used for name resolution."""

    def __init__(self):
        self.consts = {}      # name -> (type, value)
        self.enums = {}       # name -> (repr type, [(variant, value)])
        self.flags = {}       # name -> (repr type, [(const, value)])
        self.structs = {}     # name -> dict(repr=..., fields=[(name, type_str)], kind=struct|union)
        self.impls = {}       # type name -> {fn name: (params, ret, body tokens)} (inherent)
        self.validators = {}  # type name -> body tokens or None (empty impl => default)
        self.files = {}       # name -> defining file
        self.struct_order = []


def const_eval(node, world, ty_bits, where):
    """Evaluate a constant integer expression at a given bit width."""
    mask = (1 << ty_bits) - 1
    op = node.op
    if op == "int":
        return node.args[0] & mask
    if op == "paren":
        return const_eval(node.args[0], world, ty_bits, where)
    if op == "not":
        return (~const_eval(node.args[0], world, ty_bits, where)) & mask
    if op == "cast":
        inner_bits = ty_bits
        v = const_eval(node.args[0], world, 128, where)
        return v & ((1 << INT_BITS.get(node.args[1], ty_bits)) - 1) & mask
    if op == "bin":
        o, a, b = node.args
        x = const_eval(a, world, ty_bits, where)
        y = const_eval(b, world, ty_bits, where)
        r = {"+": x + y, "-": x - y, "*": x * y, "|": x | y, "&": x & y, "^": x ^ y,
             "<<": x << y, ">>": x >> y, "/": x // y if y else 0, "%": x % y if y else 0}.get(o)
        if r is None:
            raise Untranslatable(f"{where}: constant operator {o}")
        if r < 0 or r > mask:
            if o in ("+", "-", "*", "<<"):
                raise Untranslatable(f"{where}: constant expression overflows its type")
        return r & mask
    if op == "path":
        p = node.args
        if len(p) == 1 and p[0] in world.consts:
            return world.consts[p[0]][1] & mask
        if len(p) == 2 and p[1] == "BITS" and p[0] in INT_BITS:
            return INT_BITS[p[0]]
        if len(p) == 2 and p[1] == "MAX" and p[0] in INT_BITS:
            return (1 << INT_BITS[p[0]]) - 1
        if len(p) == 2 and p[0] in world.flags:
            for n, v in world.flags[p[0]][1]:
                if n == p[1]:
                    return v
        if len(p) == 2 and p[0] in world.enums:
            for n, v in world.enums[p[0]][1]:
                if n == p[1]:
                    return v
        if len(p) == 2 and p[0] == "Self":
            # inside bitflags!: a previously defined constant of the same set
            cur = world.flags.get("__current__")
            if cur:
                for n, v in cur:
                    if n == p[1]:
                        return v
    if op == "mcall" and node.args[1] == "bits":
        return const_eval(node.args[0], world, ty_bits, where)
    if op == "call" and node.args[0].op == "path" and node.args[0].args[-1] == "size_of":
        raise Untranslatable(f"{where}: size_of in constant")
    raise Untranslatable(f"{where}: unsupported constant expression {node!r}")


def extract_enum_value(item, world, file):
    toks = item.toks
    i = 0
    # skip attributes and doc
    while i < len(toks):
        if toks[i].text == "#":
            i = match_close(toks, i + 1) + 1
        elif toks[i].text == "pub":
            i += 1
        else:
            break
    assert toks[i].text == "enum", f"{file}: enum_value! without enum"
    name = toks[i + 1].text
    assert toks[i + 2].text == ":"
    rty = toks[i + 3].text
    j = i + 4
    k = match_close(toks, j)
    body = toks[j + 1:k]
    variants = []
    p = 0
    nxt = 0
    while p < len(body):
        if body[p].text == "#":
            p = match_close(body, p + 1) + 1
            continue
        vname = body[p].text
        p += 1
        if p < len(body) and body[p].text == "=":
            q = p + 1
            while q < len(body) and body[q].text != ",":
                q += 1
            val = const_eval(parse_expr(body[p + 1:q], f"{file}:{name}::{vname}"), world, INT_BITS[rty],
                             f"{file}:{name}::{vname}")
            p = q
        else:
            val = nxt
        variants.append((vname, val))
        nxt = val + 1
        if p < len(body) and body[p].text == ",":
            p += 1
    world.enums[name] = (rty, variants)
    world.files[name] = file


def extract_bitflags(item, world, file):
    toks = item.toks
    i = 0
    while i < len(toks):
        # possibly several structs in one macro
        while i < len(toks) and toks[i].text == "#":
            i = match_close(toks, i + 1) + 1
        if i >= len(toks):
            break
        if toks[i].text == "pub":
            i += 1
        assert toks[i].text == "struct", f"{file}: bitflags! without struct at line {toks[i].line}"
        name = toks[i + 1].text
        assert toks[i + 2].text == ":"
        rty = toks[i + 3].text
        j = i + 4
        k = match_close(toks, j)
        body = toks[j + 1:k]
        consts = []
        world.flags["__current__"] = consts
        p = 0
        while p < len(body):
            if body[p].text == "#":
                p = match_close(body, p + 1) + 1
                continue
            assert body[p].text == "const", f"{file}:{name}: expected const"
            cname = body[p + 1].text
            assert body[p + 2].text == "="
            q = p + 3
            while body[q].text != ";":
                if body[q].text in ("(", "[", "{"):
                    q = match_close(body, q)
                q += 1
            val = const_eval(parse_expr(body[p + 3:q], f"{file}:{name}::{cname}"), world, INT_BITS[rty],
                             f"{file}:{name}::{cname}")
            consts.append((cname, val))
            p = q + 1
        del world.flags["__current__"]
        world.flags[name] = (rty, consts)
        world.files[name] = file
        i = k + 1


def extract_const(item, world, file):
    toks = item.toks  # NAME : TYPE = expr
    name = toks[0].text
    ty = toks[2].text
    eq = next(i for i, t in enumerate(toks) if t.text == "=")
    if ty not in INT_BITS:
        return
    try:
        val = const_eval(parse_expr(toks[eq + 1:], f"{file}:{name}"), world, INT_BITS[ty], f"{file}:{name}")
    except Untranslatable:
        return
    world.consts[name] = (ty, val)
    world.files[name] = file


def field_type_str(toks):
    return "".join(t.text for t in toks)


def extract_struct(item, world, file):
    reprs = [a for a in item.attrs if a.startswith("#[repr(")]
    rp = "rust"
    if reprs:
        inner = reprs[0][len("#[repr("):-2]
        parts = [x.strip() for x in inner.split(",")]
        if "packed" in parts:
            rp = "packed"
        elif "transparent" in parts:
            rp = "transparent"
        elif "C" in parts:
            rp = "c"
        else:
            rp = inner
    toks = item.toks
    fields = []
    i = 0
    attrs = []
    while i < len(toks):
        if toks[i].text == "#":
            k = match_close(toks, i + 1)
            attrs.append("".join(t.text for t in toks[i:k + 1]))
            i = k + 1
            continue
        if toks[i].text == "pub":
            i += 1
            if toks[i].text == "(":
                i = match_close(toks, i) + 1
            continue
        fname = toks[i].text
        assert toks[i + 1].text == ":", f"{file}:{item.name}: field syntax at line {toks[i].line}"
        j = i + 2
        depth = 0
        while j < len(toks):
            if toks[j].text in ("<", "[", "("):
                depth += 1
            elif toks[j].text in (">", "]", ")"):
                depth -= 1
            elif toks[j].text == "," and depth == 0:
                break
            j += 1
        from rsparse import cfg_excluded
        if not cfg_excluded(attrs, FEATURES):
            fields.append((fname, field_type_str(toks[i + 2:j])))
        attrs = []
        i = j + 1
    if item.name in world.structs:
        return  # first definition wins (cfg alternatives are filtered above)
    world.structs[item.name] = dict(repr=rp, fields=fields, kind=item.kind, file=file)
    world.struct_order.append(item.name)
    world.files.setdefault(item.name, file)


def extract_impl(item, world, file):
    trait, ty = impl_header(item)
    fns = impl_fns(item, FEATURES)
    if trait == "VhostUserMsgValidator":
        body = None
        for name, attrs, params, ret, b in fns:
            if name == "is_valid":
                body = b
        world.validators[ty] = body
        world.files["validator:" + ty] = file
    elif trait is None:
        d = world.impls.setdefault(ty, {})
        for name, attrs, params, ret, b in fns:
            if b is not None and name not in d:
                d[name] = (params, ret, b)


def load_world(repo):
    world = World()
    files = [
        "vhost/src/vhost_user/message.rs",
        "vhost/src/vhost_user/gpu_message.rs",
        "vhost-user-backend/src/handler.rs",
        "vhost-user-backend/src/bitmap.rs",
    ]
    for rel in files:
        path = os.path.join(repo, rel)
        for it in read_items(path):
            if it.kind == "enum_value":
                extract_enum_value(it, world, rel)
            elif it.kind == "bitflags":
                extract_bitflags(it, world, rel)
            elif it.kind == "const":
                extract_const(it, world, rel)
            elif it.kind in ("struct", "union"):
                if rel.endswith("message.rs"):
                    extract_struct(it, world, rel)
            elif it.kind == "impl":
                if rel.endswith("message.rs"):
                    extract_impl(it, world, rel)
    return world


# ------------------------------------------------------------------------------------------
# validator bodies -> Lean


def bv(bits, v):
    return f"(0x{v:x}#{bits})"


class VT:
    """Translation of validator expressions with simple type inference."""

    def __init__(self, world, struct, where, self_expr="m", codes_param=False):
        self.w, self.struct, self.where = world, struct, where
        self.self_expr = self_expr
        self.locals = {}
        self.depth = 0

    def fail(self, msg):
        raise Untranslatable(f"{self.where}: {msg}")

    def field_ty(self, struct, fname):
        for n, t in self.w.structs[struct]["fields"]:
            if n == fname:
                return t
        self.fail(f"unknown field {struct}.{fname}")

    # returns (lean, type) ; type in INT_BITS keys | 'bool' | ('opt', T) | ('res',) | ('struct', name)
    def tr(self, n, expect=None):
        op = n.op
        if op == "paren":
            return self.tr(n.args[0], expect)
        if op == "int":
            ty = n.kw.get("sfx") or expect
            if ty is None or ty not in INT_BITS:
                self.fail(f"cannot type integer literal {n.args[0]}")
            return bv(INT_BITS[ty], n.args[0] & ((1 << INT_BITS[ty]) - 1)), ty
        if op == "path":
            p = n.args
            if p == ["self"]:
                return self.self_expr, ("struct", self.struct)
            if p == ["true"]:
                return "true", "bool"
            if p == ["false"]:
                return "false", "bool"
            if len(p) == 1 and p[0] in self.locals:
                return self.locals[p[0]]
            if len(p) == 1 and p[0] in self.w.consts:
                ty, v = self.w.consts[p[0]]
                return f"({bv(INT_BITS[ty], v)} /- {p[0]} -/)", ty
            if len(p) == 2 and p[0] in self.w.flags:
                rty, consts = self.w.flags[p[0]]
                for cn, v in consts:
                    if cn == p[1]:
                        return f"({bv(INT_BITS[rty], v)} /- {p[0]}::{p[1]} -/)", ("flags", rty)
            if len(p) == 2 and p[1] == "MAX" and p[0] in INT_BITS:
                return bv(INT_BITS[p[0]], (1 << INT_BITS[p[0]]) - 1), p[0]
            self.fail(f"unknown name {'::'.join(p)}")
        if op == "field":
            base, bty = self.tr(n.args[0])
            if not (isinstance(bty, tuple) and bty[0] == "struct"):
                self.fail(f"field access on non-struct {n!r}")
            fty = self.field_ty(bty[1], n.args[1])
            if fty in INT_BITS:
                return f"{base}.{n.args[1]}", fty
            if fty in self.w.structs:
                return f"{base}.{n.args[1]}", ("struct", fty)
            self.fail(f"field {bty[1]}.{n.args[1]} of unsupported type {fty}")
        if op == "not":
            e, ty = self.tr(n.args[0], expect)
            if ty == "bool":
                return f"(!{e})", "bool"
            if ty in INT_BITS:
                return f"(~~~{e})", ty
            self.fail("`!` on unsupported type")
        if op == "cast":
            e, ty = self.tr(n.args[0])
            to = n.args[1]
            if isinstance(ty, tuple) and ty[0] == "flags":
                ty = ty[1]
            if ty not in INT_BITS or to not in INT_BITS:
                self.fail(f"cast {ty} as {to}")
            if INT_BITS[ty] == INT_BITS[to]:
                return e, to
            return f"(BitVec.setWidth {INT_BITS[to]} {e})", to
        if op == "bin":
            o, a, b = n.args
            if o in ("&&", "||"):
                x, tx = self.tr(a, "bool")
                y, ty = self.tr(b, "bool")
                if tx != "bool" or ty != "bool":
                    self.fail(f"`{o}` on non-bool")
                return f"({x} {o} {y})", "bool"
            # integer operands: type the non-literal side first
            if a.op == "int" and not a.kw.get("sfx"):
                y, ty = self.tr(b, expect if o not in ("==", "!=", "<", ">", "<=", ">=") else None)
                x, tx = self.tr(a, self.intty(ty))
            else:
                x, tx = self.tr(a, expect if o not in ("==", "!=", "<", ">", "<=", ">=") else None)
                y, ty = self.tr(b, self.intty(tx) if o not in ("<<", ">>") else "u32")
            tx, ty = self.intty(tx), self.intty(ty)
            if o in ("<<", ">>"):
                lo = "<<<" if o == "<<" else ">>>"
                return f"({x} {lo} {y}.toNat)", tx
            if tx != ty and not (INT_BITS.get(tx) == INT_BITS.get(ty)):
                self.fail(f"operand types differ: {tx} {o} {ty}")
            if o in ("==", "!="):
                return f"({x} {o} {y})", "bool"
            if o == "<":
                return f"(decide ({x} < {y}))", "bool"
            if o == ">":
                return f"(decide ({y} < {x}))", "bool"
            if o == "<=":
                return f"(decide ({x} ≤ {y}))", "bool"
            if o == ">=":
                return f"(decide ({y} ≤ {x}))", "bool"
            lop = {"&": "&&&", "|": "|||", "^": "^^^"}.get(o)
            if lop:
                return f"({x} {lop} {y})", tx
            self.fail(f"arithmetic operator `{o}` is not allowed in a validator (may overflow)")
        if op == "mcall":
            recv, name = n.args[0], n.args[1]
            margs = n.args[2:]
            if name == "bits" and not margs:
                e, ty = self.tr(recv)
                if isinstance(ty, tuple) and ty[0] == "flags":
                    return e, ty[1]
                self.fail(".bits() on non-flags")
            if name == "checked_add" and len(margs) == 1:
                x, tx = self.tr(recv)
                y, ty = self.tr(margs[0], self.intty(tx))
                if self.intty(tx) != self.intty(ty):
                    self.fail("checked_add operand types differ")
                return f"(checkedAdd {x} {y})", ("opt", self.intty(tx))
            if name in ("is_some", "is_none") and not margs:
                e, ty = self.tr(recv)
                if isinstance(ty, tuple) and ty[0] == "opt":
                    return (f"(Option.isSome {e})" if name == "is_some" else f"(Option.isNone {e})"), "bool"
                if isinstance(ty, tuple) and ty[0] == "optflags":
                    return (e if name == "is_some" else f"(!{e})"), "bool"
                self.fail(f".{name}() on non-option")
            if name in ("is_ok", "is_err") and not margs:
                e, ty = self.tr(recv)
                if isinstance(ty, tuple) and ty[0] == "res":
                    return (e if name == "is_ok" else f"(!{e})"), "bool"
                self.fail(f".{name}() on non-result")
            if name == "map_err":
                return self.tr(recv)
            if name in ("is_nil", "is_max") and not margs:
                e, ty = self.tr(recv)
                if ty != "Uuid":
                    self.fail(f".{name}() on non-Uuid")
                return (f"({e} == 0#128)" if name == "is_nil" else f"({e} == BitVec.allOnes 128)"), "bool"
            # inherent method of the same struct with a single-expression / simple body: inline
            e, ty = self.tr(recv)
            if isinstance(ty, tuple) and ty[0] == "struct" and not margs:
                sname = ty[1]
                fn = self.w.impls.get(sname, {}).get(name)
                if name == "is_valid" and fn is None and sname in self.w.validators:
                    body = self.w.validators[sname]
                    if body is None:
                        return "true", "bool"
                    fn = ([], [], body)
                if fn is None:
                    self.fail(f"unknown method {sname}::{name}")
                self.depth += 1
                if self.depth > 8:
                    self.fail(f"method inlining too deep at {sname}::{name} (recursive?)")
                sub = VT(self.w, sname, f"{self.where}->{sname}::{name}", self_expr=e)
                sub.depth = self.depth
                r = sub.block(parse_block(fn[2], sub.where))
                self.depth -= 1
                return r
            self.fail(f"unsupported method call .{name}()")
        if op == "call":
            f = n.args[0]
            if f.op == "path":
                p = f.args
                if p[-1] == "try_from" and len(p) == 2 and len(n.args) == 2:
                    e, ty = self.tr(n.args[1])
                    if p[0] in self.w.enums:
                        rty, vs = self.w.enums[p[0]]
                        if self.intty(ty) != rty:
                            self.fail(f"try_from width mismatch for {p[0]}")
                        return f"(codeOk Codes.{p[0]}.table {e}.toNat)", ("res",)
                    if p[0] in ("R", "T", "Self"):
                        return f"(codeOkN codes {e}.toNat)", ("res",)
                    self.fail(f"try_from on unknown type {p[0]}")
                if p[-1] == "from_bits" and len(p) == 2 and p[0] in self.w.flags and len(n.args) == 2:
                    rty, consts = self.w.flags[p[0]]
                    allm = 0
                    for _, v in consts:
                        allm |= v
                    e, ty = self.tr(n.args[1], rty)
                    if self.intty(ty) != rty:
                        self.fail(f"from_bits width mismatch for {p[0]}")
                    b = INT_BITS[rty]
                    return f"(({e} &&& ~~~{bv(b, allm)} /- {p[0]}::all -/) == {bv(b, 0)})", ("optflags",)
                if p[-1] == "all" and len(p) == 2 and p[0] in self.w.flags and len(n.args) == 1:
                    rty, consts = self.w.flags[p[0]]
                    allm = 0
                    for _, v in consts:
                        allm |= v
                    return f"({bv(INT_BITS[rty], allm)} /- {p[0]}::all -/)", ("flags", rty)
            self.fail(f"unsupported call {n!r}")
        if op == "if":
            return self.if_expr(n, None)
        if op == "block":
            return self.block(n.args)
        if op == "match":
            return self.match_expr(n, None)
        self.fail(f"unsupported expression {n!r}")

    def intty(self, ty):
        if isinstance(ty, tuple) and ty[0] == "flags":
            return ty[1]
        return ty

    def returns(self, node):
        """Does this block/if node end in `return` on every path?"""
        if node is None:
            return False
        if node.op == "block":
            if not node.args:
                return False
            last = node.args[-1]
            if last.op == "return":
                return True
            if last.op in ("tail", "stmt"):
                return self.returns(last.args[0])
            return False
        if node.op == "if":
            return self.returns(node.args[1]) and node.args[2] is not None and self.returns(node.args[2])
        return False

    def block(self, stmts):
        if not stmts:
            self.fail("empty block where a value is needed")
        s, rest = stmts[0], stmts[1:]
        if s.op == "return":
            return self.tr(s.args[0], "bool")
        if s.op == "tail":
            if rest:
                self.fail("statements after tail expression")
            e = s.args[0]
            if e.op == "if" and e.args[2] is None:
                self.fail("`if` without else as value")
            return self.tr(e, "bool")
        if s.op == "let":
            name, e = s.args
            if e.op == "match":
                return self.match_expr(e, (name, rest))
            v, ty = self.tr(e)
            saved = dict(self.locals)
            self.locals[name] = (name, ty)
            r, rty = self.block(rest)
            self.locals = saved
            return f"(let {name} := {v}; {r})", rty
        if s.op in ("stmt", ) and s.args[0].op == "if":
            return self.if_expr(s.args[0], rest)
        if s.op == "stmt" and s.args[0].op == "return":
            return self.tr(s.args[0].args[0], "bool")
        self.fail(f"unsupported statement {s!r}")

    def if_expr(self, n, rest):
        c, th, el = n.args
        if c.op == "iflet":
            self.fail("if-let is not supported in validators")
        ce, cty = self.tr(c, "bool")
        if cty != "bool":
            self.fail("non-bool condition")
        if rest is None:
            t, tty = self.block(th.args)
            if el is None:
                self.fail("if without else as value")
            e, ety = self.tr(el) if el.op == "if" else self.block(el.args)
            return f"(if {ce} then {t} else {e})", tty
        # statement-if followed by `rest`: each branch either returns or falls through to rest
        def branch(b):
            if b is None:
                return self.block(rest)
            if b.op == "if":
                return self.if_expr(b, rest)
            if self.returns(b):
                return self.block(b.args)
            if not b.args:
                return self.block(rest)
            self.fail("branch that neither returns nor is empty")
        t, tty = branch(th)
        e, ety = branch(el)
        return f"(if {ce} then {t} else {e})", tty

    def match_expr(self, n, bind):
        scrut, arms = n.args
        se, sty = self.tr(scrut)
        if not (isinstance(sty, tuple) and sty[0] == "opt"):
            self.fail("match on non-option")
        some = none = None
        for pat, guard, body in arms:
            if guard is not None:
                self.fail("match guard")
            m = re.match(r"Some \( (\w+) \)$", pat)
            if m:
                some = (m.group(1), body)
            elif pat == "None":
                none = body
            else:
                self.fail(f"unsupported pattern {pat}")
        if some is None or none is None:
            self.fail("match needs Some and None arms")

        def arm(body, var=None, varty=None):
            saved = dict(self.locals)
            if var:
                self.locals[var] = (var, varty)
            try:
                if body.op == "return":
                    return self.tr(body.args[0], "bool")
                if bind is not None:
                    name, rest = bind
                    v, vty = self.tr(body)
                    self.locals[name] = (name, vty)
                    r, rty = self.block(rest)
                    if v == name:
                        return r, rty
                    return f"(let {name} := {v}; {r})", rty
                return self.tr(body, "bool")
            finally:
                self.locals = saved
        s_e, s_t = arm(some[1], some[0], sty[1])
        n_e, n_t = arm(none)
        var = some[0]
        if bind is not None and some[1].op == "path" and some[1].args == [var]:
            # `let x = match e { Some(v) => v, None => return .. }`: bind x directly
            pass
        return f"(match {se} with | some {var} => {s_e} | none => {n_e})", s_t


LEAN_HEADER = "-- GENERATED by tools/rs2lean.py from /repo — do not edit.\n"


def lean_field_ty(world, t):
    if t in INT_BITS:
        return f"BitVec {INT_BITS[t]}"
    if t in world.structs:
        return t
    return None


def is_header(world, name):
    fs = [f for f, _ in world.structs[name]["fields"]]
    return fs[:3] == ["request", "flags", "size"]


def gen_validators(world):
    out = [LEAN_HEADER, "import VhostModel.Base", "import VhostModel.Gen.Codes", "", "set_option linter.unusedVariables false", "", "namespace Gen", "open Base", ""]
    emitted = set()
    notes = []

    def emit_struct(name):
        if name in emitted:
            return
        sd = world.structs[name]
        for fn, ft in sd["fields"]:
            if ft in world.structs:
                emit_struct(ft)
        emitted.add(name)
        fields = []
        for fn, ft in sd["fields"]:
            lt = lean_field_ty(world, ft)
            if lt is None:
                notes.append(f"-- {name}.{fn} : {ft} (not a scalar; omitted from the validator record)")
                continue
            fields.append((fn, lt))
        out.append(f"/-- `{name}` ({sd['file']}), scalar fields only. -/")
        out.append(f"structure {name} where")
        if not fields:
            out.append("  mk ::")
        for fn, lt in fields:
            out.append(f"  {fn} : {lt}")
        out.append("  deriving DecidableEq, Repr")
        out.append("")

    order = [n for n in world.struct_order if n in world.validators]
    table = []
    for name in order:
        emit_struct(name)
        body = world.validators[name]
        where = f"{world.files.get('validator:' + name)}: impl VhostUserMsgValidator for {name}"
        hdr = is_header(world, name)
        params = "(codes : List Nat) " if hdr else ""
        if body is None:
            expr = "true"
            table.append((name, "default"))
        else:
            vt = VT(world, name, where)
            expr, ty = vt.block(parse_block(body, where))
            if ty != "bool":
                raise Untranslatable(f"{where}: body is not bool")
            table.append((name, "custom"))
        out.append(f"/-- translated from {where} -/")
        out.append(f"def {name}.isValid {params}(m : {name}) : Bool :=")
        out.append(f"  {expr}")
        out.append("")
    out.extend(notes)
    out.append("")
    out.append("/-- which validator impls have a body (`custom`) and which rely on the trait default (`default` = always true) -/")
    out.append("def validatorKinds : List (String × String) := [")
    out.append(",\n".join(f'  ("{n}", "{k}")' for n, k in table))
    out.append("]")
    out.append("")
    out.append("end Gen")
    return "\n".join(out) + "\n"


def gen_codes(world):
    out = [LEAN_HEADER, "", "namespace Gen.Codes", ""]
    for name, (rty, vs) in world.enums.items():
        out.append(f"/-- `enum {name}: {rty}` ({world.files[name]}) -/")
        out.append(f"def {name}.table : List (String × Nat) := [")
        out.append(",\n".join(f'  ("{v}", {val})' for v, val in vs))
        out.append("]")
        out.append(f"def {name}.bits : Nat := {INT_BITS[rty]}")
        out.append("")
    out.append("end Gen.Codes")
    return "\n".join(out) + "\n"


def gen_flags(world):
    out = [LEAN_HEADER, "", "namespace Gen.Flags", ""]
    for name, (rty, cs) in world.flags.items():
        allm = 0
        for _, v in cs:
            allm |= v
        out.append(f"/-- `bitflags struct {name}: {rty}` ({world.files[name]}) -/")
        out.append(f"def {name}.table : List (String × Nat) := [")
        out.append(",\n".join(f'  ("{c}", 0x{v:x})' for c, v in cs))
        out.append("]")
        out.append(f"def {name}.bits : Nat := {INT_BITS[rty]}")
        out.append(f"def {name}.all : Nat := 0x{allm:x}")
        for c, v in cs:
            out.append(f"def {name}.{c} : Nat := 0x{v:x}")
        out.append("")
    out.append("end Gen.Flags")
    return "\n".join(out) + "\n"


def gen_consts(world):
    out = [LEAN_HEADER, "", "namespace Gen.Consts", ""]
    for name, (ty, v) in world.consts.items():
        out.append(f"/-- `const {name}: {ty}` ({world.files[name]}) -/")
        out.append(f"def {name} : Nat := 0x{v:x}")
    out.append("")
    out.append("end Gen.Consts")
    return "\n".join(out) + "\n"


def lean_fieldty(world, t, where):
    t = t.strip()
    if t in INT_BITS and t != "Uuid":
        return f"(.int {INT_BITS[t] // 8})"
    if t == "Uuid":
        return "(.arr (.int 1) 16)"
    m = re.match(r"\[(.+);(.+)\]$", t)
    if m:
        inner = lean_fieldty(world, m.group(1), where)
        n = m.group(2).strip()
        if n in world.consts:
            n = world.consts[n][1]
        else:
            n = int(n, 0)
        return f"(.arr {inner} {n})"
    if t.startswith("PhantomData"):
        return "(.arr (.int 1) 0)"
    if t in world.structs:
        return f'(.struct "{t}")'
    raise Untranslatable(f"{where}: unsupported field type {t}")


def gen_layout(world):
    out = [LEAN_HEADER, "import VhostModel.Base", "", "namespace Gen.Layout", "open Base", ""]
    out.append("def structs : List StructDef := [")
    rows = []
    for name in world.struct_order:
        sd = world.structs[name]
        if sd["repr"] not in ("c", "packed", "transparent"):
            continue
        fs = ", ".join(f'("{fn}", {lean_fieldty(world, ft, sd["file"] + ":" + name)})' for fn, ft in sd["fields"])
        rows.append(f'  {{ name := "{name}", repr := .{sd["repr"]}, fields := [{fs}] }}')
    out.append(",\n".join(rows))
    out.append("]")
    out.append("")
    out.append("end Gen.Layout")
    return "\n".join(out) + "\n"


def write_if_changed(path, content):
    old = None
    if os.path.exists(path):
        with open(path) as f:
            old = f.read()
    if old != content:
        with open(path, "w") as f:
            f.write(content)
        return True
    return False


def main():
    ap = argparse.ArgumentParser()
    ap.add_argument("--repo", default="/repo")
    ap.add_argument("--out", default=os.path.join(os.path.dirname(os.path.abspath(__file__)), "..", "lean", "VhostModel", "Gen"))
    ap.add_argument("--json", action="store_true", help="print a summary of what was extracted")
    args = ap.parse_args()
    os.makedirs(args.out, exist_ok=True)
    status = {}
    failed = []
    try:
        world = load_world(args.repo)
    except (Untranslatable, AssertionError, IndexError, KeyError, StopIteration) as e:
        print(f"rs2lean: cannot read source: {e}", file=sys.stderr)
        print(json.dumps({"failed": ["world"], "error": str(e)}))
        sys.exit(2)
    gens = [("Codes", gen_codes), ("Flags", gen_flags), ("Consts", gen_consts), ("Layout", gen_layout),
            ("Validators", gen_validators)]
    try:
        import rs2lean_kern
        gens += rs2lean_kern.generators(args.repo)
    except ImportError:
        pass
    try:
        import rs2lean_adapters
        gens += rs2lean_adapters.generators(args.repo)
    except ImportError:
        pass
    try:
        import rs2lean_locks
        gens += rs2lean_locks.generators(args.repo)
    except ImportError:
        pass
    try:
        import rs2lean_frontend
        gens += rs2lean_frontend.generators(args.repo)
    except ImportError:
        pass
    try:
        import rs2lean_helpers
        gens += rs2lean_helpers.generators(args.repo)
    except ImportError:
        pass
    try:
        import rs2lean_arith
        gens += rs2lean_arith.generators(args.repo)
    except ImportError:
        pass
    try:
        import rs2lean_conn
        gens += rs2lean_conn.generators(args.repo)
    except ImportError:
        pass
    try:
        import rs2lean_handler
        gens += rs2lean_handler.generators(args.repo)
    except ImportError:
        pass
    try:
        import rs2lean_proxy
        gens += rs2lean_proxy.generators(args.repo)
    except ImportError:
        pass
    try:
        import rs2lean_lts
        gens += rs2lean_lts.generators(args.repo)
    except ImportError:
        pass
    try:
        import rs2lean_ferecv
        gens += rs2lean_ferecv.generators(args.repo)
    except ImportError:
        pass
    try:
        import rs2lean_dispatch
        gens += rs2lean_dispatch.generators(args.repo)
    except ImportError:
        pass
    try:
        import rs2lean_ctors
        gens += rs2lean_ctors.generators(args.repo)
    except ImportError:
        pass
    try:
        import rs2lean_errno
        gens += rs2lean_errno.generators(args.repo)
    except ImportError:
        pass
    for name, g in gens:
        try:
            content = g(world)
            changed = write_if_changed(os.path.join(args.out, name + ".lean"), content)
            status[name] = "changed" if changed else "same"
        except (Untranslatable, AssertionError, IndexError, KeyError, StopIteration) as e:
            failed.append(name)
            status[name] = f"FAILED: {e}"
            print(f"rs2lean: {name}: {e}", file=sys.stderr)
    print(json.dumps({"status": status, "failed": failed}))
    sys.exit(2 if failed else 0)


if __name__ == "__main__":
    main()
