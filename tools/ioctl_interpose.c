/* LD_PRELOAD interposer used by the `kern` harness family (property C19).
 *
 * The harness opens a dummy descriptor (/dev/null) and announces it with the control request
 * VERIF_CTL on that descriptor; from then on every ioctl()/write()/read() on that descriptor is
 * answered here and never reaches the kernel:
 *   - the call is appended to the log buffer supplied by the harness:
 *       u64 kind (1 = ioctl, 2 = write, 3 = read), u64 request (or byte count), u64 n, n captured bytes
 *     For an ioctl the captured bytes are the _IOC_SIZE(request) bytes the argument points to
 *     (captured BEFORE anything is written back); for the three requests whose argument ends in a
 *     flexible array (VHOST_SET_MEM_TABLE, VHOST_VDPA_GET_CONFIG, VHOST_VDPA_SET_CONFIG — the numbers
 *     come from <linux/vhost.h>, not from the crate) the array announced by the header is captured too.
 *     For _IOC_NONE requests the raw third argument is captured as 8 bytes.
 *   - for requests with _IOC_READ the write-back pattern supplied by the harness is copied over the
 *     argument (cyclically), so that "returns what the kernel wrote back" is observable; for
 *     VHOST_VDPA_GET_CONFIG only the buf[len] area is overwritten (as the kernel does).
 *   - the call returns `rc` from the control block (for write: the byte count when rc == 0), with
 *     errno = EINVAL when rc < 0.
 * Everything on other descriptors is forwarded to libc.
 */
#define _GNU_SOURCE
#include <dlfcn.h>
#include <errno.h>
#include <stdarg.h>
#include <stdint.h>
#include <string.h>
#include <sys/types.h>
#include <unistd.h>
#include <sys/ioctl.h>
#include <linux/vhost.h>

#define VERIF_CTL 0x56455249UL /* 'VERI' : no direction/size bits that a real driver would decode */

struct verif_ctl {
    uint64_t enable;     /* 1 = mark fd, 0 = unmark */
    uint64_t log;        /* uint8_t *  : log buffer */
    uint64_t log_cap;    /* capacity in bytes */
    uint64_t log_len;    /* uint64_t * : bytes used (updated by the interposer) */
    uint64_t wb;         /* const uint8_t * : write-back pattern */
    uint64_t wb_len;
    int64_t rc;          /* value the intercepted calls return */
};

static int marked_fd = -1;
static struct verif_ctl ctl;

static int (*real_ioctl)(int, unsigned long, void *);
static ssize_t (*real_write)(int, const void *, size_t);
static ssize_t (*real_read)(int, void *, size_t);

static void put(uint64_t kind, uint64_t req, const void *data, uint64_t n)
{
    uint8_t *log = (uint8_t *)(uintptr_t)ctl.log;
    uint64_t *len = (uint64_t *)(uintptr_t)ctl.log_len;
    if (!log || !len || *len + 24 + n > ctl.log_cap)
        return;
    memcpy(log + *len, &kind, 8);
    memcpy(log + *len + 8, &req, 8);
    memcpy(log + *len + 16, &n, 8);
    if (n)
        memcpy(log + *len + 24, data, n);
    *len += 24 + n;
}

static void writeback(uint8_t *dst, uint64_t n)
{
    const uint8_t *wb = (const uint8_t *)(uintptr_t)ctl.wb;
    if (!wb || !ctl.wb_len)
        return;
    for (uint64_t i = 0; i < n; i++)
        dst[i] = wb[i % ctl.wb_len];
}

int ioctl(int fd, unsigned long req, ...)
{
    va_list ap;
    va_start(ap, req);
    void *arg = va_arg(ap, void *);
    va_end(ap);
    if (!real_ioctl)
        real_ioctl = (int (*)(int, unsigned long, void *))dlsym(RTLD_NEXT, "ioctl");
    if (req == VERIF_CTL && arg) {
        memcpy(&ctl, arg, sizeof ctl);
        marked_fd = ctl.enable ? fd : -1;
        return 0x5645; /* tells the harness that the interposer is present */
    }
    if (fd < 0 || fd != marked_fd)
        return real_ioctl(fd, req, arg);

    uint64_t size = _IOC_SIZE(req);
    unsigned dir = _IOC_DIR(req);
    if (dir == _IOC_NONE) {
        uint64_t raw = (uint64_t)(uintptr_t)arg;
        put(1, req, &raw, 8);
    } else {
        uint64_t n = size;
        if (req == VHOST_SET_MEM_TABLE && arg) {
            struct vhost_memory *m = arg;
            n = sizeof *m + (uint64_t)m->nregions * sizeof(struct vhost_memory_region);
        } else if ((req == VHOST_VDPA_GET_CONFIG || req == VHOST_VDPA_SET_CONFIG) && arg) {
            struct vhost_vdpa_config *c = arg;
            n = sizeof *c + (uint64_t)c->len;
        }
        put(1, req, arg, arg ? n : 0);
        if ((dir & _IOC_READ) && arg && ctl.rc >= 0) {
            if (req == VHOST_VDPA_GET_CONFIG) {
                struct vhost_vdpa_config *c = arg;
                writeback(c->buf, c->len);
            } else {
                writeback(arg, size);
            }
        }
    }
    if (ctl.rc < 0) {
        errno = EINVAL;
        return -1;
    }
    return (int)ctl.rc;
}

ssize_t write(int fd, const void *buf, size_t count)
{
    if (!real_write)
        real_write = (ssize_t (*)(int, const void *, size_t))dlsym(RTLD_NEXT, "write");
    if (fd < 0 || fd != marked_fd)
        return real_write(fd, buf, count);
    put(2, count, buf, count);
    if (ctl.rc < 0) {
        errno = EINVAL;
        return -1;
    }
    return (ssize_t)count;
}

ssize_t read(int fd, void *buf, size_t count)
{
    if (!real_read)
        real_read = (ssize_t (*)(int, void *, size_t))dlsym(RTLD_NEXT, "read");
    if (fd < 0 || fd != marked_fd)
        return real_read(fd, buf, count);
    put(3, count, 0, 0);
    if (ctl.rc < 0) {
        errno = EINVAL;
        return -1;
    }
    writeback(buf, count);
    return (ssize_t)count;
}
