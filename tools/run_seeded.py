#!/usr/bin/env python3
"""Run every seeded change under /verif/seeded against the checks that should notice it and (re)write seeded/README.md.
usage: tools/run_seeded.py [name-prefix ...]      (applies each patch to /repo, runs the checks, reverts; ~30 s per change)"""
import json, os, subprocess, sys
V = os.path.dirname(os.path.dirname(os.path.abspath(__file__)))
S = os.path.join(V, "seeded")
RES = os.path.join(S, "results.json")
# checks expected to notice each change besides the property it was written against
ALSO = {"C01-reply-flags-echo": ["C04"], "C01-vring-addr-layout": ["C02"], "C20-hdr-reserved-bits": ["C05"], "C20-vring-align-swap": ["C05"],
        "C03-add-mem-reg-early-return-no-nack": ["C04"], "C04-reply-keeps-need-reply": ["C01"], "C05-region-top-inclusive": ["C20"],
        # round 3: the defect belongs (also) to a sibling property, whose check finds the failing input
        "R3-C02-unsolicited-nack": ["C04"], "R3-C11-second-worker-event-id": ["C17"], "R3-C11-get-base-unstarted-keeps-call": ["C14"],
        # round 4
        "R4-C12-set-features-stale-legacy-check": ["C11"], "R4-C12-evt-idx-first-queue-offset": ["C17"],
        "R4-C04-header-size-bound": ["C20", "C05"], "R4-C02-rwlock-adapter-try-write": ["C14"],
        # round 5
        "R5-C05-recv-data-iov-len": ["C08"], "R5-C11-sparse-thread-mask": ["C17"],
        # round 6
        "R6-C12-evt-idx-block-offset": ["C17"],
        # round 7
        "R7-C11-sparse-mask-event-index": ["C17"]}
claimed = {c["property_id"] if "property_id" in c else c.get("id") for c in json.load(open(os.path.join(V, "MANIFEST.json"))).get("checks", [])}
want = sys.argv[1:]
res = json.load(open(RES)) if os.path.exists(RES) else {}
for name in sorted(os.listdir(S)):
    d = os.path.join(S, name)
    if not os.path.isdir(d) or (want and not any(name.startswith(w) for w in want)):
        continue
    meta = json.load(open(os.path.join(d, "meta.json")))
    props = [meta["property"]] + ALSO.get(name, [])
    if name.startswith("R3-C05-gpa"):
        props = ["C05", "C13"]
    if name.startswith("R2-C05-ring-extent"):
        props = ["C05", "C14", "C13"]
    props = [p for p in props if os.path.exists(os.path.join(V, "checks", p.lower() + ".py"))]
    if not props:
        res[name] = {"property": meta["property"], "title": meta.get("title", ""), "checks": {}}
        continue
    o = subprocess.run([sys.executable, os.path.join(V, "tools", "try_seeded.py"), os.path.join(d, "patch.diff")] + props,
                       capture_output=True, text=True)
    last = [l for l in o.stdout.splitlines() if l.startswith("{")]
    r = json.loads(last[-1]) if last else {}
    out = {}
    for p, v in r.items():
        viol = [l for l in v["lines"] if l.startswith("VIOLATION")]
        concrete = [l for l in viol if not l.rstrip().endswith("no-failing-input-found")]
        out[p] = {"exit": v["exit"], "verdict": "replay" if concrete else ("no-failing-input-found" if viol else "missed"),
                  "summary": next((l for l in v["lines"] if l.startswith("[")), "")}
    res[name] = {"property": meta["property"], "title": meta.get("title", ""), "checks": out}
    print(name, {p: x["verdict"] for p, x in out.items()}, flush=True)
    json.dump(res, open(RES, "w"), indent=1, sort_keys=True)
json.dump(res, open(RES, "w"), indent=1, sort_keys=True)
with open(os.path.join(S, "README.md"), "w") as f:
    f.write("# Seeded changes\n\nEach directory holds a change to rust-vmm/vhost that breaks one property while still compiling and passing the pinned "
            "test suite (`patch.diff`), a demonstration test that fails with the change and passes without it, and `meta.json`. They were written by "
            "sub-agents that saw only the property text and a scratch worktree, and confirmed with `tools/confirm_seeded.sh`. None is ever committed "
            "to /repo. `tools/run_seeded.py` applies each one to /repo, runs the listed checks (quick tier), reverts, and rewrites this table.\n\n"
            "verdict: `replay` = VIOLATION with a concrete failing input found in the implementation; `no-failing-input-found` = only a proof "
            "obligation / the model correspondence broke; `missed` = the check stayed green.\n\n| change | what it does | checks -> verdict |\n|---|---|---|\n")
    for name, r in sorted(res.items()):
        cs = ", ".join(f"{p}: {x['verdict']}" for p, x in sorted(r["checks"].items())) or "(no check claims this property yet)"
        f.write(f"| {name} | {r['title'].replace('|', '/')} | {cs} |\n")
print("written", os.path.join(S, "README.md"))
