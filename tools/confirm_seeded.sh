#!/bin/sh
# Confirm a seeded change in a scratch worktree: demonstration passes without the patch, fails with it, and the
# pinned suite still passes with it. usage: tools/confirm_seeded.sh <dir with patch.diff + demo .rs + run.txt>
set -u
D=$(realpath "$1")
S=/tmp/seedcheck.$$
git -C /repo worktree add --detach -f "$S" HEAD >/dev/null 2>&1 || { echo "cannot create worktree"; exit 2; }
cleanup() { rm -rf "$S/target"; git -C /repo worktree remove --force "$S" >/dev/null 2>&1; }
trap cleanup EXIT
cd "$S"
CMD=$(grep -v "^#" "$D/run.txt" | grep "cargo test" | head -1 | sed "s/.*&& *cargo test/cargo test/")
crate=vhost; echo "$CMD" | grep -q "vhost-user-backend" && echo "$CMD" | grep -q -- "-p vhost-user-backend" && crate=vhost-user-backend
mkdir -p $crate/tests
for f in "$D"/*.rs; do cp "$f" $crate/tests/; done
export CARGO_NET_OFFLINE=true CARGO_TARGET_DIR=/tmp/seedcheck-target
echo "== demo WITHOUT patch: $CMD"
sh -c "$CMD" >/tmp/seedcheck.out 2>&1; r0=$?; tail -3 /tmp/seedcheck.out
git apply "$D/patch.diff" || { echo "PATCH DOES NOT APPLY"; exit 2; }
echo "== demo WITH patch"
sh -c "$CMD" >/tmp/seedcheck.out 2>&1; r1=$?; grep -E "^test result|panicked|FAILED" /tmp/seedcheck.out | head -5
echo "== pinned suite WITH patch (demo removed)"
for f in "$D"/*.rs; do rm -f $crate/tests/$(basename "$f"); done
cargo test --workspace --no-fail-fast --offline >/tmp/seedcheck.out 2>&1; r2=$?; grep -E "^test result" /tmp/seedcheck.out | head -4
echo "RESULT demo_without=$r0 demo_with=$r1 suite_with=$r2"
[ $r0 -eq 0 ] && [ $r1 -ne 0 ] && [ $r2 -eq 0 ] && echo CONFIRMED || echo NOT-CONFIRMED
