"""Translator extension: the lock / reference-count adapter impls (`impl Trait for Arc<T> | Mutex<T> | RwLock<T>`).

Every method of such an impl must have the shape

    fn NAME(&self, P1: T1, .., Pn: Tn) -> R { self.ACCESS()[.unwrap()].INNER(A1, .., Am) }

with ACCESS one of `deref`, `lock`, `read`, `write` (`unwrap()` required for the three lock accessors and absent for
`deref`) and every argument a plain identifier.  One table row is emitted per method:
(impl, source file, outer method, accessor, inner method, parameter names, argument names).
Anything else — a body with statements, a closure, an argument expression, a missing impl — raises `Untranslatable`
naming file and method, so the check fails loudly instead of generating a table that hides the change.

Picked up by tools/rs2lean.py through `generators(repo)`.
"""
import os

import rsparse
from rsparse import Untranslatable

# (file, trait, wrapper types that must be present)
SOURCES = [
    ("vhost-user-backend/src/backend.rs", "VhostUserBackend", ["Arc", "Mutex", "RwLock"]),
    ("vhost/src/vhost_user/backend_req_handler.rs", "VhostUserBackendReqHandler", ["Mutex"]),
    ("vhost/src/vhost_user/frontend_req_handler.rs", "VhostUserFrontendReqHandler", ["Mutex"]),
]
WRAPPERS = ("Arc", "Mutex", "RwLock", "RefCell", "Rc", "Box")
ACCESSORS = {"Arc": ("deref",), "Mutex": ("lock",), "RwLock": ("read", "write")}
# features under which methods are compiled in the harness build
FEATURES = ("postcopy", "vhost-user-frontend", "vhost-user-backend", "vhost-user")


def split_commas(toks):
    """split a token list at top-level commas"""
    out, cur, depth = [], [], 0
    for t in toks:
        if t.text in ("(", "[", "{", "<"):
            depth += 1
        elif t.text in (")", "]", "}", ">"):
            depth -= 1
        elif t.text == ">>":
            depth -= 2
        if t.text == "," and depth == 0:
            out.append(cur)
            cur = []
        else:
            cur.append(t)
    if cur:
        out.append(cur)
    return out


def param_names(params, where):
    parts = split_commas(params)
    if not parts or [t.text for t in parts[0]] != ["&", "self"]:
        raise Untranslatable(f"{where}: first parameter is not `&self`")
    names = []
    for p in parts[1:]:
        if len(p) < 3 or p[0].kind != "ident" or p[1].text != ":":
            raise Untranslatable(f"{where}: parameter `{' '.join(t.text for t in p)}` is not `name: Type`")
        names.append(p[0].text)
    return names


def delegation(body, wrapper, where):
    """body tokens -> (accessor, inner method, argument names)"""
    tx = [t.text for t in body]
    if tx and tx[-1] == ";":
        raise Untranslatable(f"{where}: body ends with `;` (result of the inner call is dropped)")
    # self . ACCESS ( )
    if len(tx) < 5 or tx[0] != "self" or tx[1] != "." or tx[3] != "(" or tx[4] != ")":
        raise Untranslatable(f"{where}: body does not start with `self.<accessor>()`")
    acc = tx[2]
    if acc not in ACCESSORS.get(wrapper, ()):
        raise Untranslatable(f"{where}: accessor `{acc}` is not one of {ACCESSORS.get(wrapper)} for {wrapper}<T>")
    i = 5
    if acc == "deref":
        pass
    else:
        if tx[i:i + 4] != [".", "unwrap", "(", ")"]:
            raise Untranslatable(f"{where}: `{acc}()` is not followed by `.unwrap()`")
        i += 4
    if i + 2 >= len(tx) or tx[i] != "." or body[i + 1].kind != "ident" or tx[i + 2] != "(":
        raise Untranslatable(f"{where}: no inner method call after the accessor")
    inner = tx[i + 1]
    close = rsparse.match_close(body, i + 2)
    if close != len(body) - 1:
        raise Untranslatable(f"{where}: tokens after the inner call: `{' '.join(tx[close + 1:])}`")
    args = []
    for a in split_commas(body[i + 3:close]):
        if len(a) != 1 or a[0].kind != "ident":
            raise Untranslatable(f"{where}: argument `{' '.join(t.text for t in a)}` is not a plain identifier")
        args.append(a[0].text)
    return acc, inner, args


def wrapper_of(item):
    """(trait, wrapper type) of `impl<..> Trait for Wrapper<T>`; None if the impl is not of that form"""
    h = item.extra["header"]
    tx = [t.text for t in h]
    if "for" not in tx:
        return None
    k = tx.index("for")
    rest = [t for t in h[k + 1:]]
    if not rest or rest[0].kind != "ident":
        return None
    w = rest[0].text
    trait, _ = rsparse.impl_header(item)
    if len(rest) < 2 or rest[1].text != "<":
        return None
    return trait, w


def extract(repo):
    rows = []
    for rel, trait, needed in SOURCES:
        path = os.path.join(repo, rel)
        with open(path) as f:
            toks = rsparse.tokenize(f.read())
        found = set()
        for it in rsparse.scan_items(toks, FEATURES):
            if it.kind != "impl":
                continue
            tw = wrapper_of(it)
            if tw is None:
                continue
            tr, w = tw
            if tr != trait or w not in WRAPPERS:
                continue
            if w not in ACCESSORS:
                raise Untranslatable(f"{rel}: adapter impl `{trait} for {w}<..>` has no recognised accessor")
            found.add(w)
            fns = rsparse.impl_fns(it, FEATURES)
            if not fns:
                raise Untranslatable(f"{rel}: impl {trait} for {w}<..> has no methods")
            for name, _attrs, params, _ret, body in fns:
                where = f"{rel}: impl {trait} for {w}<..>::{name}"
                if body is None:
                    raise Untranslatable(f"{where}: no body")
                ps = param_names(params, where)
                acc, inner, args = delegation(body, w, where)
                rows.append((f"{trait} for {w}", rel, name, acc, inner, ps, args))
        missing = [w for w in needed if w not in found]
        if missing:
            raise Untranslatable(f"{rel}: expected adapter impl(s) of {trait} for {missing} not found")
    return rows


def lean_str(s):
    return '"' + s.replace("\\", "\\\\").replace('"', '\\"') + '"'


def lean_list(xs):
    return "[" + ", ".join(lean_str(x) for x in xs) + "]"


def gen_adapters_for(repo):
    def gen(_world):
        rows = extract(repo)
        out = ["-- GENERATED by tools/rs2lean.py (tools/rs2lean_adapters.py) from /repo — do not edit.", "", "",
               "namespace Gen.Adapters", "",
               "/-- one method of an adapter impl: `fn outer(&self, params..) { self.access()[.unwrap()].inner(args..) }` -/",
               "structure Row where", "  impl : String", "  file : String", "  outer : String", "  access : String",
               "  inner : String", "  params : List String", "  args : List String", "  deriving DecidableEq, Repr", "",
               "def table : List Row := ["]
        body = []
        for impl, rel, outer, acc, inner, ps, args in rows:
            body.append(f"  ⟨{lean_str(impl)}, {lean_str(rel)}, {lean_str(outer)}, {lean_str(acc)}, {lean_str(inner)}, "
                        f"{lean_list(ps)}, {lean_list(args)}⟩")
        out.append(",\n".join(body))
        out += ["]", "", "end Gen.Adapters", ""]
        return "\n".join(out)
    return gen


def generators(repo):
    return [("Adapters", gen_adapters_for(repo))]


if __name__ == "__main__":
    import sys
    for r in extract(sys.argv[1] if len(sys.argv) > 1 else "/repo"):
        print(r)
