#!/usr/bin/env python3
"""Regenerates MANIFEST.json from the table below (one entry per claimed property)."""
import json, os, subprocess
V = os.path.dirname(os.path.dirname(os.path.abspath(__file__)))

COMMON_NOTE = ("Trusted: Lean 4.33 kernel; axioms limited to propext/Classical.choice/Quot.sound (audited per theorem on every run); "
               "the translator tools/rs2lean.py; the correspondence machinery (harness, drivers, generators — sampled comparison, "
               "distribution printed in the evidence); Spec/*.lean as a hand transcription of the protocol; little-endian host. ")

CLAIMS = {
 "C20": dict(
   text="Lean 4 theorems `Gen.X.isValid m = true <-> Spec.validX ...` for every validated message type and all bit patterns (kernel-checked, no bound); the validators (Gen/Validators.lean), request-code tables and struct layouts are regenerated from message.rs/gpu_message.rs by the translator on every run, so a changed validator breaks a proof obligation; the compiled crate's is_valid() is additionally compared with the generated validator and with the Spec rule on the exhaustive boundary product.",
   note="Spec/Valid.lean is a hand transcription of the protocol rules; the translator is cross-checked against the compiled is_valid() on ~120k inputs per run.",
   technique="Lean 4 proof over a translator-generated model + differential correspondence", ref="DESIGN.md §7 C20"),
 "C07": dict(
   text="Lean 4 theorems over the executable model of the backend request server (table of dispatch arms with their ordered guard calls): a gated request whose protocol-feature bit is not acknowledged never reaches the handler (for every header, body, descriptor list, stream segmentation and handler script), the acknowledged protocol features always equal what the handler was last told (invariant over all histories), ring enable needs bit 30, GET_PROTOCOL_FEATURES always offers REPLY_ACK. The model is tied to backend_req_handler.rs by the `srv` correspondence family (real BackendReqHandler vs model vs Spec on every gated request x feature subsets x message orders).",
   note="Backend side proved; the model's dispatch table is hand-written and tied to the code by correspondence only. Frontend-endpoint and proxy gates: covered by the `fe`/`proxy` families once claimed (see evidence.families).",
   technique="Lean 4 proof (invariant over histories) over a hand-written executable model + differential correspondence", ref="DESIGN.md §7 C07"),
 "C05": dict(
   text="Lean 4 theorems over the executable model of the backend request server for arbitrary cell streams, choosers (segmentations) and handler scripts: unknown codes and invalid headers are never dispatched, at most one handler call per request, the memory-table arm reads only inside the received body; the model (which uses the validators regenerated from the source) is compared with the real server on grammar-aware malformed streams; every handler call observed is checked against the protocol's validity rules and every request violating a listed rule must be refused without a handler call; a panic (overflow checks and debug assertions on) is a violation.",
   note="`handler_args_valid` is decided per observed call by the spec driver (sampled) and by C20's validator theorems; memory safety of the unsafe casts is trusted to rustc given the length guards; the daemon-side arithmetic (vhost-user-backend handler) is covered by the daemon families as they are claimed.",
   technique="Lean 4 proof over a hand-written executable model + differential correspondence on malformed input", ref="DESIGN.md §7 C05"),
 "C04": dict(
   text="Lean 4 theorems over the executable model of the backend request server: the REPLY_ACK flag equals (PROTOCOL_FEATURES offered and REPLY_ACK acknowledged) after every history (invariant), every acknowledgement is written iff that flag and NEED_REPLY hold and is 0 iff the handler succeeded, every reply header carries the request's code, version 1|REPLY without NEED_REPLY and the payload size. The byte-exact reaction to every well-formed request (exactly one reply / one ack / nothing, consumed exactly header+size) is compared with Spec.Proto.owed and with the model on exhaustive single-request scenarios after each negotiation prefix and on random histories.",
   note="`reply_as_owed` for all 34 arms is decided by the spec driver on observed replies (sampled), not yet by a theorem.",
   technique="Lean 4 proof (state invariant, reply shape) over a hand-written executable model + differential correspondence", ref="DESIGN.md §7 C04"),
}

def chk(pid, c):
    return {
      "property_id": pid,
      "quick_cmd": f"./check.py {pid} --tier quick",
      "thorough_cmd": f"./check.py {pid} --tier thorough",
      "evidence_file": f"/verif/evidence/{pid}.json",
      "replay_cmd_template": f"./check.py {pid} --replay {{path}}",
      "engine": "lean4-proof+correspondence",
      "level_claimed": {"category": "proof", "text": c["text"], "design_ref": c["ref"]},
      "level_note": COMMON_NOTE + c["note"],
      "technique": c["technique"],
    }

def main():
    allp = [f"C{n:02d}" for n in range(1, 21)]
    hooks = subprocess.run(["git", "-C", "/repo", "log", "--format=%h %s"], capture_output=True, text=True).stdout.splitlines()
    hook_commits = [l.split()[0] for l in hooks if "verif hooks" in l or "verif-hooks" in l]
    m = {
      "version": 1,
      "setup_cmd": "./setup.sh",
      "hooks": {"guard": "cargo feature `verif-hooks` (vhost, vhost-user-backend)",
                "enable": "the harness crate /verif/harness depends on /repo/vhost and /repo/vhost-user-backend by path with features [..., \"verif-hooks\"]; `cargo build --release --offline` in /verif/harness",
                "baseline_off_cmd": "cd /repo && cargo test --workspace --no-fail-fast --offline",
                "source_commits": hook_commits, "add_only": True},
      "engines": [{"name": "lean4-proof+correspondence", "path": "/verif/check.py", "serves_properties": sorted(CLAIMS),
                   "kind_free_text": "Lean 4 model + theorems (lean/), translator (tools/rs2lean.py), Rust harness (harness/), model and spec drivers (lean_exe), orchestrated by check.py"}],
      "checks": [chk(p, CLAIMS[p]) for p in sorted(CLAIMS)],
      "not_applicable": [{"property_id": p, "reason": "not yet claimed: the model, theorems and correspondence family for this property are still being built (DESIGN.md §7, §12); no other technique is substituted"} for p in allp if p not in CLAIMS],
      "notes": "All checks share one Lean project and one harness crate; see DESIGN.md and docs/CONVENTIONS.md.",
    }
    json.dump(m, open(os.path.join(V, "MANIFEST.json"), "w"), indent=1)

if __name__ == "__main__":
    main()
