#!/usr/bin/env python3
"""Regenerates MANIFEST.json from the table below (one entry per claimed property)."""
import json, os, subprocess
V = os.path.dirname(os.path.dirname(os.path.abspath(__file__)))

COMMON_NOTE = ("Trusted: Lean 4.33 kernel; axioms limited to propext/Classical.choice/Quot.sound (audited per theorem on every run); "
               "the translator tools/rs2lean.py; the correspondence machinery (harness, drivers, generators — sampled comparison, "
               "distribution printed in the evidence); Spec/*.lean as a hand transcription of the protocol; little-endian host. ")

CLAIMS = {
 "C20": dict(
   text="Lean 4 theorems `Gen.X.isValid m = true <-> Spec.validX ...` for every validated message type and all bit patterns (kernel-checked, no bound); the validators (Gen/Validators.lean), request-code tables and struct layouts are regenerated from message.rs/gpu_message.rs by the translator on every run, so a changed validator breaks a proof obligation; the compiled crate's is_valid() is additionally compared with the generated validator and with the Spec rule on the exhaustive boundary product.",
   note="Spec/Valid.lean is a hand transcription of the protocol rules; the translator is cross-checked against the compiled is_valid() on ~120k inputs per run.",
   technique="Lean 4 proof over a translator-generated model + differential correspondence", ref="DESIGN.md §7 C20"),
 "C07": dict(
   text="Lean 4 theorems over the executable model of the backend request server (table of dispatch arms with their ordered guard calls): a gated request whose protocol-feature bit is not acknowledged never reaches the handler (for every header, body, descriptor list, stream segmentation and handler script), the acknowledged protocol features always equal what the handler was last told (invariant over all histories), ring enable needs bit 30, GET_PROTOCOL_FEATURES always offers REPLY_ACK. The model is tied to backend_req_handler.rs by the `srv` correspondence family (real BackendReqHandler vs model vs Spec on every gated request x feature subsets x message orders).",
   note="Backend and frontend-endpoint gates proved (backend_gate, history_gate, frontend_gate, frontend_ring_enable_needs_protocol_features, ...); the backend model's dispatch table is compared arm by arm with the guard calls the translator extracts from handle_request (Props.Dispatch.arms_match_source), so a dropped or reordered check_proto_feature breaks a proof obligation; proxy gates come with C18's families.",
   technique="Lean 4 proof (invariant over histories) over a hand-written executable model + differential correspondence", ref="DESIGN.md §7 C07"),
 "C05": dict(
   text="Lean 4 theorems over the executable model of the backend request server for arbitrary cell streams, choosers (segmentations) and handler scripts: unknown codes and invalid headers are never dispatched, at most one handler call per request, the memory-table arm reads only inside the received body; the model (which uses the validators regenerated from the source) is compared with the real server on grammar-aware malformed streams; every handler call observed is checked against the protocol's validity rules and every request violating a listed rule must be refused without a handler call; a panic (overflow checks and debug assertions on) is a violation.",
   note="Props.C05Args proves `handler_args_valid` for every request, stream, chooser, handler script and history: whatever reaches a handler satisfies Spec validity (sizes, validators, descriptor counts); memory safety of the unsafe casts is trusted to rustc given the length guards; the daemon-side arithmetic (vhost-user-backend handler) is covered by the daemon families as they are claimed.",
   technique="Lean 4 proof over a hand-written executable model + differential correspondence on malformed input", ref="DESIGN.md §7 C05"),
 "C04": dict(
   text="Lean 4 theorems over the executable model of the backend request server: the REPLY_ACK flag equals (PROTOCOL_FEATURES offered and REPLY_ACK acknowledged) after every history (invariant), every acknowledgement is written iff that flag and NEED_REPLY hold and is 0 iff the handler succeeded, every reply header carries the request's code, version 1|REPLY without NEED_REPLY and the payload size. The byte-exact reaction to every well-formed request (exactly one reply / one ack / nothing, consumed exactly header+size) is compared with Spec.Proto.owed and with the model on exhaustive single-request scenarios after each negotiation prefix and on random histories.",
   note="Props.C04Owed proves for all inputs and all 34 implemented codes: an accepted request calls the handler exactly once as Spec.Proto.expectedCall prescribes, the bytes written satisfy Spec.Proto.owed (reply_as_owed), the negotiation state commutes with Spec.updateNeg, over any history of accepted requests the k-th reply answers the k-th request that is owed one, and a rejected request is never dispatched; the model's dispatch table is tied to the source by Props.Dispatch.arms_match_source (translator) and the correspondence.",
   technique="Lean 4 proof (state invariant, reply shape) over a hand-written executable model + differential correspondence", ref="DESIGN.md §7 C04"),
 "C02": dict(
   text="Lean 4 theorems over the executable model of the frontend endpoint (Model.Frontend: local checks, request construction, reply readers): every call the API refuses locally (queue index beyond the maximum or beyond the 8-bit index field, empty/oversized region list, zero-sized region, invalid config window, un-negotiated feature) writes nothing and leaves the state unchanged; request headers carry version 1, no reserved bit, NEED_REPLY exactly when requested; wire = header ++ body. The composition Frontend -> wire -> BackendReqHandler -> handler (exactly one invocation, equal arguments and payload, same open files by fstat identity) is compared on every operation of the API with lattice arguments against the Spec and the model.",
   note="Props.C02Reach proves the composition Model.Frontend.request -> wire -> Model.BackendSrv.step for every operation, all argument values in the fields' ranges, every chooser and every session (`call_reaches_handler`, `call_reaches_handler_stream`, `session_calls`); the two call forms for which it is false are proved as counterexamples (`set_log_fd_counterexample`, `set_log_base_plain_counterexample`), replayed on the real crates and listed as known findings F-C02-logfd / F-C02-logbase-plain. Adapters (Mutex/RwLock/Arc) are exercised through BackendReqHandler<Mutex<..>> only (correspondence).",
   technique="Lean 4 proof over a hand-written executable model + differential correspondence (real frontend vs real server)", ref="DESIGN.md §7 C02"),
 "C03": dict(
   text="Lean 4 theorems over Model.Frontend: set-operations read nothing unless REPLY_ACK is acknowledged and NEED_REPLY requested; an awaited acknowledgement yields success only for value 0; once the connection is closed no reply reader ever waits (for every stream, segmentation and request kind), including the repaired GET_CONFIG reader which reads exactly the payload the reply header declares. Per operation, the value returned for every handler success and the error returned in bounded time for every handler failure / unusable result are compared with the Spec on sessions against the real request server (which closes the connection on a failed request, as the daemon does), with a watchdog for calls that do not return.",
   note="`success_roundtrip` per operation is decided by the spec driver on observed sessions (sampled). Assumes the serve loop closes the connection on a request error.",
   technique="Lean 4 proof (never-blocks / ack semantics) over a hand-written executable model + differential correspondence with watchdog", ref="DESIGN.md §7 C03"),
 "C06": dict(
   text="Lean 4 theorem `recv_ok_is_reply_for`: for every stream, segmentation, request and state, each of the frontend's reply readers accepts bytes only if they carry the REPLY flag and the request's own code with a valid header and body, and descriptors exactly as the reply type allows (none / required / optional); `recvBody_ok_sound` pins the accepted header and body. The model is compared with the real Frontend on replies mutated in one field (code, each flag bit, version, size, body byte, 0..3 descriptors, truncation, tail) and on random strings; success may be returned only for a conforming reply and must equal the decoded value.",
   note="Proxy and GPU-proxy readers and the frontend's request server (besrv) are covered once C18's families are merged; the size field of fixed-size replies is a recorded limit.",
   technique="Lean 4 proof (soundness of acceptance) over a hand-written executable model + mutation-based differential correspondence", ref="DESIGN.md §7 C06"),
 "C08": dict(
   text="Lean 4 theorems quantified over every chooser (kernel segmentation and arrival timing) resp. every script of partial writes: the receive loop returns exactly the requested bytes in order whenever they are present (recvAll_complete, recvData_complete), hence `server_step_segmentation_independent`: one handle_request produces the same handler calls, reply, state and remaining stream for all segmentations of a complete message (header and body); truncation inside header or body with the peer closed is an error without dispatch, `Disconnected` only at a message boundary, and nothing blocks after close; the send loop emits a prefix of the message, the whole message exactly once when it reports success, and descriptors only with the first chunk; get_sub_iovs_offset returns the position of byte `skip`. Correspondence: every request type in all 2-splits / sampled 3-splits / byte-by-byte / random segmentations, queued or arriving one segment at a time, every cut offset followed by close; send loop on a pre-filled minimum-size non-blocking socket.",
   note="The kernel's AF_UNIX rule is modelled (Model/Stream.kernelChooser) and validated by the correspondence; theorems hold for all choosers, a superset.",
   technique="Lean 4 proof by induction over the receive/send loops for all segmentations + differential correspondence over splits and cuts", ref="DESIGN.md §7 C08"),
 "C10": dict(
   text="Lean 4 theorems over the lock transition system of N callers sharing one endpoint (acquire/send/recv/release per method, FIFO peer tagging replies): for every configuration and every schedule, a request whose reply is outstanding implies its sender holds the lock (invariant), no foreign send is enabled meanwhile, the history is atomic, every caller consumes its own reply, no deadlock and a strictly decreasing measure (all calls complete); a broken variant (guard dropped between send and receive) is proved non-atomic. Correspondence: all interleavings of 2 (3 in thorough) concurrent calls on clones of Frontend / Backend proxy / GpuBackend at the instrumented hold points against a scripted tagging peer, plus per-method 8-thread stress.",
   note="One guard per method is taken from reading the 51 I/O methods (table in Model/Locks.lean) and tied by the hold-point runs; split-guard mutants are caught by the stress runs (probabilistic), double-lock mutants deterministically.",
   technique="Lean 4 proof (LTS invariant + progress measure) + schedule-controlled correspondence at hold points", ref="DESIGN.md §7 C10"),
 "C01": dict(
   text="Lean 4 theorems comparing the tables regenerated from message.rs/gpu_message.rs with the hand-transcribed specification: request codes of the three channels (name by name), header/virtio/protocol/ring-address/config/mmap/GPU-header flag constants, MAX_MSG_SIZE and friends, and - for each of 27 message structs - size, alignment and every field offset/width as computed by the C-ABI layout algorithm from the struct definitions (repr(C), packed, transparent); header algebra for all flag words (version 1, only REPLY/NEED_REPLY survive; reply headers have flags 5; request headers NEED_REPLY iff requested); little-endian field round trips; descriptors only with the first chunk (C08). Byte-exact correspondence: every request the real Frontend writes vs the Spec encoder, every reply the real server writes vs the Spec's owed reply, Spec-encoded requests from the independent generator codec vs the values the handler sees, rustc size_of vs generated vs Spec layout.",
   note="Spec/Layout.lean, Spec/Flags.lean, Spec/Valid.lean are hand transcriptions of the specification; proxy and GPU-proxy bytes are compared by the proxy/gpu families once claimed (C18). The GPU protocol-feature constants (EDID=0, DMABUF2=1 used as flag values) are outside the statement and recorded in DESIGN.md.",
   technique="Lean 4 proof (decide over translator-generated tables + layout algorithm) + byte-exact differential correspondence", ref="DESIGN.md §7 C01"),
 "C09": dict(
   text="Lean 4 theorems by token counting, for every chooser/stream/size: after recv_into_iovec_all (resp. recv_data) each descriptor that rode on the stream is in exactly one of {handed to the caller, closed by the library, still unread}; descriptors of later reads are never handed out; the caller gets at most the receive limit. The token flow through the dispatch arms is part of the executable model; the real process is inspected after every scenario (valid, invalid, truncated, over-stuffed histories with 0..40 descriptors, teardown after every message and error path): no open descriptor may refer to an object that travelled over the socket unless the application holds it; descriptors lent to the frontend API must still be open after the call.",
   note="Props.C09Dispatch proves linearity through the dispatch arms and whole runs (dispatch/step/run_fds_linear: handed ++ closed ++ unread is a permutation of what arrived, no duplicates). Outgoing files returned by handlers and descriptors in the middle of a message are covered by the leak scan on the real process (sampled). Exit-event consumers of the workers (never sent over a socket) are excluded as stated in DESIGN.md.",
   technique="Lean 4 proof (linearity by counting, induction over the receive loops) + /proc/self/fd identity scan in the correspondence", ref="DESIGN.md §7 C09"),
 "C15": dict(
   text="Lean 4 theorems over the model of bitmap.rs and the handler's log state: SET_LOG_BASE is accepted iff the log holds the byte of every region's highest page; mark_dirty sets exactly the bits of the pages a write touches (bit p%8 of byte p/8) and no other, through any slice chain, for every offset/length incl. 0, usize::MAX and overflowing sums; every index touched is below the log length (the assert can never fire); any interleaving of any number of writers' fetch_or steps yields the OR of all; after any history of SET_LOG_BASE / SET_MEM_TABLE / ADD_MEM_REG / REM_MEM_REG a log in force covers every current region (repaired F-C15-retain; counterexamples for the old handler kept as theorems). Correspondence: real daemon with BitmapMmapRegion, 1..4 page-aligned memfd regions sharing log bytes, writes through GuestMemory and add_used across page/slice boundaries, all log sizes/offsets, guard bytes around the mapping, 2..16 concurrent writers, histories interleaving the log with table changes.",
   note="vm-memory's per-chunk mark_dirty calls and table rules, and single-byte fetch_or atomicity, are assumed (exercised by the correspondence). Unaligned regions are outside the statement's domain (recorded, not alarmed).",
   technique="Lean 4 proof (exact bit set, bounds, commutativity over interleavings, history invariant) + differential correspondence on the shared log file", ref="DESIGN.md §7 C15"),
 "C17": dict(
   text="Lean 4 theorems over the model of the registration loop and the event loop: evtIdx (popcount mask - popcount (mask >> q)) equals the rank of q in the mask for all 2^64 masks and all q < 64 (by splitting popcount over bit ranges, no enumeration); the slice handed to the backend is the thread's queues in increasing order and its element at the event id is the kicked queue; exactly one registration, on the first thread whose mask contains q; a queue's event id is below num_queues (the exit id) and dispatches as a ring; an accepted custom listener id is delivered as exactly that id, is not the exit id and no queue's rank (repaired F-C17-u16; the truncation counterexample for the old rule is kept as a theorem). Correspondence: real daemon, assignments of 1..6 queues to 1..3 masks (exhaustive in thorough) x every queue kicked, listener ids across the 64-bit range, with a sleep-free barrier.",
   note="n <= 64 is carried as a hypothesis (queues_mask >> index overflows beyond; noted under C05). Level-triggered epoll / eventfd semantics assumed.",
   technique="Lean 4 proof (rank = popcount difference for all masks) + differential correspondence on the real daemon", ref="DESIGN.md §7 C17"),
}

def chk(pid, c):
    return {
      "property_id": pid,
      "quick_cmd": f"./check.py {pid} --tier quick",
      "thorough_cmd": f"./check.py {pid} --tier thorough",
      "evidence_file": f"/verif/evidence/{pid}.json",
      "replay_cmd_template": f"./check.py {pid} --replay {{path}}",
      "engine": "lean4-proof+correspondence",
      "level_claimed": {"category": "proof", "text": c["text"], "design_ref": c["ref"]},
      "level_note": COMMON_NOTE + c["note"],
      "technique": c["technique"],
    }

def main():
    allp = [f"C{n:02d}" for n in range(1, 21)]
    hooks = subprocess.run(["git", "-C", "/repo", "log", "--format=%h %s"], capture_output=True, text=True).stdout.splitlines()
    hook_commits = [l.split()[0] for l in hooks if "verif hooks" in l or "verif-hooks" in l]
    m = {
      "version": 1,
      "setup_cmd": "./setup.sh",
      "hooks": {"guard": "cargo feature `verif-hooks` (vhost, vhost-user-backend)",
                "enable": "the harness crate /verif/harness depends on /repo/vhost and /repo/vhost-user-backend by path with features [..., \"verif-hooks\"]; `cargo build --release --offline` in /verif/harness",
                "baseline_off_cmd": "cd /repo && cargo test --workspace --no-fail-fast --offline",
                "source_commits": hook_commits, "add_only": True},
      "engines": [{"name": "lean4-proof+correspondence", "path": "/verif/check.py", "serves_properties": sorted(CLAIMS),
                   "kind_free_text": "Lean 4 model + theorems (lean/), translator (tools/rs2lean.py), Rust harness (harness/), model and spec drivers (lean_exe), orchestrated by check.py"}],
      "checks": [chk(p, CLAIMS[p]) for p in sorted(CLAIMS)],
      "not_applicable": [{"property_id": p, "reason": "not yet claimed: the model, theorems and correspondence family for this property are still being built (DESIGN.md §7, §12); no other technique is substituted"} for p in allp if p not in CLAIMS],
      "notes": "All checks share one Lean project and one harness crate; see DESIGN.md and docs/CONVENTIONS.md.",
    }
    json.dump(m, open(os.path.join(V, "MANIFEST.json"), "w"), indent=1)

if __name__ == "__main__":
    main()
