import VhostModel.Base
import VhostModel.Gen.Codes
import VhostModel.Gen.Flags
import VhostModel.Gen.Consts
import VhostModel.Gen.Layout
import VhostModel.Gen.Validators
import VhostModel.Base.Ioctl
import VhostModel.Gen.Ioctl
