import VhostModel.SpecDrv.Valid
import VhostModel.SpecDrv.Srv
import VhostModel.SpecDrv.Fe
import VhostModel.SpecDrv.Send
import VhostModel.SpecDrv.Locks
import VhostModel.SpecDrv.Log
import VhostModel.SpecDrv.Route
import VhostModel.SpecDrv.Kern
import VhostModel.SpecDrv.Mem
import VhostModel.SpecDrv.Vq
import VhostModel.SpecDrv.Proxy
import VhostModel.SpecDrv.BeSrv
import VhostModel.SpecDrv.Gpu
import VhostModel.SpecDrv.Ring
import VhostModel.SpecDrv.Worker
import VhostModel.SpecDrv.Shutdown
/-! Spec driver: evaluates the property's own rule on a scenario (and, for behavioural families, on
the observation the implementation produced). Imports nothing generated from /repo. -/

def dispatch (line : String) : String :=
  let toks := (line.trimAscii.toString.splitOn " ").filter (· ≠ "")
  match toks with
  | "valid" :: _ => SpecDrv.Valid.run toks
  | "srv" :: _ => SpecDrv.Srv.run toks
  | "fe" :: _ => SpecDrv.Fe.run toks
  | "send" :: _ => SpecDrv.Send.run toks
  | "locks" :: _ => SpecDrv.Locks.run toks
  | "route" :: _ => SpecDrv.Route.run toks
  | "log" :: _ => SpecDrv.Log.run toks
  | "kern" :: _ => SpecDrv.Kern.run toks
  | "mem" :: _ => SpecDrv.Mem.run toks
  | "vq" :: _ => SpecDrv.Vq.run toks
  | "proxy" :: _ => SpecDrv.Proxy.run toks
  | "besrv" :: _ => SpecDrv.BeSrv.run toks
  | "gpu" :: _ => SpecDrv.Gpu.run toks
  | "ring" :: _ => SpecDrv.Ring.run toks
  | "worker" :: _ => SpecDrv.Worker.run toks
  | "shutdown" :: _ => SpecDrv.Shutdown.run toks
  | _ => "bad-family"

partial def loop (h : IO.FS.Stream) (out : IO.FS.Stream) : IO Unit := do
  let line ← h.getLine
  if line.isEmpty then return ()
  let l := line.trimAscii.toString
  if l.isEmpty || l.startsWith "#" then loop h out else
  out.putStrLn s!"{l} => {dispatch l}"
  loop h out

def main : IO Unit := do
  let out ← IO.getStdout
  loop (← IO.getStdin) out
