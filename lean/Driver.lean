import VhostModel.Drv.Valid
import VhostModel.Drv.Srv
import VhostModel.Drv.Fe
import VhostModel.Drv.Send
import VhostModel.Drv.Locks
import VhostModel.Drv.Log
import VhostModel.Drv.Route
import VhostModel.Drv.Kern
import VhostModel.Drv.Mem
import VhostModel.Drv.Vq
import VhostModel.Drv.Proxy
import VhostModel.Drv.BeSrv
import VhostModel.Drv.Gpu
import VhostModel.Drv.Ring
import VhostModel.Drv.Worker
import VhostModel.Drv.Shutdown
/-! Model driver: one scenario per input line, one prediction per output line. -/

def dispatch (line : String) : String :=
  let toks := (line.trimAscii.toString.splitOn " ").filter (· ≠ "")
  match toks with
  | "valid" :: _ => Drv.Valid.run toks
  | "srv" :: _ => Drv.Srv.run toks
  | "fe" :: _ => Drv.Fe.run toks
  | "send" :: _ => Drv.Send.run toks
  | "locks" :: _ => Drv.Locks.run toks
  | "route" :: _ => Drv.Route.run toks
  | "log" :: _ => Drv.Log.run toks
  | "kern" :: _ => Drv.Kern.run toks
  | "mem" :: _ => Drv.Mem.run toks
  | "vq" :: _ => Drv.Vq.run toks
  | "proxy" :: _ => Drv.Proxy.run toks
  | "besrv" :: _ => Drv.BeSrv.run toks
  | "gpu" :: _ => Drv.Gpu.run toks
  | "ring" :: _ => Drv.Ring.run toks
  | "worker" :: _ => Drv.Worker.run toks
  | "shutdown" :: _ => Drv.Shutdown.run toks
  | _ => "bad-family"

partial def loop (h : IO.FS.Stream) (out : IO.FS.Stream) : IO Unit := do
  let line ← h.getLine
  if line.isEmpty then return ()
  let l := line.trimAscii.toString
  if l.isEmpty || l.startsWith "#" then loop h out else
  out.putStrLn s!"{l} => {dispatch l}"
  loop h out

def main : IO Unit := do
  let out ← IO.getStdout
  loop (← IO.getStdin) out
