/-!
# Base definitions shared by generated, model, spec and property files

Core Lean only (no Mathlib, no Std tactics that add axioms), so everything here can be linked into
the native drivers.
-/

namespace Base

/-! ## Rust integer helpers -/

/-- Rust `a.checked_add(b)` on `uN`. -/
def checkedAdd {n : Nat} (a b : BitVec n) : Option (BitVec n) :=
  if BitVec.uaddOverflow a b then none else some (a + b)

/-- `T::try_from(v).is_ok()` for an `enum_value!` enum whose table is `codes`. -/
def codeOk (codes : List (String × Nat)) (v : Nat) : Bool :=
  codes.any (fun p => p.2 == v)

/-- membership in a plain list of codes (used for the generic header parameter). -/
def codeOkN (codes : List Nat) (v : Nat) : Bool := codes.contains v

theorem checkedAdd_isSome_iff {n : Nat} (a b : BitVec n) :
    (checkedAdd a b).isSome = true ↔ a.toNat + b.toNat < 2 ^ n := by
  unfold checkedAdd
  by_cases h : BitVec.uaddOverflow a b = true
  · simp [h]; simpa [BitVec.uaddOverflow] using h
  · simp [h]; simpa [BitVec.uaddOverflow] using h

theorem checkedAdd_isNone_iff {n : Nat} (a b : BitVec n) :
    (checkedAdd a b).isNone = true ↔ 2 ^ n ≤ a.toNat + b.toNat := by
  have := checkedAdd_isSome_iff a b
  cases h : checkedAdd a b <;> simp [h] at this ⊢ <;> omega

theorem checkedAdd_eq_some {n : Nat} (a b c : BitVec n) :
    checkedAdd a b = some c ↔ (a.toNat + b.toNat < 2 ^ n ∧ c.toNat = a.toNat + b.toNat) := by
  unfold checkedAdd
  by_cases h : BitVec.uaddOverflow a b = true
  · simp [h]; intro h1; simp [BitVec.uaddOverflow] at h; omega
  · simp [h]
    have h' : a.toNat + b.toNat < 2 ^ n := by simpa [BitVec.uaddOverflow] using h
    constructor
    · intro e; subst e; refine ⟨h', ?_⟩; simp [BitVec.toNat_add, Nat.mod_eq_of_lt h']
    · rintro ⟨_, e⟩; apply BitVec.eq_of_toNat_eq; simp [BitVec.toNat_add, Nat.mod_eq_of_lt h', e]

theorem checkedAdd_eq_none {n : Nat} (a b : BitVec n) :
    checkedAdd a b = none ↔ 2 ^ n ≤ a.toNat + b.toNat := by
  unfold checkedAdd
  by_cases h : BitVec.uaddOverflow a b = true
  · simp [h]; simpa [BitVec.uaddOverflow] using h
  · simp [h]; simpa [BitVec.uaddOverflow] using h

/-! ## Mask lemmas (kernel-only) -/

/-- the bits at and above `k` are all zero iff the value is below `2^k` -/
theorem hi_zero_iff {w : Nat} (x : BitVec w) (k : Nat) :
    x &&& ~~~(BitVec.ofNat w (2^k - 1)) = 0#w ↔ x.toNat < 2^k := by
  constructor
  · intro h
    apply Nat.lt_pow_two_of_testBit
    intro i hi
    have := congrArg (fun v => v.getLsbD i) h
    simp [BitVec.getLsbD_and, BitVec.getLsbD_not, BitVec.getLsbD_ofNat, Nat.testBit_two_pow_sub_one] at this
    by_cases hw : i < w
    · by_cases hx : x.getLsbD i
      · have := this hx hw; omega
      · simpa [BitVec.getLsbD] using hx
    · have : x.toNat < 2^i := Nat.lt_of_lt_of_le x.isLt (Nat.pow_le_pow_right (by omega) (by omega))
      exact Nat.testBit_lt_two_pow this
  · intro h
    apply BitVec.eq_of_getLsbD_eq
    intro i hi
    simp [BitVec.getLsbD_and, BitVec.getLsbD_not, BitVec.getLsbD_ofNat, Nat.testBit_two_pow_sub_one]
    intro hx _
    by_cases hk : i < k
    · exact ⟨hi, hk⟩
    · have : x.toNat < 2^i := Nat.lt_of_lt_of_le h (Nat.pow_le_pow_right (by omega) (by omega))
      have := Nat.testBit_lt_two_pow this
      simp [BitVec.getLsbD] at hx; simp_all

/-- the low `k` bits as a number -/
theorem and_lo_toNat {w : Nat} (x : BitVec w) (k : Nat) (hk : k ≤ w) :
    (x &&& BitVec.ofNat w (2^k - 1)).toNat = x.toNat % 2^k := by
  rw [BitVec.toNat_and, ← Nat.and_two_pow_sub_one_eq_mod]
  have e : (2^k - 1) % 2^w = 2^k - 1 := Nat.mod_eq_of_lt (by
    have : 2^k ≤ 2^w := Nat.pow_le_pow_right (by omega) hk
    have : 0 < 2^k := Nat.two_pow_pos k
    omega)
  simp [e]

theorem lo_zero_iff {w : Nat} (x : BitVec w) (k : Nat) (hk : k ≤ w) :
    x &&& BitVec.ofNat w (2^k - 1) = 0#w ↔ x.toNat % 2^k = 0 := by
  rw [← and_lo_toNat x k hk]
  constructor
  · intro h; rw [h]; rfl
  · intro h; apply BitVec.eq_of_toNat_eq; simpa using h

theorem lo_eq_iff {w : Nat} (x : BitVec w) (k v : Nat) (hk : k ≤ w) (hv : v < 2^w) :
    x &&& BitVec.ofNat w (2^k - 1) = BitVec.ofNat w v ↔ x.toNat % 2^k = v := by
  rw [← and_lo_toNat x k hk]
  constructor
  · intro h; rw [h]; simp [Nat.mod_eq_of_lt hv]
  · intro h; apply BitVec.eq_of_toNat_eq; simp [Nat.mod_eq_of_lt hv, h]

theorem and_not_eq_zero_iff {w : Nat} (x m : BitVec w) : x &&& ~~~m = 0#w ↔ x &&& m = x := by
  constructor
  · intro h
    apply BitVec.eq_of_getLsbD_eq
    intro i hi
    have := congrArg (fun v => v.getLsbD i) h
    simp at this
    simp
    intro hx
    cases hm : m.getLsbD i
    · have := this hx; simp_all
    · rfl
  · intro h
    rw [← h, BitVec.and_assoc]
    simp
theorem nat_and_two_pow_cases (x i : Nat) : x &&& 2^i = 0 ∨ x &&& 2^i = 2^i := by
  cases h : x.testBit i
  · left; apply Nat.eq_of_testBit_eq; intro j
    simp [Nat.testBit_and, Nat.testBit_two_pow]; intro hx e; subst e; simp_all
  · right; apply Nat.eq_of_testBit_eq; intro j
    simp [Nat.testBit_and, Nat.testBit_two_pow]; intro e; subst e; exact h

/-! ## C struct layout (the algorithm rustc applies for `repr(C)`, `repr(C, packed)`, `repr(transparent)`) -/

inductive FieldTy where
  | int (bytes : Nat)
  | arr (elem : FieldTy) (n : Nat)
  | struct (name : String)
  deriving Repr, DecidableEq, Inhabited

inductive ReprKind where
  | c | packed | transparent
  | union   -- C19: `#[repr(C)] union` (all members at offset 0); laid out by `Base.layoutK` (Base/Ioctl.lean)
  deriving Repr, DecidableEq, Inhabited

structure StructDef where
  name : String
  repr : ReprKind
  fields : List (String × FieldTy)
  deriving Repr, Inhabited

structure SizeAlign where
  size : Nat
  align : Nat
  deriving Repr, DecidableEq, Inhabited

def alignUp (x a : Nat) : Nat := if a = 0 then x else (x + a - 1) / a * a

/-- layout result: total size, alignment, and `(field name, offset, size)` in declaration order -/
structure Layout where
  size : Nat
  align : Nat
  fields : List (String × Nat × Nat)
  deriving Repr, DecidableEq, Inhabited

/-- lay out fields in order, given the size/alignment of each field type -/
def layoutWith (sa : FieldTy → Option SizeAlign) (packed : Bool) :
    List (String × FieldTy) → Nat → Nat → List (String × Nat × Nat) → Option Layout
  | [], off, al, acc => some ⟨if packed then off else alignUp off al, if packed then 1 else al, acc.reverse⟩
  | (nm, ty) :: rest, off, al, acc =>
    match sa ty with
    | none => none
    | some s =>
      let a := if packed then 1 else s.align
      let o := alignUp off a
      layoutWith sa packed rest (o + s.size) (max al a) ((nm, o, s.size) :: acc)

/-- size and alignment of a field type; `fuel` bounds the nesting depth (none = unknown struct or too deep) -/
def fieldSA (tbl : List StructDef) : Nat → FieldTy → Option SizeAlign
  | 0, _ => none
  | _+1, .int b => some ⟨b, b⟩
  | fuel+1, .arr e n => (fieldSA tbl fuel e).map fun sa => ⟨sa.size * n, sa.align⟩
  | fuel+1, .struct nm =>
    match tbl.find? (·.name == nm) with
    | none => none
    | some sd =>
      (layoutWith (fieldSA tbl fuel) (sd.repr == .packed) sd.fields 0 1 []).map fun l => ⟨l.size, l.align⟩

def layoutOf (tbl : List StructDef) (fuel : Nat) (sd : StructDef) : Option Layout :=
  layoutWith (fieldSA tbl fuel) (sd.repr == .packed) sd.fields 0 1 []

def layoutByName (tbl : List StructDef) (nm : String) : Option Layout :=
  match tbl.find? (·.name == nm) with
  | none => none
  | some sd => layoutOf tbl 6 sd

/-! ## Signature of a dispatch arm (shared by the generated table and the model) -/

inductive Sig where
  | proto (bit : Nat) | virtio (bit : Nat)
  | sizeZero | sizeAny | sizeOf (ty : String)
  | body (ty : String) | file (err : String) | vringfd | enable01
  | frombits (ty : String) | convert
  | call (method : String) | helper (fn : String)
  deriving Repr, DecidableEq, Inhabited

/-- conversions that cannot fail once the body validator has passed -/
def Sig.redundant : Sig → Bool
  | .frombits _ | .convert => true
  | _ => false

/-! ## Bytes -/

abbrev Bytes := List UInt8

/-- little-endian encoding of `v` in `n` bytes -/
def leBytes : Nat → Nat → Bytes
  | 0, _ => []
  | n+1, v => UInt8.ofNat (v % 256) :: leBytes n (v / 256)

/-- little-endian decoding -/
def leVal : Bytes → Nat
  | [] => 0
  | b :: bs => b.toNat + 256 * leVal bs

@[simp] theorem leBytes_length (n v : Nat) : (leBytes n v).length = n := by
  induction n generalizing v with
  | zero => rfl
  | succ n ih => simp [leBytes, ih]

theorem leVal_leBytes (n v : Nat) (h : v < 256 ^ n) : leVal (leBytes n v) = v := by
  induction n generalizing v with
  | zero => simp [leBytes, leVal] at *; omega
  | succ n ih =>
    simp only [leBytes, leVal]
    have h2 : v / 256 < 256 ^ n := by
      rw [Nat.pow_succ] at h
      exact Nat.div_lt_of_lt_mul (by rw [Nat.mul_comm]; exact h)
    rw [ih _ h2]
    have : (UInt8.ofNat (v % 256)).toNat = v % 256 := by
      simp [UInt8.toNat_ofNat']
    rw [this]; omega

theorem leVal_lt (bs : Bytes) : leVal bs < 256 ^ bs.length := by
  induction bs with
  | nil => simp [leVal]
  | cons b bs ih =>
    simp only [leVal, List.length_cons, Nat.pow_succ]
    have : b.toNat < 256 := b.toNat_lt
    omega

theorem leBytes_leVal (bs : Bytes) : leBytes bs.length (leVal bs) = bs := by
  induction bs with
  | nil => rfl
  | cons b bs ih =>
    simp only [List.length_cons, leBytes, leVal]
    have hb : b.toNat < 256 := b.toNat_lt
    have h1 : (b.toNat + 256 * leVal bs) % 256 = b.toNat := by omega
    have h2 : (b.toNat + 256 * leVal bs) / 256 = leVal bs := by omega
    rw [h1, h2, ih]
    simp

def hexDigit (n : Nat) : Char :=
  if n < 10 then Char.ofNat (48 + n) else Char.ofNat (87 + n)

def hexOfNat (n : Nat) : String := String.ofList (Nat.toDigits 16 n)

def hexOfBytes (bs : Bytes) : String :=
  String.ofList (bs.flatMap fun b => [hexDigit (b.toNat / 16), hexDigit (b.toNat % 16)])

def hexVal? (c : Char) : Option Nat :=
  if '0' ≤ c ∧ c ≤ '9' then some (c.toNat - 48)
  else if 'a' ≤ c ∧ c ≤ 'f' then some (c.toNat - 87)
  else if 'A' ≤ c ∧ c ≤ 'F' then some (c.toNat - 55)
  else none

def natOfHex? (s : String) : Option Nat :=
  if s.isEmpty then none else
  s.toList.foldl (fun acc c => match acc, hexVal? c with
    | some a, some d => some (a * 16 + d)
    | _, _ => none) (some 0)

def bytesOfHex? (s : String) : Option Bytes :=
  let rec go : List Char → Bytes → Option Bytes
    | [], acc => some acc.reverse
    | [_], _ => none
    | a :: b :: rest, acc =>
      match hexVal? a, hexVal? b with
      | some x, some y => go rest (UInt8.ofNat (x * 16 + y) :: acc)
      | _, _ => none
  go s.toList []

end Base
