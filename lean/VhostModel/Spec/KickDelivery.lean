/-!
# Spec: kick delivery under concurrency (property C12)

Written from the property statement.  A *history* is the chronological list of the events of one ring that the
property talks about: guest kicks, the daemon beginning to handle a control message, the reply to a control
message being sent, the worker consuming a wake-up (reading the kick counter) and whether it goes on to call
the handler for it, the handler being entered, the worker thread ending.

* **P1 (`NoDispatchAfterReply`)** — "once the reply to a message that disables or stops a ring
  (SET_VRING_ENABLE 0, GET_VRING_BASE, RESET_DEVICE) has been sent, the backend's event handler is not entered
  for that ring until it is enabled or started again".  Resolved conservatively: the forbidden period of a
  disable/reset ends as soon as the daemon *begins* to handle a SET_VRING_ENABLE(1), that of a stop as soon as it
  begins to handle the SET_VRING_KICK that restarts the ring.  Only a SET_VRING_KICK that *carries a descriptor*
  restarts a ring: "client must start ring upon receiving a kick … on the descriptor specified by
  VHOST_USER_SET_VRING_KICK" — a SET_VRING_KICK with the no-descriptor flag (payload bit 8) specifies none, so it
  neither starts nor stops the ring (the same decision as D3 of `Spec.RingAutomaton`): the forbidden period opened by
  the reply of a GET_VRING_BASE stays open across such a message (`CMsg.nofd`, `period_nofd`).
* **P2 (`NoLostWakeup`)** — "every kick raised on a ring is eventually followed by an event-handler invocation
  … i.e. no wake-up is consumed without being processed": no wake-up is consumed by a read that does not lead to
  the handler, and the worker does not end while the daemon runs (a worker that is gone processes no later kick).
  (The liveness half — a retained kick is delivered once the ring is active — is C11's
  `delivered_on_activation`, plus scheduler fairness.)
-/
namespace Spec.KickDelivery

abbrev Evt := Nat

/-- the control messages of the scenarios -/
inductive CMsg where
  | disable      -- SET_VRING_ENABLE 0
  | enable       -- SET_VRING_ENABLE 1
  | stop         -- GET_VRING_BASE
  | restart      -- SET_VRING_KICK with a fresh descriptor
  | reset        -- RESET_DEVICE
  | nofd         -- SET_VRING_KICK with the no-descriptor flag: neither enables nor restarts (nor disables, nor stops)
deriving DecidableEq, Repr

def CMsg.disables : CMsg → Bool
  | .disable => true
  | .reset => true
  | _ => false

/-- the messages that end a forbidden period when the daemon begins to handle them -/
def CMsg.activates : CMsg → Bool
  | .enable => true
  | .restart => true
  | _ => false

inductive Ev where
  | kick (d : Evt)
  | start (m : CMsg)
  | reply (m : CMsg)
  | consumed (granted : Bool)
  | dispatch
  | workerExit
deriving DecidableEq, Repr

/-- the periods in which P1 forbids the handler -/
structure Period where
  forbD : Bool      -- disabled and the reply sent, no enable begun since
  forbS : Bool      -- stopped and the reply sent, no restart begun since
deriving DecidableEq, Repr

def Period.next (p : Period) : Ev → Period
  | .reply m => if m.disables then { p with forbD := true } else if m = .stop then { p with forbS := true } else p
  | .start .enable => { p with forbD := false }
  | .start .restart => { p with forbS := false }
  | _ => p

def period (tr : List Ev) : Period := tr.foldl Period.next ⟨false, false⟩

theorem period_append (tr : List Ev) (e : Ev) : period (tr ++ [e]) = (period tr).next e := by
  simp [period, List.foldl_append]

/-- a descriptor-less SET_VRING_KICK opens and closes nothing -/
theorem period_nofd (p : Period) : p.next (.start .nofd) = p ∧ p.next (.reply .nofd) = p := by
  constructor <;> simp [Period.next, CMsg.disables]

/-- only the begin of an activating message closes a period -/
theorem period_next_closes (p : Period) (e : Ev) (h : ∀ m, e = .start m → m.activates = false) :
    (p.forbD = true → (p.next e).forbD = true) ∧ (p.forbS = true → (p.next e).forbS = true) := by
  cases e with
  | start m => cases m <;> simp_all [Period.next, CMsg.activates]
  | reply m => cases m <;> simp [Period.next, CMsg.disables]
  | _ => simp [Period.next]

/-- P1 -/
def NoDispatchAfterReply (tr : List Ev) : Prop :=
  ∀ pre post, tr = pre ++ Ev.dispatch :: post → (period pre).forbD = false ∧ (period pre).forbS = false

/-- P2 (safety part) -/
def NoLostWakeup (tr : List Ev) : Prop := Ev.consumed false ∉ tr ∧ Ev.workerExit ∉ tr

/-- executable judge for P1: scans the history -/
def dispatchAfterReplyFrom (p : Period) : List Ev → Bool
  | [] => false
  | .dispatch :: tr => p.forbD || p.forbS || dispatchAfterReplyFrom p tr
  | e :: tr => dispatchAfterReplyFrom (p.next e) tr

def dispatchAfterReply (tr : List Ev) : Bool := dispatchAfterReplyFrom ⟨false, false⟩ tr

def lostWakeup (tr : List Ev) : Bool := tr.contains (.consumed false) || tr.contains .workerExit

end Spec.KickDelivery
