/-!
# Spec: flag and feature bits of vhost-user / vhost-user-gpu

Transcribed from the vhost-user specification ("Message flags", "Feature bits", "Protocol features",
ring address flags, config flags, MMAP flags) and the vhost-user-gpu specification.
-/
namespace Spec.Flags

/-- header flags: bits 0-1 version, bit 2 REPLY, bit 3 NEED_REPLY -/
def headerFlags : List (String × Nat) :=
  [("VERSION", 0x3), ("REPLY", 0x4), ("NEED_REPLY", 0x8), ("ALL_FLAGS", 0xc), ("RESERVED_BITS", 0xfffffff0)]

/-- virtio feature bits defined by vhost-user: VHOST_F_LOG_ALL = 26, VHOST_USER_F_PROTOCOL_FEATURES = 30 -/
def virtioFeatures : List (String × Nat) := [("LOG_ALL", 2^26), ("PROTOCOL_FEATURES", 2^30)]

/-- VHOST_USER_PROTOCOL_F_* bit numbers 0..21 -/
def protocolFeatureBits : List (String × Nat) :=
  [("MQ", 0), ("LOG_SHMFD", 1), ("RARP", 2), ("REPLY_ACK", 3), ("MTU", 4), ("BACKEND_REQ", 5), ("CROSS_ENDIAN", 6),
   ("CRYPTO_SESSION", 7), ("PAGEFAULT", 8), ("CONFIG", 9), ("BACKEND_SEND_FD", 10), ("HOST_NOTIFIER", 11),
   ("INFLIGHT_SHMFD", 12), ("RESET_DEVICE", 13), ("INBAND_NOTIFICATIONS", 14), ("CONFIGURE_MEM_SLOTS", 15),
   ("STATUS", 16), ("XEN_MMAP", 17), ("SHARED_OBJECT", 18), ("DEVICE_STATE", 19), ("GET_VRING_BASE_INFLIGHT", 20),
   ("SHMEM", 21)]

def protocolFeatures : List (String × Nat) := protocolFeatureBits.map fun p => (p.1, 2 ^ p.2)

def vringAddrFlags : List (String × Nat) := [("VHOST_VRING_F_LOG", 0x1)]
def configFlags : List (String × Nat) := [("WRITABLE", 0x1), ("LIVE_MIGRATION", 0x2)]
def mmapFlags : List (String × Nat) := [("WRITABLE", 0x1)]
def gpuHeaderFlags : List (String × Nat) := [("REPLY", 0x4)]

end Spec.Flags
