import VhostModel.Spec.Valid
import VhostModel.Spec.Layout
/-!
# Spec: the back-end → front-end request channel of vhost-user, as properties C18 / C06 / C01 / C07 state it

Written from the property statements and the vhost-user specification ("Back-end message types", "Communication",
VHOST_USER_PROTOCOL_F_REPLY_ACK): request codes, payloads at the specified offsets, which requests carry a descriptor,
which requests are valid, and the acknowledgement rule.  Nothing here refers to how the Rust code is organised.
-/
namespace Spec.BackendChannel
open Base Spec

/-- the five request kinds property C18 speaks about -/
inductive Kind where
  | add | remove | lookup | map | unmap
  deriving Repr, DecidableEq, Inhabited

/-- VHOST_USER_BACKEND_SHARED_OBJECT_ADD = 6, …_REMOVE = 7, …_LOOKUP = 8, VHOST_USER_BACKEND_SHMEM_MAP = 9, …_UNMAP = 10 -/
def Kind.code : Kind → Nat
  | .add => 6 | .remove => 7 | .lookup => 8 | .map => 9 | .unmap => 10

/-- requests that carry one descriptor as ancillary data -/
def Kind.carriesFd : Kind → Bool
  | .lookup | .map => true
  | _ => false

/-- the enabling protocol feature: SHARED_OBJECT (bit 18) resp. SHMEM (bit 21) -/
def Kind.isSharedObject : Kind → Bool
  | .add | .remove | .lookup => true
  | _ => false

structure MMap where
  shmid : Nat
  padding : Bytes      -- 7 bytes the specification does not define
  fdOffset : Nat
  shmOffset : Nat
  len : Nat
  flags : Nat
  deriving Repr, DecidableEq, Inhabited

inductive Arg where
  | uuid (u : Nat)     -- 16 bytes, as a 128-bit little-endian number
  | mmap (m : MMap)
  deriving Repr, DecidableEq, Inhabited

/-- payload at the specification's offsets: UUID 16 bytes; MMAP: shmid u8 @0, padding @1..7, fd_offset u64 @8,
shm_offset u64 @16, len u64 @24, flags u64 @32 -/
def encodeArg : Arg → Bytes
  | .uuid u => leBytes 16 u
  | .mmap m => leBytes 1 m.shmid ++ (m.padding ++ List.replicate 7 0).take 7 ++ leBytes 8 m.fdOffset ++ leBytes 8 m.shmOffset ++
      leBytes 8 m.len ++ leBytes 8 m.flags

/-- requests the protocol declares valid: UUID neither nil nor all-ones; MMAP: non-zero length, neither range wraps,
only the defined flag -/
def validArg : Arg → Bool
  | .uuid u => decide (validUuid u)
  | .mmap m => decide (validMMap m.fdOffset m.shmOffset m.len m.flags)

/-- header flags of a request: version 1, NEED_REPLY iff REPLY_ACK was negotiated -/
def reqFlags (replyAck : Bool) : Nat := if replyAck then 9 else 1

/-- exact bytes of a request -/
def encodeReq (replyAck : Bool) (k : Kind) (a : Arg) : Bytes :=
  let body := encodeArg a
  leBytes 4 k.code ++ leBytes 4 (reqFlags replyAck) ++ leBytes 4 body.length ++ body

/-- result of the frontend application's handler -/
inductive HRes where
  | ok (n : Nat)
  | errno (e : Nat)    -- an error carrying an OS error number
  | err                -- an error without one
  deriving Repr, DecidableEq, Inhabited

/-- an acknowledgement is owed iff REPLY_ACK is negotiated and the request carries NEED_REPLY -/
def ackOwed (negotiated needReply : Bool) : Bool := negotiated && needReply

/-- the value acknowledged on the wire: the handler's value, resp. the negated errno (two's complement, 64 bit); an
error without errno must be acknowledged as *some* failure (non-zero) -/
def ackValueOk (h : HRes) (v : Nat) : Bool :=
  match h with
  | .ok n => v == n
  | .errno e => v == 2^64 - e
  | .err => v != 0

/-- an acknowledgement of request `code`: same code, REPLY set, NEED_REPLY clear, version 1, size 8, then the value -/
def ackBytesOk (code : Nat) (h : HRes) (bytes : Bytes) : Bool :=
  bytes.length == 20 && leVal (bytes.take 4) == code && leVal ((bytes.drop 4).take 4) == 5 &&
  leVal ((bytes.drop 8).take 4) == 8 && ackValueOk h (leVal (bytes.drop 12))

/-- with REPLY_ACK the proxy call succeeds iff the handler returned zero; without, nothing is awaited -/
def proxySucceeds (replyAck : Bool) (h : HRes) : Bool := !replyAck || h == .ok 0

/-- bytes (with `nfds` descriptors) form an acknowledgement of request `code` (C06): valid header, REPLY set, same code,
8 bytes of payload present, no descriptors -/
def ackConforms (code : Nat) (bytes : Bytes) (nfds : Nat) : Bool :=
  if bytes.length < 20 then false else
  let c := leVal (bytes.take 4); let flags := leVal ((bytes.drop 4).take 4); let size := leVal ((bytes.drop 8).take 4)
  decide (validHeader backendCodes c flags size) && flags.testBit 2 && c == code && nfds == 0

/-! ## the front-end's server for these requests (C06, last sentence; C18) -/

/-- requests the library's server hands to the application: CONFIG_CHANGE_MSG (2) and the five above -/
def served : List Nat := [2, 6, 7, 8, 9, 10]

def fixedSize : Nat → Option Nat
  | 2 => some 0
  | 6 | 7 | 8 => some 16
  | 9 | 10 => some 40
  | _ => none

def filesPrescribed (code : Nat) : Nat := if code == 8 || code == 9 then 1 else 0

def fld (bs : Bytes) (s : String) (p : List String) : Nat := (getField bs s p).getD 0

def argOf (code : Nat) (body : Bytes) : Option Arg :=
  match code with
  | 6 | 7 | 8 => some (.uuid (fld body "VhostUserSharedMsg" ["uuid"]))
  | 9 | 10 =>
    let s := "VhostUserMMap"
    some (.mmap ⟨fld body s ["shmid"], (body.drop 1).take 7, fld body s ["fd_offset"], fld body s ["shm_offset"],
                 fld body s ["len"], fld body s ["flags"]⟩)
  | _ => none

def methodOf : Nat → String
  | 2 => "handle_config_change" | 6 => "shared_object_add" | 7 => "shared_object_remove" | 8 => "shared_object_lookup"
  | 9 => "shmem_map" | 10 => "shmem_unmap" | _ => "?"

/-- what the handler is to be invoked with: (method, args, payload = the MMAP padding bytes) -/
def expectedCall (code : Nat) (body : Bytes) : String × List Nat × Bytes :=
  match argOf code body with
  | some (.uuid u) => (methodOf code, [u], [])
  | some (.mmap m) => (methodOf code, [m.shmid, m.fdOffset, m.shmOffset, m.len, m.flags], m.padding)
  | none => (methodOf code, [], [])

structure Req where
  code : Nat
  flags : Nat
  size : Nat
  body : Bytes
  nfds : Nat
  deriving Repr, Inhabited

def Req.needReply (r : Req) : Bool := r.flags.testBit 3
def Req.isReply (r : Req) : Bool := r.flags.testBit 2

/-- the body of a request satisfies the protocol's validity rule for its kind (CONFIG_CHANGE_MSG has no body) -/
def argValid (code : Nat) (body : Bytes) : Bool :=
  match argOf code body with
  | some a => validArg a
  | none => true

inductive Class where
  | accept | reject | unspecified
  deriving Repr, DecidableEq, Inhabited

def classify (r : Req) : Class :=
  if !decide (validHeader backendCodes r.code r.flags r.size) then .reject
  else if r.nfds > 32 then .unspecified
  else if r.body.length != r.size then .unspecified
  else if !served.contains r.code then .reject
  else if fixedSize r.code != some r.size then .reject
  else if !argValid r.code r.body then .reject
  else if r.nfds != filesPrescribed r.code then .reject
  else if r.isReply then .reject
  else .accept

/-- the message was consumed entirely by one server turn -/
def aligned (r : Req) : Bool :=
  decide (validHeader backendCodes r.code r.flags r.size) && r.body.length == r.size && r.nfds ≤ 32 &&
  (r.size == 0 || r.nfds == filesPrescribed r.code)

/-- whatever the handler is invoked with must be a well-formed request's content with exactly the prescribed files (C06) -/
def validCall (name : String) (args : List Nat) (payload : Bytes) (nfds : Nat) : Bool :=
  match name with
  | "handle_config_change" => args.isEmpty && nfds == 0
  | "shared_object_add" | "shared_object_remove" => (match args with | [u] => decide (validUuid u) | _ => false) && nfds == 0
  | "shared_object_lookup" => (match args with | [u] => decide (validUuid u) | _ => false) && nfds == 1
  | "shmem_map" => (match args with | [id, fo, so, ln, fl] => id < 256 && decide (validMMap fo so ln fl) | _ => false) &&
      payload.length == 7 && nfds == 1
  | "shmem_unmap" => (match args with | [id, fo, so, ln, fl] => id < 256 && decide (validMMap fo so ln fl) | _ => false) &&
      payload.length == 7 && nfds == 0
  | _ => false

end Spec.BackendChannel
