import VhostModel.Base
/-!
# Spec: wire layout of every vhost-user / vhost-user-gpu message body

Transcribed by hand from the vhost-user and vhost-user-gpu specifications (message "payload"
sections; all integers little-endian on the supported hosts).  Each entry lists the total size of the
fixed part and `(field path, offset, width in bytes)`.  No reference to the Rust struct definitions.
-/
namespace Spec
open Base

def hdrLayout : Layout := ⟨12, 1, [("request", 0, 4), ("flags", 4, 4), ("size", 8, 4)]⟩

/-- body layouts by the message-struct names used throughout this development -/
def layouts : List (String × Layout) := [
  ("VhostUserMsgHeader", ⟨12, 1, [("request", 0, 4), ("flags", 4, 4), ("size", 8, 4), ("_r", 12, 0)]⟩),
  ("VhostUserGpuMsgHeader", ⟨12, 1, [("request", 0, 4), ("flags", 4, 4), ("size", 8, 4), ("_r", 12, 0)]⟩),
  ("VhostUserU64", ⟨8, 8, [("value", 0, 8)]⟩),
  ("VhostUserVringState", ⟨8, 1, [("index", 0, 4), ("num", 4, 4)]⟩),
  ("VhostUserVringAddr", ⟨40, 1, [("index", 0, 4), ("flags", 4, 4), ("descriptor", 8, 8), ("used", 16, 8),
      ("available", 24, 8), ("log", 32, 8)]⟩),
  ("VhostUserMemory", ⟨8, 1, [("num_regions", 0, 4), ("padding1", 4, 4)]⟩),
  ("VhostUserMemoryRegion", ⟨32, 1, [("guest_phys_addr", 0, 8), ("memory_size", 8, 8), ("user_addr", 16, 8),
      ("mmap_offset", 24, 8)]⟩),
  ("VhostUserSingleMemoryRegion", ⟨40, 8, [("padding", 0, 8), ("region", 8, 32)]⟩),
  ("VhostUserLog", ⟨16, 8, [("mmap_size", 0, 8), ("mmap_offset", 8, 8)]⟩),
  ("VhostUserConfig", ⟨12, 1, [("offset", 0, 4), ("size", 4, 4), ("flags", 8, 4)]⟩),
  ("VhostUserInflight", ⟨24, 8, [("mmap_size", 0, 8), ("mmap_offset", 8, 8), ("num_queues", 16, 2),
      ("queue_size", 18, 2)]⟩),
  ("VhostUserTransferDeviceState", ⟨8, 1, [("direction", 0, 4), ("phase", 4, 4)]⟩),
  ("VhostUserSharedMsg", ⟨16, 1, [("uuid", 0, 16)]⟩),
  ("VhostUserMMap", ⟨40, 1, [("shmid", 0, 1), ("padding", 1, 7), ("fd_offset", 8, 8), ("shm_offset", 16, 8),
      ("len", 24, 8), ("flags", 32, 8)]⟩),
  ("VhostUserShMemConfig", ⟨2056, 8, [("nregions", 0, 4), ("padding", 4, 4), ("memory_sizes", 8, 2048)]⟩),
  -- vhost-user-gpu
  ("VirtioGpuCtrlHdr", ⟨24, 8, [("type_", 0, 4), ("flags", 4, 4), ("fence_id", 8, 8), ("ctx_id", 16, 4),
      ("ring_idx", 20, 1), ("padding", 21, 3)]⟩),
  ("VirtioGpuRect", ⟨16, 4, [("x", 0, 4), ("y", 4, 4), ("width", 8, 4), ("height", 12, 4)]⟩),
  ("VirtioGpuDisplayOne", ⟨24, 4, [("r", 0, 16), ("enabled", 16, 4), ("flags", 20, 4)]⟩),
  ("VirtioGpuRespDisplayInfo", ⟨408, 8, [("hdr", 0, 24), ("pmodes", 24, 384)]⟩),
  ("VhostUserGpuEdidRequest", ⟨4, 4, [("scanout_id", 0, 4)]⟩),
  ("VhostUserGpuUpdate", ⟨20, 4, [("scanout_id", 0, 4), ("x", 4, 4), ("y", 8, 4), ("width", 12, 4),
      ("height", 16, 4)]⟩),
  ("VhostUserGpuDMABUFScanout", ⟨40, 4, [("scanout_id", 0, 4), ("x", 4, 4), ("y", 8, 4), ("width", 12, 4),
      ("height", 16, 4), ("fd_width", 20, 4), ("fd_height", 24, 4), ("fd_stride", 28, 4), ("fd_flags", 32, 4),
      ("fd_drm_fourcc", 36, 4)]⟩),
  ("VhostUserGpuDMABUFScanout2", ⟨48, 1, [("dmabuf_scanout", 0, 40), ("modifier", 40, 8)]⟩),
  ("VhostUserGpuCursorPos", ⟨12, 4, [("scanout_id", 0, 4), ("x", 4, 4), ("y", 8, 4)]⟩),
  ("VhostUserGpuCursorUpdate", ⟨20, 4, [("pos", 0, 12), ("hot_x", 12, 4), ("hot_y", 16, 4)]⟩),
  ("VirtioGpuRespGetEdid", ⟨1056, 8, [("hdr", 0, 24), ("size", 24, 4), ("padding", 28, 4), ("edid", 32, 1024)]⟩),
  ("VhostUserGpuScanout", ⟨12, 4, [("scanout_id", 0, 4), ("width", 4, 4), ("height", 8, 4)]⟩)
]

def layoutOf (name : String) : Option Layout := (layouts.find? (·.1 == name)).map (·.2)

/-- offset and width of a (possibly nested, dot-free list) field path -/
def fieldAt (lay : String → Option Layout) (nested : String → String → Option String) :
    String → List String → Option (Nat × Nat)
  | _, [] => none
  | s, [f] => (lay s).bind fun l => (l.fields.find? (·.1 == f)).map (·.2)
  | s, f :: rest =>
    match (lay s).bind fun l => (l.fields.find? (·.1 == f)).map (·.2), nested s f with
    | some (off, _), some inner => (fieldAt lay nested inner rest).map fun (o, w) => (off + o, w)
    | _, _ => none

/-- which struct a nested field holds (spec side) -/
def nestedOf : String → String → Option String
  | "VhostUserSingleMemoryRegion", "region" => some "VhostUserMemoryRegion"
  | "VirtioGpuDisplayOne", "r" => some "VirtioGpuRect"
  | "VirtioGpuRespDisplayInfo", "hdr" => some "VirtioGpuCtrlHdr"
  | "VirtioGpuRespGetEdid", "hdr" => some "VirtioGpuCtrlHdr"
  | "VhostUserGpuDMABUFScanout2", "dmabuf_scanout" => some "VhostUserGpuDMABUFScanout"
  | "VhostUserGpuCursorUpdate", "pos" => some "VhostUserGpuCursorPos"
  | _, _ => none

def getField (bs : Bytes) (s : String) (path : List String) : Option Nat :=
  match fieldAt layoutOf nestedOf s path with
  | some (off, w) => if off + w ≤ bs.length then some (leVal ((bs.drop off).take w)) else none
  | none => none

end Spec
