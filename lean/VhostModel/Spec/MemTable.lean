/-!
# Spec: guest memory table and address translation (property C13)

Written from the property statement and the vhost-user specification (`SET_MEM_TABLE`, `ADD_MEM_REG`, `REM_MEM_REG`:
a region is described by guest address, size, user (front-end virtual) address and mmap offset, and arrives with one
file descriptor).  Plain natural numbers; nothing refers to how the Rust code or vm-memory organise anything.

* the table is the **fold of the successful operations** (`foldSuccesses`): a successful table replacement makes the table
  exactly the regions it names, a successful add joins one region, a successful removal drops the region with that guest
  address and size; a failed operation contributes nothing;
* one backend notification per successful change (`notifications`);
* the byte at guest address `g` inside region `r` is byte `r.off + (g - r.gpa)` of `r`'s file (`backedBy`);
* a user address `va` translates to `r.gpa + (va - r.uaddr)` for a region whose user range contains it and is rejected
  when no current region contains it (`translateOk`).  User ranges of different regions may overlap (the protocol does
  not forbid it); then any of the containing regions is an admissible answer.
-/
namespace Spec.MemTable

/-- one region description as it appears in a request, together with the environment's verdict on mapping the
file (`mapOk`: did the operating system map `size` bytes of file `fid` at offset `off`?) -/
structure Req where
  gpa : Nat
  size : Nat
  uaddr : Nat
  off : Nat
  fid : Nat
  mapOk : Bool
  deriving DecidableEq, Repr

/-- the three table updates of the protocol -/
inductive Op where
  | setTable (rs : List Req)
  | add (r : Req)
  | remove (gpa size : Nat)
  deriving DecidableEq, Repr

/-- a region of the table the property talks about -/
structure Region where
  gpa : Nat
  size : Nat
  uaddr : Nat
  off : Nat
  fid : Nat
  deriving DecidableEq, Repr

def Req.region (r : Req) : Region := ⟨r.gpa, r.size, r.uaddr, r.off, r.fid⟩

/-- effect of a *successful* operation on the table -/
def apply (t : List Region) : Op → List Region
  | .setTable rs => rs.map Req.region
  | .add r => t ++ [r.region]
  | .remove gpa size => t.filter fun x => !(x.gpa == gpa && x.size == size)

/-- table after a history of operations, each with whether it succeeded -/
def foldSuccesses (t : List Region) : List (Op × Bool) → List Region
  | [] => t
  | (op, true) :: h => foldSuccesses (apply t op) h
  | (_, false) :: h => foldSuccesses t h

/-- number of backend notifications owed: one per successful change -/
def notifications (h : List (Op × Bool)) : Nat := (h.filter (·.2)).length

/-- the tables the backend must have been shown, in order: the table after each successful change -/
def shown (t : List Region) : List (Op × Bool) → List (List Region)
  | [] => []
  | (op, true) :: h => apply t op :: shown (apply t op) h
  | (_, false) :: h => shown t h

def Region.containsGpa (r : Region) (g : Nat) : Prop := r.gpa ≤ g ∧ g < r.gpa + r.size
def Region.containsVa (r : Region) (va : Nat) : Prop := r.uaddr ≤ va ∧ va < r.uaddr + r.size

instance (r : Region) (g : Nat) : Decidable (r.containsGpa g) := by unfold Region.containsGpa; infer_instance
instance (r : Region) (g : Nat) : Decidable (r.containsVa g) := by unfold Region.containsVa; infer_instance

/-- the byte at guest address `g` is byte `o` of file `f` -/
def backedBy (t : List Region) (g f o : Nat) : Prop :=
  ∃ r ∈ t, r.containsGpa g ∧ f = r.fid ∧ o = r.off + (g - r.gpa)

/-- guest address `g` belongs to no region -/
def unbacked (t : List Region) (g : Nat) : Prop := ∀ r ∈ t, ¬ r.containsGpa g

/-- what the property allows as the outcome of translating user address `va`: `some g` = translated to `g`,
`none` = rejected -/
def translateOk (t : List Region) (va : Nat) : Option Nat → Prop
  | some g => ∃ r ∈ t, r.containsVa va ∧ g = r.gpa + (va - r.uaddr)
  | none => ∀ r ∈ t, ¬ r.containsVa va

/-! ### executable forms (used by the spec driver) -/

/-- all `(file, offset)` cells admissible for guest address `g` -/
def backings (t : List Region) (g : Nat) : List (Nat × Nat) :=
  (t.filter fun r => decide (r.containsGpa g)).map fun r => (r.fid, r.off + (g - r.gpa))

/-- all admissible translations of `va` -/
def translations (t : List Region) (va : Nat) : List Nat :=
  (t.filter fun r => decide (r.containsVa va)).map fun r => r.gpa + (va - r.uaddr)

def translateOkB (t : List Region) (va : Nat) : Option Nat → Bool
  | some g => (translations t va).contains g
  | none => (translations t va).isEmpty

theorem translateOkB_iff (t : List Region) (va : Nat) (o : Option Nat) :
    translateOkB t va o = true ↔ translateOk t va o := by
  cases o with
  | some g =>
    simp only [translateOkB, translateOk, translations, List.contains_iff_mem, List.mem_map, List.mem_filter,
      decide_eq_true_eq]
    constructor
    · rintro ⟨r, ⟨hm, hc⟩, rfl⟩; exact ⟨r, hm, hc, rfl⟩
    · rintro ⟨r, hm, hc, rfl⟩; exact ⟨r, ⟨hm, hc⟩, rfl⟩
  | none =>
    simp only [translateOkB, translateOk, translations, List.isEmpty_iff, List.map_eq_nil_iff,
      List.filter_eq_nil_iff, decide_eq_true_eq]

theorem mem_backings_iff (t : List Region) (g f o : Nat) : (f, o) ∈ backings t g ↔ backedBy t g f o := by
  simp only [backings, backedBy, List.mem_map, List.mem_filter, decide_eq_true_eq, Prod.mk.injEq]
  constructor
  · rintro ⟨r, ⟨hm, hc⟩, rfl, rfl⟩; exact ⟨r, hm, hc, rfl, rfl⟩
  · rintro ⟨r, hm, hc, rfl, rfl⟩; exact ⟨r, ⟨hm, hc⟩, rfl, rfl⟩

end Spec.MemTable
