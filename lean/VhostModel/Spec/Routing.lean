/-!
# Spec: kick routing (property C17)

Written from the property statement only.  A *mask* is a natural number read as a set of queue indices
(`q ∈ mask` iff bit `q` is set).  Nothing here refers to how the Rust code computes anything.
-/
namespace Spec.Routing

/-- queue `q` belongs to the worker whose mask is `mask` -/
def inMask (mask q : Nat) : Bool := mask.testBit q

/-- "the number of lower-numbered queues in that thread's mask" -/
def rank (mask q : Nat) : Nat := ((List.range q).filter (inMask mask)).length

/-- the ring slice of a worker: its queues (among the `n` existing ones) in increasing queue order -/
def slice (mask n : Nat) : List Nat := (List.range n).filter (inMask mask)

/-- "the first thread whose mask contains q" -/
def owner (masks : List Nat) (q : Nat) : Option Nat := masks.findIdx? (fun m => inMask m q)

/-- the exit event's id -/
def exitId (n : Nat) : Nat := n

/-- what the property allows the backend to see for one kick on queue `q`:
`none` = no dispatch (no worker owns the queue), `some (t, e, sl)` = exactly one dispatch on worker `t` with event
id `e` and ring slice `sl` -/
def kickOk (masks : List Nat) (n q : Nat) (obs : List (Nat × Nat × List Nat)) : Bool :=
  match owner masks q, obs with
  | none, [] => true
  | some t, [(t', e, sl)] =>
    match masks[t]? with
    | none => false
    | some m => t' == t && e == rank m q && sl == slice m n && sl[e]? == some q
  | _, _ => false

/-- outcome of registering and firing a custom listener with id `id` -/
inductive ListenerObs where
  | rejected
  | delivered (thread : Nat) (deviceEvent : Nat)
  | lost
  deriving Repr, DecidableEq

/-- "custom listeners are accepted only with larger ids and are delivered with exactly the registered id, never confused
with a queue or the exit event": an accepted listener must have `id > n` and must be delivered on its worker with
`device_event = id`; refusing an id is always allowed (an id that the 16-bit event id of the backend interface cannot
carry can only be refused). -/
def listenerOk (n thread id : Nat) : ListenerObs → Bool
  | .rejected => true
  | .delivered t e => decide (n < id) && t == thread && e == id
  | .lost => false

end Spec.Routing
