/-!
# Spec: the ring automaton (property C11)

Written from the property statement and the vhost-user specification ("Ring states"), with no reference
to how the Rust code is organised.

Per ring: `started`, `enabled`, the *current* kick descriptor and the call descriptor.

* a ring is **started** by receipt of a kick descriptor (`SET_VRING_KICK` carrying a descriptor) and
  **stopped** by `GET_VRING_BASE`, which returns the next-available index and drops the ring's kick and
  call descriptors;
* it is **enabled** — all rings at once — by a `SET_FEATURES` that lacks `VHOST_USER_F_PROTOCOL_FEATURES`
  (bit 30); otherwise only by `SET_VRING_ENABLE(1)`; it is **disabled** by `SET_VRING_ENABLE(0)` or
  `RESET_DEVICE`;
* a guest kick on a descriptor is *pending* until it is delivered.  After every event the pending kicks
  on the current kick descriptor of every ring that is started and enabled are delivered: the backend's
  event handler is called for that ring (once per wake-up: an eventfd coalesces kicks) and the kicks are
  no longer pending.  Nothing is delivered for a ring that is not started and enabled, and its pending
  kicks stay pending ("retained").

Descriptors are identified by allocation order: the k-th descriptor the front-end sends (with
`SET_VRING_KICK` or `SET_VRING_CALL`) is descriptor `k`; every message carries a fresh descriptor.

## Decisions on points the statement leaves open (DESIGN §7 "Limits": resolved conservatively)

* D1. `SET_VRING_ENABLE` "should only be sent if VHOST_USER_F_PROTOCOL_FEATURES has been negotiated":
  a history that sends it while the most recent `SET_FEATURES` (since the start or since the last
  `RESET_DEVICE`, which resets the device's feature negotiation) did not carry bit 30 has left the
  protocol; the property says nothing about it.  `step` returns `none` there ("outside the domain"),
  and likewise for a ring index that does not exist.  Nothing is demanded of the implementation from
  that point on.
* D2. Pending kicks belong to the *descriptor* they were raised on.  When the front-end replaces a
  ring's kick descriptor, kicks still pending on the old descriptor are abandoned by the front-end's
  own choice; a kick on a descriptor that is not (or no longer) the current kick descriptor of a ring
  calls for no handler invocation, and must not cause one.
* D3. `SET_VRING_KICK` with the no-descriptor flag leaves `started` as it is (only *receipt of a
  descriptor* starts a ring) and leaves the ring without a current kick descriptor.
* D4. `RESET_DEVICE` disables every ring and leaves `started` and the descriptors alone (the statement
  lists it only under "disabled by").
* D5. One handler call per ring and wake-up: `n` kicks raised before the worker looks are one call.
-/

namespace Spec.RingAutomaton

abbrev Evt := Nat

structure Ring where
  started : Bool
  enabled : Bool
  kick : Option Evt
  call : Option Evt
deriving DecidableEq, Repr

def Ring.init : Ring := ⟨false, false, none, none⟩

/-- the events of a history -/
inductive Msg where
  | setFeatures (proto : Bool)          -- `proto` = the value carries bit 30
  | setKick (r : Nat) (fd : Bool)       -- `fd = false`: the no-descriptor flag
  | setCall (r : Nat) (fd : Bool)
  | setEnable (r : Nat) (on : Bool)
  | getBase (r : Nat)
  | reset
  | guestKick (d : Evt)                 -- the guest writes to descriptor `d`
  | peerClose (d : Evt)                 -- the front-end closes its own copy of descriptor `d`
deriving DecidableEq, Repr

inductive Reply where
  | ok                                  -- acknowledged with success
  | base (r v : Nat)                    -- GET_VRING_BASE reply: ring, next-available index
  | noReply                             -- not a control message
deriving DecidableEq, Repr

structure Out where
  reply : Reply
  dispatched : List Nat                 -- rings whose handler was called, in increasing order
deriving DecidableEq, Repr

def upd {α : Type} (f : Nat → α) (i : Nat) (v : α) : Nat → α := fun j => if j = i then v else f j

structure St where
  n : Nat                               -- number of rings
  base : Nat → Nat                      -- next-available index of each ring
  nego : Bool                           -- bit 30 negotiated (D1)
  ring : Nat → Ring
  pending : Evt → Nat                   -- kicks raised on a descriptor and not yet delivered
  peerOpen : Evt → Bool                 -- the front-end still holds the descriptor
  next : Evt                            -- descriptors sent so far

def init (n : Nat) (base : Nat → Nat) : St :=
  { n := n, base := base, nego := false, ring := fun _ => Ring.init, pending := fun _ => 0,
    peerOpen := fun _ => false, next := 0 }

/-- started and enabled -/
def St.active (s : St) (r : Nat) : Bool :=
  decide (r < s.n) && (s.ring r).started && (s.ring r).enabled

/-- a handler call is due for ring `r`: it is active and kicks are pending on its current descriptor -/
def due (s : St) (r : Nat) : Bool :=
  s.active r && (match (s.ring r).kick with
                 | some d => decide (0 < s.pending d)
                 | none => false)

/-- deliver what is due -/
def deliver (s : St) : St × List Nat :=
  let rs := (List.range s.n).filter (due s)
  ({ s with pending := fun d => if rs.any (fun r => (s.ring r).kick == some d) then 0 else s.pending d }, rs)

def setRing (s : St) (r : Nat) (v : Ring) : St := { s with ring := upd s.ring r v }

/-- a fresh descriptor is sent -/
def alloc (s : St) : St := { s with next := s.next + 1, peerOpen := upd s.peerOpen s.next true }

/-- effect of one event on the ring state; `none` = outside the protocol's domain (D1) -/
def control (s : St) : Msg → Option (St × Reply)
  | .setFeatures proto =>
    some ({ s with nego := proto,
                   ring := fun r => if !proto && decide (r < s.n) then { s.ring r with enabled := true } else s.ring r },
          .ok)
  | .setKick r fd =>
    if r < s.n then
      if fd then some (alloc (setRing s r { s.ring r with started := true, kick := some s.next }), .ok)
      else some (setRing s r { s.ring r with kick := none }, .ok)
    else none
  | .setCall r fd =>
    if r < s.n then
      if fd then some (alloc (setRing s r { s.ring r with call := some s.next }), .ok)
      else some (setRing s r { s.ring r with call := none }, .ok)
    else none
  | .setEnable r on =>
    if r < s.n ∧ s.nego = true then some (setRing s r { s.ring r with enabled := on }, .ok) else none
  | .getBase r =>
    if r < s.n then
      some (setRing s r { s.ring r with started := false, kick := none, call := none }, .base r (s.base r))
    else none
  | .reset =>
    some ({ s with nego := false,
                   ring := fun r => if r < s.n then { s.ring r with enabled := false } else s.ring r }, .ok)
  | .guestKick d =>
    some (if d < s.next ∧ s.peerOpen d = true then { s with pending := upd s.pending d (s.pending d + 1) } else s,
          .noReply)
  | .peerClose d => some ({ s with peerOpen := upd s.peerOpen d false }, .noReply)

def step (s : St) (m : Msg) : Option (St × Out) :=
  match control s m with
  | none => none
  | some (s1, rep) => some ((deliver s1).1, ⟨rep, (deliver s1).2⟩)

/-- run a history; `none` once it leaves the domain -/
def run (s : St) : List Msg → Option (St × List Out)
  | [] => some (s, [])
  | m :: ms =>
    match step s m with
    | none => none
    | some (s1, o) =>
      match run s1 ms with
      | none => none
      | some (s2, os) => some (s2, o :: os)

end Spec.RingAutomaton
