import VhostModel.Spec.Proto
/-!
# Spec: what each frontend API operation must put on the wire, when it must refuse locally, and which
reply it may accept (properties C01, C02, C03, C06, C07 — frontend side)

From the vhost-user specification and the property statements.  An operation is `name`, numeric arguments
`a`, a byte payload, and the identities of the descriptors the caller passes.
-/
namespace Spec.Frontend
open Base Spec Spec.Proto

structure Op where
  name : String
  a : List Nat := []
  payload : Bytes := []
  fds : List Nat := []
  bad : Bool := false                                  -- the caller passed an invalid descriptor
  regions : List (Nat × Nat × Nat × Nat × Bool) := []  -- set_mem_table
  deriving Repr, Inhabited

/-- what the frontend knows about the negotiation -/
structure FNeg where
  offered : Nat := 0      -- virtio features the backend reported
  acked : Nat := 0        -- virtio features acknowledged by this frontend (∩ offered)
  ackedProto : Nat := 0   -- protocol features acknowledged
  maxQ : Nat := 0
  needReply : Bool := false   -- NEED_REPLY requested for every message
  deriving Repr, Inhabited

def u64 (v : Nat) : Bytes := leBytes 8 v
def u32 (v : Nat) : Bytes := leBytes 4 v
def u16 (v : Nat) : Bytes := leBytes 2 v

inductive ReplyTy where
  | none | ack | u64 | vringState | config | log | inflightFd | emptyFd | u64OptFd | shmem
  deriving Repr, DecidableEq, Inhabited

/-- request code, protocol-feature gate, body, descriptors and reply type of an operation the API accepts;
`none` when the API must refuse the call locally (C02) -/
structure Wire where
  code : Nat
  body : Bytes
  fds : List Nat
  reply : ReplyTy
  deriving Repr, Inhabited

inductive Local where
  | reject            -- must be refused without touching the wire
  | send (w : Wire)
  | unspecified       -- arguments outside what the properties speak about
  deriving Repr, Inhabited

def proto (n : FNeg) (bit : Nat) : Bool := n.ackedProto.testBit bit

def gateBit : String → Option Nat
  | "get_queue_num" => some 0 | "get_config" | "set_config" => some 9 | "set_backend_req_fd" => some 5
  | "get_inflight_fd" | "set_inflight_fd" => some 12
  | "get_max_mem_slots" | "add_mem_region" | "remove_mem_region" => some 15
  | "reset_device" => some 13 | "get_shared_object" => some 18 | "get_shmem_config" => some 21
  | "set_device_state_fd" | "check_device_state" => some 19
  | "postcopy_advise" | "postcopy_listen" | "postcopy_end" => some 8
  | _ => none

def classify (n : FNeg) (op : Op) : Local :=
  let q (i : Nat) : Bool := i < n.maxQ
  -- un-negotiated feature ⇒ refuse (C07)
  if (match gateBit op.name with | some b => !proto n b | none => false) then .reject
  else if (op.name == "get_protocol_features" || op.name == "set_protocol_features") && !n.offered.testBit 30 then .reject
  else if op.name == "set_vring_enable" && !n.acked.testBit 30 then .reject
  else
  match op.name, op.a with
  | "get_features", _ => .send ⟨1, [], [], .u64⟩
  | "set_features", [v] => .send ⟨2, u64 v, [], .ack⟩
  | "set_owner", _ => .send ⟨3, [], [], .ack⟩
  | "reset_owner", _ => .send ⟨4, [], [], .ack⟩
  | "set_mem_table", _ =>
    if op.regions.isEmpty || op.regions.length > 32 || op.regions.any (fun r => r.2.1 == 0) then .reject
    else if op.regions.any (fun r => !r.2.2.2.2) then .unspecified
    else .send ⟨5, u32 op.regions.length ++ u32 0 ++ op.regions.flatMap (fun r => u64 r.1 ++ u64 r.2.1 ++ u64 r.2.2.1 ++ u64 r.2.2.2.1),
                op.fds, .ack⟩
  | "set_log_base", [base] => .send ⟨6, u64 base, [], .none⟩
  | "set_log_base", [base, size, off] =>
    if proto n 1 then .send ⟨6, u64 size ++ u64 off, op.fds, .log⟩ else .send ⟨6, u64 base, [], .none⟩
  | "set_log_fd", _ => .send ⟨7, [], op.fds, .ack⟩
  | "set_vring_num", [i, v] => if !q i then .reject else .send ⟨8, u32 i ++ u32 v, [], .ack⟩
  | "set_vring_addr", [i, fl, d, u, a, lg] =>
    if !q i then .reject else if fl ≥ 2 then .unspecified
    else .send ⟨9, u32 i ++ u32 fl ++ u64 d ++ u64 u ++ u64 a ++ u64 lg, [], .ack⟩
  | "set_vring_base", [i, v] => if !q i then .reject else .send ⟨10, u32 i ++ u32 v, [], .ack⟩
  | "get_vring_base", [i] => if !q i then .reject else .send ⟨11, u32 i ++ u32 0, [], .vringState⟩
  | "set_vring_call", [i] => if !q i then .reject else if i > 255 then .reject else .send ⟨13, u64 i, op.fds, .ack⟩
  | "set_vring_kick", [i] => if !q i then .reject else if i > 255 then .reject else .send ⟨12, u64 i, op.fds, .ack⟩
  | "set_vring_err", [i] => if !q i then .reject else if i > 255 then .reject else .send ⟨14, u64 i, op.fds, .ack⟩
  | "get_protocol_features", _ => .send ⟨15, [], [], .u64⟩
  | "set_protocol_features", [v] => .send ⟨16, u64 v, [], .ack⟩
  | "get_queue_num", _ => .send ⟨17, [], [], .u64⟩
  | "reset_device", _ => .send ⟨34, [], [], .ack⟩
  | "set_vring_enable", [i, e] => if !q i then .reject else .send ⟨18, u32 i ++ u32 e, [], .ack⟩
  | "get_config", [off, size, fl, blen] =>
    if !decide (validConfig off size fl) then .reject
    else if 12 + op.payload.length > 4096 then .reject   -- the library bounds a message body by 4096 bytes: nothing is sent
    else if blen != size then .unspecified
    else .send ⟨24, u32 off ++ u32 size ++ u32 fl ++ op.payload, [], .config⟩
  | "set_config", [off, fl] =>
    if !decide (validConfig off op.payload.length fl) then .reject
    else if 12 + op.payload.length > 4096 then .reject
    else .send ⟨25, u32 off ++ u32 op.payload.length ++ u32 fl ++ op.payload, [], .ack⟩
  | "set_backend_req_fd", _ => .send ⟨21, [], op.fds, .ack⟩
  | "get_shared_object", [u] => if !decide (validUuid u) then .unspecified else .send ⟨41, leBytes 16 u, [], .emptyFd⟩
  | "get_inflight_fd", [ms, mo, nq, qs] => .send ⟨31, u64 ms ++ u64 mo ++ u16 nq ++ u16 qs ++ [0,0,0,0], [], .inflightFd⟩
  | "set_inflight_fd", [ms, mo, nq, qs] =>
    if op.bad || ms == 0 || nq == 0 || qs == 0 then .unspecified
    else .send ⟨32, u64 ms ++ u64 mo ++ u16 nq ++ u16 qs ++ [0,0,0,0], op.fds, .ack⟩
  | "get_max_mem_slots", _ => .send ⟨36, [], [], .u64⟩
  | "add_mem_region", [g, s, u, o] =>
    if s == 0 then .reject else if op.bad then .unspecified
    else .send ⟨37, u64 0 ++ u64 g ++ u64 s ++ u64 u ++ u64 o, op.fds, .ack⟩
  | "remove_mem_region", [g, s, u, o] =>
    if s == 0 then .reject else .send ⟨38, u64 0 ++ u64 g ++ u64 s ++ u64 u ++ u64 o, [], .ack⟩
  | "get_shmem_config", _ => .send ⟨44, [], [], .shmem⟩
  | "set_device_state_fd", [d, p] => .send ⟨42, u32 d ++ u32 p, op.fds, .u64OptFd⟩
  | "check_device_state", _ => .send ⟨43, [], [], .u64⟩
  | "postcopy_advise", _ => .send ⟨28, [], [], .emptyFd⟩
  | "postcopy_listen", _ => .send ⟨29, [], [], .ack⟩
  | "postcopy_end", _ => .send ⟨30, [], [], .ack⟩
  | _, _ => .unspecified

/-- header flags of a request: version 1, NEED_REPLY iff requested -/
def reqFlags (n : FNeg) : Nat := if n.needReply then 9 else 1

/-- exact bytes of the request -/
def encode (n : FNeg) (w : Wire) : Bytes := u32 w.code ++ u32 (reqFlags n) ++ u32 w.body.length ++ w.body

/-- does the operation read an answer from the wire -/
def awaits (n : FNeg) (op : Op) (w : Wire) : Bool :=
  match w.reply with
  | .none => false
  | .ack =>
    -- SET_PROTOCOL_FEATURES takes effect with the message that carries it
    let ap := if op.name == "set_protocol_features" then (match op.a with | [v] => v | _ => n.ackedProto) else n.ackedProto
    n.needReply && ap.testBit 3
  | _ => true

/-- size of the fixed reply body -/
def replyBodySize : ReplyTy → Nat
  | .none => 0 | .ack | .u64 | .u64OptFd | .vringState => 8 | .config => 12 | .log => 16 | .inflightFd => 24
  | .emptyFd => 0 | .shmem => 2056

/-- is `bytes` (with `nfds` descriptors) a protocol-conformant reply to request `w`:
valid header, REPLY set, same code, body of the reply type valid, descriptors present exactly when defined -/
def replyConforms (w : Wire) (bytes : Bytes) (nfds : Nat) : Bool :=
  let n := replyBodySize w.reply
  if bytes.length < 12 + n then false else
  let code := leVal (bytes.take 4); let flags := leVal ((bytes.drop 4).take 4); let size := leVal ((bytes.drop 8).take 4)
  let body := (bytes.drop 12).take n
  decide (validHeader frontendCodes code flags size) && flags.testBit 2 && code == w.code &&
  (match w.reply with
   | .config => decide (validConfig (fld body "VhostUserConfig" ["offset"]) (fld body "VhostUserConfig" ["size"])
        (fld body "VhostUserConfig" ["flags"]))
   | .log => decide (validLog (fld body "VhostUserLog" ["mmap_size"]) (fld body "VhostUserLog" ["mmap_offset"]))
   | .inflightFd => decide (validInflight (fld body "VhostUserInflight" ["num_queues"]) (fld body "VhostUserInflight" ["queue_size"]))
   | _ => true) &&
  (match w.reply with
   | .inflightFd | .emptyFd => nfds == 1
   | .u64OptFd => nfds ≤ 1
   | _ => nfds == 0)

def updateNeg (n : FNeg) (op : Op) (retOkVal : Option Nat) : FNeg :=
  match op.name, op.a with
  | "get_features", _ => (match retOkVal with | some v => { n with offered := v } | none => n)
  | "set_features", [v] => { n with acked := v &&& n.offered }
  | "set_protocol_features", [v] => { n with ackedProto := v }
  | "get_queue_num", _ => (match retOkVal with | some v => { n with maxQ := v } | none => n)
  | _, _ => n

end Spec.Frontend
