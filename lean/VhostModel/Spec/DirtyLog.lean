/-!
# Spec: dirty-page log (property C15)

Written from the property statement and the vhost-user specification ("the log covers all known guest addresses; bit
`gpa / 4096`, least-significant bit first within each byte") and, for used-ring updates, the virtio split-ring layout.
Addresses, lengths and page numbers are unbounded naturals.
-/
namespace Spec.DirtyLog

/-- VHOST_LOG_PAGE -/
def pageSize : Nat := 4096

/-- first and last page of a write -/
def firstPage (gpa : Nat) : Nat := gpa / pageSize
def lastPage (gpa len : Nat) : Nat := (gpa + len - 1) / pageSize

/-- page `p` is touched by a write of `len` bytes at guest address `gpa` (nothing is touched when `len = 0`) -/
def touched (gpa len p : Nat) : Prop := 0 < len ∧ firstPage gpa ≤ p ∧ p ≤ lastPage gpa len

instance (gpa len p : Nat) : Decidable (touched gpa len p) := by unfold touched; exact inferInstance

/-- the pages touched, as a list: `{gpa/4096 … (gpa+len-1)/4096}`, empty for `len = 0` -/
def pages (gpa len : Nat) : List Nat :=
  if len = 0 then [] else List.range' (firstPage gpa) (lastPage gpa len - firstPage gpa + 1)

/-- a guest memory region -/
structure Region where
  gpa : Nat
  size : Nat
  deriving Repr, DecidableEq

/-- the property's domain: page-aligned regions -/
def Region.aligned (r : Region) : Prop := r.gpa % pageSize = 0 ∧ r.size % pageSize = 0 ∧ 0 < r.size

/-- page `p` lies in region `r` -/
def Region.hasPage (r : Region) (p : Nat) : Prop := r.gpa ≤ p * pageSize ∧ p * pageSize < r.gpa + r.size

instance (r : Region) (p : Nat) : Decidable (r.hasPage p) := by unfold Region.hasPage; exact inferInstance

/-- highest guest page of the region -/
def Region.lastPage (r : Region) : Nat := (r.gpa + r.size - 1) / pageSize

/-- "log large enough for the highest guest page": the byte holding the region's last page exists -/
def covers (logLen : Nat) (r : Region) : Prop := r.lastPage / 8 < logLen

instance (n : Nat) (r : Region) : Decidable (covers n r) := by unfold covers; exact inferInstance

/-- byte and bit of page `p` in the log: "bit number gpa/4096, least-significant bit first within each byte" -/
def byteOf (p : Nat) : Nat := p / 8
def bitOf (p : Nat) : Nat := p % 8

/-- the log bit of page `p` (false outside the log) -/
def bitAt (log : List UInt8) (p : Nat) : Bool :=
  match log[byteOf p]? with
  | some b => b.toNat.testBit (bitOf p)
  | none => false

/-- `log'` is `log` with exactly the pages satisfying `P` additionally set: same length, every bit is the old bit OR
"its page satisfies `P`" — no other bit changes, in particular none is cleared -/
def LoggedExactly (log log' : List UInt8) (P : Nat → Prop) : Prop :=
  log'.length = log.length ∧
  ∀ p, p / 8 < log.length → (bitAt log' p = true ↔ (bitAt log p = true ∨ P p))

/-! ### used-ring updates (virtio 1.x, split ring): `struct virtq_used { le16 flags; le16 idx; struct { le32 id; le32 len; } ring[qsz]; }` -/

/-- address and length of the used element written when the ring's used index is `k` -/
def usedElemWrite (used qsz k : Nat) : Nat × Nat := (used + 4 + 8 * (k % qsz), 8)
/-- address and length of the used index -/
def usedIdxWrite (used : Nat) : Nat × Nat := (used + 2, 2)

end Spec.DirtyLog
