import VhostModel.Base
import VhostModel.Base.Ioctl
/-!
# Spec: the Linux vhost UAPI (`<linux/vhost.h>`, `<linux/vhost_types.h>`) and what property C19 demands

Hand transcription of the kernel headers, with no reference to the Rust sources.  The transcription is
itself checked on every run: `tools/uapi_probe.c`, compiled against `/usr/include/linux/vhost.h`, prints every
ioctl number, `sizeof`, `_Alignof` and `offsetof`; `checks/c19.py` compares that with what `SpecDrv.Kern`
reports from the tables below (`kern probe …` lines) and aborts with a framework error on any difference.

Contents: the `_IOC` encoding; the ioctl table; the struct layouts; "operation ↦ request" (`opTable`);
per operation, which caller value must appear in which UAPI field (`expect`); the verdict on an observed
`(request, argument bytes, returned value)` (`judge`).

Reading of the property where its text leaves a choice (all resolved towards *not* alarming):
* a caller value wider than its UAPI field (queue index `usize` → `unsigned int`) is compared modulo the
  field width;
* reserved fields (`vhost_memory.padding`, `vhost_memory_region.flags_padding`, `vhost_msg_v2.asid`) must be 0
  (the kernel refuses a non-zero `padding`; no flags are defined; no address-space id is supplied by the API);
* `log_guest_addr` is judged only when the log flag (bit `VHOST_VRING_F_LOG` = 0) is set;
* a ring configuration the property does not list as refused *may* still be refused (before any ioctl);
  if a guest address lies in no region the call *must* be refused (there is no host address to hand over);
* region tables of 0 or more than 255 entries, `set_log_base` with a log region, IOTLB messages whose type
  byte is 0 or above 6 or whose permission is above 3 are outside the property's domain: nothing is demanded;
* an ioctl the stand-in kernel fails (`rc ≠ 0`) must be reported as an error;
* "unchanged for vDPA" is judged on the method a direct call `vdpa.set_vring_addr(..)` resolves to (the inherent
  `VhostKernVdpa::set_vring_addr`).  Generic code that reaches `VhostBackend::set_vring_addr` through the trait gets the
  blanket impl (which translates); the statement does not say which of the two a vDPA user means, so that path is
  recorded here and not alarmed on.
-/
namespace Spec.Uapi
open Base Base.K

/-! ## `_IOC` -/

def IOC_NONE : Nat := 0
def IOC_WRITE : Nat := 1
def IOC_READ : Nat := 2

/-- `_IOC(dir,type,nr,size)`: `dir << 30 | size << 16 | type << 8 | nr` -/
def ioc (dir ty nr size : Nat) : Nat := dir <<< 30 ||| size <<< 16 ||| ty <<< 8 ||| nr

def iocDir (req : Nat) : Nat := (req >>> 30) % 4
def iocSize (req : Nat) : Nat := (req >>> 16) % 16384

def VHOST_VIRTIO : Nat := 0xAF

/-! ## struct layouts of `<linux/vhost_types.h>` (x86-64 / aarch64 LP64 ABI) -/

def layouts : List (String × Layout) := [
  ("vhost_vring_state", ⟨8, 4, [("index", 0, 4), ("num", 4, 4)]⟩),
  ("vhost_vring_file", ⟨8, 4, [("index", 0, 4), ("fd", 4, 4)]⟩),
  ("vhost_vring_addr", ⟨40, 8, [("index", 0, 4), ("flags", 4, 4), ("desc_user_addr", 8, 8), ("used_user_addr", 16, 8),
      ("avail_user_addr", 24, 8), ("log_guest_addr", 32, 8)]⟩),
  ("vhost_iotlb_msg", ⟨32, 8, [("iova", 0, 8), ("size", 8, 8), ("uaddr", 16, 8), ("perm", 24, 1), ("type", 25, 1)]⟩),
  -- `struct vhost_msg { int type; union { struct vhost_iotlb_msg iotlb; __u8 padding[64]; }; }`
  ("vhost_msg", ⟨72, 8, [("type", 0, 4), ("iotlb", 8, 32), ("padding", 8, 64)]⟩),
  -- `struct vhost_msg_v2 { __u32 type; __u32 asid; union { … }; }`
  ("vhost_msg_v2", ⟨72, 8, [("type", 0, 4), ("asid", 4, 4), ("iotlb", 8, 32), ("padding", 8, 64)]⟩),
  ("vhost_memory_region", ⟨32, 8, [("guest_phys_addr", 0, 8), ("memory_size", 8, 8), ("userspace_addr", 16, 8),
      ("flags_padding", 24, 8)]⟩),
  -- flexible array member `regions[]` at the end
  ("vhost_memory", ⟨8, 8, [("nregions", 0, 4), ("padding", 4, 4), ("regions", 8, 0)]⟩),
  ("vhost_scsi_target", ⟨232, 4, [("abi_version", 0, 4), ("vhost_wwpn", 4, 224), ("vhost_tpgt", 228, 2), ("reserved", 230, 2)]⟩),
  ("vhost_vdpa_config", ⟨8, 4, [("off", 0, 4), ("len", 4, 4), ("buf", 8, 0)]⟩),
  ("vhost_vdpa_iova_range", ⟨16, 8, [("first", 0, 8), ("last", 8, 8)]⟩)
]

def layoutOf (s : String) : Option Layout := (layouts.find? (·.1 == s)).map (·.2)

/-- which struct an embedded member is -/
def nestedOf : String → String → Option String
  | "vhost_msg", "iotlb" => some "vhost_iotlb_msg"
  | "vhost_msg_v2", "iotlb" => some "vhost_iotlb_msg"
  | _, _ => none

/-- offset and width of a member path -/
def fieldAt : String → List String → Option (Nat × Nat)
  | _, [] => none
  | s, [f] => (layoutOf s).bind fun l => (l.fields.find? (·.1 == f)).map (·.2)
  | s, f :: rest =>
    match (layoutOf s).bind fun l => (l.fields.find? (·.1 == f)).map (·.2), nestedOf s f with
    | some (off, _), some inner => (fieldAt inner rest).map fun (o, w) => (off + o, w)
    | _, _ => none

/-- size of an ioctl argument type as written in `<linux/vhost.h>` -/
def sizeOfType (t : String) : Option Nat :=
  match t with
  | "" => some 0
  | "__u64" => some 8
  | "__u32" => some 4
  | "unsigned int" => some 4
  | "int" => some 4
  | "__u16" => some 2
  | "__u8" => some 1
  | _ => if t.startsWith "struct " then (layoutOf (t.drop 7).toString).map (·.size) else none

/-! ## the ioctls of `<linux/vhost.h>`: name, direction, number, argument type -/

structure Ioctl where
  name : String
  dir : Nat
  nr : Nat
  arg : String
  deriving Repr, DecidableEq

def R := IOC_READ
def W := IOC_WRITE
def RW := IOC_READ ||| IOC_WRITE

def ioctls : List Ioctl := [
  ⟨"VHOST_GET_FEATURES", R, 0x00, "__u64"⟩,
  ⟨"VHOST_SET_FEATURES", W, 0x00, "__u64"⟩,
  ⟨"VHOST_SET_OWNER", IOC_NONE, 0x01, ""⟩,
  ⟨"VHOST_RESET_OWNER", IOC_NONE, 0x02, ""⟩,
  ⟨"VHOST_SET_MEM_TABLE", W, 0x03, "struct vhost_memory"⟩,
  ⟨"VHOST_SET_LOG_BASE", W, 0x04, "__u64"⟩,
  ⟨"VHOST_SET_LOG_FD", W, 0x07, "int"⟩,
  ⟨"VHOST_SET_VRING_NUM", W, 0x10, "struct vhost_vring_state"⟩,
  ⟨"VHOST_SET_VRING_ADDR", W, 0x11, "struct vhost_vring_addr"⟩,
  ⟨"VHOST_SET_VRING_BASE", W, 0x12, "struct vhost_vring_state"⟩,
  ⟨"VHOST_GET_VRING_BASE", RW, 0x12, "struct vhost_vring_state"⟩,
  ⟨"VHOST_SET_VRING_ENDIAN", W, 0x13, "struct vhost_vring_state"⟩,
  ⟨"VHOST_GET_VRING_ENDIAN", W, 0x14, "struct vhost_vring_state"⟩,
  ⟨"VHOST_SET_VRING_KICK", W, 0x20, "struct vhost_vring_file"⟩,
  ⟨"VHOST_SET_VRING_CALL", W, 0x21, "struct vhost_vring_file"⟩,
  ⟨"VHOST_SET_VRING_ERR", W, 0x22, "struct vhost_vring_file"⟩,
  ⟨"VHOST_SET_VRING_BUSYLOOP_TIMEOUT", W, 0x23, "struct vhost_vring_state"⟩,
  ⟨"VHOST_GET_VRING_BUSYLOOP_TIMEOUT", W, 0x24, "struct vhost_vring_state"⟩,
  ⟨"VHOST_SET_BACKEND_FEATURES", W, 0x25, "__u64"⟩,
  ⟨"VHOST_GET_BACKEND_FEATURES", R, 0x26, "__u64"⟩,
  ⟨"VHOST_NET_SET_BACKEND", W, 0x30, "struct vhost_vring_file"⟩,
  ⟨"VHOST_SCSI_SET_ENDPOINT", W, 0x40, "struct vhost_scsi_target"⟩,
  ⟨"VHOST_SCSI_CLEAR_ENDPOINT", W, 0x41, "struct vhost_scsi_target"⟩,
  ⟨"VHOST_SCSI_GET_ABI_VERSION", W, 0x42, "int"⟩,
  ⟨"VHOST_SCSI_SET_EVENTS_MISSED", W, 0x43, "__u32"⟩,
  ⟨"VHOST_SCSI_GET_EVENTS_MISSED", W, 0x44, "__u32"⟩,
  ⟨"VHOST_VSOCK_SET_GUEST_CID", W, 0x60, "__u64"⟩,
  ⟨"VHOST_VSOCK_SET_RUNNING", W, 0x61, "int"⟩,
  ⟨"VHOST_VDPA_GET_DEVICE_ID", R, 0x70, "__u32"⟩,
  ⟨"VHOST_VDPA_GET_STATUS", R, 0x71, "__u8"⟩,
  ⟨"VHOST_VDPA_SET_STATUS", W, 0x72, "__u8"⟩,
  ⟨"VHOST_VDPA_GET_CONFIG", R, 0x73, "struct vhost_vdpa_config"⟩,
  ⟨"VHOST_VDPA_SET_CONFIG", W, 0x74, "struct vhost_vdpa_config"⟩,
  ⟨"VHOST_VDPA_SET_VRING_ENABLE", W, 0x75, "struct vhost_vring_state"⟩,
  ⟨"VHOST_VDPA_GET_VRING_NUM", R, 0x76, "__u16"⟩,
  ⟨"VHOST_VDPA_SET_CONFIG_CALL", W, 0x77, "int"⟩,
  ⟨"VHOST_VDPA_GET_IOVA_RANGE", R, 0x78, "struct vhost_vdpa_iova_range"⟩,
  ⟨"VHOST_VDPA_GET_CONFIG_SIZE", R, 0x79, "__u32"⟩,
  ⟨"VHOST_VDPA_GET_VQS_COUNT", R, 0x80, "__u32"⟩,
  ⟨"VHOST_VDPA_GET_GROUP_NUM", R, 0x81, "__u32"⟩,
  ⟨"VHOST_VDPA_GET_AS_NUM", R, 0x7A, "unsigned int"⟩,
  ⟨"VHOST_VDPA_GET_VRING_GROUP", RW, 0x7B, "struct vhost_vring_state"⟩,
  ⟨"VHOST_VDPA_SET_GROUP_ASID", W, 0x7C, "struct vhost_vring_state"⟩,
  ⟨"VHOST_VDPA_SUSPEND", IOC_NONE, 0x7D, ""⟩
]

def ioctlByName (n : String) : Option Ioctl := ioctls.find? (·.name == n)

def Ioctl.size (i : Ioctl) : Option Nat := sizeOfType i.arg

/-- the request value user space passes to `ioctl(2)` -/
def Ioctl.request (i : Ioctl) : Option Nat := i.size.map fun s => ioc i.dir VHOST_VIRTIO i.nr s

def requestNr (n : String) : Option Nat := (ioctlByName n).bind Ioctl.request

/-! ## constants of `<linux/vhost_types.h>` -/

def VHOST_IOTLB_MSG : Nat := 1
def VHOST_IOTLB_MSG_V2 : Nat := 2
def VHOST_ACCESS_RO : Nat := 1
def VHOST_ACCESS_WO : Nat := 2
def VHOST_ACCESS_RW : Nat := 3
def VHOST_IOTLB_MISS : Nat := 1
def VHOST_IOTLB_UPDATE : Nat := 2
def VHOST_IOTLB_INVALIDATE : Nat := 3
def VHOST_IOTLB_ACCESS_FAIL : Nat := 4
def VHOST_IOTLB_BATCH_BEGIN : Nat := 5
def VHOST_IOTLB_BATCH_END : Nat := 6
/-- feature *bit number* "use message type V2" -/
def VHOST_BACKEND_F_IOTLB_MSG_V2 : Nat := 1
/-- bit number of the log flag in `vhost_vring_addr.flags` -/
def VHOST_VRING_F_LOG : Nat := 0

def constTable : List (String × Nat) := [
  ("VHOST_VIRTIO", VHOST_VIRTIO), ("VHOST_IOTLB_MSG", VHOST_IOTLB_MSG), ("VHOST_IOTLB_MSG_V2", VHOST_IOTLB_MSG_V2),
  ("VHOST_ACCESS_RO", VHOST_ACCESS_RO), ("VHOST_ACCESS_WO", VHOST_ACCESS_WO), ("VHOST_ACCESS_RW", VHOST_ACCESS_RW),
  ("VHOST_IOTLB_MISS", VHOST_IOTLB_MISS), ("VHOST_IOTLB_UPDATE", VHOST_IOTLB_UPDATE),
  ("VHOST_IOTLB_INVALIDATE", VHOST_IOTLB_INVALIDATE), ("VHOST_IOTLB_ACCESS_FAIL", VHOST_IOTLB_ACCESS_FAIL),
  ("VHOST_IOTLB_BATCH_BEGIN", VHOST_IOTLB_BATCH_BEGIN), ("VHOST_IOTLB_BATCH_END", VHOST_IOTLB_BATCH_END),
  ("VHOST_BACKEND_F_IOTLB_MSG_V2", VHOST_BACKEND_F_IOTLB_MSG_V2), ("VHOST_VRING_F_LOG", VHOST_VRING_F_LOG)]

/-! ## operation ↦ request

Operations are named `Trait.method` after the public API of the `vhost` crate (`VhostBackend`, `VhostNet`,
`VhostVsock`, `VhostVdpa` and the kernel-backend feature/IOTLB traits); the request is the one the kernel
documentation in `<linux/vhost.h>` attaches to that function. -/

def opTable : List (String × String) := [
  ("VhostBackend.get_features", "VHOST_GET_FEATURES"),
  ("VhostBackend.set_features", "VHOST_SET_FEATURES"),
  ("VhostBackend.set_owner", "VHOST_SET_OWNER"),
  ("VhostBackend.reset_owner", "VHOST_RESET_OWNER"),
  ("VhostBackend.set_mem_table", "VHOST_SET_MEM_TABLE"),
  ("VhostBackend.set_log_base", "VHOST_SET_LOG_BASE"),
  ("VhostBackend.set_log_fd", "VHOST_SET_LOG_FD"),
  ("VhostBackend.set_vring_num", "VHOST_SET_VRING_NUM"),
  ("VhostBackend.set_vring_addr", "VHOST_SET_VRING_ADDR"),
  ("VhostBackend.set_vring_base", "VHOST_SET_VRING_BASE"),
  ("VhostBackend.get_vring_base", "VHOST_GET_VRING_BASE"),
  ("VhostBackend.set_vring_call", "VHOST_SET_VRING_CALL"),
  ("VhostBackend.set_vring_kick", "VHOST_SET_VRING_KICK"),
  ("VhostBackend.set_vring_err", "VHOST_SET_VRING_ERR"),
  ("VhostKernFeatures.get_backend_features", "VHOST_GET_BACKEND_FEATURES"),
  ("VhostKernFeatures.set_backend_features", "VHOST_SET_BACKEND_FEATURES"),
  ("VhostKernVdpa.set_vring_addr", "VHOST_SET_VRING_ADDR"),
  ("VhostVdpa.get_device_id", "VHOST_VDPA_GET_DEVICE_ID"),
  ("VhostVdpa.get_status", "VHOST_VDPA_GET_STATUS"),
  ("VhostVdpa.set_status", "VHOST_VDPA_SET_STATUS"),
  ("VhostVdpa.get_config", "VHOST_VDPA_GET_CONFIG"),
  ("VhostVdpa.set_config", "VHOST_VDPA_SET_CONFIG"),
  ("VhostVdpa.set_vring_enable", "VHOST_VDPA_SET_VRING_ENABLE"),
  ("VhostVdpa.get_vring_num", "VHOST_VDPA_GET_VRING_NUM"),
  ("VhostVdpa.set_config_call", "VHOST_VDPA_SET_CONFIG_CALL"),
  ("VhostVdpa.get_iova_range", "VHOST_VDPA_GET_IOVA_RANGE"),
  ("VhostVdpa.get_config_size", "VHOST_VDPA_GET_CONFIG_SIZE"),
  ("VhostVdpa.get_vqs_count", "VHOST_VDPA_GET_VQS_COUNT"),
  ("VhostVdpa.get_group_num", "VHOST_VDPA_GET_GROUP_NUM"),
  ("VhostVdpa.get_as_num", "VHOST_VDPA_GET_AS_NUM"),
  ("VhostVdpa.get_vring_group", "VHOST_VDPA_GET_VRING_GROUP"),
  ("VhostVdpa.set_group_asid", "VHOST_VDPA_SET_GROUP_ASID"),
  ("VhostVdpa.suspend", "VHOST_VDPA_SUSPEND"),
  ("VhostNet.set_backend", "VHOST_NET_SET_BACKEND"),
  ("Vsock.set_running", "VHOST_VSOCK_SET_RUNNING"),
  ("VhostVsock.set_guest_cid", "VHOST_VSOCK_SET_GUEST_CID")
]

def requestFor (op : String) : Option String := (opTable.find? (·.1 == op)).map (·.2)

/-! ## what each operation must hand to the kernel -/

inductive Arg where
  | none                                              -- `_IO` request: no argument
  | scalar (v : Nat)                                  -- integer argument (width = UAPI argument size)
  | fields (struct : String) (fs : List (List String × Nat))   -- UAPI struct; member path ↦ caller value
  | memTable (regs : List (Nat × Nat × Nat))          -- `vhost_memory` header + regions
  | config (off len : Nat) (data : Option Bytes)      -- `vhost_vdpa_config` header (+ payload for SET)
  deriving Repr, Inhabited

inductive RetSpec where
  | unit
  | scalar                                            -- the integer the kernel wrote back
  | field (struct : String) (f : String)              -- that member of the struct the kernel wrote back
  | range                                             -- `vhost_vdpa_iova_range.first/last`
  | configBuf (len : Nat)                             -- the `len` bytes the kernel wrote to `buf`
  deriving Repr, Inhabited

inductive Expect where
  | free                                              -- outside the property's domain
  | refuse                                            -- must fail before any ioctl / write
  | ioctl (op : String) (arg : Arg) (ret : RetSpec) (mayRefuse : Bool)
  | iotlb (iova size ua : Option Nat) (perm : Option Nat) (ty : Nat)   -- one `write` of a v1/v2 message
  | parse (v2 : Bool)
  | layout (struct : String)
  | request (name : String)
  deriving Repr, Inhabited

def isPow2 (n : Nat) : Prop := ∃ k, n = 2 ^ k

/-- the ring configurations the property says must be refused before any ioctl
    (`a = [queue, max size, size, flags, desc, used, avail, has log address, log address]`) -/
def ringRefused (qmax qsize flags : Nat) (hasLog : Bool) : Prop :=
  qsize = 0 ∨ ¬ isPow2 qsize ∨ qmax < qsize ∨ (flags.testBit VHOST_VRING_F_LOG ∧ hasLog = false)

/-- executable form of `isPow2` for 16-bit sizes -/
def isPow2b (n : Nat) : Bool := (List.range 17).any fun k => n == 2 ^ k

def ringRefusedb (qmax qsize flags : Nat) (hasLog : Bool) : Bool :=
  qsize == 0 || !isPow2b qsize || decide (qmax < qsize) || (flags.testBit VHOST_VRING_F_LOG && !hasLog)

/-- host address of a guest address: the address at the same distance from the start of the region that
    contains it -/
def hostAddr (mem : List (Nat × Nat × Nat)) (g : Nat) : Option Nat :=
  (mem.find? fun r => decide (r.1 ≤ g ∧ g < r.1 + r.2.1)).map fun r => r.2.2 + (g - r.1)

def u16 (v : Nat) : Nat := v % 2 ^ 16
def u32 (v : Nat) : Nat := v % 2 ^ 32

def triples : List Nat → List (Nat × Nat × Nat)
  | g :: s :: u :: rest => (g, s, u) :: triples rest
  | _ => []

/-- which API trait an operation name of the scenario belongs to, per backend -/
def scopeOf (be op : String) : String :=
  if op == "set_vring_addr" then (if be == "vdpa" then "VhostKernVdpa" else "VhostBackend")
  else if op ∈ ["get_backend_features", "set_backend_features"] then "VhostKernFeatures"
  else if op == "set_backend" then "VhostNet"
  else if op == "set_guest_cid" then "VhostVsock"
  else if op ∈ ["start", "stop"] then "Vsock"
  else if op ∈ ["get_features", "set_features", "set_owner", "reset_owner", "set_mem_table", "set_log_base", "set_log_fd",
      "set_vring_num", "set_vring_base", "get_vring_base", "set_vring_call", "set_vring_kick", "set_vring_err"] then "VhostBackend"
  else "VhostVdpa"

def ringExpect (i : Inp) (translate : Bool) : Expect :=
  match i.a with
  | [q, qmax, qsize, flags, desc, used, avail, hasLog, log] =>
    let (qmax, qsize, flags) := (u16 qmax, u16 qsize, u32 flags)
    if ringRefusedb qmax qsize flags (hasLog != 0) then .refuse else
    let tr (g : Nat) : Option Nat := if translate then hostAddr i.mem g else some g
    match tr desc, tr used, tr avail with
    | some d, some u, some av =>
      let base : List (List String × Nat) :=
        [(["index"], q), (["flags"], flags), (["desc_user_addr"], d), (["used_user_addr"], u), (["avail_user_addr"], av)]
      let fs := if flags.testBit VHOST_VRING_F_LOG then base ++ [(["log_guest_addr"], log)] else base
      .ioctl ((if translate then "VhostBackend" else "VhostKernVdpa") ++ ".set_vring_addr") (.fields "vhost_vring_addr" fs) .unit true
    | _, _, _ => .refuse
  | _ => .free

/-- the demand of the property for one scenario -/
def expect (i : Inp) : Expect :=
  let sc := scopeOf i.be i.op
  let key := sc ++ "." ++ i.op
  let io (arg : Arg) (ret : RetSpec) : Expect := .ioctl key arg ret false
  let state (s : String) (ix v : Nat) : Arg := .fields s [(["index"], ix), ([if s == "vhost_vring_file" then "fd" else "num"], v)]
  if i.be == "none" then
    if i.op == "parse_v1" then .parse false
    else if i.op == "parse_v2" then .parse true
    else if i.op.startsWith "layout:" then .layout (i.op.drop 7).toString
    else if i.op.startsWith "request:" then .request (i.op.drop 8).toString
    else .free
  else if i.op == "set_vring_addr" then ringExpect i (i.be != "vdpa")
  else if i.op == "is_valid" then .free
  else if i.op == "send_iotlb_msg" then
    match i.a with
    | [iova, size, ua, perm, ty] => if ty = 0 ∨ 6 < ty ∨ 3 < perm then .free else .iotlb (some iova) (some size) (some ua) (some perm) ty
    | _ => .free
  else if i.op == "dma_map" then
    match i.a with
    | [iova, size, va, ro] => .iotlb (some iova) (some size) (some va) (some (if ro != 0 then VHOST_ACCESS_RO else VHOST_ACCESS_RW)) VHOST_IOTLB_UPDATE
    | _ => .free
  else if i.op == "dma_unmap" then
    match i.a with
    | [iova, size] => .iotlb (some iova) (some size) none none VHOST_IOTLB_INVALIDATE
    | _ => .free
  else if i.op == "start" then .ioctl "Vsock.set_running" (.scalar 1) .unit false
  else if i.op == "stop" then .ioctl "Vsock.set_running" (.scalar 0) .unit false
  else match i.op, i.a with
  | "get_features", [] => io (.fields "" []) .scalar
  | "set_features", [f] => io (.scalar f) .unit
  | "set_owner", [] => io .none .unit
  | "reset_owner", [] => io .none .unit
  | "set_mem_table", a =>
    let regs := triples a
    if regs.length = 0 ∨ 255 < regs.length ∨ a.length ≠ 3 * regs.length then .free else io (.memTable regs) .unit
  | "set_log_base", [base, hasRegion] => if hasRegion != 0 then .free else io (.scalar base) .unit
  | "set_log_fd", [fd] => io (.scalar fd) .unit
  | "set_vring_num", [q, n] => io (state "vhost_vring_state" q (u16 n)) .unit
  | "set_vring_base", [q, n] => io (state "vhost_vring_state" q (u16 n)) .unit
  | "get_vring_base", [q] => io (.fields "vhost_vring_state" [(["index"], q)]) (.field "vhost_vring_state" "num")
  | "set_vring_call", [q, fd] => io (state "vhost_vring_file" q fd) .unit
  | "set_vring_kick", [q, fd] => io (state "vhost_vring_file" q fd) .unit
  | "set_vring_err", [q, fd] => io (state "vhost_vring_file" q fd) .unit
  | "get_backend_features", [] => io (.fields "" []) .scalar
  | "set_backend_features", [f] => io (.scalar f) .unit
  | "set_backend", [q, hasFd, fd] => io (state "vhost_vring_file" q (if hasFd != 0 then fd else 2 ^ 32 - 1)) .unit
  | "set_guest_cid", [cid] => io (.scalar cid) .unit
  | "get_device_id", [] => io (.fields "" []) .scalar
  | "get_status", [] => io (.fields "" []) .scalar
  | "set_status", [s] => io (.scalar s) .unit
  | "get_config", [off, len] => io (.config (u32 off) len none) (.configBuf len)
  | "set_config", [off] => io (.config (u32 off) i.buf.length (some i.buf)) .unit
  | "set_vring_enable", [q, en] => io (state "vhost_vring_state" q (if en != 0 then 1 else 0)) .unit
  | "get_vring_num", [] => io (.fields "" []) .scalar
  | "set_config_call", [fd] => io (.scalar fd) .unit
  | "get_iova_range", [] => io (.fields "" []) .range
  | "get_config_size", [] => io (.fields "" []) .scalar
  | "get_vqs_count", [] => io (.fields "" []) .scalar
  | "get_group_num", [] => io (.fields "" []) .scalar
  | "get_as_num", [] => io (.fields "" []) .scalar
  | "get_vring_group", [q] => io (.fields "vhost_vring_state" [(["index"], q)]) (.field "vhost_vring_state" "num")
  | "set_group_asid", [g, asid] => io (state "vhost_vring_state" g asid) .unit
  | "suspend", [] => io .none .unit
  | _, _ => .free

/-! ## verdict on an observation -/

def peekField (bs : Bytes) (s : String) (path : List String) : Option Nat :=
  match fieldAt s path with
  | some (off, w) => if off + w ≤ bs.length then some (peek bs off w) else none
  | none => none

/-- do the argument bytes carry the demanded values at the UAPI offsets? (`none` = yes) -/
def argProblem (size : Nat) (arg : Arg) (bs : Bytes) : Option String :=
  match arg with
  | .none => none
  | .scalar v => if bs.length ≠ size then some "arg-size" else if peek bs 0 size = v % 256 ^ size then none else some "arg-value"
  | .fields s fs =>
    if bs.length ≠ size then some "arg-size" else
    fs.findSome? fun (p, v) =>
      match fieldAt s p with
      | some (off, w) => if off + w ≤ bs.length ∧ peek bs off w = v % 256 ^ w then none else some s!"arg-field:{".".intercalate p}"
      | none => some "spec-unknown-field"
  | .memTable regs =>
    if bs.length ≠ 8 + 32 * regs.length then some "arg-size" else
    if peekField bs "vhost_memory" ["nregions"] ≠ some regs.length then some "arg-field:nregions" else
    if peekField bs "vhost_memory" ["padding"] ≠ some 0 then some "arg-field:padding" else
    (List.range regs.length).findSome? fun k =>
      let r := (bs.drop (8 + 32 * k)).take 32
      match regs[k]? with
      | some (g, z, u) =>
        if peekField r "vhost_memory_region" ["guest_phys_addr"] ≠ some (g % 2 ^ 64) then some s!"arg-field:regions[{k}].guest_phys_addr"
        else if peekField r "vhost_memory_region" ["memory_size"] ≠ some (z % 2 ^ 64) then some s!"arg-field:regions[{k}].memory_size"
        else if peekField r "vhost_memory_region" ["userspace_addr"] ≠ some (u % 2 ^ 64) then some s!"arg-field:regions[{k}].userspace_addr"
        else if peekField r "vhost_memory_region" ["flags_padding"] ≠ some 0 then some s!"arg-field:regions[{k}].flags_padding"
        else none
      | none => some "spec-internal"
  | .config off len data =>
    if bs.length ≠ 8 + len then some "arg-size" else
    if peekField bs "vhost_vdpa_config" ["off"] ≠ some off then some "arg-field:off" else
    if peekField bs "vhost_vdpa_config" ["len"] ≠ some (len % 2 ^ 32) then some "arg-field:len" else
    match data with
    | some d => if bs.drop 8 = d then none else some "arg-field:buf"
    | none => none

/-- is the returned value what the stand-in kernel wrote back (`wb` repeated over the argument)? -/
def retProblem (i : Inp) (size : Nat) (rs : RetSpec) (r : Ret) : Option String :=
  if i.rc ≠ 0 then (match r with | .err _ => none | _ => some "kernel-error-not-reported") else
  match rs, r with
  | .unit, .ok => none
  | .unit, _ => some "ret-not-ok"
  | .scalar, .okv v => if i.wb.isEmpty ∨ v = leVal (cyc i.wb size) then none else some "ret-value"
  | .field s f, .okv v =>
    if i.wb.isEmpty then none else
    if peekField (cyc i.wb size) s [f] = some v then none else some "ret-value"
  | .range, .ok2 a b =>
    if i.wb.isEmpty then none else
    let o := cyc i.wb size
    if peekField o "vhost_vdpa_iova_range" ["first"] = some a ∧ peekField o "vhost_vdpa_iova_range" ["last"] = some b then none
    else some "ret-value"
  | .configBuf len, .okb bs => if i.wb.isEmpty ∨ bs = cyc i.wb len then none else some "ret-value"
  | _, _ => some "ret-shape"

def iotlbProblem (v2 : Bool) (iova size ua perm : Option Nat) (ty : Nat) (bs : Bytes) : Option String :=
  let s := if v2 then "vhost_msg_v2" else "vhost_msg"
  let chk (p : List String) (v : Option Nat) (w : Nat) : Option String :=
    match v with
    | none => none
    | some v => if peekField bs s p = some (v % 256 ^ w) then none else some s!"msg-field:{".".intercalate p}"
  if bs.length ≠ 72 then some "msg-size" else
  if peekField bs s ["type"] ≠ some (if v2 then VHOST_IOTLB_MSG_V2 else VHOST_IOTLB_MSG) then some "msg-field:type" else
  if v2 ∧ peekField bs s ["asid"] ≠ some 0 then some "msg-field:asid" else
  (chk ["iotlb", "iova"] iova 8).orElse fun _ => (chk ["iotlb", "size"] size 8).orElse fun _ =>
  (chk ["iotlb", "uaddr"] ua 8).orElse fun _ => (chk ["iotlb", "perm"] perm 1).orElse fun _ => chk ["iotlb", "type"] (some ty) 1

/-- member names that differ between the UAPI header and the bindgen output -/
def bindingPath (s f : String) : List String :=
  match s, f with
  | _, "type" => ["type_"]
  | "vhost_msg", "iotlb" => ["__bindgen_anon_1", "iotlb"]
  | "vhost_msg", "padding" => ["__bindgen_anon_1", "padding"]
  | "vhost_msg_v2", "iotlb" => ["__bindgen_anon_1", "iotlb"]
  | "vhost_msg_v2", "padding" => ["__bindgen_anon_1", "padding"]
  | "vhost_msg_v2", "asid" => ["reserved"]     -- the second word was `reserved` before Linux 5.19
  | _, f => [f]

/-- the anonymous `union { struct vhost_iotlb_msg iotlb; __u8 padding[64]; }` of `vhost_msg` / `vhost_msg_v2`, under the
    names bindgen gives it -/
def anonUnionOf (s : String) : Option Layout :=
  if s == "vhost_msg__bindgen_ty_1" ∨ s == "vhost_msg_v2__bindgen_ty_1" then some ⟨64, 8, [("iotlb", 0, 32), ("padding", 0, 64)]⟩
  else none

/-- verdict: `none` = the observation satisfies the property on this scenario -/
def problem (i : Inp) (o : Obs) : Option String :=
  match expect i with
  | .free => none
  | .refuse =>
    if !o.calls.isEmpty then some "ioctl-issued-for-config-that-must-be-refused"
    else match o.ret with | .err _ => none | _ => some "invalid-config-accepted"
  | .ioctl op arg rs mayRefuse =>
    match o.calls with
    | [] => if mayRefuse then (match o.ret with | .err _ => none | _ => some "no-ioctl-but-ok") else some "no-ioctl"
    | [.io nr bs] =>
      match (requestFor op).bind ioctlByName with
      | none => some "spec-unknown-op"
      | some u =>
        match u.request, u.size with
        | some want, some size =>
          if nr ≠ want then some s!"wrong-request:{hexOfNat nr}:expected:{u.name}={hexOfNat want}" else
          (argProblem size arg bs).orElse fun _ =>
          (retProblem i size rs o.ret).orElse fun _ =>
          if i.op == "set_backend_features" ∧ o.acked ≠ some (if i.rc = 0 then i.a.headD 0 % 2 ^ 64 else i.feat) then some "acked-features"
          else none
        | _, _ => some "spec-unknown-size"
    | _ => some "not-exactly-one-ioctl"
  | .iotlb iova size ua perm ty =>
    match o.calls with
    | [.wr bs] =>
      (iotlbProblem (i.feat.testBit VHOST_BACKEND_F_IOTLB_MSG_V2) iova size ua perm ty bs).orElse fun _ =>
      if i.rc ≠ 0 then (match o.ret with | .err _ => none | _ => some "kernel-error-not-reported")
      else (match o.ret with | .ok => none | _ => some "ret-not-ok")
    | _ => some "not-exactly-one-write"
  | .parse v2 =>
    let s := if v2 then "vhost_msg_v2" else "vhost_msg"
    let g (p : List String) := (peekField i.buf s p).getD 0
    if i.buf.length ≠ 72 then none else
    if g ["type"] ≠ (if v2 then VHOST_IOTLB_MSG_V2 else VHOST_IOTLB_MSG) then none else
    if g ["iotlb", "type"] = 0 ∨ 6 < g ["iotlb", "type"] ∨ 3 < g ["iotlb", "perm"] then none else
    if o.ret = .ok5 (g ["iotlb", "iova"]) (g ["iotlb", "size"]) (g ["iotlb", "uaddr"]) (g ["iotlb", "perm"]) (g ["iotlb", "type"]) then none
    else some "parsed-values-differ"
  | .layout s =>
    match (layoutOf s).orElse (fun _ => anonUnionOf s), o.ret with
    | none, _ => none
    | some l, .lay size align fs =>
      if size ≠ l.size then some "layout-size" else if align ≠ l.align then some "layout-align" else
      l.fields.findSome? fun (f, off, _) =>
        match bindingPath s f with
        | [b] => if fs.find? (·.1 == b) = some (b, off) then none else some s!"layout-offset:{f}"
        -- member of the anonymous union: the bindgen union itself must sit at that offset (its own members are
        -- checked through the union's layout line, `anonUnionOf`)
        | b :: _ => if fs.find? (·.1 == b) = some (b, off) then none else some s!"layout-offset:{f}"
        | [] => none
    | some _, _ => some "ret-shape"
  | .request n =>
    match requestNr n, o.ret with
    | some want, .okv v => if v = want then none else some s!"request-number:{n}"
    | none, _ => some "spec-unknown-request"
    | _, _ => some "ret-shape"

end Spec.Uapi
