import VhostModel.Spec.Valid
import VhostModel.Spec.Layout
/-!
# Spec: the front-end → back-end request channel of vhost-user, as the properties C04/C05/C07 state it

Written from the property statements and the vhost-user specification: which requests exist, which
protocol feature gates them, what payload and how many descriptors each prescribes, which validity
rules apply, and which reply (if any) is owed.  Nothing here refers to how the Rust server is organised.
-/
namespace Spec.Proto
open Base Spec

/-- negotiation state of a connection as an observer of the wire sees it -/
structure Neg where
  offered : Nat := 0      -- virtio features the back-end last reported (GET_FEATURES reply)
  acked : Nat := 0        -- virtio features the front-end last set (SET_FEATURES)
  ackedProto : Nat := 0   -- protocol features the front-end last set (SET_PROTOCOL_FEATURES)
  deriving Repr, DecidableEq, Inhabited

/-- REPLY_ACK is in force: VHOST_USER_F_PROTOCOL_FEATURES (bit 30) offered and REPLY_ACK (bit 3) acknowledged -/
def Neg.replyAck (n : Neg) : Bool := n.offered.testBit 30 && n.ackedProto.testBit 3

/-- protocol feature bit that gates a request (property C07) -/
def gate : Nat → Option Nat
  | 17 => some 0   -- GET_QUEUE_NUM: MQ
  | 24 => some 9 | 25 => some 9   -- GET/SET_CONFIG: CONFIG
  | 21 => some 5   -- SET_BACKEND_REQ_FD: BACKEND_REQ
  | 31 => some 12 | 32 => some 12   -- GET/SET_INFLIGHT_FD: INFLIGHT_SHMFD
  | 36 => some 15 | 37 => some 15 | 38 => some 15   -- memory slots: CONFIGURE_MEM_SLOTS
  | 34 => some 13  -- RESET_DEVICE
  | 41 => some 18  -- GET_SHARED_OBJECT: SHARED_OBJECT
  | 44 => some 21  -- GET_SHMEM_CONFIG: SHMEM
  | 6 => some 1    -- SET_LOG_BASE: LOG_SHMFD
  | 28 => some 8 | 29 => some 8 | 30 => some 8   -- postcopy: PAGEFAULT
  | _ => none

/-- requests this library's server implements (others are answered with an error) -/
def implemented : List Nat :=
  [1, 2, 3, 4, 5, 6, 8, 9, 10, 11, 12, 13, 14, 15, 16, 17, 18, 21, 24, 25, 28, 29, 30, 31, 32, 33, 34, 36, 37, 38, 41, 42, 43, 44]

/-- fixed payload size of a request (`none`: variable or not fixed by the protocol) -/
def fixedSize : Nat → Option Nat
  | 1 | 3 | 4 | 15 | 17 | 34 | 36 | 43 | 44 | 28 | 29 | 30 => some 0
  | 2 | 16 | 12 | 13 | 14 => some 8
  | 8 | 10 | 11 | 18 | 42 => some 8
  | 9 => some 40
  | 31 | 32 => some 24
  | 37 | 38 => some 40
  | 41 => some 16
  | 6 => some 16
  | 21 | 33 => some 0
  | _ => none

def fld (bs : Bytes) (s : String) (p : List String) : Nat := (getField bs s p).getD 0

/-- number of descriptors the request prescribes, given its body -/
def filesPrescribed (code : Nat) (body : Bytes) : Nat :=
  match code with
  | 5 => fld body "VhostUserMemory" ["num_regions"]
  | 12 | 13 | 14 => if (fld body "VhostUserU64" ["value"]).testBit 8 then 0 else 1
  | 6 | 21 | 32 | 33 | 37 | 42 => 1
  | _ => 0

def regionAt (body : Bytes) (off : Nat) : Nat × Nat × Nat × Nat :=
  let r := (body.drop off).take 32
  (fld r "VhostUserMemoryRegion" ["guest_phys_addr"], fld r "VhostUserMemoryRegion" ["memory_size"],
   fld r "VhostUserMemoryRegion" ["user_addr"], fld r "VhostUserMemoryRegion" ["mmap_offset"])

def regionsOf (body : Bytes) : Nat → Nat → List (Nat × Nat × Nat × Nat)
  | 0, _ => []
  | n+1, off => regionAt body off :: regionsOf body n (off + 32)

def validRegionT (r : Nat × Nat × Nat × Nat) : Bool := decide (validRegion r.1 r.2.1 r.2.2.1 r.2.2.2)

/-- does a body of the right length satisfy the protocol's validity rules for this request -/
def bodyValid (code : Nat) (body : Bytes) : Bool :=
  match code with
  | 5 =>
    let n := fld body "VhostUserMemory" ["num_regions"]
    decide (validMemory n (fld body "VhostUserMemory" ["padding1"])) && body.length == 8 + 32 * n &&
      (regionsOf body n 8).all validRegionT
  | 9 => decide (validVringAddr (fld body "VhostUserVringAddr" ["flags"]) (fld body "VhostUserVringAddr" ["descriptor"])
      (fld body "VhostUserVringAddr" ["used"]) (fld body "VhostUserVringAddr" ["available"]))
  | 18 => fld body "VhostUserVringState" ["num"] ≤ 1
  | 24 | 25 =>
    let sz := fld body "VhostUserConfig" ["size"]
    decide (validConfig (fld body "VhostUserConfig" ["offset"]) sz (fld body "VhostUserConfig" ["flags"])) &&
      body.length == 12 + sz
  | 31 | 32 => decide (validInflight (fld body "VhostUserInflight" ["num_queues"]) (fld body "VhostUserInflight" ["queue_size"]))
  | 37 | 38 => validRegionT (regionAt body 8)
  | 41 => decide (validUuid (fld body "VhostUserSharedMsg" ["uuid"]))
  | 42 => decide (validTransfer (fld body "VhostUserTransferDeviceState" ["direction"])
      (fld body "VhostUserTransferDeviceState" ["phase"]))
  | 6 => decide (validLog (fld body "VhostUserLog" ["mmap_size"]) (fld body "VhostUserLog" ["mmap_offset"]))
  | _ => true

/-- is the body long enough for the validity rules of its kind to be read from it -/
def bodyDecodable (code : Nat) (body : Bytes) : Bool :=
  match code with
  | 5 => 8 ≤ body.length
  | 24 | 25 => 12 ≤ body.length
  | _ => match fixedSize code with
    | some n => body.length == n
    | none => true

/-- the feature requirement of a request, on the negotiation state -/
def gateOk (n : Neg) (code : Nat) : Bool :=
  (match gate code with | some b => n.ackedProto.testBit b | none => true) &&
  (code != 18 || n.acked.testBit 30)

inductive Class where
  | accept       -- well-formed: C04 prescribes the exact reaction
  | reject       -- violates a rule the properties list: must be refused with an error, handler not invoked
  | unspecified  -- neither (nothing is demanded beyond "no crash, handler only sees valid arguments")
  deriving Repr, DecidableEq, Inhabited

structure Req where
  code : Nat
  flags : Nat
  size : Nat
  body : Bytes
  nfds : Nat
  deriving Repr, Inhabited

def Req.needReply (r : Req) : Bool := r.flags.testBit 3
def Req.isReply (r : Req) : Bool := r.flags.testBit 2

def classify (n : Neg) (r : Req) : Class :=
  if !decide (validHeader frontendCodes r.code r.flags r.size) then .reject
  else if !gateOk n r.code then .reject
  else if !implemented.contains r.code then .unspecified
  else if r.nfds > 32 then .unspecified   -- beyond the receive limit: only "no crash / valid handler arguments" is demanded
  else if r.body.length != r.size then .unspecified
  else if !bodyDecodable r.code r.body then .unspecified
  else if !bodyValid r.code r.body then .reject
  else if r.nfds != filesPrescribed r.code r.body then .reject
  else if r.isReply then .unspecified
  else match fixedSize r.code with
    | some k => if r.size == k then .accept else .unspecified
    | none => .accept

/-- the message was consumed entirely by one server turn: the next turn starts at the next message -/
def aligned (r : Req) : Bool :=
  decide (validHeader frontendCodes r.code r.flags r.size) && r.body.length == r.size

/-- what the handler is to be invoked with, for an accepted request: (name, args, payload, uses the files) -/
def expectedCall (r : Req) : String × List Nat × Bytes × Bool :=
  let b := r.body
  match r.code with
  | 1 => ("get_features", [], [], false)
  | 2 => ("set_features", [fld b "VhostUserU64" ["value"]], [], false)
  | 3 => ("set_owner", [], [], false)
  | 4 => ("reset_owner", [], [], false)
  | 5 => ("set_mem_table", (regionsOf b (fld b "VhostUserMemory" ["num_regions"]) 8).flatMap
            (fun r => [r.1, r.2.1, r.2.2.1, r.2.2.2]), [], true)
  | 6 => ("set_log_base", [fld b "VhostUserLog" ["mmap_size"], fld b "VhostUserLog" ["mmap_offset"]], [], true)
  | 8 => ("set_vring_num", [fld b "VhostUserVringState" ["index"], fld b "VhostUserVringState" ["num"]], [], false)
  | 9 => ("set_vring_addr", [fld b "VhostUserVringAddr" ["index"], fld b "VhostUserVringAddr" ["flags"],
            fld b "VhostUserVringAddr" ["descriptor"], fld b "VhostUserVringAddr" ["used"],
            fld b "VhostUserVringAddr" ["available"], fld b "VhostUserVringAddr" ["log"]], [], false)
  | 10 => ("set_vring_base", [fld b "VhostUserVringState" ["index"], fld b "VhostUserVringState" ["num"]], [], false)
  | 11 => ("get_vring_base", [fld b "VhostUserVringState" ["index"]], [], false)
  | 12 => ("set_vring_kick", [fld b "VhostUserU64" ["value"] % 256], [], true)
  | 13 => ("set_vring_call", [fld b "VhostUserU64" ["value"] % 256], [], true)
  | 14 => ("set_vring_err", [fld b "VhostUserU64" ["value"] % 256], [], true)
  | 15 => ("get_protocol_features", [], [], false)
  | 16 => ("set_protocol_features", [fld b "VhostUserU64" ["value"]], [], false)
  | 17 => ("get_queue_num", [], [], false)
  | 18 => ("set_vring_enable", [fld b "VhostUserVringState" ["index"], fld b "VhostUserVringState" ["num"]], [], false)
  | 21 => ("set_backend_req_fd", [], [], true)
  | 24 => ("get_config", [fld b "VhostUserConfig" ["offset"], fld b "VhostUserConfig" ["size"],
            fld b "VhostUserConfig" ["flags"]], [], false)
  | 25 => ("set_config", [fld b "VhostUserConfig" ["offset"], fld b "VhostUserConfig" ["flags"]], b.drop 12, false)
  | 28 => ("postcopy_advice", [], [], false)
  | 29 => ("postcopy_listen", [], [], false)
  | 30 => ("postcopy_end", [], [], false)
  | 31 => ("get_inflight_fd", [fld b "VhostUserInflight" ["mmap_size"], fld b "VhostUserInflight" ["mmap_offset"],
            fld b "VhostUserInflight" ["num_queues"], fld b "VhostUserInflight" ["queue_size"]], [], false)
  | 32 => ("set_inflight_fd", [fld b "VhostUserInflight" ["mmap_size"], fld b "VhostUserInflight" ["mmap_offset"],
            fld b "VhostUserInflight" ["num_queues"], fld b "VhostUserInflight" ["queue_size"]], [], true)
  | 33 => ("set_gpu_socket", [], [], true)
  | 34 => ("reset_device", [], [], false)
  | 36 => ("get_max_mem_slots", [], [], false)
  | 37 => let r := regionAt b 8; ("add_mem_region", [r.1, r.2.1, r.2.2.1, r.2.2.2], [], true)
  | 38 => let r := regionAt b 8; ("remove_mem_region", [r.1, r.2.1, r.2.2.1, r.2.2.2], [], false)
  | 41 => ("get_shared_object", [fld b "VhostUserSharedMsg" ["uuid"]], [], false)
  | 42 => ("set_device_state_fd", [fld b "VhostUserTransferDeviceState" ["direction"],
            fld b "VhostUserTransferDeviceState" ["phase"]], [], true)
  | 43 => ("check_device_state", [], [], false)
  | 44 => ("get_shmem_config", [], [], false)
  | _ => ("?", [], [], false)

/-- scripted result of the application's handler (what the scenario tells the recording handler to return) -/
structure HOut where
  ok : Bool
  v : Nat
  b : Bytes
  file : Bool
  deriving Repr, Inhabited

/-- effect of an accepted request on the negotiation state -/
def updateNeg (n : Neg) (r : Req) (h : HOut) : Neg :=
  match r.code with
  | 1 => if h.ok then { n with offered := h.v % 2^64 } else n
  | 2 => { n with acked := fld r.body "VhostUserU64" ["value"] }
  | 16 => { n with ackedProto := fld r.body "VhostUserU64" ["value"] }
  | _ => n

/-- requirement on what the server writes in reaction to an accepted request -/
inductive Owed where
  | nothing
  | exact (payload : Bytes) (nfds : Nat)       -- one reply with exactly this payload
  | ack (zero : Bool)                          -- one 8-byte payload, zero iff `zero`
  | status (okBits : Bool) (nfds : Nat)        -- 8-byte payload; low byte zero iff okBits; …
  deriving Repr, Inhabited

def owed (n : Neg) (r : Req) (h : HOut) : Owed :=
  let b := r.body
  match r.code with
  | 1 => if h.ok then .exact (leBytes 8 h.v) 0 else .nothing
  | 15 => if h.ok then .exact (leBytes 8 (h.v ||| 8)) 0 else .nothing
  | 17 | 36 => if h.ok then .exact (leBytes 8 h.v) 0 else .nothing
  | 11 => if h.ok then .exact (leBytes 4 (fld b "VhostUserVringState" ["index"]) ++ leBytes 4 h.v) 0 else .nothing
  | 24 =>
    let off := fld b "VhostUserConfig" ["offset"]; let sz := fld b "VhostUserConfig" ["size"]
    let fl := fld b "VhostUserConfig" ["flags"]
    if h.ok && h.b.length == sz then .exact (leBytes 4 off ++ leBytes 4 sz ++ leBytes 4 fl ++ h.b) 0
    else .exact (leBytes 4 off ++ leBytes 4 0 ++ leBytes 4 fl) 0
  | 31 =>
    if h.ok then .exact (leBytes 8 h.v ++ leBytes 8 (fld b "VhostUserInflight" ["mmap_offset"]) ++
        leBytes 2 (fld b "VhostUserInflight" ["num_queues"]) ++ leBytes 2 (fld b "VhostUserInflight" ["queue_size"]) ++ [0,0,0,0]) 1
    else .nothing
  | 44 => if h.ok then .exact (leBytes 4 h.v ++ leBytes 4 0 ++ (h.b ++ List.replicate 2048 0).take 2048) 0 else .nothing
  | 6 => if h.ok then .exact b 0 else .nothing
  | 41 | 28 => .exact [] (if h.ok then 1 else 0)
  | 42 => if !h.ok then .status false 0 else if h.file then .exact (leBytes 8 0) 1 else .exact (leBytes 8 0x100) 0
  | 43 => if h.ok then .exact (leBytes 8 0) 0 else .status false 0
  | 21 => if r.needReply && n.replyAck then .ack true else .nothing   -- installing the channel cannot fail
  | 2 | 16 =>
    -- SET_FEATURES / SET_PROTOCOL_FEATURES take effect with the message that carries them (both ends of the
    -- library decide on the acknowledgement with the *new* state; see DESIGN.md, C04 limits)
    if r.needReply && (updateNeg n r h).replyAck then .ack h.ok else .nothing
  | _ => if r.needReply && n.replyAck then .ack h.ok else .nothing

/-! ## validity of what the handler is invoked with (property C05) -/

def chunks4 : List Nat → List (Nat × Nat × Nat × Nat)
  | a :: b :: c :: d :: rest => (a, b, c, d) :: chunks4 rest
  | _ => []

/-- `nfds`: number of files passed along; `star`: the file was turned into a channel object -/
def validCall (name : String) (args : List Nat) (payload : Bytes) (nfds : Nat) : Bool :=
  match name with
  | "set_mem_table" =>
    let rs := chunks4 args
    args.length == 4 * rs.length && 1 ≤ rs.length && rs.length ≤ 32 && rs.all validRegionT && nfds == rs.length
  | "add_mem_region" => (match args with | [g, s, u, o] => validRegionT (g, s, u, o) | _ => false) && nfds == 1
  | "remove_mem_region" => (match args with | [g, s, u, o] => validRegionT (g, s, u, o) | _ => false) && nfds == 0
  | "set_vring_addr" => (match args with | [_, fl, d, u, a, _] => decide (validVringAddr fl d u a) | _ => false) && nfds == 0
  | "get_config" => (match args with | [off, sz, fl] => decide (validConfig off sz fl) | _ => false) && nfds == 0
  | "set_config" => (match args with | [off, fl] => decide (validConfig off payload.length fl) | _ => false) && nfds == 0
  | "set_vring_enable" => (match args with | [_, e] => e ≤ 1 | _ => false) && nfds == 0
  | "set_vring_kick" | "set_vring_call" | "set_vring_err" => (match args with | [i] => i < 256 | _ => false) && nfds ≤ 1
  | "set_inflight_fd" => (match args with | [_, _, nq, qs] => decide (validInflight nq qs) | _ => false) && nfds == 1
  | "get_inflight_fd" => (match args with | [_, _, nq, qs] => decide (validInflight nq qs) | _ => false) && nfds == 0
  | "set_log_base" => (match args with | [s, o] => decide (validLog s o) | _ => false) && nfds == 1
  | "set_device_state_fd" => (match args with | [d, p] => decide (validTransfer d p) | _ => false) && nfds == 1
  | "get_shared_object" => (match args with | [u] => decide (validUuid u) | _ => false) && nfds == 0
  | "set_backend_req_fd" | "set_gpu_socket" => nfds == 1
  | _ => nfds == 0

end Spec.Proto
