/-!
# Spec: protocol validity rules for vhost-user message headers and bodies

Written from the vhost-user / vhost-user-gpu specification and the statement of property C20, on
plain natural numbers, with no reference to how the Rust validators are organised.
All field values are the unsigned integers carried by the message.
-/

namespace Spec

/-- front-end request codes defined by the protocol: 1 ..= 44 -/
def frontendCodes : List Nat := (List.range 44).map (· + 1)
/-- back-end request codes: 1 ..= 10 -/
def backendCodes : List Nat := (List.range 10).map (· + 1)
/-- vhost-user-gpu request codes: 1 ..= 12 -/
def gpuCodes : List Nat := (List.range 12).map (· + 1)

/-- header: known request code, size ≤ 4096, version (low two flag bits) = 1, no bits above bit 3 -/
def validHeader (codes : List Nat) (request flags size : Nat) : Prop :=
  request ∈ codes ∧ size ≤ 4096 ∧ flags % 4 = 1 ∧ flags < 16

/-- gpu header: known code, only the REPLY bit (value 4) may be set -/
def validGpuHeader (request flags : Nat) : Prop :=
  request ∈ gpuCodes ∧ (flags = 0 ∨ flags = 4)

/-- memory table head: zero padding and 1..=32 regions -/
def validMemory (numRegions padding : Nat) : Prop :=
  padding = 0 ∧ 1 ≤ numRegions ∧ numRegions ≤ 32

/-- a region: non-zero size, and none of the guest, user, mmap ranges wraps 64 bits -/
def validRegion (gpa size uaddr off : Nat) : Prop :=
  size ≠ 0 ∧ gpa + size < 2^64 ∧ uaddr + size < 2^64 ∧ off + size < 2^64

/-- ring addresses: descriptor 16-aligned, available 2-aligned, used 4-aligned, only flag bit 0 defined -/
def validVringAddr (flags desc used avail : Nat) : Prop :=
  flags < 2 ∧ desc % 16 = 0 ∧ avail % 2 = 0 ∧ used % 4 = 0

/-- config window: size ≥ 1, offset + size ≤ 0x1000 (as natural numbers, hence no 32-bit wrap), flags ⊆ {1,2} -/
def validConfig (offset size flags : Nat) : Prop :=
  1 ≤ size ∧ offset + size ≤ 0x1000 ∧ flags < 4

def validInflight (numQueues queueSize : Nat) : Prop :=
  numQueues ≠ 0 ∧ queueSize ≠ 0

def validLog (size off : Nat) : Prop :=
  size ≠ 0 ∧ off + size < 2^64

/-- transfer direction SAVE=0 / LOAD=1; phase STOPPED=0 -/
def validTransfer (direction phase : Nat) : Prop :=
  direction ≤ 1 ∧ phase = 0

/-- UUID neither nil nor all-ones (as a 128-bit number) -/
def validUuid (u : Nat) : Prop :=
  u ≠ 0 ∧ u ≠ 2^128 - 1

def validMMap (fdOff shmOff len flags : Nat) : Prop :=
  len ≠ 0 ∧ fdOff + len < 2^64 ∧ shmOff + len < 2^64 ∧ flags < 2

instance (c : List Nat) (a b d : Nat) : Decidable (validHeader c a b d) := by unfold validHeader; infer_instance
instance (a b : Nat) : Decidable (validGpuHeader a b) := by unfold validGpuHeader; infer_instance
instance (a b : Nat) : Decidable (validMemory a b) := by unfold validMemory; infer_instance
instance (a b c d : Nat) : Decidable (validRegion a b c d) := by unfold validRegion; infer_instance
instance (a b c d : Nat) : Decidable (validVringAddr a b c d) := by unfold validVringAddr; infer_instance
instance (a b c : Nat) : Decidable (validConfig a b c) := by unfold validConfig; infer_instance
instance (a b : Nat) : Decidable (validInflight a b) := by unfold validInflight; infer_instance
instance (a b : Nat) : Decidable (validLog a b) := by unfold validLog; infer_instance
instance (a b : Nat) : Decidable (validTransfer a b) := by unfold validTransfer; infer_instance
instance (a : Nat) : Decidable (validUuid a) := by unfold validUuid; infer_instance
instance (a b c d : Nat) : Decidable (validMMap a b c d) := by unfold validMMap; infer_instance

end Spec
