import VhostModel.Spec.MemTable
/-!
# Spec: ring configuration and negotiated features (property C14)

Written from the property statement and the vhost-user specification; natural numbers and Booleans only.

* `SET_VRING_NUM`: a power of two up to the backend's maximum must be applied; zero or a value above the maximum must be
  rejected; other values (not a power of two, within the maximum) are *not specified* by the statement (DESIGN.md section
  7, C14 "Limits": the handler accepts them and virtio-queue ignores them — recorded, not alarmed).
* `SET_VRING_ADDR`: the three ring addresses are the translations (C13) of the three user addresses, and the next-used
  index is the 16-bit little-endian value at `used + 2` in guest memory.
* `SET_VRING_BASE` / `GET_VRING_BASE`: the next-available index.
* the kick/call/err messages carry the ring index in bits 0..7 of their payload.
* `SET_FEATURES f` is accepted iff `f ⊆ offered`; then the backend is told `f`, and bit 29 (`VIRTIO_RING_F_EVENT_IDX`) is the
  event-index setting of every queue and of the backend.
* a newly attached backend-request channel inherits REPLY_ACK (protocol feature bit 3), SHARED_OBJECT (bit 18) and SHMEM
  (bit 21) from the negotiated protocol features.
* used-ring layout (virtio 1.x split ring): `flags:u16, idx:u16, ring[size] of {id:u32le, len:u32le}`.
-/
namespace Spec.Vring

/-- a power of two -/
def IsPow2 (n : Nat) : Prop := ∃ k, n = 2^k

inductive NumVerdict where
  | mustApply | mustReject | unspecified
  deriving DecidableEq, Repr

/-- executable test for `IsPow2` on the sizes that occur (`n < 2^17`) -/
def isPow2B (n : Nat) : Bool := (List.range 17).any fun k => n == 2^k

def numVerdict (max n : Nat) : NumVerdict :=
  if n = 0 ∨ n > max then .mustReject else if isPow2B n then .mustApply else .unspecified

/-- `f ⊆ offered` as sets of bit numbers -/
def FeaturesSubset (offered f : Nat) : Prop := ∀ i, f.testBit i = true → offered.testBit i = true

def featuresSubsetB (offered f : Nat) : Bool := (List.range 64).all fun i => !f.testBit i || offered.testBit i

/-- `VIRTIO_RING_F_EVENT_IDX` -/
def eventIdx (f : Nat) : Bool := f.testBit 29

/-- settings a new backend-request channel inherits: (reply-ack, shared-object, shared-memory) -/
def channelFlags (proto : Nat) : Bool × Bool × Bool := (proto.testBit 3, proto.testBit 18, proto.testBit 21)

/-- ring index carried by SET_VRING_KICK / CALL / ERR -/
def fdIndex (payload : Nat) : Nat := payload % 256

/-- "no descriptor" flag of those messages -/
def fdAbsent (payload : Nat) : Bool := payload.testBit 8

/-- guest address of used-ring element number `nextUsed` -/
def usedSlot (used nextUsed size : Nat) : Nat := used + 4 + 8 * (nextUsed % size)

/-- guest address of the used index -/
def usedIdxAddr (used : Nat) : Nat := used + 2

/-- events of a history that decide which call descriptor a ring signals -/
inductive CallEv where
  | install (ring : Nat) (fd : Option Nat)   -- accepted SET_VRING_CALL
  | stop (ring : Nat)                         -- accepted GET_VRING_BASE: the ring is stopped, descriptors are dropped
  deriving DecidableEq, Repr

/-- effect of one event on the descriptor `ring` would signal -/
def callStep (ring : Nat) (cur : Option Nat) : CallEv → Option Nat
  | .install r fd => if r = ring then fd else cur
  | .stop r => if r = ring then none else cur

/-- the call descriptor most recently installed for `ring` (none when none is installed) -/
def currentCall (ring : Nat) (evs : List CallEv) : Option Nat := evs.foldl (callStep ring) none

end Spec.Vring
