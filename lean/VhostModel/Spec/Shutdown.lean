/-!
# Spec for C16 — daemon shutdown and teardown always complete, whatever the timing

Written from the property statement only (nothing here refers to how the Rust code is organised):

> At whichever moment shutdown is requested […] once or repeatedly and from several threads — a following
> `wait` returns success in bounded time, the peer observes end-of-stream, and the daemon can accept a new
> connection.  Without a shutdown request, `wait` reports a peer disconnect as an error (the convenience `serve`
> call maps clean and partial-header disconnects to success and always raises every worker's exit event), the
> peer also observes end-of-stream whenever the daemon stops serving because of a request error, and dropping
> the daemon terminates all its worker threads when the backend supplies exit events.

Readings fixed here (DESIGN §7 "C16", Limits):
* "peer disconnect" = end-of-stream observed by a read of the daemon (`End.isDisconnect`).  When the kernel reports
  a socket error instead (`ECONNRESET` because the peer closed with unread data, `EPIPE` on a reply) the statement
  does not say what `wait` returns (`waitDemand … = .free`); the code's documented classification is success.
* "a following wait": `wait` is called after some shutdown request has returned (`completed`): it must return `Ok`
  in bounded time.  While a request is merely in progress (`requested ∧ ¬completed`) `wait` may still be waiting; if
  the peer gave no reason to stop serving, a `wait` that returns can only have been released by the shutdown
  request and must report success; if the peer also closed or misbehaved, nothing is demanded of the result.
* what `wait` returns after a request error without a shutdown request is not stated (only the peer's
  end-of-stream is).
-/
namespace Spec.Shutdown

inductive Verdict where
  | ok | err
  deriving DecidableEq, Repr

/-- what a call was observed to do -/
inductive Outcome where
  | ok | err | blocked
  deriving DecidableEq, Repr

/-- how the daemon stopped serving the connection -/
inductive End where
  | eofAtBoundary   -- end-of-stream before the first byte of a request ("clean" disconnect)
  | eofInHeader     -- end-of-stream after 1..11 bytes of a header ("partial-header" disconnect)
  | eofInBody       -- end-of-stream after the header, before the whole body arrived
  | requestError    -- a request error (malformed request, handler failure, …)
  | socketError     -- the kernel reported an error on the socket instead of end-of-stream
  deriving DecidableEq, Repr

def End.isDisconnect : End → Bool
  | .eofAtBoundary | .eofInHeader | .eofInBody => true
  | _ => false

/-- what the statement demands of a call -/
inductive Demand where
  | must (v : Verdict)        -- the call returns (in bounded time) with this result
  | ifReturns (v : Verdict)   -- if the call returns, then with this result
  | free                      -- the statement does not say
  deriving DecidableEq, Repr

/-- What `wait` must return.
`completed`: some shutdown request returned before `wait` was called ("a following wait returns success in bounded
time").  `requested`: some shutdown request was at least started.  `cause`: the reason the *peer* gave the daemon to
stop serving — `none` if it neither closed the connection nor sent an erroneous request; then a shutdown request
is the only thing that can end the connection, so a `wait` that returns must report success even if it was called
before the request completed (it may still be waiting while the request is in progress). -/
def waitDemand (completed requested : Bool) (cause : Option End) : Demand :=
  if completed then .must .ok
  else if requested then
    match cause with
    | none => .ifReturns .ok
    | some _ => .free
  else
    match cause with
    | some e => if e.isDisconnect then .must .err else .free
    | none => .free

/-- `serve` maps clean and partial-header disconnects to success. -/
def serveDemand : End → Demand
  | .eofAtBoundary => .must .ok
  | .eofInHeader => .must .ok
  | _ => .free

/-- does an observed outcome meet a demand? -/
def meets : Demand → Outcome → Bool
  | .free, _ => true
  | .must .ok, .ok => true
  | .must .err, .err => true
  | .ifReturns _, .blocked => true
  | .ifReturns .ok, .ok => true
  | .ifReturns .err, .err => true
  | _, _ => false

/-- a vhost-user message header is 12 bytes (request, flags, size: three little-endian u32) -/
def hdrLen : Nat := 12

/-- "peer close at every byte offset of a request": the peer has written `off` bytes of a stream of well-formed
requests of total lengths `lens` (each ≥ 12), has read every reply, and closes: where the daemon's read meets
end-of-stream. -/
def endAt : List Nat → Nat → End
  | [], _ => .eofAtBoundary
  | l :: ls, off =>
    if off = 0 then .eofAtBoundary
    else if off < hdrLen then .eofInHeader
    else if off < l then .eofInBody
    else endAt ls (off - l)

/-- what the peer's `read` returns after the data that was still queued -/
inductive PeerObs where
  | eof | wouldBlock
  deriving DecidableEq, Repr

/-- once the daemon thread has ended — after a shutdown request, a disconnect or a request error — the peer (if it
is still there) observes end-of-stream -/
def peerDemand (threadEnded : Bool) (o : PeerObs) : Bool := !threadEnded || o == .eof

/-- after `wait` returned the daemon can accept a new connection: no stale shutdown handle, a second `wait` is a
successful no-op, `start` succeeds, the new connection is served, and its own disconnect is judged afresh
(`waitDemand false false (some .eofAtBoundary) = .must .err`: the old shutdown request does not leak into it) -/
structure RestartObs where
  handleGone : Bool
  secondWaitOk : Bool
  startOk : Bool
  served : Bool
  newWait : Outcome

def restartDemand (r : RestartObs) : Bool :=
  r.handleGone && r.secondWaitOk && r.startOk && r.served && meets (waitDemand false false (some .eofAtBoundary)) r.newWait

/-- dropping the daemon terminates all its worker threads when the backend supplies exit events -/
def dropDemand (supplied : Bool) (dropReturned : Bool) (workersLeft : Nat) : Bool :=
  !supplied || (dropReturned && workersLeft == 0)

/-- `serve` always raises every worker's exit event (there is one to raise only if the backend supplies it) -/
def exitDemand (supplied : Bool) (raised workers : Nat) : Bool := !supplied || raised == workers

end Spec.Shutdown
