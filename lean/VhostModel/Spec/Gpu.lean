import VhostModel.Spec.Valid
import VhostModel.Spec.Layout
/-!
# Spec: the vhost-user-gpu channel (back-end → front-end over the socket of VHOST_USER_GPU_SET_SOCKET)

From the vhost-user-gpu specification: a message is a 12-byte header `request u32, flags u32, size u32` followed by
`size` bytes of payload.  The flags word has no version field; its only defined bit is REPLY (bit 2, value 4): a request
has flags 0, a reply has flags 4.  Requests, payload structs (laid out as in `Spec.layouts`), which requests may carry a
descriptor, and which are answered.
-/
namespace Spec.Gpu
open Base Spec

inductive ReplyTy where
  | none | u64 | displayInfo | edid | empty
  deriving Repr, DecidableEq, Inhabited

/-- size of the reply payload -/
def ReplyTy.size : ReplyTy → Nat
  | .none => 0 | .u64 => 8 | .displayInfo => 408 | .edid => 1056 | .empty => 0

structure Request where
  name : String          -- operation of the proxy API
  code : Nat             -- VHOST_USER_GPU_*
  body : Option String   -- payload struct (none: no payload)
  data : Bool            -- followed by a variable amount of pixel data
  fd : Bool              -- may carry one descriptor (DMABUF)
  reply : ReplyTy
  deriving Repr, Inhabited

/-- VHOST_USER_GPU_GET_PROTOCOL_FEATURES=1, SET_PROTOCOL_FEATURES=2, GET_DISPLAY_INFO=3, CURSOR_POS=4, CURSOR_POS_HIDE=5,
CURSOR_UPDATE=6, SCANOUT=7, UPDATE=8, DMABUF_SCANOUT=9, DMABUF_UPDATE=10, GET_EDID=11, DMABUF_SCANOUT2=12 -/
def requests : List Request := [
  ⟨"get_protocol_features", 1, none, false, false, .u64⟩,
  ⟨"set_protocol_features", 2, some "VhostUserU64", false, false, .none⟩,
  ⟨"get_display_info", 3, none, false, false, .displayInfo⟩,
  ⟨"cursor_pos", 4, some "VhostUserGpuCursorPos", false, false, .none⟩,
  ⟨"cursor_pos_hide", 5, some "VhostUserGpuCursorPos", false, false, .none⟩,
  ⟨"cursor_update", 6, some "VhostUserGpuCursorUpdate", true, false, .none⟩,
  ⟨"set_scanout", 7, some "VhostUserGpuScanout", false, false, .none⟩,
  ⟨"update_scanout", 8, some "VhostUserGpuUpdate", true, false, .none⟩,
  ⟨"set_dmabuf_scanout", 9, some "VhostUserGpuDMABUFScanout", false, true, .none⟩,
  ⟨"update_dmabuf_scanout", 10, some "VhostUserGpuUpdate", false, false, .empty⟩,
  ⟨"get_edid", 11, some "VhostUserGpuEdidRequest", false, false, .edid⟩,
  ⟨"set_dmabuf_scanout2", 12, some "VhostUserGpuDMABUFScanout2", false, true, .none⟩
]

def requestOf (name : String) : Option Request := requests.find? (·.name == name)

/-- REPLY is the only defined flag bit -/
def replyBit : Nat := 4

/-- header of a request: flags 0 -/
def encodeHdr (code flags size : Nat) : Bytes := leBytes 4 code ++ leBytes 4 flags ++ leBytes 4 size

/-- exact bytes of a request with payload struct bytes `body` and pixel data `data` -/
def encodeReq (r : Request) (body data : Bytes) : Bytes :=
  encodeHdr r.code 0 (body.length + data.length) ++ body ++ data

/-- bytes (with `nfds` descriptors) form a reply to request `r` (C06): known code, only the REPLY bit and it is set,
same code, the reply payload present, no descriptors -/
def replyConforms (r : Request) (bytes : Bytes) (nfds : Nat) : Bool :=
  if bytes.length < 12 + r.reply.size then false else
  let c := leVal (bytes.take 4); let flags := leVal ((bytes.drop 4).take 4)
  decide (validGpuHeader c flags) && flags == replyBit && c == r.code && nfds == 0

end Spec.Gpu
