/-!
# Spec for C10 — request/response pairs on a shared endpoint are atomic

Written from the property statement only (nothing here refers to how the Rust code is organised):

> each call's request and the reading of its reply form one indivisible transaction on the shared
> socket: **no second request is written between a request and the consumption of its reply**, **every
> caller receives the reply to its own request**, and **all calls complete**.

The observable alphabet is the history of the shared socket as seen from the callers' side:
`req i` — caller `i` wrote its request; `rep i t` — caller `i` consumed a reply, and that reply is
the one the peer produced for the request of caller `t` (the peer answers requests in arrival order
and every reply is tagged with the request it answers).  `expects i` says whether the request of
caller `i` has a reply at all (reply-bearing operations always; acknowledged operations when
REPLY_ACK was negotiated and the request carries NEED_REPLY; fire-and-forget operations never).

* `Atomic`   — declarative form of the first clause (quantifies over all decompositions of the history);
* `OwnReply` — second clause;
* `scan`     — an executable judge of histories.  `Props.C10.scan_sound` proves that a history
  accepted by `scan` is `Atomic`; the spec driver runs `scan` on what the implementation did.
-/

namespace Spec.Locks

inductive Ev where
  | req (i : Nat)
  | rep (i : Nat) (tag : Nat)
deriving DecidableEq, Repr

/-- No request is written between a request (that has a reply) and the consumption of its reply:
whenever `req j` occurs after `req i`, caller `i` has consumed a reply in between. -/
def Atomic (expects : Nat → Bool) (tr : List Ev) : Prop :=
  ∀ (pre mid post : List Ev) (i j : Nat),
    tr = pre ++ Ev.req i :: (mid ++ Ev.req j :: post) → expects i = true → ∃ t, Ev.rep i t ∈ mid

/-- Every reply a caller consumed is the reply to its own request. -/
def OwnReply (tr : List Ev) : Prop := ∀ i t, Ev.rep i t ∈ tr → t = i

/-- All `n` callers have returned. -/
def Complete (n : Nat) (finished : Nat → Bool) : Prop := ∀ i, i < n → finished i = true

/-! ### executable judge -/

/-- One event; the state is the caller whose reply is still outstanding. `none` = violation. -/
def scanStep (expects : Nat → Bool) (o : Option Nat) : Ev → Option (Option Nat)
  | .req i =>
    match o with
    | some _ => none
    | none => some (if expects i then some i else none)
  | .rep i _ => some (if o = some i then none else o)

def scan (expects : Nat → Bool) : Option Nat → List Ev → Option (Option Nat)
  | o, [] => some o
  | o, e :: t =>
    match scanStep expects o e with
    | none => none
    | some o' => scan expects o' t

def atomicB (expects : Nat → Bool) (tr : List Ev) : Bool := (scan expects none tr).isSome

def ownReplyB (tr : List Ev) : Bool :=
  tr.all fun e => match e with | .rep i t => t == i | .req _ => true

end Spec.Locks
