/-!
# Spec for C10 — request/response pairs on a shared endpoint are atomic

Written from the property statement only (nothing here refers to how the Rust code is organised):

> each call's request and the reading of its reply form one indivisible transaction on the shared
> socket: **no second request is written between a request and the consumption of its reply**, **every
> caller receives the reply to its own request**, and **all calls complete**.

The observable alphabet is the history of the shared socket as seen from the callers' side:
`req i` — caller `i` wrote its request; `rep i t` — caller `i` consumed a reply, and that reply is
the one the peer produced for the request of caller `t` (the peer answers requests in arrival order
and every reply is tagged with the request it answers).  `expects i` says whether the request of
caller `i` has a reply at all (reply-bearing operations always; acknowledged operations when
REPLY_ACK was negotiated and the request carries NEED_REPLY; fire-and-forget operations never).

* `Atomic`   — declarative form of the first clause (quantifies over all decompositions of the history);
* `OwnReply` — second clause;
* `FaultClauses` — what the same three clauses mean when the peer mistreats some requests (a reply the caller must
  refuse, or no reply at all because the peer closed the socket): "gets the reply to its own request" cannot hold for
  the caller of a mistreated request — it must get an *error* (never a value, and by `Complete` never a hang) — and
  must keep holding for everybody else; a caller whose request the peer never answered because it was gone gets an
  error, not a value;
* `scan`     — an executable judge of histories.  `Props.C10.scan_sound` proves that a history
  accepted by `scan` is `Atomic`; the spec driver runs `scan` on what the implementation did.
-/

namespace Spec.Locks

inductive Ev where
  | req (i : Nat)
  | rep (i : Nat) (tag : Nat)
deriving DecidableEq, Repr

/-- No request is written between a request (that has a reply) and the consumption of its reply:
whenever `req j` occurs after `req i`, caller `i` has consumed a reply in between. -/
def Atomic (expects : Nat → Bool) (tr : List Ev) : Prop :=
  ∀ (pre mid post : List Ev) (i j : Nat),
    tr = pre ++ Ev.req i :: (mid ++ Ev.req j :: post) → expects i = true → ∃ t, Ev.rep i t ∈ mid

/-- Every reply a caller consumed is the reply to its own request. -/
def OwnReply (tr : List Ev) : Prop := ∀ i t, Ev.rep i t ∈ tr → t = i

/-- All `n` callers have returned. -/
def Complete (n : Nat) (finished : Nat → Bool) : Prop := ∀ i, i < n → finished i = true

/-! ### reply faults -/

/-- How a call ended, as its caller sees it. -/
inductive Outcome where
  | value (tag : Nat)   -- returned what the reply the peer produced for the request of caller `tag` says
  | error               -- returned an error that is not the content of a reply
  | pending             -- has not returned
deriving DecidableEq, Repr

/-- The clauses about the callers' results when the peer mistreats the requests in `faulty` (answers them with a
reply the caller must refuse, or not at all).  `expects i`: the request of caller `i` has a reply; `answered i`: the
peer received that request and answered it correctly.  For every caller that returned and whose request has a reply:
a mistreated request ⇒ an error; otherwise, answered ⇒ the caller's own reply; otherwise (the peer was gone) ⇒ an
error.  Together with `Complete` ("never blocks") and `Atomic` / `OwnReply` on the history. -/
def FaultClauses (expects faulty answered : Nat → Bool) (out : Nat → Outcome) : Prop :=
  ∀ i, out i ≠ .pending → expects i = true →
    (faulty i = true → out i = .error) ∧
    (faulty i = false → answered i = true → out i = .value i) ∧
    (faulty i = false → answered i = false → out i = .error)

/-- executable form for callers `< n` -/
def faultClausesB (n : Nat) (expects faulty answered : Nat → Bool) (out : Nat → Outcome) : Bool :=
  (List.range n).all fun i =>
    out i == .pending || !expects i ||
      (if faulty i then out i == .error
       else if answered i then out i == .value i
       else out i == .error)

/-! ### executable judge -/

/-- One event; the state is the caller whose reply is still outstanding. `none` = violation. -/
def scanStep (expects : Nat → Bool) (o : Option Nat) : Ev → Option (Option Nat)
  | .req i =>
    match o with
    | some _ => none
    | none => some (if expects i then some i else none)
  | .rep i _ => some (if o = some i then none else o)

def scan (expects : Nat → Bool) : Option Nat → List Ev → Option (Option Nat)
  | o, [] => some o
  | o, e :: t =>
    match scanStep expects o e with
    | none => none
    | some o' => scan expects o' t

def atomicB (expects : Nat → Bool) (tr : List Ev) : Bool := (scan expects none tr).isSome

def ownReplyB (tr : List Ev) : Bool :=
  tr.all fun e => match e with | .rep i t => t == i | .req _ => true

end Spec.Locks
