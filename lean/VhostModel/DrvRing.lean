import VhostModel.DrvUtil
import VhostModel.Spec.RingAutomaton
/-! scenario syntax of family `ring` shared by the model driver and the spec driver: splitting a line into ops and the
front-end's own bookkeeping of the descriptors it has sent (which descriptor `gk r c` / `gk r p` / `pc r` mean).
Refers to the Spec alphabet only. -/
namespace DrvRing
open DrvUtil Spec.RingAutomaton

/-- header tokens (before the first `|`) and the ops -/
def splitOps (toks : List String) : List String × List (List String) :=
  let head := toks.takeWhile (· ≠ "|")
  let rest := toks.dropWhile (· ≠ "|")
  let rec go (ts : List String) (cur : List String) (acc : List (List String)) : List (List String) :=
    match ts with
    | [] => (if cur.isEmpty then acc else cur.reverse :: acc).reverse
    | t :: ts => if t == "|" then go ts [] (if cur.isEmpty then acc else cur.reverse :: acc) else go ts (t :: cur) acc
  (head, go rest [] [])

/-- descriptors sent with `kick r new`, newest first -/
abbrev Sent := Nat → List Evt

/-- the event an op stands for, given the number `next` of descriptors sent so far; `gk`/`pc` without a descriptor to
refer to become an event on the (not yet existing) descriptor `next`, which does nothing -/
def opMsg (sent : Sent) (next : Evt) (op : List String) : Option (Msg × Sent) :=
  match op with
  | ["feat", b] => some (.setFeatures (b == "1"), sent)
  | ["kick", r, w] => do
    let r ← hex? r
    if w == "new" then pure (.setKick r true, fun j => if j = r then next :: sent r else sent j)
    else pure (.setKick r false, sent)
  | ["call", r, w] => do
    let r ← hex? r
    pure (.setCall r (w == "new"), sent)
  | ["en", r, b] => do
    let r ← hex? r
    pure (.setEnable r (b == "1"), sent)
  | ["base", r] => do
    let r ← hex? r
    pure (.getBase r, sent)
  | ["reset"] => some (.reset, sent)
  | ["gk", r, w] => do
    let r ← hex? r
    let d := if w == "c" then (sent r)[0]? else (sent r)[1]?
    pure (.guestKick (d.getD next), sent)
  | ["pc", r] => do
    let r ← hex? r
    pure (.peerClose (((sent r)[1]?).getD next), sent)
  | _ => none

/-- the ring's identity base configured by the harness before the history -/
def baseOf (r : Nat) : Nat := 0x100 + r

end DrvRing
