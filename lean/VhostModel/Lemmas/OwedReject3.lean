import VhostModel.Lemmas.OwedReject2
/-!
# C04Owed: rejected requests (invalid body / wrong number of files), every implemented code
-/
namespace Lemmas.OwedReject
open Base Model.BackendSrv Model.Msgs Spec.Proto Lemmas.Owed Lemmas.OwedGuards Lemmas.BackendSrv

variable (st : BSt) (fl sz : Nat) (buf : Bytes) (files : Option (List Fd)) (h : Model.BackendSrv.HOut)

/-- the Spec's reason to reject at body level -/
abbrev Bad (code : Nat) (buf : Bytes) (files : Option (List Fd)) : Prop :=
  Spec.Proto.bodyValid code buf = false ∨ (files.getD []).length ≠ filesPrescribed code buf

/-- requests that carry no descriptors and have no body rule cannot be rejected for those reasons -/
theorem bad_absurd {code : Nat} {buf : Bytes} {files : Option (List Fd)} (hb : Bad code buf files)
    (h1 : Spec.Proto.bodyValid code buf = true) (h2 : filesPrescribed code buf = 0) (hk : code ∉ fdCodes)
    (hfd : files.getD [] ≠ [] → code ∈ fdCodes) : False := by
  rcases hb with hb | hb
  · rw [h1] at hb; simp at hb
  · apply hb
    rw [h2]
    by_cases hne : files.getD [] = []
    · rw [hne]; rfl
    · exact absurd (hfd hne) hk

theorem nfds_zero {code : Nat} {files : Option (List Fd)} (hk : code ∉ fdCodes)
    (hfd : files.getD [] ≠ [] → code ∈ fdCodes) : (files.getD []).length = 0 := by
  by_cases hne : files.getD [] = []
  · rw [hne]; rfl
  · exact absurd (hfd hne) hk

section
variable (hfd : files.getD [] ≠ [] → 9 ∈ fdCodes)
include hfd in
theorem rej_9 (hdec : bodyDecodable 9 buf = true) (hb : Bad 9 buf files) :
    NoCall st ⟨9, fl, sz⟩ (dispatch st ⟨9, fl, sz⟩ buf files h) := by
  have hl : buf.length = 40 := by simpa [bodyDecodable, fixedSize] using hdec
  have hfind : arms.find? (·.code == (⟨9, fl, sz⟩ : Hdr).code) =
      some ⟨9, [.body "VhostUserVringAddr"], .ack "set_vring_addr"⟩ := rfl
  have hn := nfds_zero (by decide) hfd
  rcases hb with hb | hb
  · simp only [Spec.Proto.bodyValid, fld_vaddr] at hb
    exact nocall_of_guards_error hfind
      (runGuards_error_of_body sz_vaddr (by rw [bodyValid_vaddr buf hl, hb]; simp) _ _ rfl (by simp))
  · exact absurd hn hb
end

section
variable (hfd : files.getD [] ≠ [] → 18 ∈ fdCodes)
include hfd in
theorem rej_18 (hb : Bad 18 buf files) : NoCall st ⟨18, fl, sz⟩ (dispatch st ⟨18, fl, sz⟩ buf files h) := by
  have hfind : arms.find? (·.code == (⟨18, fl, sz⟩ : Hdr).code) =
      some ⟨18, [.body "VhostUserVringState", .virtio 30, .enable01], .ack "set_vring_enable"⟩ := rfl
  have hn := nfds_zero (by decide) hfd
  rcases hb with hb | hb
  · simp only [Spec.Proto.bodyValid, fld_vstate, decide_eq_false_iff_not] at hb
    exact nocall_of_guards_error hfind (runGuards_error_of_enable hb _ _ rfl (by simp))
  · exact absurd hn hb
end

section
variable (hfd : files.getD [] ≠ [] → 31 ∈ fdCodes)
include hfd in
theorem rej_31 (hdec : bodyDecodable 31 buf = true) (hb : Bad 31 buf files) :
    NoCall st ⟨31, fl, sz⟩ (dispatch st ⟨31, fl, sz⟩ buf files h) := by
  have hl : buf.length = 24 := by simpa [bodyDecodable, fixedSize] using hdec
  have hfind : arms.find? (·.code == (⟨31, fl, sz⟩ : Hdr).code) =
      some ⟨31, [.proto 12, .body "VhostUserInflight"], .getInflight⟩ := rfl
  have hn := nfds_zero (by decide) hfd
  rcases hb with hb | hb
  · simp only [Spec.Proto.bodyValid, fld_inflight] at hb
    exact nocall_of_guards_error hfind
      (runGuards_error_of_body sz_inflight (by rw [bodyValid_inflight buf hl, hb]; simp) _ _ rfl (by simp))
  · exact absurd hn hb
end

section
variable (hfd : files.getD [] ≠ [] → 38 ∈ fdCodes)
include hfd in
theorem rej_38 (hdec : bodyDecodable 38 buf = true) (hb : Bad 38 buf files) :
    NoCall st ⟨38, fl, sz⟩ (dispatch st ⟨38, fl, sz⟩ buf files h) := by
  have hl : buf.length = 40 := by simpa [bodyDecodable, fixedSize] using hdec
  have hfind : arms.find? (·.code == (⟨38, fl, sz⟩ : Hdr).code) =
      some ⟨38, [.proto 15, .body "VhostUserSingleMemoryRegion"], .ack "remove_mem_region"⟩ := rfl
  have hn := nfds_zero (by decide) hfd
  rcases hb with hb | hb
  · simp only [Spec.Proto.bodyValid, single_region_eq buf hl, validRegionT] at hb
    exact nocall_of_guards_error hfind
      (runGuards_error_of_body sz_single (by rw [bodyValid_single buf hl, hb]; simp) _ _ rfl (by simp))
  · exact absurd hn hb
end

section
variable (hfd : files.getD [] ≠ [] → 41 ∈ fdCodes)
include hfd in
theorem rej_41 (hdec : bodyDecodable 41 buf = true) (hb : Bad 41 buf files) :
    NoCall st ⟨41, fl, sz⟩ (dispatch st ⟨41, fl, sz⟩ buf files h) := by
  have hl : buf.length = 16 := by simpa [bodyDecodable, fixedSize] using hdec
  have hfind : arms.find? (·.code == (⟨41, fl, sz⟩ : Hdr).code) =
      some ⟨41, [.proto 18, .sizeIs .any, .body "VhostUserSharedMsg"], .fdOrEmpty "get_shared_object"⟩ := rfl
  have hn := nfds_zero (by decide) hfd
  rcases hb with hb | hb
  · simp only [Spec.Proto.bodyValid, fld_shared] at hb
    exact nocall_of_guards_error hfind
      (runGuards_error_of_body sz_shared (by rw [bodyValid_shared buf hl, hb]; simp) _ _ rfl (by simp))
  · exact absurd hn hb
end

section
variable (hfd : files.getD [] ≠ [] → 24 ∈ fdCodes)
include hfd in
theorem rej_24 (hb : Bad 24 buf files) : NoCall st ⟨24, fl, sz⟩ (dispatch st ⟨24, fl, sz⟩ buf files h) := by
  have hfind : arms.find? (·.code == (⟨24, fl, sz⟩ : Hdr).code) =
      some ⟨24, [.proto 9, .sizeIs .any], .getConfig⟩ := rfl
  have hn := nfds_zero (by decide) hfd
  rcases hb with hb | hb
  · simp only [Spec.Proto.bodyValid, fld_config] at hb
    refine nocall_simple_arm hfind (by decide) (nocall_getConfig st h _ ?_)
    rintro ⟨-, h2, h3⟩
    simp [h2, h3] at hb
  · exact absurd hn hb
end

section
variable (hfd : files.getD [] ≠ [] → 25 ∈ fdCodes)
include hfd in
theorem rej_25 (hb : Bad 25 buf files) : NoCall st ⟨25, fl, sz⟩ (dispatch st ⟨25, fl, sz⟩ buf files h) := by
  have hfind : arms.find? (·.code == (⟨25, fl, sz⟩ : Hdr).code) =
      some ⟨25, [.proto 9, .sizeIs .any], .setConfig⟩ := rfl
  have hn := nfds_zero (by decide) hfd
  rcases hb with hb | hb
  · simp only [Spec.Proto.bodyValid, fld_config] at hb
    refine nocall_simple_arm hfind (by decide) (nocall_setConfig st h _ ?_)
    rintro ⟨-, h2, h3⟩
    simp [h2, h3] at hb
  · exact absurd hn hb
end

theorem rej_5 (hb : Bad 5 buf files) : NoCall st ⟨5, fl, sz⟩ (dispatch st ⟨5, fl, sz⟩ buf files h) := by
  have hfind : arms.find? (·.code == (⟨5, fl, sz⟩ : Hdr).code) = some ⟨5, [], .memTable⟩ := rfl
  refine nocall_simple_arm hfind (by decide) (nocall_memTable st h _ ?_)
  rintro ⟨-, h2, h3, h4, h5⟩
  rcases hb with hb | hb
  · simp only [Spec.Proto.bodyValid, fld_memory] at hb
    simp [h2, h3, h5] at hb
  · simp only [filesPrescribed, fld_memory] at hb
    exact hb h4

theorem rej_21 (hb : Bad 21 buf files) : NoCall st ⟨21, fl, sz⟩ (dispatch st ⟨21, fl, sz⟩ buf files h) := by
  have hfind : arms.find? (·.code == (⟨21, fl, sz⟩ : Hdr).code) =
      some ⟨21, [.proto 5, .sizeIs .any], .backendReqFd⟩ := rfl
  rcases hb with hb | hb
  · simp [Spec.Proto.bodyValid] at hb
  · exact nocall_simple_arm hfind (by decide) (nocall_backendReqFd st h _ hb)

theorem rej_33 (hb : Bad 33 buf files) : NoCall st ⟨33, fl, sz⟩ (dispatch st ⟨33, fl, sz⟩ buf files h) := by
  have hfind : arms.find? (·.code == (⟨33, fl, sz⟩ : Hdr).code) = some ⟨33, [], .gpuSocket⟩ := rfl
  rcases hb with hb | hb
  · simp [Spec.Proto.bodyValid] at hb
  · exact nocall_simple_arm hfind (by decide) (nocall_gpuSocket st h _ hb)

theorem rej_32 (hdec : bodyDecodable 32 buf = true) (hb : Bad 32 buf files) :
    NoCall st ⟨32, fl, sz⟩ (dispatch st ⟨32, fl, sz⟩ buf files h) := by
  have hl : buf.length = 24 := by simpa [bodyDecodable, fixedSize] using hdec
  have hfind : arms.find? (·.code == (⟨32, fl, sz⟩ : Hdr).code) =
      some ⟨32, [.proto 12, .oneFile .incorrectFds, .body "VhostUserInflight"], .ack "set_inflight_fd"⟩ := rfl
  rcases hb with hb | hb
  · simp only [Spec.Proto.bodyValid, fld_inflight] at hb
    exact nocall_of_guards_error hfind
      (runGuards_error_of_body sz_inflight (by rw [bodyValid_inflight buf hl, hb]; simp) _ _ rfl (by simp))
  · exact nocall_of_guards_error hfind (rg_skip_simple rfl (rg_oneFile_fail hb))

theorem rej_37 (hdec : bodyDecodable 37 buf = true) (hb : Bad 37 buf files) :
    NoCall st ⟨37, fl, sz⟩ (dispatch st ⟨37, fl, sz⟩ buf files h) := by
  have hl : buf.length = 40 := by simpa [bodyDecodable, fixedSize] using hdec
  have hfind : arms.find? (·.code == (⟨37, fl, sz⟩ : Hdr).code) =
      some ⟨37, [.proto 15, .oneFile .invalidParam, .body "VhostUserSingleMemoryRegion"], .ack "add_mem_region"⟩ := rfl
  rcases hb with hb | hb
  · simp only [Spec.Proto.bodyValid, single_region_eq buf hl, validRegionT] at hb
    exact nocall_of_guards_error hfind
      (runGuards_error_of_body sz_single (by rw [bodyValid_single buf hl, hb]; simp) _ _ rfl (by simp))
  · exact nocall_of_guards_error hfind (rg_skip_simple rfl (rg_oneFile_fail hb))

theorem rej_6 (hdec : bodyDecodable 6 buf = true) (hb : Bad 6 buf files) :
    NoCall st ⟨6, fl, sz⟩ (dispatch st ⟨6, fl, sz⟩ buf files h) := by
  have hl : buf.length = 16 := by simpa [bodyDecodable, fixedSize] using hdec
  have hfind : arms.find? (·.code == (⟨6, fl, sz⟩ : Hdr).code) =
      some ⟨6, [.proto 1, .oneFile .incorrectFds, .body "VhostUserLog"], .setLogBase⟩ := rfl
  rcases hb with hb | hb
  · simp only [Spec.Proto.bodyValid, fld_log] at hb
    exact nocall_of_guards_error hfind
      (runGuards_error_of_body sz_log (by rw [bodyValid_log buf hl, hb]; simp) _ _ rfl (by simp))
  · exact nocall_of_guards_error hfind (rg_skip_simple rfl (rg_oneFile_fail hb))

theorem rej_42 (hdec : bodyDecodable 42 buf = true) (hb : Bad 42 buf files) :
    NoCall st ⟨42, fl, sz⟩ (dispatch st ⟨42, fl, sz⟩ buf files h) := by
  have hl : buf.length = 8 := by simpa [bodyDecodable, fixedSize] using hdec
  have hfind : arms.find? (·.code == (⟨42, fl, sz⟩ : Hdr).code) =
      some ⟨42, [.oneFile .incorrectFds, .body "VhostUserTransferDeviceState"], .deviceStateFd⟩ := rfl
  rcases hb with hb | hb
  · simp only [Spec.Proto.bodyValid, fld_transfer] at hb
    exact nocall_of_guards_error hfind
      (runGuards_error_of_body sz_transfer (by rw [bodyValid_transfer buf hl, hb]; simp) _ _ rfl (by simp))
  · exact nocall_of_guards_error hfind (rg_oneFile_fail hb)

/-- SET_VRING_KICK / CALL / ERR with the wrong number of descriptors -/
theorem rej_vring (code : Nat) (a : Arm) (hfind : arms.find? (·.code == (⟨code, fl, sz⟩ : Hdr).code) = some a)
    (hg : a.guards = [.sizeIs (.ofT "VhostUserU64"), .vringFd]) (hl : buf.length = 8)
    (hb : (files.getD []).length ≠ if (fld buf "VhostUserU64" ["value"]).testBit 8 then 0 else 1) :
    NoCall st ⟨code, fl, sz⟩ (dispatch st ⟨code, fl, sz⟩ buf files h) := by
  have hv : fld buf "VhostUserU64" ["value"] = leVal (buf.take 8) := by
    rw [fld_u64, g_of f_u64_value (by omega)]; rfl
  rw [hv] at hb
  refine nocall_of_guards_error hfind ?_
  rw [hg]
  exact rg_skip_simple rfl (rg_vringFd_fail (c := { hdr := ⟨code, fl, sz⟩, buf := buf, files := files })
    (by show 8 ≤ buf.length; omega) hb)

theorem rej_12 (hdec : bodyDecodable 12 buf = true) (hb : Bad 12 buf files) :
    NoCall st ⟨12, fl, sz⟩ (dispatch st ⟨12, fl, sz⟩ buf files h) := by
  have hl : buf.length = 8 := by simpa [bodyDecodable, fixedSize] using hdec
  rcases hb with hb | hb
  · simp [Spec.Proto.bodyValid] at hb
  · exact rej_vring st fl sz buf files h 12 _ rfl rfl hl hb

theorem rej_13 (hdec : bodyDecodable 13 buf = true) (hb : Bad 13 buf files) :
    NoCall st ⟨13, fl, sz⟩ (dispatch st ⟨13, fl, sz⟩ buf files h) := by
  have hl : buf.length = 8 := by simpa [bodyDecodable, fixedSize] using hdec
  rcases hb with hb | hb
  · simp [Spec.Proto.bodyValid] at hb
  · exact rej_vring st fl sz buf files h 13 _ rfl rfl hl hb

theorem rej_14 (hdec : bodyDecodable 14 buf = true) (hb : Bad 14 buf files) :
    NoCall st ⟨14, fl, sz⟩ (dispatch st ⟨14, fl, sz⟩ buf files h) := by
  have hl : buf.length = 8 := by simpa [bodyDecodable, fixedSize] using hdec
  rcases hb with hb | hb
  · simp [Spec.Proto.bodyValid] at hb
  · exact rej_vring st fl sz buf files h 14 _ rfl rfl hl hb

end Lemmas.OwedReject
