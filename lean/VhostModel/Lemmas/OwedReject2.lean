import VhostModel.Lemmas.OwedReject
/-!
# C04Owed: rejected requests, arm by arm
-/
namespace Lemmas.OwedReject
open Base Model.BackendSrv Model.Msgs Spec.Proto Lemmas.Owed Lemmas.OwedGuards Lemmas.BackendSrv

variable (st : BSt) (fl sz : Nat) (buf : Bytes) (files : Option (List Fd)) (h : Model.BackendSrv.HOut)

/-! ### actions that validate the body themselves -/

theorem nocall_getConfig (c : Ctx)
    (hbad : ¬ (12 ≤ c.buf.length ∧ Spec.validConfig (g c.buf "VhostUserConfig" ["offset"]) (g c.buf "VhostUserConfig" ["size"])
        (g c.buf "VhostUserConfig" ["flags"]) ∧ c.buf.length = 12 + g c.buf "VhostUserConfig" ["size"])) :
    NoCall st c.hdr (runAct st c h .getConfig) := by
  simp only [runAct, sz_config]
  split
  · first | exact ⟨rfl, rfl, ⟨_, rfl⟩, Or.inl rfl⟩ | exact ⟨rfl, rfl, ⟨_, rfl⟩, Or.inr rfl⟩
  · rename_i hlen
    simp only [Bool.or_eq_true, decide_eq_true_eq, not_or, Nat.not_lt] at hlen
    have hl : (c.buf.take 12).length = 12 := by simp [List.length_take]; omega
    rw [bodyValid_config _ hl, g_take 12 f_cf_off (by omega) hlen.2, g_take 12 f_cf_size (by omega) hlen.2,
      g_take 12 f_cf_flags (by omega) hlen.2]
    split
    · rename_i hv
      simp only [Option.some.injEq, decide_eq_true_eq] at hv
      split
      · first | exact ⟨rfl, rfl, ⟨_, rfl⟩, Or.inl rfl⟩ | exact ⟨rfl, rfl, ⟨_, rfl⟩, Or.inr rfl⟩
      · rename_i hsz
        simp only [bne_iff_ne, ne_eq, Decidable.not_not] at hsz
        exact absurd ⟨hlen.2, hv, by omega⟩ hbad
    · first | exact ⟨rfl, rfl, ⟨_, rfl⟩, Or.inl rfl⟩ | exact ⟨rfl, rfl, ⟨_, rfl⟩, Or.inr rfl⟩

theorem nocall_setConfig (c : Ctx)
    (hbad : ¬ (12 ≤ c.buf.length ∧ Spec.validConfig (g c.buf "VhostUserConfig" ["offset"]) (g c.buf "VhostUserConfig" ["size"])
        (g c.buf "VhostUserConfig" ["flags"]) ∧ c.buf.length = 12 + g c.buf "VhostUserConfig" ["size"])) :
    NoCall st c.hdr (runAct st c h .setConfig) := by
  simp only [runAct, sz_config]
  split
  · first | exact ⟨rfl, rfl, ⟨_, rfl⟩, Or.inl rfl⟩ | exact ⟨rfl, rfl, ⟨_, rfl⟩, Or.inr rfl⟩
  · rename_i hlen
    simp only [Bool.or_eq_true, decide_eq_true_eq, not_or, Nat.not_lt] at hlen
    have hl : (c.buf.take 12).length = 12 := by simp [List.length_take]; omega
    rw [bodyValid_config _ hl, g_take 12 f_cf_off (by omega) hlen.2, g_take 12 f_cf_size (by omega) hlen.2,
      g_take 12 f_cf_flags (by omega) hlen.2]
    split
    · rename_i hv
      simp only [Option.some.injEq, decide_eq_true_eq] at hv
      split
      · first | exact ⟨rfl, rfl, ⟨_, rfl⟩, Or.inl rfl⟩ | exact ⟨rfl, rfl, ⟨_, rfl⟩, Or.inr rfl⟩
      · rename_i hsz
        simp only [bne_iff_ne, ne_eq, Decidable.not_not] at hsz
        exact absurd ⟨hlen.2, hv, by omega⟩ hbad
    · first | exact ⟨rfl, rfl, ⟨_, rfl⟩, Or.inl rfl⟩ | exact ⟨rfl, rfl, ⟨_, rfl⟩, Or.inr rfl⟩

theorem nocall_memTable (c : Ctx)
    (hbad : ¬ (8 ≤ c.buf.length ∧
      Spec.validMemory (g c.buf "VhostUserMemory" ["num_regions"]) (g c.buf "VhostUserMemory" ["padding1"]) ∧
      c.buf.length = 8 + 32 * g c.buf "VhostUserMemory" ["num_regions"] ∧
      (c.files.getD []).length = g c.buf "VhostUserMemory" ["num_regions"] ∧
      (Spec.Proto.regionsOf c.buf (g c.buf "VhostUserMemory" ["num_regions"]) 8).all validRegionT = true)) :
    NoCall st c.hdr (runAct st c h .memTable) := by
  simp only [runAct, sz_memory, sz_region]
  split
  · first | exact ⟨rfl, rfl, ⟨_, rfl⟩, Or.inl rfl⟩ | exact ⟨rfl, rfl, ⟨_, rfl⟩, Or.inr rfl⟩
  · split
    · first | exact ⟨rfl, rfl, ⟨_, rfl⟩, Or.inl rfl⟩ | exact ⟨rfl, rfl, ⟨_, rfl⟩, Or.inr rfl⟩
    · rename_i hlen
      simp only [Nat.not_lt] at hlen
      have hl : (c.buf.take 8).length = 8 := by simp [List.length_take]; omega
      rw [bodyValid_memory _ hl, g_take 8 f_me_n (by omega) hlen, g_take 8 f_me_pad (by omega) hlen]
      split
      · rename_i hv
        simp only [Option.some.injEq, decide_eq_true_eq] at hv
        split
        · first | exact ⟨rfl, rfl, ⟨_, rfl⟩, Or.inl rfl⟩ | exact ⟨rfl, rfl, ⟨_, rfl⟩, Or.inr rfl⟩
        · rename_i hsz
          simp only [bne_iff_ne, ne_eq, Decidable.not_not] at hsz
          split
          · first | exact ⟨rfl, rfl, ⟨_, rfl⟩, Or.inl rfl⟩ | exact ⟨rfl, rfl, ⟨_, rfl⟩, Or.inr rfl⟩
          · rename_i fs hfs
            split
            · first | exact ⟨rfl, rfl, ⟨_, rfl⟩, Or.inl rfl⟩ | exact ⟨rfl, rfl, ⟨_, rfl⟩, Or.inr rfl⟩
            · rename_i hn
              simp only [bne_iff_ne, ne_eq, Decidable.not_not] at hn
              split
              · rename_i hall
                exfalso
                apply hbad
                refine ⟨hlen, hv, by omega, by rw [hfs]; exact hn, ?_⟩
                rw [spec_regions_eq, ← regions_all _ (regionsOf_len32 c.buf _ 8 (by omega))]
                exact hall
              · first | exact ⟨rfl, rfl, ⟨_, rfl⟩, Or.inl rfl⟩ | exact ⟨rfl, rfl, ⟨_, rfl⟩, Or.inr rfl⟩
      · first | exact ⟨rfl, rfl, ⟨_, rfl⟩, Or.inl rfl⟩ | exact ⟨rfl, rfl, ⟨_, rfl⟩, Or.inr rfl⟩

theorem nocall_backendReqFd (c : Ctx) (hbad : (c.files.getD []).length ≠ 1) :
    NoCall st c.hdr (runAct st c h .backendReqFd) := by
  have := takeSingle_none hbad
  simp only [runAct]
  split
  · rename_i heq; rw [heq] at this; simp at this
  · first | exact ⟨rfl, rfl, ⟨_, rfl⟩, Or.inl rfl⟩ | exact ⟨rfl, rfl, ⟨_, rfl⟩, Or.inr rfl⟩

theorem nocall_gpuSocket (c : Ctx) (hbad : (c.files.getD []).length ≠ 1) :
    NoCall st c.hdr (runAct st c h .gpuSocket) := by
  have := takeSingle_none hbad
  simp only [runAct]
  split
  · rename_i heq; rw [heq] at this; simp at this
  · first | exact ⟨rfl, rfl, ⟨_, rfl⟩, Or.inl rfl⟩ | exact ⟨rfl, rfl, ⟨_, rfl⟩, Or.inr rfl⟩

/-! ### guards that leave the context alone -/

def Guard.simple : Guard → Bool
  | .proto _ | .virtio _ | .sizeIs _ => true
  | _ => false

theorem runGuard_simple {st : BSt} {c c' : Ctx} {gd : Guard} (hs : Guard.simple gd = true)
    (h : runGuard st c gd = .ok c') : c' = c := by
  cases gd with
  | proto b => simp only [runGuard] at h; split at h <;> simp at h; exact h.symm
  | virtio b => simp only [runGuard] at h; split at h <;> simp at h; exact h.symm
  | sizeIs s =>
    cases s with
    | zero => simp only [runGuard] at h; split at h <;> simp at h; exact h.symm
    | any => simp only [runGuard] at h; split at h <;> simp at h; exact h.symm
    | ofT ty =>
      simp only [runGuard] at h
      split at h
      · split at h <;> simp at h; exact h.symm
      · simp at h
  | body ty => simp [Guard.simple] at hs
  | oneFile e => simp [Guard.simple] at hs
  | vringFd => simp [Guard.simple] at hs
  | enable01 => simp [Guard.simple] at hs

theorem runGuards_simple {st : BSt} : ∀ (gs : List Guard) (c c' : Ctx), (∀ gd ∈ gs, Guard.simple gd = true) →
    runGuards st c gs = .ok c' → c' = c := by
  intro gs
  induction gs with
  | nil => intro c c' _ h; simp [runGuards] at h; exact h.symm
  | cons gd gs ih =>
    intro c c' hs h
    simp only [runGuards] at h
    cases hg : runGuard st c gd with
    | error e => rw [hg] at h; simp at h
    | ok c1 =>
      rw [hg] at h
      have := runGuard_simple (hs gd (by simp)) hg
      subst this
      exact ih _ _ (fun x hx => hs x (by simp [hx])) h

/-- an arm whose guards leave the context alone and whose action refuses the request -/
theorem nocall_simple_arm {st : BSt} {hdr : Hdr} {buf : Bytes} {files : Option (List Fd)} {h : Model.BackendSrv.HOut}
    {a : Arm} (ha : arms.find? (·.code == hdr.code) = some a) (hs : ∀ gd ∈ a.guards, Guard.simple gd = true)
    (hact : NoCall st hdr (runAct st { hdr := hdr, buf := buf, files := files } h a.act)) :
    NoCall st hdr (dispatch st hdr buf files h) := by
  cases hg : runGuards st { hdr := hdr, buf := buf, files := files } a.guards with
  | error e => exact nocall_of_guards_error ha ⟨e, hg⟩
  | ok c' =>
    have := runGuards_simple _ _ _ hs hg
    subst this
    rw [dispatch_arm ha hg]; exact hact

/-! ### guards that refuse: wrong number of files -/

theorem rg_skip_simple {st : BSt} {c : Ctx} {gd : Guard} {rest : List Guard} (hs : Guard.simple gd = true)
    (h : ∃ e, runGuards st c rest = .error e) : ∃ e, runGuards st c (gd :: rest) = .error e := by
  simp only [runGuards]
  cases hg : runGuard st c gd with
  | error e => exact ⟨e, rfl⟩
  | ok c' => have := runGuard_simple hs hg; subst this; exact h

theorem rg_oneFile_fail {st : BSt} {c : Ctx} {e : Err} {rest : List Guard} (h : (c.files.getD []).length ≠ 1) :
    ∃ e', runGuards st c (.oneFile e :: rest) = .error e' := by
  have := takeSingle_none h
  simp only [runGuards, runGuard]
  split
  · rename_i heq
    split at heq
    · rename_i h2; rw [h2] at this; simp at this
    · simp at heq
  · exact ⟨_, rfl⟩

theorem rg_vringFd_fail {st : BSt} {c : Ctx} {rest : List Guard} (hl : 8 ≤ c.buf.length)
    (h : (c.files.getD []).length ≠ if (leVal (c.buf.take 8)).testBit 8 then 0 else 1) :
    ∃ e', runGuards st c (.vringFd :: rest) = .error e' := by
  have hl' : ¬ c.buf.length < 8 := by omega
  simp only [runGuards, runGuard, hl', if_false, bitSet]
  by_cases hb : (leVal (c.buf.take 8)).testBit 8 = true
  · rw [if_pos hb] at h
    simp only [hb]
    cases hf : c.files with
    | none => rw [hf] at h; simp at h
    | some l =>
      rw [hf] at h
      match l, h with
      | [], h => simp at h
      | [f], _ => simp [takeSingle]
      | _ :: _ :: _, _ => simp [takeSingle]
  · rw [if_neg hb] at h
    have hb' : (leVal (c.buf.take 8)).testBit 8 = false := by simpa using hb
    simp only [hb']
    cases hf : c.files with
    | none => simp [takeSingle]
    | some l =>
      rw [hf] at h
      match l, h with
      | [], _ => simp [takeSingle]
      | [f], h => simp at h
      | _ :: _ :: _, _ => simp [takeSingle]

end Lemmas.OwedReject
