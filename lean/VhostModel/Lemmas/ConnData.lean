import VhostModel.Lemmas.ConnImp
import VhostModel.Gen.ConnLoops

set_option linter.unusedSimpArgs false
set_option linter.unusedVariables false
/-!
# `recv_data`: the interpreted loop against `Model.Stream.recvData`
-/
namespace Lemmas.ConnData
open Imp Gen.ConnLoops
open Model.Stream (Cell Chooser clampK recvData RecvData)

/-- what an iteration leaves alone: `len`, `rbuf` -/
def Keep (fr fr' : Frame) : Prop := fr'.n 0 = fr.n 0 ∧ fr'.io 0 = fr.io 0

section body
variable {σ : Type} (env : Env σ) (F : Nat) (fr : Frame) (w : World σ)

/-- one iteration of the loop of `recv_data`, by the outcome of the `recv_with_fds` it performs
(`len` = slot 0, `data_read` = slot 1, `rbuf` = iovec slot 0) -/
theorem body_spec (hl : (fr.io 0).lens = [fr.n 0]) (hp : fr.n 1 < fr.n 0) :
    match primRecv env w (fr.io 0).store ((fr.io 0).start + fr.n 1) (fr.n 0 - fr.n 1) 0 with
    | none =>
      (exec env RecvData.whileBody F fr w).1 = .stuck .blocked ∧ (exec env RecvData.whileBody F fr w).2.2 = w ∧
      (exec env RecvData.whileBody F fr w).2.1.n 1 = fr.n 1
    | some (.ok ⟨[n], _, _⟩, w') =>
      (exec env RecvData.whileBody F fr w).1 = (if n = 0 then .brk else .normal) ∧ Keep fr (exec env RecvData.whileBody F fr w).2.1 ∧
      (exec env RecvData.whileBody F fr w).2.1.n 1 = fr.n 1 + n ∧ (exec env RecvData.whileBody F fr w).2.2 = w'
    | some (.err e, w') =>
      (exec env RecvData.whileBody F fr w).1 = .done (.err (e.into env.classify)) ∧ (exec env RecvData.whileBody F fr w).2.2 = w' ∧
      (exec env RecvData.whileBody F fr w).2.1.n 1 = fr.n 1
    | _ => True := by
  have hexec : exec env RecvData.whileBody F fr w = exec env RecvData.whileBody F fr w := rfl
  have h1 : fr.n 1 ≤ fr.n 0 := by omega
  conv at hexec => rhs; simp [RecvData.whileBody, exec_matchResult, evalE, evalB, evalIo, hl, h1]
  rcases hpr : primRecv env w (fr.io 0).store ((fr.io 0).start + fr.n 1) (fr.n 0 - fr.n 1) 0 with _ | ⟨rv, w'⟩
  · rw [hpr] at hexec
    simp [hexec]
  · rw [hpr] at hexec
    rcases rv with ⟨⟨nats, fo, bufs⟩⟩ | e
    · rcases nats with _ | ⟨n, _ | ⟨n2, rest⟩⟩
      · simp
      · by_cases hn : n = 0 <;> simp [hexec, Keep, hn]
      · simp
    · simp [hexec, evalErr, errOf]
end body

/-- loop invariant of `recv_data` against `recvData` (fuel: one more than the stream is long) -/
theorem data_loop {σ : Type} (env : Env σ) (F : Nat) (body : Frame → World σ → Res σ)
    (hb : ∀ fr w, body fr w = exec env RecvData.whileBody F fr w) (hcl : env.classify ENOBUFS = .retry) :
    ∀ (want : Nat) (st : σ) (s : List Cell) (k : Nat) (fr : Frame) (w : World σ),
      w.stream = s → w.cst = st → fr.n 0 - fr.n 1 = want → s.length + 1 ≤ k →
      (fr.io 0).lens = [fr.n 0] → (fr.io 0).start = 0 → fr.n 1 ≤ fr.n 0 →
      (fr.io 0).store < w.mem.length → (w.mem.getD (fr.io 0).store []).length = fr.n 0 →
      let res := loop (fun fr w => evalB env fr w.mem (.lt (.var RecvData.data_read) (.var RecvData.len))) body k fr w
      let R := recvData env.ch env.isClosed want st s
      res.2.2.stream = R.rest ∧ res.2.2.cst = R.st ∧ res.2.2.closed = w.closed ++ R.lost ∧
      res.2.2.mem = w.mem.set (fr.io 0).store (writeAt (w.mem.getD (fr.io 0).store []) (fr.n 1) R.bytes) ∧
      fr.n 1 + R.bytes.length ≤ fr.n 0 ∧
      (match res.1 with
       | .normal => (R.outcome = .full ∨ R.outcome = .short) ∧ res.2.1.n 1 = fr.n 1 + R.bytes.length ∧ res.2.1.io 0 = fr.io 0
       | .done rv => R.outcome = .enobufs ∧ rv = .err (.sock .retry ENOBUFS) ∧ res.2.1.n 1 = fr.n 1 + R.bytes.length
       | .stuck .blocked => R.outcome = .blocked ∧ res.2.1.n 1 = fr.n 1 + R.bytes.length
       | _ => False) := by
  intro want st s
  fun_induction recvData env.ch env.isClosed want st s with
  | case1 st s =>
    intro k fr w hs hcst hwant hk hl hst hle hstore hflat
    obtain ⟨k, rfl⟩ : ∃ k', k = k' + 1 := ⟨k - 1, by omega⟩
    have hc : evalB env fr w.mem (.lt (.var RecvData.data_read) (.var RecvData.len)) = some false := by
      simp [evalB, evalE]; omega
    have hsg := set_getD_self _ _ hstore
    simp only [loop, hc, writeAt_nil, hsg, List.append_nil, List.length_nil, Nat.add_zero]
    exact ⟨hs, hcst, trivial, trivial, hle, Or.inl trivial, trivial, trivial⟩
  | case2 n st =>
    intro k fr w hs hcst hwant hk hl hst hle hstore hflat
    obtain ⟨k, rfl⟩ : ∃ k', k = k' + 1 := ⟨k - 1, by omega⟩
    have hc : evalB env fr w.mem (.lt (.var RecvData.data_read) (.var RecvData.len)) = some true := by
      simp [evalB, evalE]; omega
    have hspec := body_spec env F fr w hl (by omega)
    rw [hst, Nat.zero_add, hwant, primRecv_nil env w _ _ _ _ hs (by omega)] at hspec
    simp only [loop, hc, hb]
    rcases hx : exec env RecvData.whileBody F fr w with ⟨c, fr', w'⟩
    rw [hx] at hspec
    have hsg := set_getD_self _ _ hstore
    cases hcl' : env.isClosed
    · simp only [hcl', Bool.false_eq_true, if_false] at hspec
      obtain ⟨a1, a2, a3⟩ := hspec
      subst a1 a2
      simp only [writeAt_nil, hsg, List.append_nil, List.length_nil, Nat.add_zero, Bool.false_eq_true, if_false]
      exact ⟨hs, hcst, trivial, trivial, hle, trivial, a3⟩
    · simp only [hcl', if_true] at hspec
      obtain ⟨a1, ⟨k1, k2⟩, a3, a4⟩ := hspec
      subst a1 a4
      simp only [writeAt_nil, hsg, List.append_nil, List.length_nil, Nat.add_zero, if_true]
      exact ⟨hs, hcst, trivial, trivial, hle, Or.inr trivial, a3, k2⟩
  | case3 want st c s k0 st' hnext kk chunk rest cf hne =>
    intro k fr w hs hcst hwant hk hl hst hle hstore hflat
    obtain ⟨k, rfl⟩ : ∃ k', k = k' + 1 := ⟨k - 1, by omega⟩
    have hc : evalB env fr w.mem (.lt (.var RecvData.data_read) (.var RecvData.len)) = some true := by
      simp [evalB, evalE]; omega
    have hspec := body_spec env F fr w hl (by omega)
    rw [hst, Nat.zero_add, hwant, primRecv_cons env w _ _ _ _ c s hs (by omega), hcst, hnext] at hspec
    simp only [] at hspec
    have hgt' : (((c :: s).take (clampK k0 (want + 1) (s.length + 1))).flatMap (·.fds)).length > 0 := by
      have : cf ≠ [] := hne
      exact List.length_pos_iff.mpr this
    rw [if_pos hgt'] at hspec
    simp only [loop, hc, hb]
    rcases hx : exec env RecvData.whileBody F fr w with ⟨ctl, fr', w'⟩
    rw [hx] at hspec
    obtain ⟨a1, a2, a3⟩ := hspec
    simp only [Err.into, hcl] at a1 a2 a3
    subst a1 a2
    have hsg := set_getD_self _ _ hstore
    simp only [writeAt_nil, hsg, List.length_nil, Nat.add_zero]
    exact ⟨rfl, trivial, rfl, trivial, hle, trivial, trivial, a3⟩
  | case4 want st c s k0 st' hnext kk chunk rest cf he r ih =>
    intro k fr w hs hcst hwant hk hl hst hle hstore hflat
    obtain ⟨k, rfl⟩ : ∃ k', k = k' + 1 := ⟨k - 1, by omega⟩
    have hc : evalB env fr w.mem (.lt (.var RecvData.data_read) (.var RecvData.len)) = some true := by
      simp [evalB, evalE]; omega
    have hspec := body_spec env F fr w hl (by omega)
    rw [hst, Nat.zero_add, hwant, primRecv_cons env w _ _ _ _ c s hs (by omega), hcst, hnext] at hspec
    simp only [] at hspec
    have hcfnil : cf = [] := by
      have : ¬ cf ≠ [] := he
      exact Classical.not_not.mp this
    have hle'' : ¬ (((c :: s).take (clampK k0 (want + 1) (s.length + 1))).flatMap (·.fds)).length > 0 := by
      have : cf.length = 0 := by rw [hcfnil]; rfl
      exact Nat.not_lt.mpr (Nat.le_of_eq this)
    rw [if_neg hle''] at hspec
    simp only [List.length_cons] at hk
    have hkk1 : 0 < kk := Model.Stream.clampK_pos (by omega) (by omega)
    have hkk2 : kk ≤ want + 1 := Model.Stream.clampK_le_want _ _ _
    have hkk3 : kk ≤ s.length + 1 := Model.Stream.clampK_le_avail _ _ _
    have hrl : rest.length = s.length + 1 - kk := by simp [rest, List.length_drop]
    have hcl3 : (chunk.map (·.b)).length = kk := by simp [chunk, List.length_take]; omega
    simp only [] at hspec
    simp only [loop, hc, hb]
    rcases hx : exec env RecvData.whileBody F fr w with ⟨ctl, fr', w'⟩
    rw [hx] at hspec
    obtain ⟨a1, ⟨k1, k2⟩, a3, a4⟩ := hspec
    rw [if_neg (show ¬ clampK k0 (want + 1) (s.length + 1) = 0 from by have := hkk1; simp only [kk] at this; omega)] at a1
    simp only at a1 k1 k2 a3 a4
    subst a1
    change fr'.n 1 = fr.n 1 + kk at a3
    have hm : w'.mem = w.mem.set (fr.io 0).store (writeAt (w.mem.getD (fr.io 0).store []) (fr.n 1) (chunk.map (·.b))) := by rw [a4]
    have hcl2 : w'.closed = w.closed := by rw [a4]
    have hwl : fr.n 1 + (chunk.map (·.b)).length ≤ (w.mem.getD (fr.io 0).store []).length := by rw [hcl3, hflat]; omega
    have := ih k fr' w' (by rw [a4]) (by rw [a4]) (by rw [k1, a3]; omega) (by omega)
      (by rw [k2, k1]; exact hl) (by rw [k2]; exact hst) (by rw [k1, a3]; omega)
      (by rw [k2, hm, List.length_set]; exact hstore)
      (by rw [k2, hm, getD_set_self _ _ _ hstore, length_writeAt _ _ _ hwl, k1]; exact hflat)
    simp only [k2, a3, k1, hm, hcl2, getD_set_self _ _ _ hstore, List.set_set] at this
    obtain ⟨t1, t2, t3, t4, t5, t6⟩ := this
    have hcl4 : chunk.length = kk := by simpa using hcl3
    simp only [List.length_append, List.length_map]
    refine ⟨t1, t2, t3, ?_, ?_, ?_⟩
    · rw [t4]
      have e := writeAt_writeAt (w.mem.getD (fr.io 0).store []) (fr.n 1) (chunk.map (·.b)) r.bytes hwl
      rw [hcl3] at e
      exact congrArg (w.mem.set _) e
    · rw [hcl4]; simp only [r]; omega
    · have hlq : fr.n 1 + kk + List.length (recvData env.ch env.isClosed (want + 1 - kk) st' rest).bytes
          = fr.n 1 + (chunk.length + r.bytes.length) := by rw [hcl4]; simp only [r]; omega
      rw [hlq] at t6
      rcases hres : loop (fun fr w => evalB env fr w.mem (.lt (.var RecvData.data_read) (.var RecvData.len))) body k fr' w' with ⟨c', fr'', w''⟩
      rw [hres] at t6
      exact t6


/-- the model's outcome against the number of bytes delivered -/
theorem recvData_outcome_len {σ : Type} (ch : Chooser σ) (cl : Bool) :
    ∀ (want : Nat) (st : σ) (s : List Cell),
      ((recvData ch cl want st s).outcome = .full → (recvData ch cl want st s).bytes.length = want) ∧
      ((recvData ch cl want st s).outcome = .short → (recvData ch cl want st s).bytes.length < want) := by
  intro want st s
  fun_induction recvData ch cl want st s with
  | case1 st s => simp
  | case2 n st => cases cl <;> simp
  | case3 want st c s k0 st' hnext k chunk rest cf hne => simp
  | case4 want st c s k0 st' hnext k chunk rest cf he r ih =>
    have hk1 : 0 < k := Model.Stream.clampK_pos (by omega) (by omega)
    have hk2 : k ≤ want + 1 := Model.Stream.clampK_le_want _ _ _
    have hk3 : k ≤ s.length + 1 := Model.Stream.clampK_le_avail _ _ _
    have hc : chunk.length = k := by simp [chunk, List.length_take]; omega
    simp only [List.length_append, List.length_map, hc, r]
    constructor
    · intro h; have := ih.1 h; omega
    · intro h; have := ih.2 h; omega

/-- the whole of `recv_data` (`len` = slot 0); fuel: at least one more than the stream is long.  `rbuf` is the store
allocated by the call (`w.mem.length`). -/
theorem recv_data_exec {σ : Type} (env : Env σ) (F : Nat) (fr : Frame) (w : World σ)
    (hcl : env.classify ENOBUFS = .retry) (hF : w.stream.length + 1 ≤ F) :
    let res := exec env RecvData.fnBody F fr w
    let R := recvData env.ch env.isClosed (fr.n 0) w.cst w.stream
    res.2.2.stream = R.rest ∧ res.2.2.cst = R.st ∧ res.2.2.closed = w.closed ++ R.lost ∧
    res.2.2.mem = w.mem ++ [writeAt (List.replicate (fr.n 0) 0) 0 R.bytes] ∧
    R.bytes.length ≤ fr.n 0 ∧
    (match res.1 with
     | .done (.ok v) => (R.outcome = .full ∨ R.outcome = .short) ∧
         v = { nats := [R.bytes.length], fds := none, bufs := [writeAt (List.replicate (fr.n 0) 0) 0 R.bytes] }
     | .done (.err e) => R.outcome = .enobufs ∧ e = .sock .retry ENOBUFS ∧ res.2.1.n 1 = R.bytes.length
     | .stuck .blocked => R.outcome = .blocked ∧ res.2.1.n 1 = R.bytes.length
     | _ => False) := by
  intro res R
  have hres : res = exec env (.seq (.while (.lt (.var RecvData.data_read) (.var RecvData.len)) RecvData.whileBody)
        (.ret [.var RecvData.data_read] .none [.whole RecvData.rbuf])) F
        { fr with io := upd fr.io 0 { store := w.mem.length, start := 0, lens := [fr.n 0] }, n := upd fr.n 1 0 }
        { w with mem := w.mem ++ [List.replicate (fr.n 0) 0] } := by
    simp [res, RecvData.fnBody, evalPieces, evalPiece, evalE]
  simp only [exec_seq, exec_while] at hres
  have := data_loop env F (fun fr w => exec env RecvData.whileBody F fr w) (fun _ _ => rfl) hcl (fr.n 0) w.cst w.stream F
    { fr with io := upd fr.io 0 { store := w.mem.length, start := 0, lens := [fr.n 0] }, n := upd fr.n 1 0 }
    { w with mem := w.mem ++ [List.replicate (fr.n 0) 0] } rfl rfl (by simp) hF (by simp) (by simp) (by simp) (by simp) (by simp)
  simp only [upd_apply, reduceIte, List.getD_eq_getElem?_getD, List.getElem?_concat_length, Option.getD_some,
    List.set_append_right _ _ (Nat.le_refl _), Nat.sub_self, List.set_cons_zero, Nat.zero_add, show (1 : Nat) ≠ 0 from by decide] at this
  obtain ⟨t1, t2, t3, t4, t5, t6⟩ := this
  rcases hx : loop (fun fr w => evalB env fr w.mem (.lt (.var RecvData.data_read) (.var RecvData.len)))
    (fun fr w => exec env RecvData.whileBody F fr w) F
    { fr with io := upd fr.io 0 { store := w.mem.length, start := 0, lens := [fr.n 0] }, n := upd fr.n 1 0 }
    { w with mem := w.mem ++ [List.replicate (fr.n 0) 0] } with ⟨c, fr3, w3⟩
  rw [hx] at t1 t2 t3 t4 t6 hres
  simp only at t1 t2 t3 t4 t6
  simp only [show (0 : Nat) ≠ 1 from by decide, if_false] at t5
  have hXlen : (writeAt (List.replicate (fr.n 0) 0) 0 (recvData env.ch env.isClosed (fr.n 0) w.cst w.stream).bytes).length = fr.n 0 := by
    rw [length_writeAt _ _ _ (by simpa using t5)]; simp
  cases c with
  | normal =>
    obtain ⟨u1, u2, u3⟩ := t6
    simp only [exec_ret, evalEs, evalE, evalF] at hres
    rw [hres]
    refine ⟨t1, t2, t3, t4, t5, ?_⟩
    simp only [List.map_cons, List.map_nil, evalBuf, u3, IoVal.bytes, t4, List.getD_eq_getElem?_getD, List.getElem?_concat_length,
      Option.getD_some, List.drop_zero, List.sum_cons, List.sum_nil, Nat.add_zero]
    rw [List.take_of_length_le (by rw [hXlen]; exact Nat.le_refl _)]
    exact ⟨u1, by rw [u2]⟩
  | brk => exact t6.elim
  | done rv =>
    simp only at hres
    rw [hres]
    refine ⟨t1, t2, t3, t4, t5, ?_⟩
    obtain ⟨v1, v2, v3⟩ : _ ∧ _ ∧ _ := t6
    subst v2
    exact ⟨v1, rfl, v3⟩
  | stuck sk =>
    simp only at hres
    rw [hres]
    refine ⟨t1, t2, t3, t4, t5, ?_⟩
    cases sk <;> first | exact t6.elim | exact t6

end Lemmas.ConnData
