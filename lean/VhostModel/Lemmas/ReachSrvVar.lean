import VhostModel.Lemmas.ReachSrv
/-!
# The variable-length requests: GET_CONFIG / SET_CONFIG (payload) and SET_MEM_TABLE (region list)
-/
namespace Lemmas.ReachSrv
open Base Model.Stream Model.Msgs Model.BackendSrv Lemmas.Encode Lemmas.Reach
open Model.Frontend (u64 u32 u16 regionBytes)

/-! ### config space access -/

theorem config_take (off sz cf : Nat) (pl : Bytes) :
    (u32 off ++ u32 sz ++ u32 cf ++ pl).take 12 = u32 off ++ u32 sz ++ u32 cf :=
  take_append_len _ _ 12 (by simp [u32])

theorem config_drop (off sz cf : Nat) (pl : Bytes) :
    (u32 off ++ u32 sz ++ u32 cf ++ pl).drop 12 = pl :=
  drop_append_len _ _ 12 (by simp [u32])

theorem config_len (off sz cf : Nat) (pl : Bytes) :
    (u32 off ++ u32 sz ++ u32 cf ++ pl).length = 12 + pl.length := by simp [u32]; omega

section
variable (bst : BSt) (fl : Nat) (h : HOut) (hfl : bitSet fl 2 = false)
include hfl

theorem srv_get_config (off sz cf : Nat) (pl : Bytes) (ho : off < 2^32) (hs : sz < 2^32) (hc : cf < 2^32)
    (hpl : pl.length = sz) (hmax : 12 + pl.length ≤ 0x1000) (hp : bitSet bst.ackedProto 9 = true)
    (hv : bodyValid "VhostUserConfig" (u32 off ++ u32 sz ++ u32 cf) = some true) :
    (dispatch bst ⟨24, fl, (u32 off ++ u32 sz ++ u32 cf ++ pl).length⟩ (u32 off ++ u32 sz ++ u32 cf ++ pl) none h).calls =
      [⟨"get_config", [off, sz, cf], [], []⟩] := by
  rw [dispatch_unfold 24 [.proto 9, .sizeIs .any] .getConfig rfl,
    runGuards_cons (guard_proto hp), runGuards_cons (guard_size_any (by rfl) (by exact hfl)), runGuards_nil]
  dsimp only
  obtain ⟨f1, f2, f3⟩ := dec_Config pl off sz cf ho hs hc
  have hl := config_len off sz cf pl
  have c1 : (decide ((u32 off ++ u32 sz ++ u32 cf ++ pl).length > 0x1000) || decide ((u32 off ++ u32 sz ++ u32 cf ++ pl).length < 12)) = false := by
    rw [hl]; simp; omega
  have c2 : ((u32 off ++ u32 sz ++ u32 cf ++ pl).length - 12 != sz) = false := by
    rw [hl]; simp; omega
  simp only [runAct, sz_Config, c1, config_take, hv, srv_g _ _ _ _ f1, srv_g _ _ _ _ f2, srv_g _ _ _ _ f3, c2,
    Bool.false_eq_true, if_false]
  split <;> rfl

theorem srv_set_config (off cf : Nat) (pl : Bytes) (ho : off < 2^32) (hc : cf < 2^32)
    (hmax : 12 + pl.length ≤ 0x1000) (hp : bitSet bst.ackedProto 9 = true)
    (hv : bodyValid "VhostUserConfig" (u32 off ++ u32 pl.length ++ u32 cf) = some true) :
    (dispatch bst ⟨25, fl, (u32 off ++ u32 pl.length ++ u32 cf ++ pl).length⟩ (u32 off ++ u32 pl.length ++ u32 cf ++ pl) none h).calls =
      [⟨"set_config", [off, cf], pl, []⟩] := by
  rw [dispatch_unfold 25 [.proto 9, .sizeIs .any] .setConfig rfl,
    runGuards_cons (guard_proto hp), runGuards_cons (guard_size_any (by rfl) (by exact hfl)), runGuards_nil]
  dsimp only
  obtain ⟨f1, f2, f3⟩ := dec_Config pl off pl.length cf ho (by omega) hc
  have hl := config_len off pl.length cf pl
  have c1 : (decide ((u32 off ++ u32 pl.length ++ u32 cf ++ pl).length > 0x1000) ||
      decide ((u32 off ++ u32 pl.length ++ u32 cf ++ pl).length < 12)) = false := by
    rw [hl]; simp; omega
  have c2 : ((u32 off ++ u32 pl.length ++ u32 cf ++ pl).length - 12 != pl.length) = false := by
    rw [hl]; simp
  simp only [runAct, sz_Config, c1, config_take, config_drop, hv, srv_g _ _ _ _ f1, srv_g _ _ _ _ f2, srv_g _ _ _ _ f3, c2,
    Bool.false_eq_true, if_false]

end

/-! ### the memory table -/

/-- the four numbers of a region as the handler receives them -/
def regionArgs (r : Nat × Nat × Nat × Nat × Bool) : List Nat := [r.1, r.2.1, r.2.2.1, r.2.2.2.1]

def regionInRange (r : Nat × Nat × Nat × Nat × Bool) : Bool :=
  decide (r.1 < 2^64) && decide (r.2.1 < 2^64) && decide (r.2.2.1 < 2^64) && decide (r.2.2.2.1 < 2^64)

theorem regionBytes_length (r : Nat × Nat × Nat × Nat × Bool) : (regionBytes r).length = 32 := by
  simp [regionBytes, u64]

theorem flatMap_regionBytes_length (rs : List (Nat × Nat × Nat × Nat × Bool)) :
    (rs.flatMap regionBytes).length = 32 * rs.length := by
  induction rs with
  | nil => rfl
  | cons r rs ih => simp only [List.flatMap_cons, List.length_append, regionBytes_length, ih, List.length_cons]; omega

/-- the server's slicing of the body recovers the encoded regions one by one -/
theorem regionsOf_enc (rs : List (Nat × Nat × Nat × Nat × Bool)) : ∀ (pre : Bytes) (off : Nat), pre.length = off →
    regionsOf (pre ++ rs.flatMap regionBytes) rs.length off = rs.map regionBytes := by
  induction rs with
  | nil => intro pre off _; rfl
  | cons r rs ih =>
    intro pre off hpre
    simp only [List.flatMap_cons, List.length_cons, regionsOf, List.map_cons]
    congr 1
    · have := slice_mid' pre (regionBytes r) (rs.flatMap regionBytes) off 32 hpre (regionBytes_length r)
      simpa [List.append_assoc] using this
    · have := ih (pre ++ regionBytes r) (off + 32) (by simp [regionBytes_length, hpre])
      simpa [List.append_assoc] using this

theorem region_args (r : Nat × Nat × Nat × Nat × Bool) (hr : regionInRange r = true) :
    [g (regionBytes r) "VhostUserMemoryRegion" ["guest_phys_addr"], g (regionBytes r) "VhostUserMemoryRegion" ["memory_size"],
     g (regionBytes r) "VhostUserMemoryRegion" ["user_addr"], g (regionBytes r) "VhostUserMemoryRegion" ["mmap_offset"]] =
    regionArgs r := by
  simp only [regionInRange, Bool.and_eq_true, decide_eq_true_eq] at hr
  obtain ⟨⟨⟨h1, h2⟩, h3⟩, h4⟩ := hr
  obtain ⟨f1, f2, f3, f4⟩ := dec_Region [] r.1 r.2.1 r.2.2.1 r.2.2.2.1 h1 h2 h3 h4
  simp only [List.append_nil] at f1 f2 f3 f4
  simp only [regionBytes, regionArgs, srv_g _ _ _ _ f1, srv_g _ _ _ _ f2, srv_g _ _ _ _ f3, srv_g _ _ _ _ f4]

theorem regions_args (rs : List (Nat × Nat × Nat × Nat × Bool)) (hr : rs.all regionInRange = true) :
    (rs.map regionBytes).flatMap (fun r =>
      [g r "VhostUserMemoryRegion" ["guest_phys_addr"], g r "VhostUserMemoryRegion" ["memory_size"],
       g r "VhostUserMemoryRegion" ["user_addr"], g r "VhostUserMemoryRegion" ["mmap_offset"]]) = rs.flatMap regionArgs := by
  induction rs with
  | nil => rfl
  | cons r rs ih =>
    simp only [List.all_cons, Bool.and_eq_true] at hr
    simp only [List.map_cons, List.flatMap_cons, ih hr.2, region_args r hr.1]

/-- the header of the table (`num_regions`, zero padding) passes its generated validator for 1‥32 regions -/
theorem memory_header_valid : ∀ n, n < 33 → 1 ≤ n →
    Gen.VhostUserMemory.isValid ⟨bv 32 n, bv 32 0⟩ = true := by decide

theorem bodyValid_Memory (n : Nat) (h1 : 1 ≤ n) (h32 : n ≤ 32) : bodyValid "VhostUserMemory" (u32 n ++ u32 0) = some true := by
  obtain ⟨f1, f2⟩ := dec_Memory [] n 0 (by omega) (by omega)
  simp only [List.append_nil] at f1 f2
  have hl : (u32 n ++ u32 0).length = 8 := by simp [u32]
  simp [bodyValid, decMemory, sz_Memory, hl, f1, f2, memory_header_valid n (by omega) h1]

section
variable (bst : BSt) (fl : Nat) (h : HOut) (hfl : bitSet fl 2 = false)
include hfl

theorem srv_set_mem_table (rs : List (Nat × Nat × Nat × Nat × Bool)) (fds : List Fd) (h1 : 1 ≤ rs.length) (h32 : rs.length ≤ 32)
    (hr : rs.all regionInRange = true) (hfd : fds.length = rs.length)
    (hv : (rs.map regionBytes).all (fun r => bodyValid "VhostUserMemoryRegion" r == some true) = true) :
    (dispatch bst ⟨5, fl, (u32 rs.length ++ u32 0 ++ rs.flatMap regionBytes).length⟩
      (u32 rs.length ++ u32 0 ++ rs.flatMap regionBytes) (some fds) h).calls =
      [⟨"set_mem_table", rs.flatMap regionArgs, [], fds⟩] := by
  rw [dispatch_unfold 5 [] .memTable rfl, runGuards_nil]
  dsimp only
  have hl : (u32 rs.length ++ u32 0 ++ rs.flatMap regionBytes).length = 8 + rs.length * 32 := by
    simp only [List.length_append, u32, leBytes_length, flatMap_regionBytes_length]; omega
  have hcs : checkSize ⟨5, fl, (u32 rs.length ++ u32 0 ++ rs.flatMap regionBytes).length⟩
      (u32 rs.length ++ u32 0 ++ rs.flatMap regionBytes).length (u32 rs.length ++ u32 0 ++ rs.flatMap regionBytes).length = true :=
    checkSize_ok _ _ _ rfl rfl hfl
  have htake : (u32 rs.length ++ u32 0 ++ rs.flatMap regionBytes).take 8 = u32 rs.length ++ u32 0 :=
    take_append_len _ _ 8 (by simp [u32])
  obtain ⟨f1, _⟩ := dec_Memory (rs.flatMap regionBytes) rs.length 0 (by omega) (by omega)
  have hregs := regionsOf_enc rs (u32 rs.length ++ u32 0) 8 (by simp [u32])
  have c1 : ¬ (u32 rs.length ++ u32 0 ++ rs.flatMap regionBytes).length < 8 := by
    rw [hl]; omega
  have c2 : ((u32 rs.length ++ u32 0 ++ rs.flatMap regionBytes).length != 8 + rs.length * 32) = false := by
    rw [hl]; simp
  have c3 : (fds.length != rs.length) = false := by simp [hfd]
  have hargs := regions_args rs hr
  simp only [runAct, hcs, sz_Memory, sz_Region, if_neg c1, htake, bodyValid_Memory rs.length h1 h32, srv_g _ _ _ _ f1, c2, c3, hregs, hv,
    hargs, Bool.not_true, Bool.false_eq_true, if_false, if_true]

end
/-! ### SET_INFLIGHT_FD: the frontend's own check implies the server's validator -/

theorem bodyValid_Inflight (ms mo nq qs : Nat) (h1 : ms < 2^64) (h2 : mo < 2^64) (h3 : nq < 2^16) (h4 : qs < 2^16)
    (hn : nq ≠ 0) (hq : qs ≠ 0) :
    bodyValid "VhostUserInflight" (u64 ms ++ u64 mo ++ u16 nq ++ u16 qs ++ [0, 0, 0, 0]) = some true := by
  obtain ⟨f1, f2, f3, f4⟩ := dec_Inflight [0, 0, 0, 0] ms mo nq qs h1 h2 h3 h4
  have hl : (u64 ms ++ u64 mo ++ u16 nq ++ u16 qs ++ [0, 0, 0, 0]).length = 24 := by simp [u64, u16]
  have e1 : ¬ bv 16 nq = 0x0#16 := by
    intro e; have := congrArg BitVec.toNat e; simp [bv] at this; omega
  have e2 : ¬ bv 16 qs = 0x0#16 := by
    intro e; have := congrArg BitVec.toNat e; simp [bv] at this; omega
  generalize (u64 ms ++ u64 mo ++ u16 nq ++ u16 qs ++ [0, 0, 0, 0]) = b at *
  simp [bodyValid, decInflight, sz_Inflight, hl, f1, f2, f3, f4, Gen.VhostUserInflight.isValid]
  exact ⟨e1, e2⟩

end Lemmas.ReachSrv
