import VhostModel.Lemmas.ConnSub
import VhostModel.Props.C08
import VhostModel.Props.C09

set_option linter.unusedSimpArgs false
set_option linter.unusedVariables false
namespace Lemmas.ConnRecv
open Imp Gen.ConnLoops Model.Endpoint Lemmas.ConnSub
open Model.Stream (Cell Chooser clampK recvAll recvData RecvAll RecvData)

/-- `Option<Vec<File>>` as `recv_into_iovec` builds it: `None` for no descriptor -/
def optOf (l : List Fd) : Option (List Fd) := if l.isEmpty then none else some l

/-- what an iteration leaves alone: `data_total`, `iov_lens`, `iovs` -/
def Keep (fr fr' : Frame) : Prop := fr'.n 1 = fr.n 1 ∧ fr'.l 0 = fr.l 0 ∧ fr'.io 0 = fr.io 0

section body
variable {σ : Type} (env : Env σ) (F : Nat) (fr : Frame) (w : World σ)

/-- one iteration of the loop of `recv_into_iovec_all`, by the outcome of the `recv_with_fds` it performs -/
theorem body_spec (hl : fr.l 0 = (fr.io 0).lens) (hp : fr.n 0 < (fr.io 0).lens.sum) :
    match primRecv env w (fr.io 0).store ((fr.io 0).start + fr.n 0) ((fr.io 0).lens.sum - fr.n 0) 32 with
    | none =>
      (exec env RecvIntoIovecAll.whileBody F fr w).1 = .stuck .blocked ∧ (exec env RecvIntoIovecAll.whileBody F fr w).2.2 = w ∧
      (exec env RecvIntoIovecAll.whileBody F fr w).2.1.n 0 = fr.n 0 ∧ (exec env RecvIntoIovecAll.whileBody F fr w).2.1.f 0 = fr.f 0
    | some (.ok ⟨[n], fo, _⟩, w') =>
      if n = 0 then
        (exec env RecvIntoIovecAll.whileBody F fr w).1 = .done (.ok { nats := [fr.n 0], fds := fr.f 0 }) ∧
        (exec env RecvIntoIovecAll.whileBody F fr w).2.2 = { w' with closed := w'.closed ++ fo.getD [] }
      else
        (exec env RecvIntoIovecAll.whileBody F fr w).1 = .normal ∧ Keep fr (exec env RecvIntoIovecAll.whileBody F fr w).2.1 ∧
        (exec env RecvIntoIovecAll.whileBody F fr w).2.1.n 0 = fr.n 0 + n ∧
        (exec env RecvIntoIovecAll.whileBody F fr w).2.1.f 0 = (if fr.n 0 = 0 then fo else fr.f 0) ∧
        (exec env RecvIntoIovecAll.whileBody F fr w).2.2 =
          { w' with closed := w'.closed ++ (if fr.n 0 = 0 then (fr.f 0).getD [] else fo.getD []) }
    | some (.err (.errno e), w') =>
      if env.classify e = .retry then
        (exec env RecvIntoIovecAll.whileBody F fr w).1 = .normal ∧ Keep fr (exec env RecvIntoIovecAll.whileBody F fr w).2.1 ∧
        (exec env RecvIntoIovecAll.whileBody F fr w).2.1.n 0 = fr.n 0 ∧ (exec env RecvIntoIovecAll.whileBody F fr w).2.1.f 0 = fr.f 0 ∧
        (exec env RecvIntoIovecAll.whileBody F fr w).2.2 = w'
      else True
    | _ => True := by
  obtain ⟨_, hq1, hq2, hq3⟩ := Props.C08.sub_iovs_offset_correct (fr.io 0).lens (fr.n 0) 0 hp
  simp only [Nat.sub_zero] at hq1 hq2 hq3
  have hsum := suffix_sum (fr.io 0).lens _ _ hq1 (Nat.le_of_lt hq2)
  rw [hq3] at hsum
  have hcall := exec_call_gsio env "get_sub_iovs_offset" (.var RecvIntoIovecAll.data_read) RecvIntoIovecAll.iov_lens RecvIntoIovecAll.r_nr_skip F fr w
  simp only [evalE, hl] at hcall
  generalize (subIovsOffset (fr.io 0).lens (fr.n 0) 0).1 = q1 at *
  generalize (subIovsOffset (fr.io 0).lens (fr.n 0) 0).2 = q2 at *
  have hq2' : q2 ≤ (fr.io 0).lens[q1] := by
    have := Nat.le_of_lt hq2
    simpa [List.getD_eq_getElem?_getD, hq1] using this
  simp only [List.getD_eq_getElem?_getD, List.getElem?_eq_getElem hq1, Option.getD_some, List.sum_cons] at hsum
  have hexec : exec env RecvIntoIovecAll.whileBody F fr w = exec env RecvIntoIovecAll.whileBody F fr w := rfl
  conv at hexec => rhs; simp [RecvIntoIovecAll.whileBody, hcall, exec_matchResult, exec_matchErr, evalE, evalB, evalIo, evalF, hq1, hq2', hsum, hq3]
  rcases hpr : primRecv env w (fr.io 0).store ((fr.io 0).start + fr.n 0) ((fr.io 0).lens.sum - fr.n 0) 32 with _ | ⟨rv, w'⟩
  · rw [hpr] at hexec
    simp [hexec]
  · rw [hpr] at hexec
    rcases rv with ⟨⟨nats, fo, bufs⟩⟩ | e
    · rcases nats with _ | ⟨n, _ | ⟨n2, rest⟩⟩
      · simp
      · by_cases hn : n = 0 <;> by_cases h0 : fr.n 0 = 0 <;>
          simp [hexec, Keep, RVal.into, evalEs, evalE, hn, h0]
      · simp
    · cases e with
      | errno e =>
        by_cases hc : env.classify e = .retry
        · simp [hexec, Keep, RVal.into, Err.into, hc]
        · simp [hc]
      | _ => simp
end body

theorem optOf_getD (l : List Fd) : (optOf l).getD [] = l := by
  unfold optOf; cases l <;> simp

theorem optOf_nil : optOf [] = none := rfl

/-- loop invariant of `recv_into_iovec_all` against `recvAll` (fuel: one more than the stream is long) -/
theorem recv_loop {σ : Type} (env : Env σ) (F : Nat) (body : Frame → World σ → Res σ)
    (hb : ∀ fr w, body fr w = exec env RecvIntoIovecAll.whileBody F fr w) (hcl : env.classify ENOBUFS = .retry) :
    ∀ (want : Nat) (st : σ) (s : List Cell) (first : Bool) (k : Nat) (fr : Frame) (w : World σ),
      w.stream = s → w.cst = st → fr.n 1 - fr.n 0 = want → first = decide (fr.n 0 = 0) → s.length + 1 ≤ k →
      fr.l 0 = (fr.io 0).lens → (fr.io 0).start = 0 → fr.n 1 = (fr.io 0).lens.sum → fr.n 0 ≤ fr.n 1 →
      (fr.io 0).store < w.mem.length → (w.mem.getD (fr.io 0).store []).length = fr.n 1 →
      (fr.n 0 = 0 → fr.f 0 = none) → fr.f 0 = optOf ((fr.f 0).getD []) →
      let res := loop (fun fr w => evalB env fr w.mem (.gt (.sub (.var RecvIntoIovecAll.data_total) (.var RecvIntoIovecAll.data_read)) (.lit 0))) body k fr w
      let R := recvAll env.ch 32 env.isClosed want st s first
      res.2.2.stream = R.rest ∧ res.2.2.cst = R.st ∧ res.2.2.closed = w.closed ++ R.closed ∧
      res.2.2.mem = w.mem.set (fr.io 0).store (writeAt (w.mem.getD (fr.io 0).store []) (fr.n 0) R.bytes) ∧
      fr.n 0 + R.bytes.length ≤ fr.n 1 ∧
      (match res.1 with
       | .normal => R.outcome = .done ∧ res.2.1.n 0 = fr.n 0 + R.bytes.length ∧ res.2.1.f 0 = optOf (R.fds ++ (fr.f 0).getD [])
       | .done rv => R.outcome = .eof ∧ rv = .ok { nats := [fr.n 0 + R.bytes.length], fds := optOf (R.fds ++ (fr.f 0).getD []) }
       | .stuck .blocked => R.outcome = .blocked ∧ res.2.1.n 0 = fr.n 0 + R.bytes.length ∧ res.2.1.f 0 = optOf (R.fds ++ (fr.f 0).getD [])
       | _ => False) := by
  intro want st s first
  fun_induction recvAll env.ch 32 env.isClosed want st s first with
  | case1 first st s =>
    intro k fr w hs hcst hwant hfirst hk hl hst ht hle hstore hflat hf0 hf
    obtain ⟨k, rfl⟩ : ∃ k', k = k' + 1 := ⟨k - 1, by omega⟩
    have hc : evalB env fr w.mem (.gt (.sub (.var RecvIntoIovecAll.data_total) (.var RecvIntoIovecAll.data_read)) (.lit 0)) = some false := by
      simp [evalB, evalE, hle]; omega
    have hsg := set_getD_self _ _ hstore
    simp only [loop, hc, writeAt_nil, hsg, List.append_nil, List.length_nil, Nat.add_zero, List.nil_append]
    exact ⟨hs, hcst, trivial, trivial, hle, trivial, trivial, hf⟩
  | case2 first n st =>
    intro k fr w hs hcst hwant hfirst hk hl hst ht hle hstore hflat hf0 hf
    obtain ⟨k, rfl⟩ : ∃ k', k = k' + 1 := ⟨k - 1, by omega⟩
    have hc : evalB env fr w.mem (.gt (.sub (.var RecvIntoIovecAll.data_total) (.var RecvIntoIovecAll.data_read)) (.lit 0)) = some true := by
      simp [evalB, evalE, hle]; omega
    have hp : fr.n 0 < (fr.io 0).lens.sum := by omega
    have hspec := body_spec env F fr w hl hp
    rw [hst, Nat.zero_add, ← ht, hwant, primRecv_nil env w _ _ _ _ hs (by omega)] at hspec
    simp only [loop, hc, hb]
    rcases hx : exec env RecvIntoIovecAll.whileBody F fr w with ⟨c, fr', w'⟩
    rw [hx] at hspec
    cases hcl' : env.isClosed
    · simp only [hcl', Bool.false_eq_true, if_false] at hspec
      obtain ⟨a1, a2, a3, a4⟩ := hspec
      subst a1 a2
      have hsg := set_getD_self _ _ hstore
      simp only [writeAt_nil, hsg, List.append_nil, List.length_nil, Nat.add_zero, List.nil_append, Bool.false_eq_true, if_false]
      exact ⟨hs, hcst, trivial, trivial, hle, trivial, a3, by rw [a4]; exact hf⟩
    · simp only [hcl', if_true] at hspec
      obtain ⟨a1, a2⟩ := hspec
      subst a1 a2
      have hsg := set_getD_self _ _ hstore
      simp only [writeAt_nil, hsg, List.append_nil, List.length_nil, Nat.add_zero, List.nil_append, if_true, Option.getD_none]
      exact ⟨hs, hcst, trivial, trivial, hle, trivial, by rw [← hf]⟩
  | case3 want st c s first k0 st' hnext kk chunk rest cf hgt r ih =>
    intro k fr w hs hcst hwant hfirst hk hl hst ht hle hstore hflat hf0 hf
    obtain ⟨k, rfl⟩ : ∃ k', k = k' + 1 := ⟨k - 1, by omega⟩
    have hc : evalB env fr w.mem (.gt (.sub (.var RecvIntoIovecAll.data_total) (.var RecvIntoIovecAll.data_read)) (.lit 0)) = some true := by
      simp [evalB, evalE, hle]; omega
    have hp : fr.n 0 < (fr.io 0).lens.sum := by omega
    have hspec := body_spec env F fr w hl hp
    rw [hst, Nat.zero_add, ← ht, hwant, primRecv_cons env w _ _ _ _ c s hs (by omega), hcst, hnext] at hspec
    simp only [] at hspec
    have hgt' : (((c :: s).take (clampK k0 (want + 1) (s.length + 1))).flatMap (·.fds)).length > 32 := hgt
    rw [if_pos hgt'] at hspec
    simp only [hcl, if_true] at hspec
    simp only [loop, hc, hb]
    rcases hx : exec env RecvIntoIovecAll.whileBody F fr w with ⟨ctl, fr', w'⟩
    rw [hx] at hspec
    obtain ⟨a1, ⟨k1, k2, k3⟩, a3, a4, a5⟩ := hspec
    simp only at a1 k1 k2 k3 a3 a4 a5
    subst a1
    simp only [List.length_cons] at hk
    have hkk1 : 0 < kk := Model.Stream.clampK_pos (by omega) (by omega)
    have hrl : rest.length = s.length + 1 - kk := by simp [rest, List.length_drop]
    have := ih k fr' w' (by rw [a5]) (by rw [a5]) (by rw [k1, a3]; exact hwant) (by rw [a3]; exact hfirst) (by omega)
      (by rw [k2, k3]; exact hl) (by rw [k3]; exact hst) (by rw [k1, k3]; exact ht) (by rw [k1, a3]; exact hle)
      (by rw [k3, a5]; exact hstore) (by rw [k3, a5, k1]; exact hflat) (by rw [a3, a4]; exact hf0) (by rw [a4]; exact hf)
    have hm : w'.mem = w.mem := by rw [a5]
    have hcl2 : w'.closed = w.closed ++ cf := by rw [a5]
    simp only [k3, a3, a4, k1, hm, hcl2] at this
    obtain ⟨t1, t2, t3, t4, t5, t6⟩ := this
    refine ⟨t1, t2, ?_, t4, t5, t6⟩
    rw [t3, List.append_assoc]
  | case4 want st c s first k0 st' hnext kk chunk rest cf hle' r ih =>
    intro k fr w hs hcst hwant hfirst hk hl hst ht hle hstore hflat hf0 hf
    obtain ⟨k, rfl⟩ : ∃ k', k = k' + 1 := ⟨k - 1, by omega⟩
    have hc : evalB env fr w.mem (.gt (.sub (.var RecvIntoIovecAll.data_total) (.var RecvIntoIovecAll.data_read)) (.lit 0)) = some true := by
      simp [evalB, evalE, hle]; omega
    have hp : fr.n 0 < (fr.io 0).lens.sum := by omega
    have hspec := body_spec env F fr w hl hp
    rw [hst, Nat.zero_add, ← ht, hwant, primRecv_cons env w _ _ _ _ c s hs (by omega), hcst, hnext] at hspec
    simp only [] at hspec
    have hle'' : ¬ (((c :: s).take (clampK k0 (want + 1) (s.length + 1))).flatMap (·.fds)).length > 32 := hle'
    rw [if_neg hle''] at hspec
    simp only [List.length_cons] at hk
    have hkk1 : 0 < kk := Model.Stream.clampK_pos (by omega) (by omega)
    have hkk2 : kk ≤ want + 1 := Model.Stream.clampK_le_want _ _ _
    have hkk3 : kk ≤ s.length + 1 := Model.Stream.clampK_le_avail _ _ _
    have hrl : rest.length = s.length + 1 - kk := by simp [rest, List.length_drop]
    have hcl3 : (chunk.map (·.b)).length = kk := by simp [chunk, List.length_take]; omega
    simp only [] at hspec
    rw [if_neg (show ¬ clampK k0 (want + 1) (s.length + 1) = 0 from by have := hkk1; simp only [kk] at this; omega)] at hspec
    simp only [loop, hc, hb]
    rcases hx : exec env RecvIntoIovecAll.whileBody F fr w with ⟨ctl, fr', w'⟩
    rw [hx] at hspec
    obtain ⟨a1, ⟨k1, k2, k3⟩, a3, a4, a5⟩ := hspec
    simp only at a1 k1 k2 k3 a3 a4 a5
    subst a1
    have hfo : (if cf.isEmpty then none else some cf) = optOf cf := rfl
    change fr'.n 0 = fr.n 0 + kk at a3
    change fr'.f 0 = (if fr.n 0 = 0 then optOf cf else fr.f 0) at a4
    have hm : w'.mem = w.mem.set (fr.io 0).store (writeAt (w.mem.getD (fr.io 0).store []) (fr.n 0) (chunk.map (·.b))) := by rw [a5]
    have hcl2 : w'.closed = w.closed ++ (if fr.n 0 = 0 then (fr.f 0).getD [] else cf) := by
      rw [a5]
      by_cases h0 : fr.n 0 = 0
      · simp only [h0, if_true]
      · simp only [h0, if_false]; rw [hfo, optOf_getD]
    have hwl : fr.n 0 + (chunk.map (·.b)).length ≤ (w.mem.getD (fr.io 0).store []).length := by rw [hcl3, hflat]; omega
    have := ih k fr' w' (by rw [a5]) (by rw [a5]) (by rw [k1, a3]; omega) (by rw [a3]; simp; omega) (by omega)
      (by rw [k2, k3]; exact hl) (by rw [k3]; exact hst) (by rw [k1, k3]; exact ht) (by rw [k1, a3]; omega)
      (by rw [k3, hm, List.length_set]; exact hstore)
      (by rw [k3, hm, getD_set_self _ _ _ hstore, length_writeAt _ _ _ hwl, k1]; exact hflat)
      (by rw [a3]; omega) (by rw [a4]; split <;> first | rw [optOf_getD] | exact hf)
    have hrf := Props.C09.recvAll_fds_nil_of_not_first env.ch 32 env.isClosed (want + 1 - kk) st' rest false rfl
    simp only [k3, a3, a4, k1, hm, hcl2, getD_set_self _ _ _ hstore, List.set_set] at this
    obtain ⟨t1, t2, t3, t4, t5, t6⟩ := this
    simp only [List.length_append, List.length_map] at t5 t6 ⊢
    have hcl4 : chunk.length = kk := by simpa using hcl3
    refine ⟨t1, t2, ?_, ?_, ?_, ?_⟩
    · rw [t3, List.append_assoc]
      by_cases h0 : fr.n 0 = 0
      · simp [h0, hf0 h0, hfirst]; rfl
      · simp [h0, hfirst]; rfl
    · rw [t4]
      have e := writeAt_writeAt (w.mem.getD (fr.io 0).store []) (fr.n 0) (chunk.map (·.b)) r.bytes hwl
      rw [hcl3] at e
      exact congrArg (w.mem.set _) e
    · rw [hcl4]; simp only [r]; omega
    · have hfd : optOf ((recvAll env.ch 32 env.isClosed (want + 1 - kk) st' rest false).fds ++
            (if fr.n 0 = 0 then optOf cf else fr.f 0).getD []) = optOf ((if first = true then cf else r.fds) ++ (fr.f 0).getD []) := by
        rw [hrf]
        by_cases h0 : fr.n 0 = 0
        · simp [h0, hf0 h0, hfirst, optOf_getD]
        · simp [h0, hfirst]
      have hlq : fr.n 0 + kk + List.length (recvAll env.ch 32 env.isClosed (want + 1 - kk) st' rest false).bytes
          = fr.n 0 + (chunk.length + r.bytes.length) := by rw [hcl4]; simp only [r]; omega
      rw [hfd, hlq] at t6
      rcases hres : loop (fun fr w => evalB env fr w.mem (.gt (.sub (.var RecvIntoIovecAll.data_total) (.var RecvIntoIovecAll.data_read)) (.lit 0))) body k fr' w' with ⟨c', fr'', w''⟩
      rw [hres] at t6
      exact t6


/-- the model's outcome against the number of bytes delivered -/
theorem recvAll_outcome_len {σ : Type} (ch : Chooser σ) (cap : Nat) (cl : Bool) :
    ∀ (want : Nat) (st : σ) (s : List Cell) (first : Bool),
      ((recvAll ch cap cl want st s first).outcome = .done → (recvAll ch cap cl want st s first).bytes.length = want) ∧
      ((recvAll ch cap cl want st s first).outcome ≠ .done → (recvAll ch cap cl want st s first).bytes.length < want) := by
  intro want st s first
  fun_induction recvAll ch cap cl want st s first with
  | case1 first st s => simp
  | case2 first n st => cases cl <;> simp
  | case3 want st c s first k0 st' hnext k chunk rest cf hgt r ih => exact ih
  | case4 want st c s first k0 st' hnext k chunk rest cf hle r ih =>
    have hk1 : 0 < k := Model.Stream.clampK_pos (by omega) (by omega)
    have hk2 : k ≤ want + 1 := Model.Stream.clampK_le_want _ _ _
    have hk3 : k ≤ s.length + 1 := Model.Stream.clampK_le_avail _ _ _
    have hc : chunk.length = k := by simp [chunk, List.length_take]; omega
    simp only [List.length_append, List.length_map, hc, r]
    constructor
    · intro h; have := ih.1 h; omega
    · intro h; have := ih.2 h; omega

theorem forBody_exec {σ : Type} (env : Env σ) (F : Nat) (fr : Frame) (w : World σ) :
    exec env RecvIntoIovecAll.forBody F fr w = (.normal, { fr with n := upd fr.n 1 (fr.n 1 + fr.n 2) }, w) := by
  simp [RecvIntoIovecAll.forBody, evalE]

/-- the whole of `recv_into_iovec_all` (`iovs` = iovec slot 0, a view from offset 0 of a store exactly as long as the
iovecs); fuel: at least one more than the stream is long -/
theorem recv_into_iovec_all_exec {σ : Type} (env : Env σ) (F : Nat) (fr : Frame) (w : World σ)
    (hcl : env.classify ENOBUFS = .retry) (hF : w.stream.length + 1 ≤ F) (hst : (fr.io 0).start = 0)
    (hstore : (fr.io 0).store < w.mem.length) (hflat : (w.mem.getD (fr.io 0).store []).length = (fr.io 0).lens.sum) :
    let res := exec env RecvIntoIovecAll.fnBody F fr w
    let R := recvAll env.ch 32 env.isClosed (fr.io 0).lens.sum w.cst w.stream true
    res.2.2.stream = R.rest ∧ res.2.2.cst = R.st ∧ res.2.2.closed = w.closed ++ R.closed ∧
    res.2.2.mem = w.mem.set (fr.io 0).store (writeAt (w.mem.getD (fr.io 0).store []) 0 R.bytes) ∧
    R.bytes.length ≤ (fr.io 0).lens.sum ∧
    (match res.1 with
     | .done rv => R.outcome ≠ .blocked ∧ rv = .ok { nats := [R.bytes.length], fds := optOf R.fds }
     | .stuck .blocked => R.outcome = .blocked ∧ res.2.1.n 0 = R.bytes.length ∧ res.2.1.f 0 = optOf R.fds
     | _ => False) := by
  intro res R
  obtain ⟨fr2, hfl, g1, g2, g3, g4, g5, g6, g7⟩ := forLoop_sum (fun fr w => exec env RecvIntoIovecAll.forBody F fr w) (forBody_exec env F) w
    (fr.io 0).lens { fr with n := upd (upd fr.n 0 0) 1 0, l := upd fr.l 0 (fr.io 0).lens, f := upd fr.f 0 none }
  have hres : res = exec env (.seq (.while (.gt (.sub (.var RecvIntoIovecAll.data_total) (.var RecvIntoIovecAll.data_read)) (.lit 0)) RecvIntoIovecAll.whileBody)
        (.ret [.var RecvIntoIovecAll.data_read] (.move RecvIntoIovecAll.rfds) [])) F fr2 w := by
    simp only [res, RecvIntoIovecAll.fnBody, exec_seq, exec_assign, exec_assignL, exec_assignF, evalF, evalE, evalL, exec_forIn,
      upd_apply, reduceIte, hfl]
  simp only [exec_seq, exec_while] at hres
  have h0 : fr2.n 0 = 0 := by rw [g2 0 (by decide) (by decide)]; simp
  have h1 : fr2.n 1 = (fr.io 0).lens.sum := by rw [g1]; simp
  have h2 : fr2.l 0 = (fr.io 0).lens := by rw [g3]; simp
  have h3 : fr2.io 0 = fr.io 0 := by rw [g5]
  have h4 : fr2.f 0 = none := by rw [g4]; simp
  have := recv_loop env F (fun fr w => exec env RecvIntoIovecAll.whileBody F fr w) (fun _ _ => rfl) hcl
    (fr.io 0).lens.sum w.cst w.stream true F fr2 w rfl rfl (by rw [h1, h0]; rfl) (by rw [h0]; rfl) hF
    (by rw [h2, h3]) (by rw [h3]; exact hst) (by rw [h1, h3]) (by omega) (by rw [h3]; exact hstore) (by rw [h3, h1]; exact hflat)
    (fun _ => h4) (by rw [h4]; rfl)
  simp only [h0, h3, h4, Nat.zero_add, Option.getD_none, List.append_nil, h1] at this
  obtain ⟨t1, t2, t3, t4, t5, t6⟩ := this
  rcases hx : loop (fun fr w => evalB env fr w.mem (.gt (.sub (.var RecvIntoIovecAll.data_total) (.var RecvIntoIovecAll.data_read)) (.lit 0)))
    (fun fr w => exec env RecvIntoIovecAll.whileBody F fr w) F fr2 w with ⟨c, fr3, w3⟩
  rw [hx] at t1 t2 t3 t4 t6 hres
  simp only at t1 t2 t3 t4 t6
  cases c with
  | normal =>
    obtain ⟨u1, u2, u3⟩ := t6
    simp only [exec_ret, evalEs, evalE, evalF] at hres
    rw [hres]
    refine ⟨t1, t2, t3, t4, t5, ?_⟩
    simp [R, u1, u2, u3]
  | brk => exact t6.elim
  | done rv =>
    simp only at hres
    rw [hres]
    refine ⟨t1, t2, t3, t4, t5, ?_⟩
    obtain ⟨v1, v2⟩ : _ ∧ _ := t6
    simp [R, v1, v2]
  | stuck sk =>
    simp only at hres
    rw [hres]
    refine ⟨t1, t2, t3, t4, t5, ?_⟩
    cases sk <;> first | exact t6.elim | exact t6

end Lemmas.ConnRecv
