import VhostModel.Base
import VhostModel.Base.Ioctl
import VhostModel.Spec.Uapi
import VhostModel.Model.Kern
/-!
# Helper lemmas for `Props/C19.lean`

* bit-level facts (`n &&& (n-1) = 0 ↔ n` is a power of two; `x &&& 2^i ≠ 0 ↔` bit `i` of `x`)
* list/bytes facts (`peek` through appends, the cyclic write-back pattern)
* how the verdict function `Spec.Uapi.problem` decomposes (one lemma per `Expect` shape), so that a
  per-operation proof consists of: the closed form of the model's run, the closed form of the demand, and
  one `peek` fact per field
-/
namespace Lemmas.Kern
open Base Base.K

/-! ## bits -/

theorem testBit_top (x k : Nat) (h1 : 2 ^ k ≤ x) (h2 : x < 2 ^ (k + 1)) : x.testBit k = true := by
  rw [Nat.testBit_eq_decide_div_mod_eq]
  have : x / 2 ^ k = 1 := by
    apply Nat.div_eq_of_lt_le
    · simpa using h1
    · rw [Nat.pow_succ] at h2; omega
  simp [this]

/-- Rust's `(n & (n - 1)) == 0` test characterises the powers of two among the positive numbers -/
theorem and_pred_eq_zero_iff (n : Nat) (hn : 0 < n) : n &&& (n - 1) = 0 ↔ ∃ k, n = 2 ^ k := by
  constructor
  · intro h
    refine ⟨n.log2, ?_⟩
    have h1 := Nat.log2_self_le (Nat.pos_iff_ne_zero.1 hn)
    have h2 := @Nat.lt_log2_self n
    by_cases he : n = 2 ^ n.log2
    · exact he
    · exfalso
      have a := testBit_top n n.log2 h1 h2
      have b := testBit_top (n - 1) n.log2 (by omega) (by omega)
      have c : (n &&& (n - 1)).testBit n.log2 = true := by rw [Nat.testBit_and, a, b]; rfl
      rw [h] at c
      simp at c
  · rintro ⟨k, rfl⟩
    rw [Nat.and_two_pow_sub_one_eq_mod]; simp

theorem and_two_pow_ne_zero_iff (x i : Nat) : (x &&& 2 ^ i ≠ 0) ↔ x.testBit i = true := by
  constructor
  · intro h
    cases hb : x.testBit i
    · exfalso; apply h
      apply Nat.eq_of_testBit_eq; intro j
      simp [Nat.testBit_and, Nat.testBit_two_pow]; intro hx e; subst e; simp_all
    · rfl
  · intro hb h
    have := congrArg (fun v => v.testBit i) h
    simp [Nat.testBit_and, hb] at this

/-! ## bytes -/

theorem cyc_length (wb : Bytes) (n : Nat) : (cyc wb n).length = n := by
  unfold cyc; split <;> simp [zeros]

theorem peek_append_left (a b : Bytes) (off w : Nat) (h : off + w ≤ a.length) :
    peek (a ++ b) off w = peek a off w := by
  unfold peek
  rw [List.drop_append_of_le_length (by omega), List.take_append_of_le_length (by simp; omega)]

theorem leBytes_zero_eq (n : Nat) : leBytes n 0 = zeros n := by
  induction n with
  | zero => rfl
  | succ n ih => simp [leBytes, zeros, List.replicate_succ] at *; exact ih

/-! ## decomposition of the verdict -/
open Spec.Uapi

theorem problem_ioctl (i : Inp) (o : Obs) (op : String) (arg : Arg) (rs : RetSpec) (mr : Bool) (u : Ioctl)
    (want size : Nat) (bs : Bytes)
    (h1 : expect i = .ioctl op arg rs mr) (h2 : (requestFor op).bind ioctlByName = some u)
    (h3 : u.request = some want) (h4 : u.size = some size)
    (ho : o.calls = [.io want bs]) (ha : argProblem size arg bs = none)
    (hr : retProblem i size rs o.ret = none)
    (hk : (i.op == "set_backend_features") = false ∨
      o.acked = some (if i.rc = 0 then i.a.headD 0 % 2 ^ 64 else i.feat)) :
    problem i o = none := by
  unfold problem
  rw [h1]
  simp only [ho, h2, h3, h4, ha, hr]
  rcases hk with hk | hk
  · simp [hk, Option.orElse]
  · simp [hk, Option.orElse]

theorem problem_refuse (i : Inp) (o : Obs) (c : String) (h1 : expect i = .refuse) (ho : o.calls = [])
    (hr : o.ret = .err c) : problem i o = none := by
  unfold problem; rw [h1]; simp [ho, hr]

theorem problem_mayRefuse (i : Inp) (o : Obs) (op : String) (arg : Arg) (rs : RetSpec) (c : String)
    (h1 : expect i = .ioctl op arg rs true) (ho : o.calls = []) (hr : o.ret = .err c) : problem i o = none := by
  unfold problem; rw [h1]; simp [ho, hr]

theorem problem_free (i : Inp) (o : Obs) (h1 : expect i = .free) : problem i o = none := by
  unfold problem; rw [h1]

theorem argProblem_fields (size : Nat) (s : String) (fs : List (List String × Nat)) (bs : Bytes)
    (hl : bs.length = size)
    (hf : ∀ pv ∈ fs, ∃ off w, fieldAt s pv.1 = some (off, w) ∧ off + w ≤ bs.length ∧ peek bs off w = pv.2 % 256 ^ w) :
    argProblem size (.fields s fs) bs = none := by
  unfold argProblem
  simp only [hl, ne_eq, not_true_eq_false, if_false]
  rw [List.findSome?_eq_none_iff]
  intro pv hpv
  obtain ⟨off, w, h1, h2, h3⟩ := hf pv hpv
  obtain ⟨p, v⟩ := pv
  simp only at h1 h3 ⊢
  simp [h1, h3, hl ▸ h2]

/-- the leaf of an image that a UAPI member path designates -/
def leafFor (s : String) (ls : List Leaf) (p : List String) : Option Leaf :=
  (fieldAt s p).bind fun ow => ls.find? fun l => l.1 == ow.1 && l.2.1 == ow.2

/-- every demanded member is one of the image's leaves and carries the demanded value -/
def FieldsOk (s : String) (ls : List Leaf) : List (List String × Nat) → Prop
  | [] => True
  | pv :: rest => (∃ l, leafFor s ls pv.1 = some l ∧ l.2.2 % 256 ^ l.2.1 = pv.2 % 256 ^ l.2.1) ∧ FieldsOk s ls rest

theorem leafFor_spec {s : String} {ls : List Leaf} {p : List String} {l : Leaf} (h : leafFor s ls p = some l) :
    l ∈ ls ∧ fieldAt s p = some (l.1, l.2.1) := by
  unfold leafFor at h
  cases hf : fieldAt s p with
  | none => simp [hf] at h
  | some ow =>
    simp only [hf, Option.bind_some] at h
    have hm := List.mem_of_find?_eq_some h
    have hp := List.find?_some h
    simp only [Bool.and_eq_true, beq_iff_eq] at hp
    refine ⟨hm, ?_⟩
    obtain ⟨o, w⟩ := ow
    simp only at hp
    rw [hp.1, hp.2]

/-- **an image of non-overlapping leaves satisfies every demand on its members** -/
theorem argProblem_image (size : Nat) (s : String) (fs : List (List String × Nat)) (ls : List Leaf)
    (hb : ∀ l ∈ ls, l.1 + l.2.1 ≤ size) (hd : ls.Pairwise LeafDisjoint) (hf : FieldsOk s ls fs) :
    argProblem size (.fields s fs) (imageOf size ls) = none := by
  apply argProblem_fields _ _ _ _ (imageOf_length size ls hb)
  induction fs with
  | nil => intro pv h; cases h
  | cons f rest ih =>
    intro pv hpv
    obtain ⟨⟨l, hl, hv⟩, hrest⟩ := hf
    rcases List.mem_cons.1 hpv with rfl | hpv
    · obtain ⟨hm, hfa⟩ := leafFor_spec hl
      refine ⟨l.1, l.2.1, hfa, ?_, ?_⟩
      · rw [imageOf_length size ls hb]; exact hb l hm
      · rw [peek_imageOf size ls hb hd l hm, hv]
    · exact ih hrest pv hpv

theorem argProblem_scalar (size v v' : Nat) (bs : Bytes) (hl : bs.length = size)
    (hv : peek bs 0 size = v' % 256 ^ size) (hvv : v' % 256 ^ size = v % 256 ^ size) :
    argProblem size (.scalar v) bs = none := by
  unfold argProblem
  simp [hl, hv, hvv]

theorem argProblem_scalar_le (size v : Nat) : argProblem size (.scalar v) (leBytes size v) = none := by
  apply argProblem_scalar size v v _ (by simp) _ rfl
  unfold peek
  simp [List.take_of_length_le, leVal_leBytes_mod]

theorem retProblem_unit (i : Inp) (size : Nat) (c : String) :
    retProblem i size .unit (if i.rc ≠ 0 then .err c else .ok) = none := by
  unfold retProblem
  by_cases h : i.rc = 0 <;> simp [h]

open Model.Kern in
/-- what the stand-in kernel leaves in the object of a read request -/
theorem afterCall_read (i : Inp) (req : Nat) (obj : Bytes) (hd : Model.Kern.iocDir req / 2 ≠ 0) (hne : req ≠ VDPA_GET_CONFIG)
    (hs : obj.length = Model.Kern.iocSize req) (hrc : i.rc = 0) (hwb : i.wb.isEmpty = false) :
    afterCall i req obj = cyc i.wb (Model.Kern.iocSize req) := by
  unfold afterCall
  simp only [hrc, hwb, hd, hne, ne_eq, not_true_eq_false, false_or, if_false, Bool.false_eq_true]
  rw [List.take_of_length_le (by rw [cyc_length]; omega), List.drop_eq_nil_of_le (by omega), List.append_nil]

open Model.Kern in
theorem retProblem_scalar (i : Inp) (req : Nat) (obj : Bytes) (hd : Model.Kern.iocDir req / 2 ≠ 0) (hne : req ≠ VDPA_GET_CONFIG)
    (hs : obj.length = Model.Kern.iocSize req) :
    retProblem i (Model.Kern.iocSize req) .scalar (if i.rc ≠ 0 then .err "ioctl" else .okv (leVal (afterCall i req obj))) = none := by
  unfold retProblem
  by_cases h : i.rc = 0
  · simp only [h, ne_eq, not_true_eq_false, if_false]
    cases hw : i.wb.isEmpty
    · rw [afterCall_read i req obj hd hne hs h hw]; simp
    · simp
  · simp [h]

open Model.Kern in
theorem retProblem_field (i : Inp) (req : Nat) (obj : Bytes) (s f : String) (off w : Nat)
    (hd : Model.Kern.iocDir req / 2 ≠ 0) (hne : req ≠ VDPA_GET_CONFIG) (hs : obj.length = Model.Kern.iocSize req)
    (hf : fieldAt s [f] = some (off, w)) (hw : off + w ≤ Model.Kern.iocSize req) :
    retProblem i (Model.Kern.iocSize req) (.field s f) (if i.rc ≠ 0 then .err "ioctl" else .okv (peek (afterCall i req obj) off w)) = none := by
  unfold retProblem
  by_cases h : i.rc = 0
  · simp only [h, ne_eq, not_true_eq_false, if_false]
    cases hwb : i.wb.isEmpty
    · rw [afterCall_read i req obj hd hne hs h hwb]
      simp [peekField, hf, cyc_length, hw]
    · simp
  · simp [h]

end Lemmas.Kern
