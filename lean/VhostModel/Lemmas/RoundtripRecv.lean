import VhostModel.Lemmas.Wire
import VhostModel.Lemmas.Reach
import VhostModel.Props.C04
/-!
# The frontend's reply readers on the bytes of one reply `sendmsg` (frontend half of C03)

A reply is written by the server in one `sendmsg`: `segCells (header ++ body ++ payload) fds`.  For every chooser
(segmentation / arrival timing of the reply direction), open or closed stream:
* `recvBody_segCells` — `recv_body::<ty>` reassembles header and fixed body, hands over the descriptors, leaves the
  payload cells;
* `recv_ack_reply`, `recv_body_reply`, `recv_bodyFiles_reply`, `recv_bodyOptFiles_reply`, `recv_payload_reply` — the five
  readers of `Model.Frontend.recv` on a reply carrying the request's code;
* `recv_nil` — on an empty stream an awaited reply is never `ok`: the reader waits while the stream is open and
  reports an error once it is closed.
-/
namespace Lemmas.Roundtrip
open Base Model.Stream Model.Msgs Model.Frontend Lemmas.Encode Lemmas.Stream Lemmas.Wire
open Model.BackendSrv (Err Hdr bitSet encHdr replyHdr hdrNewFlags)

/-! ## bytes -/

theorem leVal_leBytes_mod (n v : Nat) : leVal (leBytes n v) = v % 256 ^ n := by
  induction n generalizing v with
  | zero => simp [leBytes, leVal, Nat.mod_one]
  | succ n ih =>
    simp only [leBytes, leVal, ih]
    have : (UInt8.ofNat (v % 256)).toNat = v % 256 := by simp [UInt8.toNat_ofNat']
    rw [this, Nat.pow_succ, Nat.mul_comm (256 ^ n) 256, Nat.mod_mul]

theorem leBytes_mod (n v : Nat) : leBytes n (v % 256 ^ n) = leBytes n v := by
  have h := leBytes_leVal (leBytes n v)
  rw [leBytes_length, leVal_leBytes_mod] at h
  exact h

/-! ## cells -/

/-- cells of bytes that follow the first byte of a `sendmsg`: no descriptors, no segment start -/
def plain (bs : Bytes) : List Cell := bs.map (fun x => ⟨x, [], false⟩)

theorem plain_fds (bs : Bytes) : ∀ c ∈ plain bs, c.fds = [] := by
  intro c hc
  simp only [plain, List.mem_map] at hc
  obtain ⟨x, _, rfl⟩ := hc
  rfl

theorem plain_map_b (bs : Bytes) : (plain bs).map (·.b) = bs := by
  simp [plain, List.map_map, Function.comp_def]

theorem plain_length (bs : Bytes) : (plain bs).length = bs.length := by simp [plain]

theorem segCells_drop (bs : Bytes) (fds : List Fd) (k : Nat) (hk : 0 < k) : (segCells bs fds).drop k = plain (bs.drop k) := by
  cases bs with
  | nil => simp [segCells, plain]
  | cons b bs =>
    obtain ⟨k', rfl⟩ : ∃ k', k = k' + 1 := ⟨k - 1, by omega⟩
    simp [segCells, plain, List.map_drop]

theorem take_fds_le (s : List Cell) (k : Nat) (htail : ∀ c ∈ s.tail, c.fds = []) :
    ((s.take k).flatMap (·.fds)).length ≤ ((s.head?.map (·.fds)).getD []).length := by
  cases s with
  | nil => simp
  | cons c t =>
    cases k with
    | zero => simp
    | succ k =>
      simp only [List.take_succ_cons, List.flatMap_cons, List.head?_cons, Option.map_some, Option.getD_some]
      have : (t.take k).flatMap (·.fds) = [] := by
        rw [List.flatMap_eq_nil_iff]; intro x hx; exact htail x (List.mem_of_mem_take hx)
      simp [this]

/-! ## `recv_body::<ty>` -/

/-- for every chooser: header (12 bytes) and fixed body arrive reassembled, the descriptors of the `sendmsg` are handed
over, whatever follows (`extra`) stays in the stream -/
theorem recvBody_segCells {σ : Type} (ch : Chooser σ) (cl : Bool) (ty : String) (n : Nat) (cst : σ)
    (hb body extra : Bytes) (fds : List Fd)
    (hty : sizeOfTy ty = some n) (hhb : hb.length = 12) (hbody : body.length = n) (hfds : fds.length ≤ 32) :
    (recvBody ch cl ty cst (segCells (hb ++ body ++ extra) fds)).rest = plain extra ∧
    (hdrValid hb = true → bodyValidTy ty body = some true →
      (recvBody ch cl ty cst (segCells (hb ++ body ++ extra) fds)).res =
        .ok ⟨parseHdr hb, body, [], if fds.isEmpty then none else some fds⟩ ∧
      (recvBody ch cl ty cst (segCells (hb ++ body ++ extra) fds)).closed = []) ∧
    ((hdrValid hb = false ∨ bodyValidTy ty body ≠ some true) →
      (recvBody ch cl ty cst (segCells (hb ++ body ++ extra) fds)).res = .err .invalidMsg) := by
  have hne : hb ++ body ++ extra ≠ [] := by
    intro e; have := congrArg List.length e; simp [hhb] at this
  have hlen : (segCells (hb ++ body ++ extra) fds).length = 12 + n + extra.length := by
    rw [segCells_length]; simp [hhb, hbody]; omega
  have htail := segCells_tail (hb ++ body ++ extra) fds
  have hhead := segCells_head (hb ++ body ++ extra) fds hne
  have hcap : (((segCells (hb ++ body ++ extra) fds).take (12 + n)).flatMap (·.fds)).length ≤ 32 :=
    Nat.le_trans (take_fds_le _ _ htail) (by rw [hhead]; exact hfds)
  obtain ⟨a1, a2, a3⟩ := recvAll_complete ch 32 cl (12 + n) cst (segCells (hb ++ body ++ extra) fds) true (by omega) hcap
  obtain ⟨a4, a5⟩ := recvAll_fds_first ch 32 cl (12 + n) cst (segCells (hb ++ body ++ extra) fds) true htail
    (by rw [hhead]; exact hfds) (by omega)
  have a5' := a5 rfl
  simp only [if_true] at a4
  rw [hhead] at a5'
  have hbytes : ((segCells (hb ++ body ++ extra) fds).take (12 + n)).map (·.b) = hb ++ body := by
    rw [map_b_take, segCells_map_b]
    exact take_append_len _ _ _ (by simp [hhb, hbody])
  rw [hbytes] at a1
  have hrest : (segCells (hb ++ body ++ extra) fds).drop (12 + n) = plain extra := by
    rw [segCells_drop _ _ _ (by omega), drop_append_len _ _ _ (by simp [hhb, hbody])]
  rw [hrest] at a2
  have htk : (hb ++ body).take 12 = hb := take_append_len _ _ 12 hhb
  have hdr : (hb ++ body).drop 12 = body := drop_append_len _ _ 12 hhb
  have hl : (hb ++ body).length = 12 + n := by simp [hhb, hbody]
  unfold recvBody
  simp only [hty, a1, a2, a3, a4, a5', hl, bne_self_eq_false, Bool.false_eq_true, if_false, htk, hdr, List.nil_append]
  refine ⟨?_, ?_, ?_⟩
  · split <;> rfl
  · intro h1 h2
    simp [h1, h2]
  · intro h
    rcases h with h | h
    · simp [h]
    · have : (bodyValidTy ty body != some true) = true := by simpa using h
      simp [this]

theorem recvBody_nil {σ : Type} (ch : Chooser σ) (cl : Bool) (ty : String) (cst : σ) :
    (recvBody ch cl ty cst []).res = .blocked ∧ cl = false ∨ ∃ e, (recvBody ch cl ty cst []).res = .err e := by
  unfold recvBody
  cases hty : sizeOfTy ty with
  | none => exact Or.inr ⟨_, rfl⟩
  | some n =>
    obtain ⟨b1, b2, b3⟩ := recvAll_short ch 32 cl (12 + n) cst [] true (by show 0 < 12 + n; omega) (by simp)
    have h0 : ((0 : Nat) != 12 + n) = true := by simp; omega
    simp only [b1, b2, b3, List.map_nil, List.length_nil, h0]
    cases cl with
    | false => left; simp
    | true => right; simp

/-! ## reply headers -/

theorem replyHdr_length (rh : Hdr) (k : Nat) : (replyHdr rh k).length = 12 := by simp [replyHdr, encHdr]

theorem hdr_isValid5 (code size : Nat) (hc : codeOkN codes code = true) (hc32 : code < 2^32) (hs : size ≤ 0x1000) :
    Gen.VhostUserMsgHeader.isValid codes ⟨bv 32 code, bv 32 5, bv 32 size⟩ = true := by
  have e1 : (bv 32 code).toNat = code := by simp [bv]; omega
  have e2 : decide ((0x1000#64) < BitVec.setWidth 64 (bv 32 size)) = false := by
    simp [bv, BitVec.lt_def]; omega
  have e3 : ((bv 32 5 &&& 0x3#32) != 0x1#32) = false ∧ ((bv 32 5 &&& 0xfffffff0#32) != 0x0#32) = false := by decide
  simp only [Gen.VhostUserMsgHeader.isValid, e1, hc, e2, e3.1, e3.2, Bool.not_true, Bool.false_eq_true, if_false]

theorem replyHdr_valid (rh : Hdr) (k : Nat) (hc : codeOkN codes rh.code = true) (hc32 : rh.code < 2^32) (hk : k ≤ 0x1000) :
    hdrValid (replyHdr rh k) = true := by
  unfold hdrValid replyHdr
  rw [show hdrNewFlags 4 = 5 from rfl, decHeader_enc rh.code 5 k hc32 (by omega) (by omega)]
  simp only [Option.map_some]
  rw [show (Gen.Codes.FrontendReq.table.map (·.2)) = codes from rfl, hdr_isValid5 rh.code k hc hc32 hk]

theorem replyHdr_parse (rh : Hdr) (k : Nat) (hc32 : rh.code < 2^32) (hk : k ≤ 0x1000) :
    parseHdr (replyHdr rh k) = ⟨rh.code, 5, k⟩ := by
  obtain ⟨d1, d2, d3⟩ := dec_Header rh.code 5 k hc32 (by omega) (by omega) []
  simp only [List.append_nil] at d1 d2 d3
  unfold parseHdr replyHdr
  rw [show hdrNewFlags 4 = 5 from rfl, d1, d2, d3]

theorem isReplyFor_reply (rh : Hdr) (k : Nat) (hc : codeOkN codes rh.code = true) (hr : rh.isReply = false) :
    isReplyFor ⟨rh.code, 5, k⟩ rh = true := by
  have hc' : (Gen.Codes.FrontendReq.table.map (·.2)).contains rh.code = true := hc
  have h5 : (⟨rh.code, 5, k⟩ : Hdr).isReply = true := by show bitSet 5 2 = true; decide
  simp only [isReplyFor, hc', hr, h5, Bool.not_false, Bool.and_true, beq_self_eq_true]

theorem bodyValidTy_of (ty : String) (bs : Bytes) (h1 : ty ≠ "VhostUserEmpty") (h2 : ty ≠ "VhostUserShMemConfig") :
    bodyValidTy ty bs = Model.BackendSrv.bodyValid ty bs := by
  simp [bodyValidTy, h1, h2]

/-- what the readers need to know about the request header -/
structure ReqOk (rh : Hdr) : Prop where
  code : codeOkN codes rh.code = true
  code32 : rh.code < 2^32
  notReply : rh.isReply = false

/-! ## the readers of `recv`, on a reply to the request -/

section
variable {σ : Type} (ch : Chooser σ) (cl : Bool) (s : FSt) (req : Req) (cst : σ)

/-- awaited acknowledgement: value 0 ⇒ accepted, anything else ⇒ `BackendInternal`; consumed entirely -/
theorem recv_ack_reply (v : Nat) (hk : req.kind = .ack) (h1 : bitSet s.ackedProto 3 = true)
    (h2 : (reqHdr s req).needReply = true) (hq : ReqOk (reqHdr s req)) (hv : v < 2^64) :
    (recv ch cl s req cst (segCells (replyHdr (reqHdr s req) 8 ++ leBytes 8 v) [])).rest = [] ∧
    (v = 0 → (recv ch cl s req cst (segCells (replyHdr (reqHdr s req) 8 ++ leBytes 8 v) [])).res =
      .ok ⟨⟨(reqHdr s req).code, 5, 8⟩, leBytes 8 0, [], none⟩) ∧
    (v ≠ 0 → (recv ch cl s req cst (segCells (replyHdr (reqHdr s req) 8 ++ leBytes 8 v) [])).res = .err .backendInternal) := by
  obtain ⟨r1, r2, _⟩ := recvBody_segCells ch cl "VhostUserU64" 8 cst (replyHdr (reqHdr s req) 8) (leBytes 8 v) [] []
    (by decide) (replyHdr_length _ _) (by simp) (by simp)
  simp only [List.append_nil] at r1 r2
  obtain ⟨r2, r3⟩ := r2 (replyHdr_valid _ 8 hq.code hq.code32 (by omega))
    (by rw [bodyValidTy_of _ _ (by decide) (by decide)]; exact Lemmas.Reach.bodyValid_U64 _ (by simp))
  rw [replyHdr_parse _ 8 hq.code32 (by omega)] at r2
  have hir := isReplyFor_reply (reqHdr s req) 8 hq.code hq.notReply
  have hlv : leVal (leBytes 8 v) = v := leVal_leBytes 8 v (by omega)
  unfold recv
  simp only [hk, h1, h2, Bool.not_true, Bool.or_self, Bool.false_eq_true, if_false, r2, hir, List.isEmpty_nil, if_true,
    Option.isSome_none, hlv]
  refine ⟨?_, ?_, ?_⟩
  · split
    · exact r1
    · exact r1
  · intro h0; subst h0; simp [r2]
  · intro h0
    have : (v != 0) = true := by simpa using h0
    simp [this]

/-- `recv_reply::<ty>`: accepted, consumed entirely -/
theorem recv_body_reply (ty : String) (n : Nat) (body : Bytes) (hk : req.kind = .body ty) (hty : sizeOfTy ty = some n)
    (hbody : body.length = n) (hn : n ≤ 0x1000) (hval : bodyValidTy ty body = some true) (hq : ReqOk (reqHdr s req)) :
    (recv ch cl s req cst (segCells (replyHdr (reqHdr s req) n ++ body) [])).rest = [] ∧
    (recv ch cl s req cst (segCells (replyHdr (reqHdr s req) n ++ body) [])).res =
      .ok ⟨⟨(reqHdr s req).code, 5, n⟩, body, [], none⟩ := by
  obtain ⟨r1, r2, _⟩ := recvBody_segCells ch cl ty n cst (replyHdr (reqHdr s req) n) body [] []
    hty (replyHdr_length _ _) hbody (by simp)
  simp only [List.append_nil] at r1 r2
  obtain ⟨r2, r3⟩ := r2 (replyHdr_valid _ n hq.code hq.code32 hn) hval
  rw [replyHdr_parse _ n hq.code32 hn] at r2
  have hir := isReplyFor_reply (reqHdr s req) n hq.code hq.notReply
  unfold recv
  simp only [hk, hq.notReply, Bool.false_eq_true, if_false, r2, hir, List.isEmpty_nil, if_true, Option.isSome_none,
    Bool.not_true, Bool.or_self]
  exact ⟨r1, trivial⟩

/-- `recv_reply_with_files::<ty>`: accepted iff descriptors came along -/
theorem recv_bodyFiles_reply (ty : String) (n : Nat) (body : Bytes) (fds : List Fd) (hk : req.kind = .bodyFiles ty)
    (hty : sizeOfTy ty = some n) (hbody : body.length = n) (hn : n ≤ 0x1000) (hval : bodyValidTy ty body = some true)
    (hq : ReqOk (reqHdr s req)) (hfds : fds.length ≤ 32) :
    (recv ch cl s req cst (segCells (replyHdr (reqHdr s req) n ++ body) fds)).rest = [] ∧
    (fds ≠ [] → (recv ch cl s req cst (segCells (replyHdr (reqHdr s req) n ++ body) fds)).res =
      .ok ⟨⟨(reqHdr s req).code, 5, n⟩, body, [], some fds⟩) ∧
    (fds = [] → (recv ch cl s req cst (segCells (replyHdr (reqHdr s req) n ++ body) fds)).res = .err .invalidMsg) := by
  obtain ⟨r1, r2, _⟩ := recvBody_segCells ch cl ty n cst (replyHdr (reqHdr s req) n) body [] fds
    hty (replyHdr_length _ _) hbody hfds
  simp only [List.append_nil] at r1 r2
  obtain ⟨r2, r3⟩ := r2 (replyHdr_valid _ n hq.code hq.code32 hn) hval
  rw [replyHdr_parse _ n hq.code32 hn] at r2
  have hir := isReplyFor_reply (reqHdr s req) n hq.code hq.notReply
  unfold recv
  simp only [hk, hq.notReply, Bool.false_eq_true, if_false, r2, hir, Bool.not_true]
  refine ⟨?_, ?_, ?_⟩
  · repeat' split
    all_goals exact r1
  · intro hne
    have : fds.isEmpty = false := by cases fds <;> simp_all
    simp [this, r2]
  · intro he; subst he; simp

/-- `recv_reply_with_optional_files::<ty>`: accepted with or without descriptors -/
theorem recv_bodyOptFiles_reply (ty : String) (n : Nat) (body : Bytes) (fds : List Fd) (hk : req.kind = .bodyOptFiles ty)
    (hty : sizeOfTy ty = some n) (hbody : body.length = n) (hn : n ≤ 0x1000) (hval : bodyValidTy ty body = some true)
    (hq : ReqOk (reqHdr s req)) (hfds : fds.length ≤ 32) :
    (recv ch cl s req cst (segCells (replyHdr (reqHdr s req) n ++ body) fds)).rest = [] ∧
    (recv ch cl s req cst (segCells (replyHdr (reqHdr s req) n ++ body) fds)).res =
      .ok ⟨⟨(reqHdr s req).code, 5, n⟩, body, [], if fds.isEmpty then none else some fds⟩ := by
  obtain ⟨r1, r2, _⟩ := recvBody_segCells ch cl ty n cst (replyHdr (reqHdr s req) n) body [] fds
    hty (replyHdr_length _ _) hbody hfds
  simp only [List.append_nil] at r1 r2
  obtain ⟨r2, r3⟩ := r2 (replyHdr_valid _ n hq.code hq.code32 hn) hval
  rw [replyHdr_parse _ n hq.code32 hn] at r2
  have hir := isReplyFor_reply (reqHdr s req) n hq.code hq.notReply
  unfold recv
  simp only [hk, hq.notReply, Bool.false_eq_true, if_false, r2, hir, Bool.not_true]
  exact ⟨r1, trivial⟩

/-- `recv_reply_with_payload::<ty>`: fixed part, then exactly the payload the reply header declares -/
theorem recv_payload_reply (ty : String) (n : Nat) (body pl : Bytes) (hk : req.kind = .payload ty)
    (hty : sizeOfTy ty = some n) (hbody : body.length = n) (hval : bodyValidTy ty body = some true)
    (hq : ReqOk (reqHdr s req)) (hsz : n < (reqHdr s req).size) (hmax : (reqHdr s req).size ≤ 0x1000)
    (hpl : n + pl.length ≤ (reqHdr s req).size) :
    (recv ch cl s req cst (segCells (replyHdr (reqHdr s req) (n + pl.length) ++ body ++ pl) [])).rest = [] ∧
    (recv ch cl s req cst (segCells (replyHdr (reqHdr s req) (n + pl.length) ++ body ++ pl) [])).res =
      .ok ⟨⟨(reqHdr s req).code, 5, n + pl.length⟩, body, pl, none⟩ := by
  obtain ⟨r1, r2, _⟩ := recvBody_segCells ch cl ty n cst (replyHdr (reqHdr s req) (n + pl.length)) body pl []
    hty (replyHdr_length _ _) hbody (by simp)
  obtain ⟨r2, r3⟩ := r2 (replyHdr_valid _ _ hq.code hq.code32 (by omega)) hval
  rw [replyHdr_parse _ _ hq.code32 (by omega)] at r2
  have hir := isReplyFor_reply (reqHdr s req) (n + pl.length) hq.code hq.notReply
  obtain ⟨d1, d2, d3, d4⟩ := recvData_complete ch cl pl.length
    (recvBody ch cl ty cst (segCells (replyHdr (reqHdr s req) (n + pl.length) ++ body ++ pl) [])).cst (plain pl)
    (by rw [plain_length]; omega) (fun c hc => plain_fds pl c (List.mem_of_mem_take hc))
  have hpre : (decide ((reqHdr s req).size ≤ n) || decide ((reqHdr s req).size > 0x1000) || (reqHdr s req).isReply) = false := by
    simp [hq.notReply]; omega
  have c1 : ¬ (n + pl.length < n) := by omega
  have c2 : ¬ (pl.length > (reqHdr s req).size - n) := by omega
  have e1 : n + pl.length - n = pl.length := by omega
  have htk : (plain pl).take pl.length = plain pl := List.take_of_length_le (by rw [plain_length]; omega)
  have hdp : (plain pl).drop pl.length = [] := List.drop_of_length_le (by rw [plain_length]; omega)
  rw [htk, plain_map_b] at d1
  rw [hdp] at d2
  unfold recv
  simp only [hk, hty, hpre, Bool.false_eq_true, if_false, r2, hir, List.isEmpty_nil, if_true, Option.isSome_none,
    Bool.not_true, Bool.or_self, if_neg c1, if_neg c2, e1, r1, d1, d2, d4]
  exact ⟨trivial, trivial⟩

end

/-! ## nothing on the stream -/

/-- is a reply or acknowledgement read after the request was written -/
def awaits (s : FSt) (req : Req) : Bool :=
  match req.kind with
  | .noWait => false
  | .ack => bitSet s.ackedProto 3 && (reqHdr s req).needReply
  | _ => true

/-- an awaited reply on an empty stream: the call waits while the stream is open, and fails once it is closed -/
theorem recv_nil {σ : Type} (ch : Chooser σ) (cl : Bool) (s : FSt) (req : Req) (cst : σ) (hw : awaits s req = true) :
    (recv ch cl s req cst []).res = .blocked ∧ cl = false ∨ ∃ e, (recv ch cl s req cst []).res = .err e := by
  have hb := fun ty => recvBody_nil ch cl ty cst
  unfold recv
  cases hk : req.kind with
  | noWait => simp [awaits, hk] at hw
  | ack =>
    simp only [awaits, hk, Bool.and_eq_true] at hw
    simp only [hw.1, hw.2, Bool.not_true, Bool.or_self, Bool.false_eq_true, if_false]
    rcases hb "VhostUserU64" with ⟨h1, h2⟩ | ⟨e, h1⟩
    · left; simp only [h1]; exact ⟨trivial, h2⟩
    · right; simp only [h1]; exact ⟨e, rfl⟩
  | body ty =>
    simp only
    split
    · right; exact ⟨_, rfl⟩
    · rcases hb ty with ⟨h1, h2⟩ | ⟨e, h1⟩
      · left; simp only [h1]; exact ⟨trivial, h2⟩
      · right; simp only [h1]; exact ⟨e, rfl⟩
  | bodyOptFiles ty =>
    simp only
    split
    · right; exact ⟨_, rfl⟩
    · rcases hb ty with ⟨h1, h2⟩ | ⟨e, h1⟩
      · left; simp only [h1]; exact ⟨trivial, h2⟩
      · right; simp only [h1]; exact ⟨e, rfl⟩
  | bodyFiles ty =>
    simp only
    split
    · right; exact ⟨_, rfl⟩
    · rcases hb ty with ⟨h1, h2⟩ | ⟨e, h1⟩
      · left; simp only [h1]; exact ⟨trivial, h2⟩
      · right; simp only [h1]; exact ⟨e, rfl⟩
  | payload ty =>
    simp only
    split
    · right; exact ⟨_, rfl⟩
    · split
      · right; exact ⟨_, rfl⟩
      · rcases hb ty with ⟨h1, h2⟩ | ⟨e, h1⟩
        · left; simp only [h1]; exact ⟨trivial, h2⟩
        · right; simp only [h1]; exact ⟨e, rfl⟩

end Lemmas.Roundtrip
