import VhostModel.Lemmas.FeRecvCalls

set_option linter.unusedSimpArgs false
set_option linter.unusedVariables false
/-!
# The reply readers of `FrontendInternal`, interpreted: `recv_reply`, `recv_reply_with_optional_files`

`ReaderSpec w sf shape M out`: the interpreter's result `out` (started in world `w`, node `sf`) is what the model's reader
result `M` says — same rest of the stream and chooser state, the node unchanged, and
* `M.res = ok r`  ⇒ the function returned `Ok(shape r)` and closed exactly `M.closed`;
* `M.res = err e` ⇒ it returned `Err(fe)` with `errMap fe = e` and closed exactly `M.closed`;
* `M.res = blocked` ⇒ it is blocked inside `connection.rs`; what it closed so far plus the descriptors held by the blocked
  activation (`rfds` of `recv_into_iovec_all`) are `M.closed`.
-/
namespace Lemmas.FeRecv
open ImpFe
open Imp (Var World upd upd_apply Stuck Fd)
open Model.Stream (Cell Chooser recvAll recvData RecvAll RecvData)
open Model.Frontend (Reply RecvOut RecvRes ReplyKind parseHdr hdrValid sizeOfTy bodyValidTy isReplyFor)
open Lemmas.ConnRecv (optOf)

/-- the common part of the readers: `self.check_state()?; let (reply, body, files) = self.main_sock.recv_body::<T>()?; rest` -/
theorem read_prefix {σ : Type} (ch : Chooser σ) (cl : Bool) (T : String) (n : Nat) (hn : sizeOfTy T = some n)
    (nm1 nm2 : String) (rcs rr reply body files : Var) (rest : FStmt)
    (F : Nat) (fr : FFrame) (sf : Self) (w : World σ) (hF : w.stream.length + 1 ≤ F) (herr : sf.error = none)
    (out : FRes σ)
    (hout : ImpFe.exec (stdEnv ch cl)
      (.seq (.callFe nm1 Gen.FeRecv.CheckState.fnBody [] [] [] rcs)
        (.seq (.matchOk rcs [] none [] none .skip (.retErr (.ofRes rcs)))
          (.seq (.callConn nm2 T Gen.ConnLoops.RecvBody.fnBody [] rr)
            (.seq (.matchOk rr [] (some files) [reply, body] none .skip (.retErr (.ofRes rr))) rest)))) F fr sf w = out)
    (R : RecvAll σ) (hR : recvAll ch 32 cl (12 + n) w.cst w.stream true = R) :
    if R.outcome = .blocked then
      out.2.2.2.stream = R.rest ∧ out.2.2.2.cst = R.st ∧ out.2.2.1 = sf ∧
      (∃ inner, out.1 = .stuck .blocked inner ∧ inner.f 0 = optOf R.fds) ∧ out.2.2.2.closed = w.closed ++ R.closed
    else if R.bytes.length ≠ 12 + n then
      out.2.2.2.stream = R.rest ∧ out.2.2.2.cst = R.st ∧ out.2.2.1 = sf ∧
      out.1 = .done (.err (.conn .partialMessage)) ∧ out.2.2.2.closed = w.closed ++ R.closed ++ R.fds
    else if (!hdrValid (R.bytes.take 12) || !(bodyValidTy T (R.bytes.drop 12) == some true)) = true then
      out.2.2.2.stream = R.rest ∧ out.2.2.2.cst = R.st ∧ out.2.2.1 = sf ∧
      out.1 = .done (.err (.conn .invalidMessage)) ∧ out.2.2.2.closed = w.closed ++ R.closed ++ R.fds
    else
      ∃ w' : World σ, w'.stream = R.rest ∧ w'.cst = R.st ∧ w'.closed = w.closed ++ R.closed ∧
        out = ImpFe.exec (stdEnv ch cl) rest F
          { fr with f := upd fr.f files.id (optOf R.fds),
                    b := upd (upd fr.b reply.id (R.bytes.take 12)) body.id (R.bytes.drop 12),
                    r := upd (upd fr.r rcs.id (.ok {})) rr.id (.ok { fds := optOf R.fds, bufs := [R.bytes.take 12, R.bytes.drop 12] }) }
          sf w' := by
  rw [exec_seq, callFe_checkState _ _ _ _ _ _ _ herr] at hout
  simp only [] at hout
  rw [exec_seq, exec_matchOk] at hout
  simp only [upd_apply, reduceIte, exec_skip, bindNs_nil, bindBs_nil] at hout
  rw [exec_seq] at hout
  rcases hx : ImpFe.exec (stdEnv ch cl) (.callConn nm2 T Gen.ConnLoops.RecvBody.fnBody [] rr) F
    { fr with r := upd fr.r rcs.id (.ok {}) } sf w with ⟨c, fr2, sf2, w2⟩
  have hB := callConn_recvBody ch cl T n hn nm2 rr F { fr with r := upd fr.r rcs.id (.ok {}) } sf w hF _ hx R hR
  rw [hx] at hout
  obtain ⟨t1, t2, t3, t4⟩ := hB
  simp only at t1 t2 t3 t4
  subst t3
  by_cases hb : R.outcome = .blocked
  · rw [if_pos hb] at t4 ⊢
    obtain ⟨⟨inner, u1, u2⟩, u3⟩ := t4
    subst u1
    simp only at hout
    subst hout
    exact ⟨t1, t2, rfl, ⟨inner, rfl, u2⟩, u3⟩
  · rw [if_neg hb] at t4 ⊢
    by_cases h1 : R.bytes.length ≠ 12 + n
    · rw [if_pos h1] at t4 ⊢
      obtain ⟨u1, u2, u3⟩ := t4
      subst u1 u2
      simp only [exec_seq, exec_matchOk, upd_apply, reduceIte, exec_retErr, evalErr, errOfR] at hout
      subst hout
      exact ⟨t1, t2, rfl, rfl, u3⟩
    · rw [if_neg h1] at t4 ⊢
      by_cases h2 : (!hdrValid (R.bytes.take 12) || !(bodyValidTy T (R.bytes.drop 12) == some true)) = true
      · rw [if_pos h2] at t4 ⊢
        obtain ⟨u1, u2, u3⟩ := t4
        subst u1 u2
        simp only [exec_seq, exec_matchOk, upd_apply, reduceIte, exec_retErr, evalErr, errOfR] at hout
        subst hout
        exact ⟨t1, t2, rfl, rfl, u3⟩
      · rw [if_neg h2] at t4 ⊢
        obtain ⟨u1, u2, u3⟩ := t4
        subst u1 u2
        simp only [exec_seq, exec_matchOk, upd_apply, reduceIte, exec_skip, bindNs_nil, bindBs_cons, bindBs_nil] at hout
        exact ⟨w2, t1, t2, u3, hout.symm⟩

open Model.BackendSrv (Err)

def errMap : FErr → Err
  | .conn .partialMessage => .partialMsg
  | .conn .invalidMessage => .invalidMsg
  | .conn .oversizedMsg => .oversized
  | .conn .incorrectFds => .incorrectFds
  | .conn .disconnected => .disconnected
  | .conn (.sock .retry _) => .sockRetry
  | .conn (.sock .broken _) => .sockBroken
  | .conn (.sock _ _) => .sockError
  | .conn (.errno _) => .other
  | .invalidParam => .invalidParam
  | .backendInternalError => .backendInternal
  | .inactiveFeature _ => .inactiveFeature
  | .inactiveOperation _ => .inactiveOperation

def ReaderSpec {σ : Type} (w : World σ) (sf : Self) (shape : Reply → FVal) (M : RecvOut σ) (out : FRes σ) : Prop :=
  out.2.2.2.stream = M.rest ∧ out.2.2.2.cst = M.cst ∧ out.2.2.1 = sf ∧
  match M.res with
  | .ok r => out.1 = .done (.ok (shape r)) ∧ out.2.2.2.closed = w.closed ++ M.closed
  | .err e => (∃ fe, out.1 = .done (.err fe) ∧ errMap fe = e) ∧ out.2.2.2.closed = w.closed ++ M.closed
  | .blocked => ∃ inner, out.1 = .stuck .blocked inner ∧ out.2.2.2.closed ++ (inner.f 0).getD [] = w.closed ++ M.closed

theorem optOf_getD (l : List Fd) : (optOf l).getD [] = l := Lemmas.ConnRecv.optOf_getD l

theorem recvH_body {σ : Type} (ch : Chooser σ) (cl : Bool) (ap : Nat) (rh : Model.BackendSrv.Hdr) (ty : String) (cst : σ) (str : List Cell) :
    recvH ch cl ap rh (.body ty) cst str =
      (if rh.isReply then ⟨.err .invalidParam, str, cst, []⟩ else
       match (Model.Frontend.recvBody ch cl ty cst str).res with
       | .ok r =>
         if !isReplyFor r.hdr rh || r.files.isSome then
           ⟨.err .invalidMsg, (Model.Frontend.recvBody ch cl ty cst str).rest, (Model.Frontend.recvBody ch cl ty cst str).cst,
             (Model.Frontend.recvBody ch cl ty cst str).closed ++ r.files.getD []⟩
         else Model.Frontend.recvBody ch cl ty cst str
       | _ => Model.Frontend.recvBody ch cl ty cst str) := rfl

theorem recv_reply_exec {σ : Type} (ch : Chooser σ) (cl : Bool) (T : String) (n : Nat) (hn : sizeOfTy T = some n) (hsz : n ≤ 0x1000)
    (F : Nat) (fr : FFrame) (sf : Self) (w : World σ) (hF : w.stream.length + 1 ≤ F) (hh : (fr.b 0).length = 12)
    (herr : sf.error = none) :
    ReaderSpec w sf (fun r => { bufs := [r.body] })
      (recvH ch cl sf.acked_protocol_features (parseHdr (fr.b 0)) (.body T) w.cst w.stream)
      (ImpFe.exec (stdEnv ch cl) (Gen.FeRecv.RecvReply.fnBody T) F fr sf w) := by
  have hc : evalC (stdEnv ch cl) fr sf (.or (.gt (.sizeOf T) (.lit 4096)) (Gen.FeRecv.Hdr.isReply Gen.FeRecv.RecvReply.hdr))
      = some (parseHdr (fr.b 0)).isReply := by
    have := evalC_isReply ch cl fr sf Gen.FeRecv.RecvReply.hdr hh
    simp only [evalC, evalX, this]
    have : ¬ (stdEnv ch cl).tySize T > 4096 := by
      show ¬ (sizeOfTy T).getD 0 > 4096
      rw [hn]; simp; omega
    simp [this]
  unfold Gen.FeRecv.RecvReply.fnBody
  rw [recvH_body, exec_seq, exec_ite, hc]
  cases hr : (parseHdr (fr.b 0)).isReply
  · simp only [exec_skip, Bool.false_eq_true, if_false]
    generalize hout : ImpFe.exec _ _ F fr sf w = out
    have hP := read_prefix ch cl T n hn _ _ _ _ _ _ _ _ F fr sf w hF herr out hout _ rfl
    rw [recvBody_eq ch cl T n w.cst w.stream hn]
    generalize recvAll ch 32 cl (12 + n) w.cst w.stream true = R at hP ⊢
    by_cases hb : R.outcome = .blocked
    · rw [if_pos hb] at hP ⊢
      obtain ⟨p1, p2, p3, ⟨inner, p4, p5⟩, p6⟩ := hP
      refine ⟨p1, p2, p3, inner, p4, ?_⟩
      rw [p6, p5, optOf_getD, List.append_assoc]
    · rw [if_neg hb] at hP ⊢
      by_cases h1 : R.bytes.length ≠ 12 + n
      · rw [if_pos h1] at hP ⊢
        obtain ⟨p1, p2, p3, p4, p6⟩ := hP
        exact ⟨p1, p2, p3, ⟨_, p4, rfl⟩, by rw [p6, List.append_assoc]⟩
      · rw [if_neg h1] at hP ⊢
        by_cases h2 : (!hdrValid (R.bytes.take 12) || !(bodyValidTy T (R.bytes.drop 12) == some true)) = true
        · rw [if_pos h2] at hP ⊢
          obtain ⟨p1, p2, p3, p4, p6⟩ := hP
          exact ⟨p1, p2, p3, ⟨_, p4, rfl⟩, by rw [p6, List.append_assoc]⟩
        · rw [if_neg h2] at hP ⊢
          obtain ⟨w', q1, q2, q3, q4⟩ := hP
          rw [q4]
          have hlen : (R.bytes.take 12).length = 12 := by
            have : R.bytes.length = 12 + n := Classical.not_not.mp h1
            simp [List.length_take]; omega
          have hv : bodyValidTy T (R.bytes.drop 12) == some true := by
            cases hx : bodyValidTy T (R.bytes.drop 12) == some true
            · simp [hx] at h2
            · rfl
          have hirf := evalC_isReplyFor ch cl
            { fr with f := upd fr.f Gen.FeRecv.RecvReply.rfds.id (optOf R.fds),
                      b := upd (upd fr.b Gen.FeRecv.RecvReply.reply.id (R.bytes.take 12)) Gen.FeRecv.RecvReply.body.id (R.bytes.drop 12),
                      r := upd (upd fr.r Gen.FeRecv.RecvReply.r_check_state.id (.ok {})) Gen.FeRecv.RecvReply.r_reply.id
                        (.ok { fds := optOf R.fds, bufs := [R.bytes.take 12, R.bytes.drop 12] }) }
            sf Gen.FeRecv.RecvReply.reply Gen.FeRecv.RecvReply.hdr (by simpa using hlen) (by simpa using hh)
          have hcd : evalC (stdEnv ch cl)
              { fr with f := upd fr.f Gen.FeRecv.RecvReply.rfds.id (optOf R.fds),
                        b := upd (upd fr.b Gen.FeRecv.RecvReply.reply.id (R.bytes.take 12)) Gen.FeRecv.RecvReply.body.id (R.bytes.drop 12),
                        r := upd (upd fr.r Gen.FeRecv.RecvReply.r_check_state.id (.ok {})) Gen.FeRecv.RecvReply.r_reply.id
                          (.ok { fds := optOf R.fds, bufs := [R.bytes.take 12, R.bytes.drop 12] }) } sf
              (.or (.or (.not (Gen.FeRecv.Hdr.isReplyFor Gen.FeRecv.RecvReply.reply Gen.FeRecv.RecvReply.hdr))
                (.fIsSome Gen.FeRecv.RecvReply.rfds)) (.not (.valid T Gen.FeRecv.RecvReply.body)))
              = some (!isReplyFor (parseHdr (R.bytes.take 12)) (parseHdr (fr.b 0)) || (optOf R.fds).isSome) := by
            have hv' : (stdEnv ch cl).tyValid T (R.bytes.drop 12) = true := hv
            simp only [evalC, hirf, Option.map_some, upd_apply]
            simp [hv']
            cases isReplyFor (parseHdr (R.bytes.take 12)) (parseHdr (fr.b 0)) <;> cases (optOf R.fds).isSome <;> rfl
          rw [exec_seq, exec_ite, hcd]
          cases hcnd : (!isReplyFor (parseHdr (R.bytes.take 12)) (parseHdr (fr.b 0)) || (optOf R.fds).isSome)
          · have hnone : (optOf R.fds) = none := by
              cases ho : optOf R.fds <;> simp_all
            simp only [hcnd, Bool.false_eq_true, if_false]
            simp only [exec_skip, exec_seq, exec_dropF, exec_ret, evalXs, evalFd, upd_apply, List.map]
            exact ⟨q1, q2, rfl, by simp, by simp [hnone, q3]⟩
          · simp only [hcnd, if_true]
            simp only [exec_seq, exec_dropF, exec_retErr, evalErr, upd_apply]
            exact ⟨q1, q2, rfl, ⟨_, rfl, rfl⟩, by simp [q3, optOf_getD, List.append_assoc]⟩
  · simp only [if_true, exec_retErr, evalErr]
    exact ⟨rfl, rfl, rfl, ⟨_, rfl, rfl⟩, by simp⟩
theorem evalC_szOrReply {σ : Type} (ch : Chooser σ) (cl : Bool) (T : String) (n : Nat) (hn : sizeOfTy T = some n) (hsz : n ≤ 0x1000)
    (fr : FFrame) (sf : Self) (v : Var) (hh : (fr.b v.id).length = 12) :
    evalC (stdEnv ch cl) fr sf (.or (.gt (.sizeOf T) (.lit 4096)) (Gen.FeRecv.Hdr.isReply v)) = some (parseHdr (fr.b v.id)).isReply := by
  have := evalC_isReply ch cl fr sf v hh
  simp only [evalC, evalX, this]
  have : ¬ (stdEnv ch cl).tySize T > 4096 := by
    show ¬ (sizeOfTy T).getD 0 > 4096
    rw [hn]; simp; omega
  simp [this]

theorem recvH_bodyOptFiles {σ : Type} (ch : Chooser σ) (cl : Bool) (ap : Nat) (rh : Model.BackendSrv.Hdr) (ty : String) (cst : σ) (str : List Cell) :
    recvH ch cl ap rh (.bodyOptFiles ty) cst str =
      (if rh.isReply then ⟨.err .invalidParam, str, cst, []⟩ else
       match (Model.Frontend.recvBody ch cl ty cst str).res with
       | .ok r =>
         if !isReplyFor r.hdr rh then
           ⟨.err .invalidMsg, (Model.Frontend.recvBody ch cl ty cst str).rest, (Model.Frontend.recvBody ch cl ty cst str).cst,
             (Model.Frontend.recvBody ch cl ty cst str).closed ++ r.files.getD []⟩
         else Model.Frontend.recvBody ch cl ty cst str
       | _ => Model.Frontend.recvBody ch cl ty cst str) := rfl

theorem recv_reply_with_optional_files_exec {σ : Type} (ch : Chooser σ) (cl : Bool) (T : String) (n : Nat) (hn : sizeOfTy T = some n)
    (hsz : n ≤ 0x1000) (F : Nat) (fr : FFrame) (sf : Self) (w : World σ) (hF : w.stream.length + 1 ≤ F)
    (hh : (fr.b 0).length = 12) (herr : sf.error = none) :
    ReaderSpec w sf (fun r => { bufs := [r.body], fds := r.files })
      (recvH ch cl sf.acked_protocol_features (parseHdr (fr.b 0)) (.bodyOptFiles T) w.cst w.stream)
      (ImpFe.exec (stdEnv ch cl) (Gen.FeRecv.RecvReplyWithOptionalFiles.fnBody T) F fr sf w) := by
  have hc := evalC_szOrReply ch cl T n hn hsz fr sf Gen.FeRecv.RecvReplyWithOptionalFiles.hdr hh
  unfold Gen.FeRecv.RecvReplyWithOptionalFiles.fnBody
  rw [recvH_bodyOptFiles, exec_seq, exec_ite, hc]
  cases hr : (parseHdr (fr.b 0)).isReply
  · simp only [exec_skip, Bool.false_eq_true, if_false]
    generalize hout : ImpFe.exec _ _ F fr sf w = out
    have hP := read_prefix ch cl T n hn _ _ _ _ _ _ _ _ F fr sf w hF herr out hout _ rfl
    rw [recvBody_eq ch cl T n w.cst w.stream hn]
    generalize recvAll ch 32 cl (12 + n) w.cst w.stream true = R at hP ⊢
    by_cases hb : R.outcome = .blocked
    · rw [if_pos hb] at hP ⊢
      obtain ⟨p1, p2, p3, ⟨inner, p4, p5⟩, p6⟩ := hP
      refine ⟨p1, p2, p3, inner, p4, ?_⟩
      rw [p6, p5, optOf_getD, List.append_assoc]
    · rw [if_neg hb] at hP ⊢
      by_cases h1 : R.bytes.length ≠ 12 + n
      · rw [if_pos h1] at hP ⊢
        obtain ⟨p1, p2, p3, p4, p6⟩ := hP
        exact ⟨p1, p2, p3, ⟨_, p4, rfl⟩, by rw [p6, List.append_assoc]⟩
      · rw [if_neg h1] at hP ⊢
        by_cases h2 : (!hdrValid (R.bytes.take 12) || !(bodyValidTy T (R.bytes.drop 12) == some true)) = true
        · rw [if_pos h2] at hP ⊢
          obtain ⟨p1, p2, p3, p4, p6⟩ := hP
          exact ⟨p1, p2, p3, ⟨_, p4, rfl⟩, by rw [p6, List.append_assoc]⟩
        · rw [if_neg h2] at hP ⊢
          obtain ⟨w', q1, q2, q3, q4⟩ := hP
          rw [q4]
          have hlen : (R.bytes.take 12).length = 12 := by
            have : R.bytes.length = 12 + n := Classical.not_not.mp h1
            simp [List.length_take]; omega
          have hv : bodyValidTy T (R.bytes.drop 12) == some true := by
            cases hx : bodyValidTy T (R.bytes.drop 12) == some true
            · simp [hx] at h2
            · rfl
          have hirf := evalC_isReplyFor ch cl
            { fr with f := upd fr.f Gen.FeRecv.RecvReplyWithOptionalFiles.files.id (optOf R.fds),
                      b := upd (upd fr.b Gen.FeRecv.RecvReplyWithOptionalFiles.reply.id (R.bytes.take 12)) Gen.FeRecv.RecvReplyWithOptionalFiles.body.id (R.bytes.drop 12),
                      r := upd (upd fr.r Gen.FeRecv.RecvReplyWithOptionalFiles.r_check_state.id (.ok {})) Gen.FeRecv.RecvReplyWithOptionalFiles.r_reply.id
                        (.ok { fds := optOf R.fds, bufs := [R.bytes.take 12, R.bytes.drop 12] }) }
            sf Gen.FeRecv.RecvReplyWithOptionalFiles.reply Gen.FeRecv.RecvReplyWithOptionalFiles.hdr (by simpa using hlen) (by simpa using hh)
          have hcd : evalC (stdEnv ch cl)
              { fr with f := upd fr.f Gen.FeRecv.RecvReplyWithOptionalFiles.files.id (optOf R.fds),
                        b := upd (upd fr.b Gen.FeRecv.RecvReplyWithOptionalFiles.reply.id (R.bytes.take 12)) Gen.FeRecv.RecvReplyWithOptionalFiles.body.id (R.bytes.drop 12),
                        r := upd (upd fr.r Gen.FeRecv.RecvReplyWithOptionalFiles.r_check_state.id (.ok {})) Gen.FeRecv.RecvReplyWithOptionalFiles.r_reply.id
                          (.ok { fds := optOf R.fds, bufs := [R.bytes.take 12, R.bytes.drop 12] }) } sf
              (.or (.not (Gen.FeRecv.Hdr.isReplyFor Gen.FeRecv.RecvReplyWithOptionalFiles.reply Gen.FeRecv.RecvReplyWithOptionalFiles.hdr))
                (.not (.valid T Gen.FeRecv.RecvReplyWithOptionalFiles.body)))
              = some (!isReplyFor (parseHdr (R.bytes.take 12)) (parseHdr (fr.b 0))) := by
            have hv' : (stdEnv ch cl).tyValid T (R.bytes.drop 12) = true := hv
            simp only [evalC, hirf, Option.map_some, upd_apply]
            simp [hv']
            cases isReplyFor (parseHdr (R.bytes.take 12)) (parseHdr (fr.b 0)) <;> rfl
          rw [exec_seq, exec_ite, hcd]
          cases hcnd : (!isReplyFor (parseHdr (R.bytes.take 12)) (parseHdr (fr.b 0)))
          · simp only [hcnd, Bool.false_eq_true, if_false]
            simp only [exec_skip, exec_seq, exec_dropF, exec_ret, evalXs, evalFd, upd_apply, List.map]
            exact ⟨q1, q2, rfl, by simp, by simp [q3]⟩
          · simp only [hcnd, if_true]
            simp only [exec_seq, exec_dropF, exec_retErr, evalErr, upd_apply]
            exact ⟨q1, q2, rfl, ⟨_, rfl, rfl⟩, by simp [q3, optOf_getD, List.append_assoc]⟩
  · simp only [if_true, exec_retErr, evalErr]
    exact ⟨rfl, rfl, rfl, ⟨_, rfl, rfl⟩, by simp⟩
end Lemmas.FeRecv
