import VhostModel.Model.Frontend
import VhostModel.Lemmas.HelpersBase
import VhostModel.Lemmas.ConnFrameRecv
import VhostModel.Lemmas.ConnData
import VhostModel.Gen.FeRecv
import VhostModel.Gen.Consts

set_option linter.unusedSimpArgs false
set_option linter.unusedVariables false
/-!
# Basics for `Props.FeRecv`

* `stdEnv`: the environment in which the generated terms of `Gen/FeRecv.lean` are interpreted — header size 12 and the
  generated header validator (`Model.Frontend.hdrValid`), `size_of::<T>()` from the generated layout, `T::is_valid` from
  the generated validators (`Model.Frontend.bodyValidTy`), struct fields read through the generated layout
  (`Model.Frontend.g`), the values of `enum FrontendReq`, the generated errno classification;
* what the translated header accessors evaluate to on a 12-byte header (`is_reply`, `is_need_reply`, `get_size`,
  `is_reply_for` — the last one is `Model.Frontend.isReplyFor`);
* `recvH`: `Model.Frontend.recv` as a function of the request *header* (the only thing the source's readers see of the
  request);
* `Model.Frontend.recvBody` in if-then-else form.
-/
namespace Lemmas.FeRecv
open Imp ImpFe
open Base (leVal)
open Model.Stream (Cell Chooser recvAll recvData RecvAll RecvData)
open Model.Msgs (fieldAt getField)
open Model.Frontend (FSt Req ReplyKind Reply RecvRes RecvOut parseHdr hdrValid sizeOfTy bodyValidTy isReplyFor recvBody recv reqHdr u64)
open Model.BackendSrv (Hdr bitSet Err)

/-- the environment of the frontend: `H = VhostUserMsgHeader<FrontendReq>` -/
def stdEnv {σ : Type} (ch : Chooser σ) (cl : Bool) : FEnv σ where
  base := { ch := ch, isClosed := cl, classify := Gen.ConnLoops.classify, sizeH := 12, validH := hdrValid,
            maxMsg := Gen.Consts.MAX_MSG_SIZE }
  tySize := fun T => (sizeOfTy T).getD 0
  tyValid := fun T b => bodyValidTy T b == some true
  fieldVal := Model.Frontend.g
  codes := Gen.Codes.FrontendReq.table.map (·.2)

theorem std_classify {σ : Type} (ch : Chooser σ) (cl : Bool) (T : String) :
    ((stdEnv ch cl).conn T).classify ENOBUFS = .retry := by
  show Gen.ConnLoops.classify ENOBUFS = .retry
  decide

/-! ## header fields -/

theorem fieldAt_hdr_request : fieldAt "VhostUserMsgHeader" ["request"] = some (0, 4) := by decide
theorem fieldAt_hdr_flags : fieldAt "VhostUserMsgHeader" ["flags"] = some (4, 4) := by decide
theorem fieldAt_hdr_size : fieldAt "VhostUserMsgHeader" ["size"] = some (8, 4) := by decide

theorem g_hdr_request (hb : Bytes) (h : hb.length = 12) : Model.Frontend.g hb "VhostUserMsgHeader" ["request"] = (parseHdr hb).code := by
  simp [Model.Frontend.g, getField, fieldAt_hdr_request, h, parseHdr]
theorem g_hdr_flags (hb : Bytes) (h : hb.length = 12) : Model.Frontend.g hb "VhostUserMsgHeader" ["flags"] = (parseHdr hb).flags := by
  simp [Model.Frontend.g, getField, fieldAt_hdr_flags, h, parseHdr]
theorem g_hdr_size (hb : Bytes) (h : hb.length = 12) : Model.Frontend.g hb "VhostUserMsgHeader" ["size"] = (parseHdr hb).size := by
  simp [Model.Frontend.g, getField, fieldAt_hdr_size, h, parseHdr]

theorem eq_dec (x y : Nat) : decide (x = y) = (x == y) := by
  cases h : x == y <;> simp_all

theorem ne_dec (x : Nat) : decide (x ≠ 0) = (x != 0) := by
  cases h : x != 0 <;> simp_all

/-! ## the translated accessors of `VhostUserMsgHeader` -/
section accessors
variable {σ : Type} (ch : Chooser σ) (cl : Bool) (fr : FFrame) (sf : Self)

theorem evalX_getSize (v : Var) (h : (fr.b v.id).length = 12) :
    evalX (stdEnv ch cl) fr sf (Gen.FeRecv.Hdr.getSize v) = some (parseHdr (fr.b v.id)).size := by
  simp [Gen.FeRecv.Hdr.getSize, evalX, stdEnv, g_hdr_size _ h]

theorem evalC_isReply (v : Var) (h : (fr.b v.id).length = 12) :
    evalC (stdEnv ch cl) fr sf (Gen.FeRecv.Hdr.isReply v) = some (parseHdr (fr.b v.id)).isReply := by
  have := Lemmas.Helpers.and_two_pow_bne_zero (parseHdr (fr.b v.id)).flags 2
  simp only [Gen.FeRecv.Hdr.isReply, evalC, evalX, stdEnv, g_hdr_flags _ h, Model.BackendSrv.Hdr.isReply, bitSet]
  rw [← this]
  exact congrArg some (ne_dec _)

theorem evalC_isNeedReply (v : Var) (h : (fr.b v.id).length = 12) :
    evalC (stdEnv ch cl) fr sf (Gen.FeRecv.Hdr.isNeedReply v) = some (parseHdr (fr.b v.id)).needReply := by
  have := Lemmas.Helpers.and_two_pow_bne_zero (parseHdr (fr.b v.id)).flags 3
  simp only [Gen.FeRecv.Hdr.isNeedReply, evalC, evalX, stdEnv, g_hdr_flags _ h, Model.BackendSrv.Hdr.needReply, bitSet]
  rw [← this]
  exact congrArg some (ne_dec _)

/-- **`is_reply_for`** as translated from `message.rs` is `Model.Frontend.isReplyFor` on the parsed headers -/
theorem evalC_isReplyFor (a b : Var) (ha : (fr.b a.id).length = 12) (hb : (fr.b b.id).length = 12) :
    evalC (stdEnv ch cl) fr sf (Gen.FeRecv.Hdr.isReplyFor a b) = some (isReplyFor (parseHdr (fr.b a.id)) (parseHdr (fr.b b.id))) := by
  have h1 := evalC_isReply ch cl fr sf a ha
  have h2 := evalC_isReply ch cl fr sf b hb
  unfold Gen.FeRecv.Hdr.isReplyFor
  simp only [evalC, evalX, h1, h2, Option.map_some]
  simp only [stdEnv, g_hdr_request _ ha, g_hdr_request _ hb, isReplyFor]
  cases c1 : (Gen.Codes.FrontendReq.table.map (·.2)).contains (parseHdr (fr.b a.id)).code <;>
    cases c2 : (Gen.Codes.FrontendReq.table.map (·.2)).contains (parseHdr (fr.b b.id)).code <;>
    cases c3 : (parseHdr (fr.b a.id)).isReply <;> cases c4 : (parseHdr (fr.b b.id)).isReply <;>
    simp [c1, c2, c3, c4, eq_dec]

end accessors

/-! ## `Model.Frontend.recv` by the request header -/

/-- `Model.Frontend.recv` with the request header, the acknowledged protocol features and the reader as arguments -/
def recvH {σ : Type} (ch : Chooser σ) (isClosed : Bool) (ackedProto : Nat) (rh : Hdr) (kind : ReplyKind) (cst : σ) (str : List Cell) :
    RecvOut σ :=
  match kind with
  | .noWait => ⟨.ok ⟨rh, [], [], none⟩, str, cst, []⟩
  | .ack =>
    if !bitSet ackedProto 3 || !rh.needReply then ⟨.ok ⟨rh, u64 0, [], none⟩, str, cst, []⟩
    else
      let o := recvBody ch isClosed "VhostUserU64" cst str
      match o.res with
      | .ok r =>
        if !isReplyFor r.hdr rh || r.files.isSome then ⟨.err .invalidMsg, o.rest, o.cst, o.closed ++ r.files.getD []⟩
        else if leVal r.body != 0 then ⟨.err .backendInternal, o.rest, o.cst, o.closed⟩
        else o
      | _ => o
  | .body ty =>
    if rh.isReply then ⟨.err .invalidParam, str, cst, []⟩ else
    let o := recvBody ch isClosed ty cst str
    match o.res with
    | .ok r =>
      if !isReplyFor r.hdr rh || r.files.isSome then ⟨.err .invalidMsg, o.rest, o.cst, o.closed ++ r.files.getD []⟩ else o
    | _ => o
  | .bodyOptFiles ty =>
    if rh.isReply then ⟨.err .invalidParam, str, cst, []⟩ else
    let o := recvBody ch isClosed ty cst str
    match o.res with
    | .ok r => if !isReplyFor r.hdr rh then ⟨.err .invalidMsg, o.rest, o.cst, o.closed ++ r.files.getD []⟩ else o
    | _ => o
  | .bodyFiles ty =>
    if rh.isReply then ⟨.err .invalidParam, str, cst, []⟩ else
    let o := recvBody ch isClosed ty cst str
    match o.res with
    | .ok r =>
      if !isReplyFor r.hdr rh then ⟨.err .invalidMsg, o.rest, o.cst, o.closed ++ r.files.getD []⟩
      else if r.files.isNone then ⟨.err .invalidMsg, o.rest, o.cst, o.closed⟩ else o
    | _ => o
  | .payload ty =>
    match sizeOfTy ty with
    | none => ⟨.err .other, str, cst, []⟩
    | some n =>
      if rh.size ≤ n || rh.size > 0x1000 || rh.isReply then ⟨.err .invalidParam, str, cst, []⟩ else
      let o := recvBody ch isClosed ty cst str
      match o.res with
      | .ok r =>
        if !isReplyFor r.hdr rh || r.files.isSome then ⟨.err .invalidMsg, o.rest, o.cst, o.closed ++ r.files.getD []⟩
        else if r.hdr.size < n then ⟨.err .invalidMsg, o.rest, o.cst, o.closed⟩
        else if r.hdr.size - n > rh.size - n then ⟨.err .invalidMsg, o.rest, o.cst, o.closed⟩
        else
          let d := recvData ch isClosed (r.hdr.size - n) o.cst o.rest
          match d.outcome with
          | .blocked => ⟨.blocked, d.rest, d.st, o.closed⟩
          | .enobufs => ⟨.err .sockRetry, d.rest, d.st, o.closed ++ d.lost⟩
          | .short => ⟨.err .partialMsg, d.rest, d.st, o.closed⟩
          | .full => ⟨.ok { r with payload := d.bytes }, d.rest, d.st, o.closed⟩
      | _ => o

/-- the readers of the model see of the state and the request exactly: `acked_protocol_features`, the request header,
the reader kind -/
theorem recv_eq_recvH {σ : Type} (ch : Chooser σ) (cl : Bool) (s : FSt) (req : Req) (cst : σ) (str : List Cell) :
    recv ch cl s req cst str = recvH ch cl s.ackedProto (reqHdr s req) req.kind cst str := rfl

/-! ## `Model.Frontend.recvBody` in if-then-else form -/

theorem recvBody_eq {σ : Type} (ch : Chooser σ) (cl : Bool) (ty : String) (n : Nat) (cst : σ) (s : List Cell)
    (hn : sizeOfTy ty = some n) :
    recvBody ch cl ty cst s =
      (if (recvAll ch 32 cl (12 + n) cst s true).outcome = .blocked then
        ⟨.blocked, (recvAll ch 32 cl (12 + n) cst s true).rest, (recvAll ch 32 cl (12 + n) cst s true).st,
          (recvAll ch 32 cl (12 + n) cst s true).closed ++ (recvAll ch 32 cl (12 + n) cst s true).fds⟩
       else if (recvAll ch 32 cl (12 + n) cst s true).bytes.length ≠ 12 + n then
        ⟨.err .partialMsg, (recvAll ch 32 cl (12 + n) cst s true).rest, (recvAll ch 32 cl (12 + n) cst s true).st,
          (recvAll ch 32 cl (12 + n) cst s true).closed ++ (recvAll ch 32 cl (12 + n) cst s true).fds⟩
       else if (!hdrValid ((recvAll ch 32 cl (12 + n) cst s true).bytes.take 12) ||
                !(bodyValidTy ty ((recvAll ch 32 cl (12 + n) cst s true).bytes.drop 12) == some true)) = true then
        ⟨.err .invalidMsg, (recvAll ch 32 cl (12 + n) cst s true).rest, (recvAll ch 32 cl (12 + n) cst s true).st,
          (recvAll ch 32 cl (12 + n) cst s true).closed ++ (recvAll ch 32 cl (12 + n) cst s true).fds⟩
       else
        ⟨.ok ⟨parseHdr ((recvAll ch 32 cl (12 + n) cst s true).bytes.take 12), (recvAll ch 32 cl (12 + n) cst s true).bytes.drop 12, [],
              Lemmas.ConnRecv.optOf (recvAll ch 32 cl (12 + n) cst s true).fds⟩,
          (recvAll ch 32 cl (12 + n) cst s true).rest, (recvAll ch 32 cl (12 + n) cst s true).st,
          (recvAll ch 32 cl (12 + n) cst s true).closed⟩) := by
  unfold recvBody
  rw [hn]
  simp only []
  generalize recvAll ch 32 cl (12 + n) cst s true = R
  cases ho : R.outcome <;> simp only [ho, reduceCtorEq, if_false, if_true]
  all_goals
    by_cases h1 : R.bytes.length = 12 + n
    · simp only [h1, bne_self_eq_false, Bool.false_eq_true, if_false, ne_eq, not_true_eq_false]
      cases hv : hdrValid (R.bytes.take 12) <;> cases hb : bodyValidTy ty (R.bytes.drop 12) == some true <;>
        simp_all [Lemmas.ConnRecv.optOf]
    · have : (R.bytes.length != 12 + n) = true := by simp [h1]
      simp only [this, if_true, ne_eq, h1, not_false_eq_true]

end Lemmas.FeRecv
