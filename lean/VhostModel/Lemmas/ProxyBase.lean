import VhostModel.Model.ProxyTable
import VhostModel.Gen.ProxyOps
/-!
# Definitions and small facts shared by the proxy ties (`Lemmas/ProxyBackend`, `ProxyGpu`, `ProxyAck`, `Props/ProxyOps`)

* `methodOf` / `gpuProg`: the generated method row / helper program a model call goes through;
* `afterRecv`, `awaitOut`, `gpuAfterRecv`: what a call returns, *as prescribed by a generated statement program* that
  reads at most one message — the right-hand sides of the `…_table` theorems;
* `leBytes_mod`: the eight bytes of a value only depend on the value modulo `2^64`;
* `structSize` of the body types.
-/
namespace Lemmas.Proxy
open Base ProxySig Model.ProxyTable Model.Msgs Model.Stream Model.RecvBody
open Model.BackendSrv (Err Hdr encHdr hdrNewFlags)
open Model.Frontend (Reply RecvRes RecvOut)

theorem leBytes_mod (n v : Nat) : leBytes n (v % 256 ^ n) = leBytes n v := by
  induction n generalizing v with
  | zero => rfl
  | succ n ih =>
    simp only [leBytes]
    have h1 : v % 256 ^ (n+1) % 256 = v % 256 := by
      rw [Nat.pow_succ, Nat.mul_comm]; exact Nat.mod_mul_right_mod v 256 (256 ^ n)
    have h2 : v % 256 ^ (n+1) / 256 = (v / 256) % 256 ^ n := by
      rw [Nat.pow_succ, Nat.mul_comm, Nat.mod_mul_right_div_self]
    rw [h1, h2, ih]

theorem leBytes8_mod (v : Nat) : leBytes 8 (v % 18446744073709551616) = leBytes 8 v := leBytes_mod 8 v

theorem leVal8_zero : leVal (leBytes 8 0) = 0 := by decide

/-! ## the backend proxy -/
section Backend
open Model.BackendProxy

/-- the generated method of a call kind (looked up by its Rust name) -/
def methodOf (k : Kind) : PxMethod :=
  (Gen.ProxyOps.Backend.methods.find? (fun m => m.row.name == Kind.method k)).getD
    ⟨default, fun _ => true, .notNegotiated⟩

theorem methodOf_row (k : Kind) : (methodOf k).row = rowOf k := by cases k <;> decide

theorem structSize_body (k : Kind) : structSize k.bodyTy = some (rowOf k).size := by cases k <;> decide

/-- continuation of a proxy call on what `recv_body::<ty>` returned: the statements behind the read, run on the inputs
that describe the received message (`replyIn`) -/
def afterRecv {σ : Type} (x : PIn) (ty : String) (rest : List Stmt) (req : Req) (o : RecvOut σ) : CallOut σ :=
  match o.res with
  | .blocked => ⟨.blocked, wire req, req.fds, o.rest, o.cst, o.closed⟩
  | .err e => ⟨.err (.proto e), wire req, req.fds, o.rest, o.cst, o.closed⟩
  | .ok r =>
    -- `rfds` is dropped when the function returns, whatever it returns
    match run (replyIn x backendCodes (Model.GpuProxy.replyBodyOk ty) r req.hdr) rest none with
    | .err e => ⟨.err (perrOf e), wire req, req.fds, o.rest, o.cst, o.closed ++ r.files.getD []⟩
    | .ok v => ⟨.ok v, wire req, req.fds, o.rest, o.cst, o.closed ++ r.files.getD []⟩
    | _ => ⟨.err (.proto .other), wire req, req.fds, o.rest, o.cst, o.closed⟩

/-- what a proxy call returns once the request `req` is written, as prescribed by the statement program `prog`:
a local check fires / an early `Ok(v)` ⇒ nothing is read; `recvBody ty` ⇒ one `recv_body::<ty>` on the backend channel
(`size_of::<ty>()` bytes behind the header, the validator of `ty`), then `afterRecv` -/
def awaitOut {σ : Type} (ch : Chooser σ) (cl : Bool) (x : PIn) (prog : List Stmt) (req : Req) (cst : σ) (str : List Cell) :
    CallOut σ :=
  match run x prog none with
  | .err e => ⟨.err (perrOf e), wire req, req.fds, str, cst, []⟩
  | .ok v => ⟨.ok v, wire req, req.fds, str, cst, []⟩
  | .recv ty rest =>
    afterRecv x ty rest req
      (recvBody ch cl hdrValidB ((Model.GpuProxy.sizeOfTy ty).getD 0) (Model.GpuProxy.replyBodyOk ty) cst str)
  | _ => ⟨.err (.proto .other), wire req, req.fds, str, cst, []⟩

end Backend

/-! ## the GPU proxy -/
section Gpu
open Model.GpuProxy

/-- the generated program of a send helper, by its Rust name -/
def gpuProg : String → List Stmt
  | "send_header" => Gen.ProxyOps.Gpu.send_header.stmts
  | "send_message" => Gen.ProxyOps.Gpu.send_message.stmts
  | "send_message_with_payload" => Gen.ProxyOps.Gpu.send_message_with_payload.stmts
  | _ => []

theorem ss_u64 : structSize "VhostUserU64" = some 8 := by decide
theorem ss_edid : structSize "VhostUserGpuEdidRequest" = some 4 := by decide
theorem ss_scanout : structSize "VhostUserGpuScanout" = some 12 := by decide
theorem ss_update : structSize "VhostUserGpuUpdate" = some 20 := by decide
theorem ss_dmabuf : structSize "VhostUserGpuDMABUFScanout" = some 40 := by decide
theorem ss_dmabuf2 : structSize "VhostUserGpuDMABUFScanout2" = some 48 := by decide
theorem ss_cursor_pos : structSize "VhostUserGpuCursorPos" = some 12 := by decide
theorem ss_cursor_update : structSize "VhostUserGpuCursorUpdate" = some 20 := by decide

/-- continuation of `recv_reply::<ty>` on what `recv_body::<ty>` returned -/
def gpuAfterRecv {σ : Type} (x : PIn) (ty : String) (rest : List Stmt) (rh : Hdr) (o : RecvOut σ) : RecvOut σ :=
  match o.res with
  | .ok r =>
    match run (replyIn x gpuCodes (replyBodyOk ty) r rh) rest none with
    | .err e => ⟨.err (errOf e), o.rest, o.cst, o.closed ++ r.files.getD []⟩   -- `rfds` dropped
    | .okBody => o
    | _ => ⟨.err .other, o.rest, o.cst, o.closed⟩
  | _ => o

end Gpu

end Lemmas.Proxy
