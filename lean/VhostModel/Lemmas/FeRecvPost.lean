import VhostModel.Lemmas.FeRecvReaders2

set_option linter.unusedSimpArgs false
set_option linter.unusedVariables false
/-!
# From the readers to the API methods

* `readCall_exec`: `let PAT = node.<reader>::<T>(&hdr)?;` of an API method as one step, given the reader's `ReaderSpec`;
* `noConn_not_blocked`: a term without a call into `connection.rs` (everything after the reader call) cannot block.
-/
namespace Lemmas.FeRecv
open ImpFe
open Imp (Var World upd upd_apply Stuck Fd)
open Model.Stream (Cell Chooser)
open Model.Frontend (Reply RecvOut RecvRes)

/-- `let PAT = node.<reader>::<T>(&hdr)?;` of an API method, given what the reader does -/
theorem readCall_exec {σ : Type} (env : FEnv σ) (nm : String) (callee : FStmt) (pH hdr res : Var) (okF : Option Var) (okB : List Var)
    (F : Nat) (fr : FFrame) (sf : Self) (w : World σ) (shape : Reply → FVal) (M : RecvOut σ)
    (hS : ReaderSpec w sf shape M
      (ImpFe.exec env callee F { n := fun _ => 0, b := upd (fun _ => []) pH.id (fr.b hdr.id), f := fun _ => none } sf w))
    (out : FRes σ)
    (hout : ImpFe.exec env (.seq (.callFe nm callee [] [(pH, hdr)] [] res) (.matchOk res [] okF okB none .skip (.retErr (.ofRes res))))
      F fr sf w = out) :
    out.2.2.2.stream = M.rest ∧ out.2.2.2.cst = M.cst ∧ out.2.2.1 = sf ∧
    (match M.res with
     | .ok r => out.1 = .normal ∧ out.2.2.2.closed = w.closed ++ M.closed ∧
         out.2.1 = (match okF with
           | some f => { fr with b := bindBs fr.b okB (shape r).bufs, f := upd fr.f f.id (shape r).fds, r := upd fr.r res.id (.ok (shape r)) }
           | none => { fr with b := bindBs fr.b okB (shape r).bufs, r := upd fr.r res.id (.ok (shape r)) })
     | .err e => (∃ fe, out.1 = .done (.err fe) ∧ errMap fe = e) ∧ out.2.2.2.closed = w.closed ++ M.closed
     | .blocked => ∃ inner, out.1 = .stuck .blocked inner ∧ out.2.2.2.closed ++ (inner.f 0).getD [] = w.closed ++ M.closed) := by
  rw [exec_seq, exec_callFe] at hout
  simp only [argsN, argsB, argsF, movedF] at hout
  rcases hx : ImpFe.exec env callee F { n := fun _ => 0, b := upd (fun _ => []) pH.id (fr.b hdr.id), f := fun _ => none } sf w
    with ⟨c, fr2, sf2, w2⟩
  rw [hx] at hS hout
  obtain ⟨s1, s2, s3, s4⟩ := hS
  simp only at s1 s2 s3 s4
  subst s3
  rcases M with ⟨mres, mrest, mcst, mclosed⟩
  cases mres with
  | blocked =>
    obtain ⟨inner, u1, u2⟩ := s4
    try simp only at u1 u2
    subst u1
    simp only at hout
    subst hout
    exact ⟨s1, s2, rfl, inner, rfl, u2⟩
  | err e =>
    obtain ⟨⟨fe, u1, u2⟩, u3⟩ := s4
    try simp only at u1 u3
    subst u1
    simp only [exec_matchOk, upd_apply, reduceIte, exec_retErr, evalErr, errOfR] at hout
    subst hout
    exact ⟨s1, s2, rfl, ⟨fe, rfl, u2⟩, u3⟩
  | ok r =>
    obtain ⟨u1, u3⟩ := s4
    try simp only at u1 u3
    subst u1
    simp only [exec_matchOk, upd_apply, reduceIte, exec_skip, bindNs_nil] at hout
    subst hout
    cases okF <;> exact ⟨s1, s2, rfl, rfl, u3, rfl⟩
/-- no call into `connection.rs` -/
def noConn : FStmt → Bool
  | .seq a b => noConn a && noConn b
  | .ite _ t e => noConn t && noConn e
  | .matchSelfError _ a b => noConn a && noConn b
  | .callConn _ _ _ _ _ => false
  | .callFe _ body _ _ _ _ => noConn body
  | .matchOk _ _ _ _ _ a b => noConn a && noConn b
  | .matchFile _ _ a b => noConn a && noConn b
  | _ => true

def _root_.ImpFe.FCtl.isBlocked : FCtl → Bool
  | .stuck .blocked _ => true
  | _ => false

/-- a statement that makes no call into `connection.rs` cannot block -/
theorem noConn_not_blocked {σ : Type} (env : FEnv σ) (s : FStmt) (h : noConn s = true) :
    ∀ (F : Nat) (fr : FFrame) (sf : Self) (w : World σ), (ImpFe.exec env s F fr sf w).1.isBlocked = false := by
  induction s with
  | skip => intros; rfl
  | seq a b iha ihb =>
    intro F fr sf w
    simp only [noConn, Bool.and_eq_true] at h
    have h1 := iha h.1 F fr sf w
    rw [exec_seq]
    rcases hx : ImpFe.exec env a F fr sf w with ⟨c, fr', sf', w'⟩
    rw [hx] at h1
    cases c with
    | normal => exact ihb h.2 F fr' sf' w'
    | done r => rfl
    | stuck s i => exact h1
  | assign v e => intro F fr sf w; rw [exec_assign]; split <;> rfl
  | assignSelf f e => intro F fr sf w; rw [exec_assignSelf]; split <;> rfl
  | assignF f e => intros; rfl
  | dropF f => intros; rfl
  | mkBuf b fs => intro F fr sf w; rw [exec_mkBuf]; split <;> rfl
  | takeFd a b c => intro F fr sf w; rw [exec_takeFd]; split <;> (try split) <;> rfl
  | ite c t e iht ihe =>
    intro F fr sf w
    simp only [noConn, Bool.and_eq_true] at h
    rw [exec_ite]; split
    · exact iht h.1 F fr sf w
    · exact ihe h.2 F fr sf w
    · rfl
  | matchSelfError e a b iha ihb =>
    intro F fr sf w
    simp only [noConn, Bool.and_eq_true] at h
    rw [exec_matchSelfError]; split
    · exact iha h.1 F _ sf w
    · exact ihb h.2 F fr sf w
  | ret a b c d => intro F fr sf w; rw [exec_ret]; split <;> rfl
  | retErr e => intro F fr sf w; rw [exec_retErr]; split <;> rfl
  | fault => intros; rfl
  | callConn a b c d e => simp [noConn] at h
  | callFe nm body nA bA fA res ih =>
    intro F fr sf w
    simp only [noConn] at h
    rw [exec_callFe]; split
    · rfl
    · rename_i σn _
      have := ih h F { n := σn, b := argsB fr bA (fun _ => []), f := argsF fr fA (fun _ => none) } sf w
      split
      · rfl
      · rename_i hx; rw [hx] at this; exact this
      · rfl
  | matchOk res okN okF okB okFile a b iha ihb =>
    intro F fr sf w
    simp only [noConn, Bool.and_eq_true] at h
    rw [exec_matchOk]; split
    · exact iha h.1 F _ sf w
    · exact ihb h.2 F fr sf w
  | matchFile res file a b iha ihb =>
    intro F fr sf w
    simp only [noConn, Bool.and_eq_true] at h
    rw [exec_matchFile]; split
    · split
      · exact iha h.1 F _ sf w
      · exact ihb h.2 F fr sf w
    · rfl
end Lemmas.FeRecv
