import VhostModel.Model.LtsTable
/-!
# Reading the segments of the worker loop in `Model.Worker` (C12, worker side)

`evsW` interprets a residual program of `Base.LtsSig` (a segment of `VringEpollHandler::run`) on the state of
`Model.Worker`, event by event, until the next hold point.

Reading conventions of this model (header of `Model/Worker.lean`):
* one ring, whose events are the only ones the worker sees: `epoll.wait` returns (with one event, the ring's) iff a
  registered descriptor is readable, else it blocks; it does not fail (`EINTR` and the exit event are not this model's);
  the event word is known (`Some(evset)`); `device_event` is the ring's index (`exitCond` false, `isRing` true);
* `consume` on a counter that is zero is `EAGAIN` (`WouldBlock`), no other failure; on a positive counter it zeroes it;
* `backend.handle_event` succeeds;
* a hold point sets the model's program counter: `worker.wait ↦ wait`, `worker.woken ↦ woken`, `worker.pre_read ↦ checked`,
  `worker.dispatch ↦ toDispatch`; the model has no state for `worker.read_kick` (`interpW` runs the two segments around
  it one after the other; `segReadKick_local`: the second one looks at the local `enabled` only);
* an error that leaves `run` ends the thread: `workerExit`, `dead`;
* the ghost fields are set where the model sets them: `clean` when `epoll.wait` returns, `chkStale` at `worker.pre_read`,
  `rdStale` at `worker.dispatch`, the `consumed` record when `read_kick` returns after a successful `consume`, the `disp`
  record with the handler call.
-/
namespace Lemmas.LtsWorker
open Base Model.Worker Spec.KickDelivery Model.LtsTable

inductive Flow where
  | run
  | held (n : String)
  | ret (v : Bool)
  | retErr
  | brk
  | brkTo (l : String)
  | again
  | blocked
  /-- a loop came round without reaching a hold point: not interpreted -/
  | spin
  deriving DecidableEq, Repr

structure WS where
  st : St
  flow : Flow
  /-- `enabled` of `handle_event` -/
  enabledLoc : Bool
  /-- `Ok(v)` of the last helper call -/
  retv : Bool
  /-- `kick.consume()` returned `WouldBlock` -/
  wouldBlock : Bool
  /-- ghost: `read_kick` read the counter -/
  consumed : Bool
  /-- the event at hand is the thread's exit event (not an event of `Model.Worker`; read by `wkExit_partial` only) -/
  exitEvt : Bool := false

def startW (st : St) : WS := ⟨st, .run, false, false, false, false, false⟩

def holdW (n : String) (s : WS) : WS :=
  { s with
    flow := .held n
    st := if n = "worker.wait" then { s.st with wpc := .wait }
          else if n = "worker.woken" then { s.st with wpc := .woken }
          else if n = "worker.pre_read" then { s.st with wpc := .checked, chkStale := false }
          else if n = "worker.dispatch" then { s.st with wpc := .toDispatch, rdStale := false }
          else s.st }

def actW (a : LAct) (s : WS) : WS :=
  match a with
  | .hold n => holdW n s
  | .epollWait =>
    if readyAny s.st then { s with st := { s.st with clean := !pendingDel s.st } } else { s with flow := .blocked }
  | .consume p =>
    match s.st.kick with
    | some k =>
      if s.st.cnt k = 0 then (if p then { s with flow := .retErr } else { s with wouldBlock := true })
      else { s with st := { s.st with cnt := upd s.st.cnt k 0 }, consumed := true, wouldBlock := false }
    | none => s
  | .backendHandleEvent _ =>
    let p := period s.st.trace
    { s with st := emit { s.st with glog := s.st.glog ++ [.disp p.forbD p.forbS s.st.rdStale s.st.chkStale] } .dispatch }
  | .cont _ => { s with flow := .again }
  | .brkTo l => { s with flow := .brkTo l }
  | .h .brk => { s with flow := .brk }
  | .h (.okValue v) =>
    { s with flow := .ret (if v = "true" then true else if v = "self.enabled" then s.st.enabled else false) }
  | .h .ok => { s with flow := .ret false }
  | .h (.err _) => { s with flow := .retErr }
  | _ => s

def condW (c : String) (s : WS) : Bool :=
  if c = notReady then !s.st.ready
  else if c = "!self.enabled" then !s.st.enabled
  else if c = "!enabled" then !s.enabledLoc
  else if c = "self.handle_event(ev_type, evset)?" then s.retv
  else if c = isRing then true
  else if c = exitCond then s.exitEvt
  else false

/-- does the arm `pat if guard` take the value of `scrut`? -/
def armOkW (scrut pat : String) (s : WS) : Bool :=
  if scrut = "kick.consume()" then (if pat = "Err(e)" then s.wouldBlock else true)
  else pat = "Ok(res)" || pat = "Some(evset)"

def isArmW (scrut : String) (s : WS) : LEvent → Bool
  | .node .arm ss _ _ => armOkW scrut (ss.headD "") s
  | _ => false

/-- ghost: what the model records when `read_kick` returns `Ok(v)` after it read the counter -/
def noteConsumed (v : Bool) (st : St) : St :=
  if v then emit st (.consumed true) else emit { st with glog := st.glog ++ [.dropped st.clean] } (.consumed false)

def afterReadKick (s : WS) : WS :=
  match s.flow with
  | .ret v => { s with st := if s.consumed then noteConsumed v s.st else s.st, flow := .run, enabledLoc := v, consumed := false }
  | _ => s

def afterCallW (p : Bool) (s : WS) : WS :=
  match s.flow with
  | .ret v => { s with flow := .run, retv := v }
  | .retErr => if p then s else { s with flow := .run }
  | _ => s

/-- the end of the iterations of a `for` (one event per batch: there is no further element) -/
def endFor (s : WS) : WS :=
  match s.flow with
  | .again | .brk => { s with flow := .run }
  | _ => s

/-- an iteration of `loop` ended -/
def endLoop (l : String) (s : WS) : WS :=
  match s.flow with
  | .brk => { s with flow := .run }
  | .brkTo l' => if l' = l then { s with flow := .run } else s
  | .run | .again => { s with flow := .spin }
  | _ => s

mutual
def evW : LEvent → WS → WS
  | .act a, s => actW a s
  | .node k ss b1 b2, s =>
    match k with
    | .ifCond => if condW (ss.headD "") s then evsW b1 s else evsW b2 s
    | .ifSome =>
      (match s.st.kick with
       | some _ => evsW b1 s
       | none => evsW b2 s)
    | .readKick => afterReadKick (evsW b1 s)
    | .helperCall p => afterCallW p (evsW b1 s)
    | .matchOn => armsW (ss.getD 1 "") b1 s
    | .arm => evsW b2 s
    | .forEach => endFor (evsW b1 s)
    | .forFrom => endFor (evsW b1 s)
    | .loop => endLoop (ss.headD "") (evsW b1 s)
    | .loopFrom =>
      let s1 := evsW b1 s
      (match s1.flow with
       | .run | .again => endLoop (ss.headD "") (evsW b2 { s1 with flow := .run })
       | .brk => { s1 with flow := .run }
       | .brkTo l' => if l' = ss.headD "" then { s1 with flow := .run } else s1
       | _ => s1)
    | _ => s
def evsW : List LEvent → WS → WS
  | [], s => s
  | e :: es, s =>
    match (evW e s).flow with
    | .run => evsW es (evW e s)
    | _ => evW e s
def armsW (scrut : String) : List LEvent → WS → WS
  | [], s => s
  | e :: es, s => if isArmW scrut s e then evW e s else armsW scrut es s
end

def finishW (s0 : St) (s : WS) : Option St :=
  match s.flow with
  | .held _ => some s.st
  | .blocked => some s0
  | .retErr => some (emit { s.st with wpc := .dead } .workerExit)
  | _ => none

/-! ## the three repairs and the mutation as edits of the source -/

/-- commit b54e7e9 (fix-c12-lost-kick) reverted: `read_kick` without the early return of a disabled ring -/
def revLost : LEvent → Option (List LEvent)
  | .node .ifCond ["!self.enabled"] [.act (.h (.okValue "false"))] [] => some []
  | _ => none

/-- commit e4698fd (fix-c12-stale-eagain) reverted: `kick.consume()?;` instead of the `match` with the `WouldBlock` arm -/
def revEagain : LEvent → Option (List LEvent)
  | .act (.consume false) => some [.act (.consume true)]
  | .node .matchOn ["", "kick.consume()"] _ _ => some []
  | _ => none

/-- commit 2d45ace (fix-c12-stopped-dispatch) reverted: `handle_event` without the test of `ready()` -/
def revStopped : LEvent → Option (List LEvent)
  | .node .ifCond [c] [.act (.h (.okValue "false"))] [] => if c = notReady then some [] else none
  | _ => none

/-- the segments of configuration `cfg`: the repairs that are switched off, reverted -/
def edit (cfg : Cfg) (es : List LEvent) : List LEvent :=
  let e1 := if cfg.fixLost then es else LSeg.rewriteL revLost es
  let e2 := if cfg.fixEagain then e1 else LSeg.rewriteL revEagain e1
  if cfg.fixStopped then e2 else LSeg.rewriteL revStopped e2

/-- the worker's next step, read off the segments -/
def interpW (st : St) : Option St :=
  match st.wpc with
  | .dead => none
  | .wait => finishW st (evsW (edit st.cfg segWait) (startW st))
  | .woken => finishW st (evsW (edit st.cfg segWoken) (startW st))
  | .checked =>
    let s1 := evsW (edit st.cfg segPreRead) (startW st)
    (match s1.flow with
     | .held n => if n = "worker.read_kick" then finishW st (evsW (edit st.cfg segReadKick) { s1 with flow := .run }) else none
     | _ => finishW st s1)
  | .toDispatch => finishW st (evsW (edit st.cfg segDispatch) (startW st))

/-! ## the edited segments, computed -/

def readKickBodyOf (lost eagain : Bool) : List LEvent :=
  [.vringGet "get_ref" ""] ++
  (if lost then [.ifCond "!self.enabled" [.okValue "false"] []] else []) ++
  [.ifSome "&self.kick"
    (if eagain then [
      .consume false,
      .matchOn "" "kick.consume()" [
        .arm "Err(e)" "e.kind() == io::ErrorKind::WouldBlock" [] [.okValue "false"],
        .arm "res" "" [] [.propagate "res"]]]
     else [.consume true]) [],
   .okValue "self.enabled"]

def segPreReadOf (lost eagain : Bool) : List LEvent :=
  inHandleEvent [.readKick "HandleEventReadKick" "enabled" (readKickBodyOf lost eagain), .hold "worker.read_kick"] [] []

def segWokenOf (stopped : Bool) : List LEvent :=
  inHandleEvent [
    .ifCond exitCond [.okValue "true"] [],
    .ifCond isRing
      ([.bind "vring" "&self.vrings[device_event as usize]"] ++
       (if stopped then [.ifCond notReady [.okValue "false"] []] else []) ++
       [.hold "worker.pre_read"]) [],
    .hold "worker.dispatch"] exitCheck [.ok]

theorem edit_segWait (cfg : Cfg) : edit cfg segWait = segWait := by
  obtain ⟨a, b, c, d⟩ := cfg
  cases a <;> cases b <;> cases c <;> cases d <;> decide +kernel

theorem edit_segReadKick (cfg : Cfg) : edit cfg segReadKick = segReadKick := by
  obtain ⟨a, b, c, d⟩ := cfg
  cases a <;> cases b <;> cases c <;> cases d <;> decide +kernel

theorem edit_segDispatch (cfg : Cfg) : edit cfg segDispatch = segDispatch := by
  obtain ⟨a, b, c, d⟩ := cfg
  cases a <;> cases b <;> cases c <;> cases d <;> decide +kernel

theorem edit_segWoken (cfg : Cfg) : edit cfg segWoken = segWokenOf cfg.fixStopped := by
  obtain ⟨a, b, c, d⟩ := cfg
  cases a <;> cases b <;> cases c <;> cases d <;> decide +kernel

theorem edit_segPreRead (cfg : Cfg) : edit cfg segPreRead = segPreReadOf cfg.fixLost cfg.fixEagain := by
  obtain ⟨a, b, c, d⟩ := cfg
  cases a <;> cases b <;> cases c <;> cases d <;> decide +kernel

/-! ## `wStep` is the interpretation of the segments -/

set_option linter.unusedSimpArgs false

theorem wStep_wait (s : St) (h : s.wpc = .wait) : wStep s = interpW s := by
  unfold interpW wStep
  rw [h]
  simp only [edit_segWait]
  by_cases hr : readyAny s = true <;>
    simp [segWait, eventHead, epollTop, events, evsW, evW, actW, armsW, isArmW, armOkW, holdW, endFor, endLoop, startW,
      finishW, hr]

theorem wStep_woken (s : St) (h : s.wpc = .woken) : wStep s = interpW s := by
  unfold interpW wStep
  rw [h]
  simp only [edit_segWoken]
  cases hf : s.cfg.fixStopped <;> cases hr : s.ready <;>
    simp [segWokenOf, inHandleEvent, exitCheck, eventHead, epollTop, events, evsW, evW, actW, armsW, isArmW, armOkW, holdW,
      endFor, endLoop, startW, finishW, condW, afterCallW, exitCond, isRing, notReady, hf, hr]

theorem wStep_checked (s : St) (h : s.wpc = .checked) : wStep s = interpW s := by
  unfold interpW wStep
  rw [h]
  simp only [edit_segPreRead, edit_segReadKick]
  cases hl : s.cfg.fixLost <;> cases he : s.cfg.fixEagain <;> cases hen : s.enabled <;> cases hk : s.kick with
  | none =>
    simp [segPreReadOf, readKickBodyOf, segReadKick, inHandleEvent, exitCheck, eventHead, epollTop, events, evsW, evW, actW,
      armsW, isArmW, armOkW, holdW, endFor, endLoop, startW, finishW, condW, afterCallW, afterReadKick, noteConsumed, exitCond,
      isRing, notReady, emit, hl, he, hen, hk]
  | some k =>
    by_cases hc : s.cnt k = 0 <;>
    simp [segPreReadOf, readKickBodyOf, segReadKick, inHandleEvent, exitCheck, eventHead, epollTop, events, evsW, evW, actW,
      armsW, isArmW, armOkW, holdW, endFor, endLoop, startW, finishW, condW, afterCallW, afterReadKick, noteConsumed, exitCond,
      isRing, notReady, emit, hl, he, hen, hk, hc]

theorem wStep_dispatch (s : St) (h : s.wpc = .toDispatch) : wStep s = interpW s := by
  unfold interpW wStep
  rw [h]
  simp only [edit_segDispatch]
  simp [segDispatch, inHandleEvent, exitCheck, eventHead, epollTop, events, evsW, evW, actW, armsW, isArmW, armOkW, holdW,
      endFor, endLoop, startW, finishW, condW, afterCallW, exitCond, isRing, notReady, emit]

/-- every worker step, for every state and configuration -/
theorem wStep_is_segments (s : St) : wStep s = interpW s := by
  cases h : s.wpc with
  | wait => exact wStep_wait s h
  | woken => exact wStep_woken s h
  | checked => exact wStep_checked s h
  | toDispatch => exact wStep_dispatch s h
  | dead => unfold interpW wStep; rw [h]

/-- the segment from `worker.read_kick` (merged into the step from `worker.pre_read`) looks at the local `enabled` only:
whatever the shared state, it moves the program counter and nothing else -/
theorem segReadKick_local (s : WS) (h : s.flow = .run) :
    (evsW segReadKick s).st =
      if s.enabledLoc then { s.st with wpc := .toDispatch, rdStale := false } else { s.st with wpc := .wait } := by
  obtain ⟨st, flow, en, rv, wb, co, ex⟩ := s
  simp only at h; subst h
  cases en <;>
    simp [segReadKick, inHandleEvent, exitCheck, eventHead, epollTop, events, evsW, evW, actW, armsW, isArmW, armOkW, holdW,
      endFor, endLoop, condW, afterCallW, exitCond, isRing, notReady]

/-- `Model.Shutdown.TD.wkExit` ("worker `i` sees its exit event and returns"), as far as the worker's segments say it: when
the event taken at `worker.woken` is the exit event, `handle_event` returns `Ok(true)`, `run` breaks out of `'epoll` and
returns `Ok(())` — the thread ends (`gone i`) — without touching a ring, whatever the configuration.  *Partial*: that
`epoll.wait` reports the exit event exactly when it was raised and never consumes it (`evt i ∧ ¬gone i` in the model) is the
model's reading of epoll, not a segment. -/
theorem wkExit_partial (st : St) :
    (evsW (edit st.cfg segWoken) { startW st with exitEvt := true }).flow = .ret false ∧
    (evsW (edit st.cfg segWoken) { startW st with exitEvt := true }).st = st := by
  rw [edit_segWoken]
  cases st.cfg.fixStopped <;>
    simp [segWokenOf, inHandleEvent, exitCheck, eventHead, epollTop, events, evsW, evW, actW, armsW, isArmW, armOkW, holdW,
      endFor, endLoop, startW, condW, afterCallW, exitCond, isRing, notReady]

end Lemmas.LtsWorker
