import VhostModel.Model.LtsTable
/-!
# Reading the segments of the control paths in `Model.Worker` (C12, control side)

`evsC` interprets a segment of `set_vring_enable` / `reset_device` / `get_vring_base` / `set_vring_kick` (with the private
helpers `update_vring_registration`, `unregister_vring_kick`, `initialize_vring` run through their own events down to
`epollRegister` / `epollUnregister`) on the state of `Model.Worker`, until the next hold point or the method's return.

Reading conventions of this model (header of `Model/Worker.lean`):
* one ring, one worker: the loop over `self.queues_per_thread` runs its body once and the mask test holds; the loop over
  `self.vrings` of `reset_device` runs once; the guards `check_feature` / `indexBound` pass;
* `enable` is the argument of SET_VRING_ENABLE (`true` for `CMsg.enable`); `file` is a fresh descriptor (`next`) for
  `CMsg.restart` and `None` for `CMsg.nofd`;
* `epollRegister` adds the descriptor (`EEXIST` tolerated, no other failure), `epollUnregister` removes it;
* a hold point sets the stage of the message: `ctl.state ↦ 1`, `ctl.epoll ↦ 2`, `ctl.drop ↦ 3`; for SET_VRING_KICK the model
  numbers `ctl.state ↦ 1` if the guard of the next segment holds and `2` if not, `ctl.ready ↦ 2`, `ctl.epoll ↦ 3`
  (`StageInv`: the guard cannot change while the control thread waits at `ctl.state`, no other thread writes `ready` / `kick`);
  the method's return is the reply;
* the queue configuration, the feature words and the backend callbacks are not this model's;
* ghost: `noteDisable` with `set_enabled(false)`, `noteStop` with `set_queue_ready(false)`.
-/
namespace Lemmas.LtsControl
open Base Model.Worker Spec.KickDelivery Model.LtsTable

inductive Flow where
  | run
  | held (n : String)
  | ret
  | brk
  deriving DecidableEq, Repr

structure CS where
  st : St
  m : CMsg
  flow : Flow
  /-- `fd` of `if let Some(fd) = vring_state.get_kick()` -/
  fd : Option Evt

def startC (st : St) (m : CMsg) : CS := ⟨st, m, .run, none⟩

/-- the guard of `set_vring_kick` after `ctl.state`: `vring_needs_init`, or `!ready` in the mutated code -/
def guardC (st : St) : Bool := if st.cfg.nofdStarts then !st.ready else (!st.ready && st.kick.isSome)

def stageAt (n : String) (s : CS) : Nat :=
  if n = "ctl.state" then
    (match s.m with
     | .restart | .nofd => if guardC s.st then 1 else 2
     | _ => 1)
  else if n = "ctl.ready" then 2
  else if n = "ctl.epoll" then
    (match s.m with
     | .restart | .nofd => 3
     | _ => 2)
  else 3

def boolArgC (a : String) (s : CS) : Bool :=
  if a = "true" then true else if a = "enable" then decide (s.m = .enable) else false

def vringCallC (m a : String) (s : CS) : CS :=
  if m = "set_enabled" then
    (if boolArgC a s then { s with st := { s.st with enabled := true } }
     else { s with st := noteDisable { s.st with enabled := false } })
  else if m = "set_queue_ready" then
    (if boolArgC a s then { s with st := { s.st with ready := true } }
     else { s with st := noteStop { s.st with ready := false } })
  else if m = "set_kick" then
    (if a = "file" ∧ s.m = .restart then { s with st := { s.st with kick := some s.st.next, next := s.st.next + 1 } }
     else { s with st := { s.st with kick := none } })
  else s

def actC (a : LAct) (s : CS) : CS :=
  match a with
  | .hold n => { s with st := { s.st with cpc := .inMsg s.m (stageAt n s) }, flow := .held n }
  | .h (.vringCall m [a]) => vringCallC m a s
  | .h (.epollRegister _ _) =>
    (match s.fd with
     | some d => { s with st := { s.st with reg := upd s.st.reg d true } }
     | none => s)
  | .h .epollUnregister =>
    (match s.fd with
     | some d => { s with st := { s.st with reg := upd s.st.reg d false } }
     | none => s)
  | .h .brk => { s with flow := .brk }
  | .h .ok | .h .done | .h (.okValue _) => { s with flow := .ret }
  | _ => s

def condC (c : String) (s : CS) : Bool :=
  if c = ownsRing then true
  else if c = readyEnabled then s.st.ready && s.st.enabled
  else if c = needsInit then !s.st.ready && s.st.kick.isSome
  else if c = notReady then !s.st.ready
  else false

def afterCallC (s0 s : CS) : CS :=
  match s.flow with
  | .ret => { s with flow := .run, fd := s0.fd }
  | _ => s

def endForC (s : CS) : CS :=
  match s.flow with
  | .brk => { s with flow := .run }
  | _ => s

mutual
def evC : LEvent → CS → CS
  | .act a, s => actC a s
  | .node k ss b1 b2, s =>
    match k with
    | .ifCond => if condC (ss.headD "") s then evsC b1 s else evsC b2 s
    | .ifSome =>
      (match s.st.kick with
       | some d => evsC b1 { s with fd := some d }
       | none => evsC b2 s)
    | .helperCall _ => afterCallC s (evsC b1 s)
    | .forEach => endForC (evsC b1 s)
    | .forEachVring => endForC (evsC b1 s)
    | .forVringFrom => endForC (evsC b1 s)
    | _ => s
def evsC : List LEvent → CS → CS
  | [], s => s
  | e :: es, s =>
    match (evC e s).flow with
    | .run => evsC es (evC e s)
    | _ => evC e s
end

def finishC (s : CS) : Option St :=
  match s.flow with
  | .held _ => some s.st
  | .ret => some (reply s.st s.m)
  | _ => none

/-- the mutation `Cfg.nofdStarts`: the guard of `set_vring_kick` weakened from `vring_needs_init(vring)` to `!ready` -/
def mutNofd : LEvent → Option (List LEvent)
  | .node .ifCond [c] t f => if c = needsInit then some [.node .ifCond [notReady] t f] else none
  | _ => none

def editB (mu : Bool) (es : List LEvent) : List LEvent := if mu then LSeg.rewriteL mutNofd es else es

def editC (cfg : Cfg) (es : List LEvent) : List LEvent := editB cfg.nofdStarts es

/-- the control thread's next step, read off the segments (`viaInit`: for the stages of SET_VRING_KICK that can be reached
through `initialize_vring` or past it, which of the two hold points the stage is) -/
def interpC (st : St) (viaInit : Bool) : Option St :=
  match st.cpc with
  | .idle => none
  | .inMsg m k => if k ≤ 3 then finishC (evsC (editC st.cfg (ctlSeg m k viaInit)) (startC st m)) else none

/-- what the model assumes when it numbers the stages of SET_VRING_KICK: at stage 1 the guard holds, at stage 2 it does
not (it was evaluated when `ctl.state` was reached, and nobody else writes `ready` / `kick`) -/
def StageInv (s : St) : Prop :=
  match s.cpc with
  | .inMsg .restart 1 | .inMsg .nofd 1 => guardC s = true
  | .inMsg .restart 2 | .inMsg .nofd 2 => guardC s = false
  | .inMsg .enable k | .inMsg .disable k | .inMsg .reset k => k ≤ 2
  | .inMsg _ k => k ≤ 3
  | .idle => True

set_option linter.unusedSimpArgs false

/-! ## the segments, after the edit -/

/-- the segment of `set_vring_kick` from `ctl.state` -/
def kickStateSeg (mu : Bool) : List LEvent := [
  .ifCond (if mu then notReady else needsInit)
    [initializeVring [.vringCall "set_queue_ready" ["true"], .hold "ctl.ready"]]
    [updateReg "index" updateRegHead]]

def isKick : CMsg → Bool
  | .restart | .nofd => true
  | _ => false

def ctlSegOf (mu : Bool) (m : CMsg) (k : Nat) (v : Bool) : List LEvent :=
  if isKick m && (k == 1 || (k == 2 && !v)) then kickStateSeg mu else ctlSeg m k v

theorem editB_ctlSeg (mu : Bool) (m : CMsg) (k : Nat) (v : Bool) (hk : k ≤ 3) :
    editB mu (ctlSeg m k v) = ctlSegOf mu m k v := by
  have : k = 0 ∨ k = 1 ∨ k = 2 ∨ k = 3 := by omega
  rcases this with rfl | rfl | rfl | rfl <;> cases mu <;> cases m <;> cases v <;> decide +kernel

/-! ## `cStep` is the interpretation of the segments -/

theorem cStep_stage0 (s : St) (m : CMsg) (v : Bool) (hpc : s.cpc = .inMsg m 0)
    (h1 : isKick m = true → 0 = 1 → guardC s = true)
    (h2 : isKick m = true → 0 = 2 → v = false → guardC s = false)
    (h3 : isKick m = false → 0 ≤ (if m = .stop then 3 else 2)) :
    cStep s = finishC (evsC (ctlSegOf s.cfg.nofdStarts m 0 v) (startC s m)) := by
  unfold cStep
  rw [hpc]
  cases m <;> simp [isKick] at h1 h2 h3 ⊢ <;>
    cases v <;> cases hn : s.cfg.nofdStarts <;> cases hr : s.ready <;> cases he : s.enabled <;> cases hkk : s.kick <;>
    (try simp [guardC, hn, hr, hkk] at h1 h2) <;>
    simp [ctlSegOf, isKick, kickStateSeg, ctlSeg, segOf, lrowOf, controlSegments, ctlFn, ctlPoint, List.lookup, updateReg,
      updateRegHead, threadLoop, unregisterKick, initializeVring, resetTail, resetLoopBody, evsC, evC, actC, vringCallC, boolArgC,
      condC, afterCallC, endForC, startC, finishC, stageAt, guardC, reply, epollUpdate, unregKick, emit, ownsRing, readyEnabled,
      needsInit, notReady, threads, hn, hr, he, hkk, noteDisable, noteStop] <;>
    (try first | rfl | exact ⟨rfl, rfl⟩ | exact ⟨rfl, rfl, rfl⟩)

theorem cStep_stage1 (s : St) (m : CMsg) (v : Bool) (hpc : s.cpc = .inMsg m 1)
    (h1 : isKick m = true → 1 = 1 → guardC s = true)
    (h2 : isKick m = true → 1 = 2 → v = false → guardC s = false)
    (h3 : isKick m = false → 1 ≤ (if m = .stop then 3 else 2)) :
    cStep s = finishC (evsC (ctlSegOf s.cfg.nofdStarts m 1 v) (startC s m)) := by
  unfold cStep
  rw [hpc]
  cases m <;> simp [isKick] at h1 h2 h3 ⊢ <;>
    cases v <;> cases hn : s.cfg.nofdStarts <;> cases hr : s.ready <;> cases he : s.enabled <;> cases hkk : s.kick <;>
    (try simp [guardC, hn, hr, hkk] at h1 h2) <;>
    simp [ctlSegOf, isKick, kickStateSeg, ctlSeg, segOf, lrowOf, controlSegments, ctlFn, ctlPoint, List.lookup, updateReg,
      updateRegHead, threadLoop, unregisterKick, initializeVring, resetTail, resetLoopBody, evsC, evC, actC, vringCallC, boolArgC,
      condC, afterCallC, endForC, startC, finishC, stageAt, guardC, reply, epollUpdate, unregKick, emit, ownsRing, readyEnabled,
      needsInit, notReady, threads, hn, hr, he, hkk, noteDisable, noteStop] <;>
    (try first | rfl | exact ⟨rfl, rfl⟩ | exact ⟨rfl, rfl, rfl⟩)

theorem cStep_stage2 (s : St) (m : CMsg) (v : Bool) (hpc : s.cpc = .inMsg m 2)
    (h1 : isKick m = true → 2 = 1 → guardC s = true)
    (h2 : isKick m = true → 2 = 2 → v = false → guardC s = false)
    (h3 : isKick m = false → 2 ≤ (if m = .stop then 3 else 2)) :
    cStep s = finishC (evsC (ctlSegOf s.cfg.nofdStarts m 2 v) (startC s m)) := by
  unfold cStep
  rw [hpc]
  cases m <;> simp [isKick] at h1 h2 h3 ⊢ <;>
    cases v <;> cases hn : s.cfg.nofdStarts <;> cases hr : s.ready <;> cases he : s.enabled <;> cases hkk : s.kick <;>
    (try simp [guardC, hn, hr, hkk] at h1 h2) <;>
    simp [ctlSegOf, isKick, kickStateSeg, ctlSeg, segOf, lrowOf, controlSegments, ctlFn, ctlPoint, List.lookup, updateReg,
      updateRegHead, threadLoop, unregisterKick, initializeVring, resetTail, resetLoopBody, evsC, evC, actC, vringCallC, boolArgC,
      condC, afterCallC, endForC, startC, finishC, stageAt, guardC, reply, epollUpdate, unregKick, emit, ownsRing, readyEnabled,
      needsInit, notReady, threads, hn, hr, he, hkk, noteDisable, noteStop] <;>
    (try first | rfl | exact ⟨rfl, rfl⟩ | exact ⟨rfl, rfl, rfl⟩)

theorem cStep_stage3 (s : St) (m : CMsg) (v : Bool) (hpc : s.cpc = .inMsg m 3)
    (h1 : isKick m = true → 3 = 1 → guardC s = true)
    (h2 : isKick m = true → 3 = 2 → v = false → guardC s = false)
    (h3 : isKick m = false → 3 ≤ (if m = .stop then 3 else 2)) :
    cStep s = finishC (evsC (ctlSegOf s.cfg.nofdStarts m 3 v) (startC s m)) := by
  unfold cStep
  rw [hpc]
  cases m <;> simp [isKick] at h1 h2 h3 ⊢ <;>
    cases v <;> cases hn : s.cfg.nofdStarts <;> cases hr : s.ready <;> cases he : s.enabled <;> cases hkk : s.kick <;>
    (try simp [guardC, hn, hr, hkk] at h1 h2) <;>
    simp [ctlSegOf, isKick, kickStateSeg, ctlSeg, segOf, lrowOf, controlSegments, ctlFn, ctlPoint, List.lookup, updateReg,
      updateRegHead, threadLoop, unregisterKick, initializeVring, resetTail, resetLoopBody, evsC, evC, actC, vringCallC, boolArgC,
      condC, afterCallC, endForC, startC, finishC, stageAt, guardC, reply, epollUpdate, unregKick, emit, ownsRing, readyEnabled,
      needsInit, notReady, threads, hn, hr, he, hkk, noteDisable, noteStop] <;>
    (try first | rfl | exact ⟨rfl, rfl⟩ | exact ⟨rfl, rfl, rfl⟩)

/-- every stage of every message: the model's step is the interpretation of the stage's segment (edited for the mutated
guard if `cfg.nofdStarts`) -/
theorem cStep_core (s : St) (m : CMsg) (k : Nat) (v : Bool) (hpc : s.cpc = .inMsg m k) (hk : k ≤ 3)
    (h1 : isKick m = true → k = 1 → guardC s = true)
    (h2 : isKick m = true → k = 2 → v = false → guardC s = false)
    (h3 : isKick m = false → k ≤ (if m = .stop then 3 else 2)) :
    cStep s = interpC s v := by
  unfold interpC
  rw [hpc]
  simp only [hk, if_true, editC, editB_ctlSeg _ _ _ _ hk]
  have : k = 0 ∨ k = 1 ∨ k = 2 ∨ k = 3 := by omega
  rcases this with rfl | rfl | rfl | rfl
  · exact cStep_stage0 s m v hpc h1 h2 h3
  · exact cStep_stage1 s m v hpc h1 h2 h3
  · exact cStep_stage2 s m v hpc h1 h2 h3
  · exact cStep_stage3 s m v hpc h1 h2 h3

/-- every control step, for every state (within the stage numbering the model maintains) and both readings of the
stages of SET_VRING_KICK that two hold points share -/
theorem cStep_is_segments (s : St) (h : StageInv s) (v : Bool) : cStep s = interpC s v := by
  cases hpc : s.cpc with
  | idle => simp [cStep, interpC, hpc]
  | inMsg m k =>
    by_cases hk : k ≤ 3
    · apply cStep_core s m k v hpc hk
      · intro hm h1; subst h1; cases m <;> simp [isKick] at hm <;> simpa [StageInv, hpc] using h
      · intro hm h2 _; subst h2; cases m <;> simp [isKick] at hm <;> simpa [StageInv, hpc] using h
      · intro hm; cases m <;> simp [isKick] at hm ⊢ <;> simpa [StageInv, hpc] using h
    · have : 4 ≤ k := by omega
      obtain ⟨j, rfl⟩ : ∃ j, k = j + 4 := ⟨k - 4, by omega⟩
      simp [interpC, hpc, cStep]

/-- the worker writes neither `ready` nor `kick` nor the control thread's program counter -/
theorem wStep_frame (s s' : St) (h : wStep s = some s') :
    s'.cpc = s.cpc ∧ s'.ready = s.ready ∧ s'.kick = s.kick ∧ s'.cfg = s.cfg := by
  unfold wStep at h
  repeat' split at h
  all_goals (first | (injection h with h; subst h; simp [emit]) | simp at h)

theorem stageInv_init (cfg : Cfg) : StageInv (init cfg) := by simp [StageInv, init]

theorem cStep_inv (s s' : St) (_hi : StageInv s) (h : cStep s = some s') : StageInv s' := by
  unfold cStep at h
  cases hpc : s.cpc with
  | idle => simp [hpc] at h
  | inMsg m k =>
    rw [hpc] at h
    match k with
    | 0 | 1 | 2 | 3 =>
      cases m <;> simp at h <;> subst h <;>
        simp [StageInv, hpc, reply, emit, epollUpdate, unregKick, noteDisable, noteStop, guardC] <;>
        (try (cases hr : s.ready <;> cases hn : s.cfg.nofdStarts <;> cases hkk : s.kick <;> simp_all))
    | k + 4 => cases m <;> simp at h


theorem step_inv (s s' : St) (l : Lbl) (hi : StageInv s) (h : step s l = some s') : StageInv s' := by
  cases l with
  | kick d =>
    simp [step] at h; subst h
    exact hi
  | w =>
    obtain ⟨h1, h2, h3, h4⟩ := wStep_frame s s' h
    unfold StageInv guardC at hi ⊢
    rw [h1, h2, h3, h4]; exact hi
  | send m =>
    simp only [step] at h
    cases hpc : s.cpc with
    | idle => rw [hpc] at h; simp at h; subst h; cases m <;> simp [StageInv, emit]
    | inMsg m' k => rw [hpc] at h; simp at h
  | c => exact cStep_inv s s' hi h

/-- the stage numbering holds in every state reachable from `init` (`stageInv_init`) -/
theorem run_inv (ls : List Lbl) : ∀ (s s' : St), StageInv s → run s ls = some s' → StageInv s' := by
  induction ls with
  | nil => intro s s' hi h; simp [run] at h; subst h; exact hi
  | cons l ls ih =>
    intro s s' hi h
    simp only [run] at h
    cases hs : step s l with
    | none => simp [hs] at h
    | some s1 => rw [hs] at h; exact ih s1 s' (step_inv s s1 l hi hs) h

end Lemmas.LtsControl
