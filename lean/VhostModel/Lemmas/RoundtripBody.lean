import VhostModel.Lemmas.RoundtripAck
/-!
# C03, operations with a reply of fixed size (`recv_reply`, `recv_reply_with_files`, `recv_reply_with_optional_files`)

`wr` tells whether the server wrote a reply at all (the value getters write nothing when the handler fails and return
the handler's error; other arms always reply and report the failure in band).
-/
namespace Lemmas.Roundtrip
open Base Model.Stream Model.Msgs Model.Frontend
open Model.BackendSrv (Err Hdr bitSet BSt HOut Out Res replyHdr)

theorem if_wr_nil {α : Type} (wr : Bool) (x : List α) (h : wr = false) : (if wr then x else []) = [] := by simp [h]
theorem if_wr_some {α : Type} (wr : Bool) (x : List α) (h : wr = true) : (if wr then x else []) = x := by simp [h]

/-- **`recv_reply::<ty>`** -/
theorem turn_body {σ : Type} (ch : Chooser σ) (cl : Bool) (s' : FSt) (op : Op) (req : Req) (h : HOut) (d : Out) (cst : σ)
    (file : Fd) (ty : String) (n : Nat) (body : Bytes) (wr : Bool)
    (hk : req.kind = .body ty) (hty : sizeOfTy ty = some n) (hn : n ≤ 0x1000)
    (hout : d.out = if wr then replyHdr (reqHdr s' req) n ++ body else []) (hfds : d.outFds = 0)
    (hres : wr = false → d.res = .err .handlerErr)
    (hblen : body.length = n) (hval : wr = true → bodyValidTy ty body = some true)
    (hwr : usable op h = true → wr = true)
    (hfinok : wr = true → usable op h = true →
      finish s' op ⟨⟨(reqHdr s' req).code, 5, n⟩, body, [], none⟩ = (expectedValue op h file, feAfter s' op h))
    (hfinerr : wr = true → usable op h = false →
      ∃ e, finish s' op ⟨⟨(reqHdr s' req).code, 5, n⟩, body, [], none⟩ = (.err e, s'))
    (hq : ReqOk (reqHdr s' req)) :
    TurnSpec ch cl s' op req h d cst file := by
  have haw : awaits s' req = true := by simp [awaits, hk]
  have hcells : replyCells d file = segCells (if wr then replyHdr (reqHdr s' req) n ++ body else []) [] := by
    simp only [replyCells, hout, hfds, List.replicate_zero]
  constructor
  · intro hw; rw [haw] at hw; cases hw
  · intro _ hu
    have hw := hwr hu
    rw [hcells, if_wr_some _ _ hw]
    obtain ⟨r1, r2⟩ := recv_body_reply ch cl s' req cst ty n body hk hty hblen hn (hval hw) hq
    obtain ⟨a, b, c⟩ := callRecv_of_ok ch cl s' op req cst _ r2
    rw [hfinok hw hu] at a b
    exact ⟨a, b, c.trans r1⟩
  · intro _ hu
    cases hw : wr with
    | true =>
      rw [hcells, if_wr_some _ _ hw]
      obtain ⟨r1, r2⟩ := recv_body_reply ch cl s' req cst ty n body hk hty hblen hn (hval hw) hq
      obtain ⟨a, b, c⟩ := callRecv_of_ok ch cl s' op req cst _ r2
      obtain ⟨e, he⟩ := hfinerr hw hu
      rw [he] at a b
      exact ⟨b, Or.inl ⟨e, a⟩⟩
    | false =>
      rw [hcells, if_wr_nil _ _ hw, segCells_nil]
      obtain ⟨a, b⟩ := callRecv_nil ch cl s' op req cst haw
      refine ⟨a, ?_⟩
      rcases b with b | ⟨b1, b2⟩
      · exact Or.inl b
      · exact Or.inr ⟨b1, b2, by rw [hout, if_wr_nil _ _ hw], hres hw⟩

/-- `turn_body` for a value getter: a reply iff the handler succeeded, every success usable -/
theorem turn_body_simple {σ : Type} (ch : Chooser σ) (cl : Bool) (s' : FSt) (op : Op) (req : Req) (h : HOut) (d : Out) (cst : σ)
    (file : Fd) (ty : String) (n : Nat) (body : Bytes)
    (hk : req.kind = .body ty) (hty : sizeOfTy ty = some n) (hn : n ≤ 0x1000)
    (hout : d.out = if h.ok then replyHdr (reqHdr s' req) n ++ body else []) (hfds : d.outFds = 0)
    (hres : h.ok = false → d.res = .err .handlerErr)
    (hblen : body.length = n) (hval : bodyValidTy ty body = some true) (hus : usable op h = h.ok)
    (hfinok : finish s' op ⟨⟨(reqHdr s' req).code, 5, n⟩, body, [], none⟩ = (expectedValue op h file, feAfter s' op h))
    (hq : ReqOk (reqHdr s' req)) :
    TurnSpec ch cl s' op req h d cst file :=
  turn_body ch cl s' op req h d cst file ty n body h.ok hk hty hn hout hfds hres hblen (fun _ => hval)
    (fun hu => by rw [hus] at hu; exact hu) (fun _ _ => hfinok)
    (fun hw hu => by rw [hus, hw] at hu; cases hu) hq

/-- **`recv_reply_with_files::<ty>`**: the handler's file comes along iff the handler succeeded -/
theorem turn_bodyFiles {σ : Type} (ch : Chooser σ) (cl : Bool) (s' : FSt) (op : Op) (req : Req) (h : HOut) (d : Out) (cst : σ)
    (file : Fd) (ty : String) (n : Nat) (body : Bytes) (wr : Bool)
    (hk : req.kind = .bodyFiles ty) (hty : sizeOfTy ty = some n) (hn : n ≤ 0x1000)
    (hout : d.out = if wr then replyHdr (reqHdr s' req) n ++ body else []) (hfds : d.outFds = if h.ok then 1 else 0)
    (hres : wr = false → d.res = .err .handlerErr)
    (hblen : body.length = n) (hval : wr = true → bodyValidTy ty body = some true)
    (hwr : h.ok = true → wr = true) (hus : usable op h = h.ok)
    (hfinok : h.ok = true →
      finish s' op ⟨⟨(reqHdr s' req).code, 5, n⟩, body, [], some [file]⟩ = (expectedValue op h file, feAfter s' op h))
    (hq : ReqOk (reqHdr s' req)) :
    TurnSpec ch cl s' op req h d cst file := by
  have haw : awaits s' req = true := by simp [awaits, hk]
  constructor
  · intro hw; rw [haw] at hw; cases hw
  · intro _ hu
    rw [hus] at hu
    have hw := hwr hu
    have hcells : replyCells d file = segCells (replyHdr (reqHdr s' req) n ++ body) [file] := by
      simp only [replyCells, hout, hfds, hu, if_true, hw, List.replicate_one]
    rw [hcells]
    obtain ⟨r1, r2, _⟩ := recv_bodyFiles_reply ch cl s' req cst ty n body [file] hk hty hblen hn (hval hw) hq (by simp)
    obtain ⟨a, b, c⟩ := callRecv_of_ok ch cl s' op req cst _ (r2 (by simp))
    rw [hfinok hu] at a b
    exact ⟨a, b, c.trans r1⟩
  · intro _ hu
    rw [hus] at hu
    cases hw : wr with
    | true =>
      have hcells : replyCells d file = segCells (replyHdr (reqHdr s' req) n ++ body) [] := by
        simp only [replyCells, hout, hfds, hu, hw, if_true, Bool.false_eq_true, if_false, List.replicate_zero]
      rw [hcells]
      obtain ⟨_, _, r3⟩ := recv_bodyFiles_reply ch cl s' req cst ty n body [] hk hty hblen hn (hval hw) hq (by simp)
      obtain ⟨a, b, _⟩ := callRecv_of_err ch cl s' op req cst _ (r3 rfl)
      exact ⟨b, Or.inl ⟨_, a⟩⟩
    | false =>
      have hcells : replyCells d file = [] := by
        simp only [replyCells, hout, hw, Bool.false_eq_true, if_false, segCells_nil]
      rw [hcells]
      obtain ⟨a, b⟩ := callRecv_nil ch cl s' op req cst haw
      refine ⟨a, ?_⟩
      rcases b with b | ⟨b1, b2⟩
      · exact Or.inl b
      · exact Or.inr ⟨b1, b2, by rw [hout, if_wr_nil _ _ hw], hres hw⟩

/-- **`recv_reply_with_optional_files::<ty>`** on a reply that is always written, with `k ≤ 1` descriptors -/
theorem turn_bodyOptFiles {σ : Type} (ch : Chooser σ) (cl : Bool) (s' : FSt) (op : Op) (req : Req) (h : HOut) (d : Out) (cst : σ)
    (file : Fd) (ty : String) (n : Nat) (body : Bytes) (k : Nat)
    (hk : req.kind = .bodyOptFiles ty) (hty : sizeOfTy ty = some n) (hn : n ≤ 0x1000)
    (hout : d.out = replyHdr (reqHdr s' req) n ++ body) (hfds : d.outFds = k) (hk1 : k ≤ 1)
    (hblen : body.length = n) (hval : bodyValidTy ty body = some true)
    (hfinok : usable op h = true →
      finish s' op ⟨⟨(reqHdr s' req).code, 5, n⟩, body, [], if (List.replicate k file).isEmpty then none else some (List.replicate k file)⟩ =
        (expectedValue op h file, feAfter s' op h))
    (hfinerr : usable op h = false →
      ∃ e, finish s' op ⟨⟨(reqHdr s' req).code, 5, n⟩, body, [], if (List.replicate k file).isEmpty then none else some (List.replicate k file)⟩ =
        (.err e, s'))
    (hq : ReqOk (reqHdr s' req)) :
    TurnSpec ch cl s' op req h d cst file := by
  have haw : awaits s' req = true := by simp [awaits, hk]
  have hcells : replyCells d file = segCells (replyHdr (reqHdr s' req) n ++ body) (List.replicate k file) := by
    simp only [replyCells, hout, hfds]
  obtain ⟨r1, r2⟩ := recv_bodyOptFiles_reply ch cl s' req cst ty n body (List.replicate k file) hk hty hblen hn hval hq
    (by simp; omega)
  obtain ⟨a, b, c⟩ := callRecv_of_ok ch cl s' op req cst _ r2
  constructor
  · intro hw; rw [haw] at hw; cases hw
  · intro _ hu
    rw [hcells]
    rw [hfinok hu] at a b
    exact ⟨a, b, c.trans r1⟩
  · intro _ hu
    rw [hcells]
    obtain ⟨e, he⟩ := hfinerr hu
    rw [he] at a b
    exact ⟨b, Or.inl ⟨e, a⟩⟩

end Lemmas.Roundtrip
