import VhostModel.Model.LtsTable
/-!
# Reading the segments of the shutdown paths in `Model.Shutdown` (C16)

`evsS` interprets a segment of `lib.rs` (the daemon thread's closure, `ShutdownHandle::shutdown`, `wait()`,
`Drop for VhostUserDaemon`) on the connection transition system `Model.Shutdown.St`.

Reading conventions of this model (header of `Model/Shutdown.lean`):
* `handle_request` is not one step of the model but a run of `dRead` / `dEof` / `dReset` / `dHandle` / `dReply` steps (one per
  system call) between `dEnter` and the step that reaches `post` (`Ok`) or `fin e` (`Err(e)`): the event `handleRequest`
  *enters* the call (`pre ↦ hdr 0`, flow `inCall`); `returned r` reads the rest of the segment with the call's result;
* hold points set the daemon thread's program counter: `daemon.before_handle_request ↦ pre`,
  `daemon.after_handle_request_ok ↦ post`, `daemon.before_final_shutdown ↦ fin e` with `e` the value the loop was left with;
  `shutdown.between_flag_and_socket ↦ stored` for the caller at hand;
* `sockShutdown` is `shutdown(Both)` on our end (idempotent, result ignored); `join` returns once the daemon thread has
  returned (`exited e`: the thread's result is `Err(HandleRequest(e))`; panics are not modelled, so `map_err(WaitDaemon)?`
  does not fail), else it blocks;
* `self.main_thread.take()` / `self.conn_state.take()` empty `hasThread` / `hasConn`; `wait()` has no hold point: the model
  splits its one segment at `join` (`wJoin` = up to and including `join`, `wClassify` = the rest);
* patterns: `SocketBroken(_)` is the class `sockBroken`; `Err(Error::HandleRequest(_))` and `Err(error)` take every `err e`.
-/
namespace Lemmas.LtsShutdown
open Base Model.Shutdown Model.LtsTable

inductive Flow where
  | run
  | held (n : String)
  | ret
  | brkVal
  | blocked
  /-- inside `handle_request` -/
  | inCall
  /-- an arm that does not take the value -/
  | noMatch
  | spin
  deriving DecidableEq, Repr

structure SS where
  st : St
  flow : Flow
  /-- the shutdown caller at hand -/
  who : Nat
  /-- result of `handle_request`: `none` = `Ok` -/
  hr : Option Err
  /-- value of `let result = loop { .. }` -/
  result : Option Err
  /-- value of `handle.join()` -/
  joined : Option TRes
  /-- value of `let result = match .. { .. }` / of the function -/
  wres : Option WRes
  /-- value of the last guard -/
  val : Bool

def startS (st : St) : SS :=
  { st := st, flow := .run, who := 0, hr := none,
    result := (match st.d with
               | .fin e => some e
               | _ => none),
    joined := (match st.w with
               | .joined e => some (.err e)
               | .idle => none),
    wres := none, val := false }

def holdS (n : String) (s : SS) : SS :=
  { s with
    flow := .held n
    st := if n = "daemon.before_handle_request" then { s.st with d := .pre }
          else if n = "daemon.after_handle_request_ok" then { s.st with d := .post }
          else if n = "daemon.before_final_shutdown" then { s.st with d := .fin (s.result.getD default) }
          else if n = "shutdown.between_flag_and_socket" then { s.st with callers := upd s.st.callers s.who .stored }
          else s.st }

def valueS (v : String) (s : SS) : SS :=
  if v = "false" then { s with val := false }
  else if v = "Ok(())" then { s with wres := some .ok }
  else if v = "Err(error)" then
    { s with wres := (match s.joined with
                      | some (.err e) => some (.err e)
                      | _ => s.wres) }
  else if v = "result" then { s with flow := .ret }
  else s

def actS (a : LAct) (s : SS) : SS :=
  match a with
  | .hold n => holdS n s
  | .handleRequest _ => { s with st := { s.st with d := .hdr 0 }, flow := .inCall }
  | .brkVal _ => { s with flow := .brkVal }
  | .sockShutdown _ => { s with st := { s.st with shut := true } }
  | .atomicStore _ _ _ => { s with st := { s.st with flag := true } }
  | .atomicLoad _ _ => { s with val := s.st.flag }
  | .threadJoin _ _ =>
    (match s.st.d with
     | .exited e => { s with st := { s.st with w := .joined e }, joined := some (.err e) }
     | _ => { s with flow := .blocked })
  | .h (.setField n _) => if n = "conn_state" then { s with st := { s.st with hasConn := false } } else s
  | .h (.value v) => valueS v s
  | .h .ok => { s with wres := some .ok, flow := .ret }
  | .h .done => { s with flow := .ret }
  | _ => s

def patOkS (p : String) (s : SS) : Bool :=
  match s.joined with
  | some .ok => p = "Ok(())"
  | some (.err e) =>
    if p = "Err(Error::HandleRequest(VhostUserError::SocketBroken(_)))" then decide (e = .sockBroken)
    else p = "Err(Error::HandleRequest(_))" || p = "Err(error)"
  | none => false

def afterCallS (s : SS) : SS :=
  match s.flow with
  | .ret => { s with flow := .run }
  | _ => s

def endLoopS (s : SS) : SS :=
  match s.flow with
  | .brkVal => { s with flow := .run, result := s.hr }
  | .run => { s with flow := .spin }
  | _ => s

mutual
def evS : LEvent → SS → SS
  | .act a, s => actS a s
  | .node k ss b1 b2, s =>
    match k with
    | .ifLet => if s.hr.isSome then evsS b1 s else evsS b2 s
    | .letElse => if s.st.hasThread then { s with st := { s.st with hasThread := false } } else evsS b1 s
    | .ifSome =>
      if ss.headD "" = "self.conn_state.take()" then
        (if s.st.hasConn then evsS b1 { s with st := { s.st with hasConn := false } } else evsS b2 s)
      else (if s.st.hasConn then evsS b1 s else evsS b2 s)
    | .helperCall _ => afterCallS (evsS b1 s)
    | .loop => endLoopS (evsS b1 s)
    | .loopFrom =>
      let s1 := evsS b1 s
      (match s1.flow with
       | .run => endLoopS (evsS b2 s1)
       | .brkVal => { s1 with flow := .run, result := s1.hr }
       | _ => s1)
    | .matchOn => armsS b1 s
    | .arm =>
      if patOkS (ss.headD "") s then
        (if ss.getD 1 "" = "" then evsS b2 s
         else
          let s1 := evsS b1 s
          if s1.val then evsS b2 s1 else { s1 with flow := .noMatch })
      else { s with flow := .noMatch }
    | _ => s
def evsS : List LEvent → SS → SS
  | [], s => s
  | e :: es, s =>
    match (evS e s).flow with
    | .run => evsS es (evS e s)
    | _ => evS e s
def armsS : List LEvent → SS → SS
  | [], s => s
  | e :: es, s =>
    match (evS e s).flow with
    | .noMatch => armsS es { evS e s with flow := .run }
    | _ => evS e s
end

/-! ## the daemon thread -/

def daemonSeg (p : String) : List LEvent := segOf shutdownSegments "daemon_thread" p

/-- a segment of the daemon thread, run from `st` -/
def interpD (p : String) (st : St) : Option St :=
  let s := evsS (daemonSeg p) (startS st)
  match s.flow with
  | .held _ | .inCall => some s.st
  | .ret => some { s.st with d := .exited (s.result.getD default) }
  | _ => none

/-- the rest of the segment from `daemon.before_handle_request` once `handle_request` has returned `r` -/
def returned (r : Option Err) (st : St) : Option St :=
  let s := evsS (.loopFrom "" "result" daemonAfterCall daemonLoopTop :: daemonExit) { startS st with hr := r }
  match s.flow with
  | .held _ => some s.st
  | _ => none

def DPc.inCall : DPc → Bool
  | .hdr _ | .body _ _ | .handler _ | .reply _ => true
  | _ => false

set_option linter.unusedSimpArgs false

theorem daemonSeg_before :
    daemonSeg "daemon.before_handle_request" =
      .loopFrom "" "result" (.handleRequest "HandleRequest" :: daemonAfterCall) daemonLoopTop :: daemonExit := by
  decide +kernel

/-- `dEnter`: from the top of the loop into `handle_request` -/
theorem dEnter_is_segment (s : St) (h : s.d = .pre) : step s .dEnter = interpD "daemon.before_handle_request" s := by
  simp [step, h, interpD, daemonSeg, segOf, lrowOf, shutdownSegments, List.lookup, daemonAfterCall, daemonLoopTop, daemonExit,
    evsS, evS, actS, startS]

/-- `handle_request` returned: `Ok` leads to `daemon.after_handle_request_ok` (`post`), `Err(e)` leaves the loop with
`Err(e)` and leads to `daemon.before_final_shutdown` (`fin e`); nothing else changes -/
theorem returned_is (r : Option Err) (st : St) :
    returned r st = some { st with d := match r with
                                        | none => .post
                                        | some e => .fin e } := by
  cases r <;>
    simp [returned, daemonAfterCall, daemonLoopTop, daemonExit, hrScrut, evsS, evS, actS, holdS, endLoopS, startS]

/-- where a step of the model inside `handle_request` can lead -/
def DPc.inOrOut (d : DPc) : Prop := DPc.inCall d = true ∨ d = .post ∨ ∃ e, d = .fin e

theorem inOrOut_afterHdr (r : Req) : DPc.inOrOut (afterHdr r) := by
  unfold afterHdr DPc.inOrOut
  split
  · exact .inr (.inr ⟨_, rfl⟩)
  · split
    · split
      · exact .inl rfl
      · exact .inr (.inr ⟨_, rfl⟩)
    · exact .inl rfl

theorem inOrOut_afterHandler (r : Req) : DPc.inOrOut (afterHandler r) := by
  unfold afterHandler DPc.inOrOut
  split
  · exact .inr (.inl rfl)
  · exact .inr (.inr ⟨_, rfl⟩)

theorem inner_pc (s s' : St) (l : Lbl) (hin : DPc.inCall s.d = true) (hl : l.isDaemon = true)
    (h : step s l = some s') : DPc.inOrOut s'.d := by
  cases l <;> simp [Lbl.isDaemon] at hl <;> simp only [step] at h
  all_goals
    (cases hd : s.d <;> rw [hd] at h hin <;> simp [DPc.inCall] at hin <;> simp at h)
  case dRead.hdr n got =>
    obtain ⟨_, h⟩ := h
    split at h
    · split at h <;> (injection h with h; subst h)
      · exact .inr (.inr ⟨_, rfl⟩)
      · exact inOrOut_afterHdr _
    · injection h with h; subst h; exact .inl rfl
  case dRead.body n r need =>
    obtain ⟨_, h⟩ := h
    split at h <;> (injection h with h; subst h)
    · show DPc.inOrOut (if r.bodyOk = true then DPc.handler r else DPc.fin Err.invalidMsg)
      split
      · exact .inl rfl
      · exact .inr (.inr ⟨_, rfl⟩)
    · exact .inl rfl
  case dEof.hdr => obtain ⟨_, h⟩ := h; subst h; exact .inr (.inr ⟨_, rfl⟩)
  case dEof.body => obtain ⟨_, h⟩ := h; subst h; exact .inr (.inr ⟨_, rfl⟩)
  case dReset.hdr => obtain ⟨_, h⟩ := h; subst h; exact .inr (.inr ⟨_, rfl⟩)
  case dReset.body => obtain ⟨_, h⟩ := h; subst h; exact .inr (.inr ⟨_, rfl⟩)
  case dHandle.handler r =>
    subst h
    show DPc.inOrOut (if r.reply = 0 then afterHandler r else DPc.reply r)
    split
    · exact inOrOut_afterHandler _
    · exact .inl rfl
  case dReply.reply r =>
    split at h <;> (injection h with h; subst h)
    · exact .inr (.inr ⟨_, rfl⟩)
    · exact inOrOut_afterHandler _

/-- every step of the model inside `handle_request` stays inside it or returns from it as `returned` says: the step lands
where the rest of the segment, read with some result `r` of the call, lands -/
theorem inner_steps (s s' : St) (l : Lbl) (hin : DPc.inCall s.d = true) (hl : l.isDaemon = true)
    (h : step s l = some s') :
    DPc.inCall s'.d = true ∨ ∃ r, returned r s' = some s' := by
  rcases inner_pc s s' l hin hl h with hd | hd | ⟨e, hd⟩
  · exact .inl hd
  · right; refine ⟨none, ?_⟩; rw [returned_is]; simp only; rw [← hd]
  · right; refine ⟨some e, ?_⟩; rw [returned_is]; simp only; rw [← hd]

/-- `dLoop`: from `daemon.after_handle_request_ok` round the loop to `daemon.before_handle_request` -/
theorem dLoop_is_segment (s : St) (h : s.d = .post) : step s .dLoop = interpD "daemon.after_handle_request_ok" s := by
  simp [step, h, interpD, daemonSeg, segOf, lrowOf, shutdownSegments, List.lookup, daemonAfterCall, daemonLoopTop, daemonExit,
    evsS, evS, actS, holdS, endLoopS, startS]

/-- `dFinal`: the exit path — `conn.shutdown(Both)` whatever the result, then the closure returns the loop's value -/
theorem dFinal_is_segment (s : St) (e : Err) (h : s.d = .fin e) :
    step s .dFinal = interpD "daemon.before_final_shutdown" s := by
  simp [step, h, interpD, daemonSeg, segOf, lrowOf, shutdownSegments, List.lookup, evsS, evS, actS, valueS, startS]

/-! ## `ShutdownHandle::shutdown` -/

def interpShutdown (p : String) (i : Nat) (st : St) : Option St :=
  let s := evsS (segOf shutdownSegments "shutdown" p) { startS st with who := i }
  match s.flow with
  | .held _ => some s.st
  | .ret => some { s.st with callers := upd s.st.callers i .idle, completed := s.st.completed + 1 }
  | _ => none

/-- `cStore i`: the flag store, up to the hold point -/
theorem cStore_is_segment (s : St) (i : Nat) (h : s.callers i = .idle) :
    step s (.cStore i) = interpShutdown "entry" i s := by
  simp [step, h, interpShutdown, segOf, lrowOf, shutdownSegments, List.lookup, evsS, evS, actS, holdS, startS]

/-- `cShut i`: the socket shutdown, and the call returns -/
theorem cShut_is_segment (s : St) (i : Nat) (h : s.callers i = .stored) :
    step s (.cShut i) = interpShutdown "shutdown.between_flag_and_socket" i s := by
  simp [step, h, interpShutdown, segOf, lrowOf, shutdownSegments, List.lookup, evsS, evS, actS, holdS, startS]

/-! ## `wait()` -/

/-- `wait()` from its entry up to and including `join` -/
def interpWaitJoin (st : St) : Option St :=
  let s := evsS waitJoin (startS st)
  match s.flow with
  | .run => some s.st
  | _ => none

/-- the function returned: its result is recorded -/
def finishWait (s : SS) : Option St :=
  match s.flow with
  | .ret => s.wres.map fun r => { s.st with results := s.st.results ++ [r], w := .idle }
  | _ => none

theorem wait_segment : segOf shutdownSegments "wait" "entry" = waitJoin ++ waitClassify := by decide +kernel

/-- `wJoin`: `main_thread.take()` and `join`; blocked (`none`) as long as the daemon thread has not returned -/
theorem wJoin_is_segment (s : St) (h : s.hasThread = true ∧ s.w = .idle ∧ s.dropped = false) :
    step s .wJoin = interpWaitJoin s := by
  obtain ⟨h1, h2, h3⟩ := h
  cases hd : s.d <;>
    simp [step, h1, h2, h3, hd, interpWaitJoin, waitJoin, resetConn, flagRead, evsS, evS, actS, startS]

/-- `wClassify`: the four arms, the reset of the connection state, the result (`hasConn`: the closure reads the flag
through `conn_state`, which is there whenever there is a thread to join — `connInv`) -/
theorem wClassify_is_segment (s : St) (e : Err) (h : s.w = .joined e) (hc : s.hasConn = true) :
    step s .wClassify = finishWait (evsS waitClassify (startS s)) := by
  cases e <;> cases hf : s.flag <;>
    simp [step, h, hc, hf, finishWait, waitClassify, resetConn, flagRead, evsS, evS, armsS, actS, valueS, patOkS, afterCallS,
      startS, classifyWait]

/-- the four arms of `wait()` by name: what the interpretation of `waitClassify` records for a thread result `err e` -/
theorem wait_arms (s : St) (e : Err) (h : s.w = .joined e) (hc : s.hasConn = true) :
    (finishWait (evsS waitClassify (startS s))).map (·.results) =
      some (s.results ++ [if e = .sockBroken then .ok else if s.flag then .ok else .err e]) := by
  rw [← wClassify_is_segment s e h hc]
  cases e <;> cases hf : s.flag <;> simp [step, h, classifyWait, hf]

/-- `wNoThread`: the `let … else` arm of `wait()` -/
theorem wNoThread_is_segment (s : St) (h : s.hasThread = false ∧ s.w = .idle ∧ s.dropped = false) :
    step s .wNoThread = finishWait (evsS (waitJoin ++ waitClassify) (startS s)) := by
  obtain ⟨h1, h2, h3⟩ := h
  simp [step, h1, h2, h3, finishWait, waitJoin, waitClassify, resetConn, flagRead, evsS, evS, actS, afterCallS, startS]

/-- the whole of `wait()` with a thread to join that has returned: `wJoin` then `wClassify` -/
theorem wait_is_segment (s : St) (e : Err) (h : s.hasThread = true ∧ s.w = .idle ∧ s.dropped = false) (hd : s.d = .exited e)
    (hc : s.hasConn = true) :
    run s [.wJoin, .wClassify] = finishWait (evsS (waitJoin ++ waitClassify) (startS s)) := by
  obtain ⟨h1, h2, h3⟩ := h
  cases e <;> cases hf : s.flag <;>
    simp [run, step, h1, h2, h3, hd, hc, hf, finishWait, waitJoin, waitClassify, resetConn, flagRead, evsS, evS, armsS, actS,
      valueS, patOkS, afterCallS, startS, classifyWait]

/-! ## `Drop for VhostUserDaemon` -/

def interpDrop (st : St) : Option St :=
  let s := evsS (segOf shutdownSegments "daemon_drop" "entry") (startS st)
  match s.flow with
  | .ret => some { s.st with dropped := true }
  | _ => none

theorem drop_is_segment (s : St) (h : s.dropped = false ∧ s.w = .idle) : step s .drop = interpDrop s := by
  obtain ⟨h1, h2⟩ := h
  cases hc : s.hasConn <;> cases hs : s.shut <;>
    simp [step, h1, h2, hc, hs, interpDrop, segOf, lrowOf, shutdownSegments, List.lookup, evsS, evS, actS, startS]

/-! ## the connection state is there whenever there is a thread to join -/

/-- what `wClassify_is_segment` assumes: `conn_state` and `main_thread` are set together by `start_daemon`; `wait()` empties
the first before, the second after `join` -/
def ConnInv (s : St) : Prop :=
  (s.hasThread = true → s.dropped = false → s.hasConn = true) ∧
  (∀ e, s.w = .joined e → s.hasConn = true ∧ s.dropped = false ∧ s.hasThread = false)

theorem connInv_init (reqs : List Req) (prev : List WRes) : ConnInv (init reqs prev) := by
  simp [ConnInv, init]

theorem connInv_step (s s' : St) (l : Lbl) (hi : ConnInv s) (h : step s l = some s') : ConnInv s' := by
  obtain ⟨i1, i2⟩ := hi
  cases l <;> simp only [step] at h
  all_goals (repeat' split at h)
  all_goals (first | (simp at h; done) | (injection h with h; subst h; refine ⟨?_, ?_⟩ <;> simp_all))

theorem connInv_run (ls : List Lbl) : ∀ (s s' : St), ConnInv s → run s ls = some s' → ConnInv s' := by
  induction ls with
  | nil => intro s s' hi h; simp [run] at h; subst h; exact hi
  | cons l ls ih =>
    intro s s' hi h
    simp only [run] at h
    cases hs : step s l with
    | none => simp [hs] at h
    | some s1 => rw [hs] at h; exact ih s1 s' (connInv_step s s1 l hi hs) h

end Lemmas.LtsShutdown
