import VhostModel.Model.Vring
import VhostModel.Spec.Vring
import VhostModel.Lemmas.MemTable
/-! helper lemmas for `Props/C14.lean` -/
namespace Lemmas.Vring
open Model.Vring

/-! ### powers of two and the `n & (n - 1)` test -/

theorem pow2_and_pred (k : Nat) : (2^k) &&& (2^k - 1) = 0 := by
  rw [Nat.and_two_pow_sub_one_eq_mod]; simp

/-- a positive number that is not a power of two shares its top bit with its predecessor -/
theorem and_pred_ne_zero {n : Nat} (hn : n ≠ 0) (hp : ¬ Spec.Vring.IsPow2 n) : n &&& (n - 1) ≠ 0 := by
  have h1 : 2 ^ n.log2 ≤ n := Nat.log2_self_le hn
  have h2 : n < 2 ^ (n.log2 + 1) := Nat.lt_log2_self
  have hne : n ≠ 2 ^ n.log2 := fun e => hp ⟨n.log2, e⟩
  have h3 : 2 ^ n.log2 ≤ n - 1 := by omega
  have tb : ∀ m, 2 ^ n.log2 ≤ m → m < 2 ^ (n.log2 + 1) → m.testBit n.log2 = true := by
    intro m hm1 hm2
    rw [Nat.testBit_eq_decide_div_mod_eq]
    have : m / 2 ^ n.log2 = 1 := by
      have hpos : 0 < 2 ^ n.log2 := Nat.two_pow_pos _
      apply Nat.div_eq_of_lt_le
      · simpa using hm1
      · rw [Nat.pow_succ] at hm2; omega
    simp [this]
  intro h0
  have := Nat.testBit_and n (n - 1) n.log2
  rw [h0, Nat.zero_testBit, tb n h1 h2, tb (n - 1) h3 (by omega)] at this
  simp at this

theorem isPow2_iff (n : Nat) : isPow2 n = true ↔ Spec.Vring.IsPow2 n := by
  unfold isPow2
  constructor
  · intro h
    simp only [Bool.and_eq_true, bne_iff_ne, ne_eq, beq_iff_eq] at h
    by_cases hp : Spec.Vring.IsPow2 n
    · exact hp
    · exact absurd h.2 (and_pred_ne_zero h.1 hp)
  · rintro ⟨k, rfl⟩
    simp only [Bool.and_eq_true, bne_iff_ne, ne_eq, beq_iff_eq]
    exact ⟨Nat.ne_of_gt (Nat.two_pow_pos _), pow2_and_pred k⟩

theorem trySetSize_some_iff (q : Queue) (n : Nat) :
    (q.trySetSize n = some { q with size := n }) ↔ (n ≤ q.maxSize ∧ Spec.Vring.IsPow2 n) := by
  unfold Queue.trySetSize
  constructor
  · intro h
    split at h
    · cases h
    · rename_i hc
      simp only [Bool.or_eq_true, decide_eq_true_eq, beq_iff_eq, bne_iff_ne, ne_eq, not_or, Nat.not_lt,
        Decidable.not_not] at hc
      refine ⟨hc.1.1, (isPow2_iff n).mp ?_⟩
      unfold isPow2
      simp [hc.1.2, hc.2]
  · rintro ⟨h1, h2⟩
    have := (isPow2_iff n).mpr h2
    unfold isPow2 at this
    simp only [Bool.and_eq_true, bne_iff_ne, ne_eq, beq_iff_eq] at this
    have hc : (decide (n > q.maxSize) || n == 0 || (n &&& (n - 1)) != 0) = false := by
      simp [this.1, this.2]; omega
    simp [hc]

theorem setSize_pow2 (q : Queue) (n : Nat) (h1 : n ≤ q.maxSize) (h2 : Spec.Vring.IsPow2 n) :
    q.setSize n = { q with size := n } := by
  unfold Queue.setSize
  rw [(trySetSize_some_iff q n).mpr ⟨h1, h2⟩]

theorem setSize_not_pow2 (q : Queue) (n : Nat) (h : ¬ Spec.Vring.IsPow2 n) : q.setSize n = q := by
  unfold Queue.setSize
  cases ht : q.trySetSize n with
  | none => rfl
  | some q' =>
    exfalso
    unfold Queue.trySetSize at ht
    split at ht
    · cases ht
    · rename_i hc
      simp only [Bool.or_eq_true, decide_eq_true_eq, beq_iff_eq, bne_iff_ne, ne_eq, not_or, Nat.not_lt,
        Decidable.not_not] at hc
      apply h
      apply (isPow2_iff n).mp
      unfold isPow2
      simp [hc.1.2, hc.2]

/-! ### rings of a daemon -/

theorem setRing_length (d : Daemon) (i : Nat) (f : Vring → Vring) : (d.setRing i f).vrings.length = d.vrings.length := by
  simp [Daemon.setRing]

theorem setRing_get (d : Daemon) (i j : Nat) (f : Vring → Vring) :
    (d.setRing i f).vrings[j]? = (d.vrings[j]?).map fun v => if i = j then f v else v := by
  simp [Daemon.setRing, List.getElem?_modify]

theorem getElem?_none_of_le {α} {l : List α} {i : Nat} (h : l.length ≤ i) : l[i]? = none := by
  simp [h]

/-! ### feature masks -/

theorem and_not_eq_zero_iff_subset (f o : BitVec 64) :
    f &&& ~~~o = 0 ↔ Spec.Vring.FeaturesSubset o.toNat f.toNat := by
  unfold Spec.Vring.FeaturesSubset
  constructor
  · intro h i hi
    rw [BitVec.testBit_toNat] at hi ⊢
    have := congrArg (fun v => v.getLsbD i) h
    simp only [BitVec.getLsbD_and, BitVec.getLsbD_not, BitVec.getLsbD_zero] at this
    by_cases hlt : i < 64
    · simp [hi, hlt] at this; exact this
    · have : f.getLsbD i = false := BitVec.getLsbD_of_ge f i (by omega)
      rw [this] at hi; cases hi
  · intro h
    apply BitVec.eq_of_getLsbD_eq
    intro i hi
    simp only [BitVec.getLsbD_and, BitVec.getLsbD_not, BitVec.getLsbD_zero, hi, decide_true, Bool.true_and]
    cases hf : f.getLsbD i with
    | false => simp
    | true =>
      have := h i (by rw [BitVec.testBit_toNat]; exact hf)
      rw [BitVec.testBit_toNat] at this
      simp [this]

/-- `acked & mask != 0` for a one-bit mask is that bit -/
theorem protoBit_eq (d : Daemon) (k : Nat) (hk : k < 64) : protoBit d (2^k) = d.ackedProto.getLsbD k := by
  unfold protoBit
  have hbit : ∀ i, (BitVec.ofNat 64 (2^k)).getLsbD i = (decide (i < 64) && decide (k = i)) := by
    intro i; rw [BitVec.getLsbD_ofNat, Nat.testBit_two_pow]
  cases hb : d.ackedProto.getLsbD k with
  | true =>
    rw [bne_iff_ne]
    intro h0
    have : (d.ackedProto &&& BitVec.ofNat 64 (2^k)).getLsbD k = (0#64).getLsbD k := by rw [h0]; rfl
    rw [BitVec.getLsbD_and, hb, hbit] at this
    simp [hk] at this
  | false =>
    have : d.ackedProto &&& BitVec.ofNat 64 (2^k) = 0 := by
      apply BitVec.eq_of_getLsbD_eq
      intro i hi
      rw [BitVec.getLsbD_and, hbit]
      by_cases e : k = i
      · subst e; simp [hb]
      · simp [e]
    rw [this]; rfl

/-! ### shapes of the queue operations -/
theorem proj_setRing {α} (d : Daemon) (i j : Nat) (f : Vring → Vring) (P : Vring → α)
    (h : ∀ v, d.vrings[i]? = some v → P (f v) = P v) :
    ((d.setRing i f).vrings[j]?).map P = (d.vrings[j]?).map P := by
  rw [setRing_get]
  cases hj : d.vrings[j]? with
  | none => rfl
  | some v =>
    by_cases e : i = j
    · subst e; simp [h v hj]
    · simp [e]

theorem setSize_shape (q : Queue) (n : Nat) : ∃ s, q.setSize n = { q with size := s } := by
  unfold Queue.setSize Queue.trySetSize
  split
  · rename_i q' h
    split at h
    · cases h
    · cases h; exact ⟨n, rfl⟩
  · exact ⟨q.size, rfl⟩

theorem setQueueInfo_shape (q : Queue) (a b c : Nat) :
    ∃ x y z, (q.setQueueInfo a b c).1 = { q with descTable := x, availRing := y, usedRing := z } := by
  unfold Queue.setQueueInfo Queue.trySetDesc Queue.trySetAvail Queue.trySetUsed
  by_cases h1 : (a % 16 != 0) = true
  · simp only [h1, if_true]; exact ⟨_, _, _, rfl⟩
  · simp only [h1]
    by_cases h2 : (b % 2 != 0) = true
    · simp only [h2, if_true]; exact ⟨_, _, _, rfl⟩
    · simp only [h2]
      by_cases h3 : (c % 4 != 0) = true
      · simp only [h3, if_true]; exact ⟨_, _, _, rfl⟩
      · simp only [h3]; exact ⟨_, _, _, rfl⟩

theorem addUsed_shape (q : Queue) (m : GuestMem) (h l : Nat) :
    ∃ nu na, (q.addUsed m h l).1 = { q with nextUsed := nu, numAdded := na } := by
  unfold Queue.addUsed
  by_cases h1 : h ≥ q.size
  · simp only [h1, if_true]; exact ⟨_, _, rfl⟩
  · simp only [h1, if_false]
    by_cases h2 : ¬ q.usedRing + (4 + q.nextUsed % q.size * 8) < 2^64
    · simp only [h2, if_true]; exact ⟨_, _, rfl⟩
    · simp only [h2, if_false]
      cases hw : m.writeBytes (q.usedRing + (4 + q.nextUsed % q.size * 8)) (le32 h ++ le32 l) with
      | mk ok m1 =>
        cases ok with
        | false => exact ⟨_, _, rfl⟩
        | true =>
          simp only []
          by_cases h3 : ¬ q.usedRing + 2 < 2^64
          · simp only [h3, if_true]; exact ⟨_, _, rfl⟩
          · simp only [h3, if_false]
            cases hs : m1.storeU16 (q.usedRing + 2) ((q.nextUsed + 1) % 65536) with
            | none => exact ⟨_, _, rfl⟩
            | some m2 => exact ⟨_, _, rfl⟩

theorem setQueueInfo_nextAvail {q q1 : Queue} {a b c : Nat} {ok : Bool} (h : q.setQueueInfo a b c = (q1, ok)) :
    q1.nextAvail = q.nextAvail := by
  obtain ⟨x, y, z, hs⟩ := setQueueInfo_shape q a b c
  rw [h] at hs
  simp only at hs
  rw [hs]

/-- which ring's next-available index a message sets -/
def setsBase (i : Nat) : Msg → Bool
  | .setVringBase idx _ => idx.toNat == i
  | _ => false

theorem step_length (d : Daemon) (m : Msg) : (step d m).1.vrings.length = d.vrings.length := by
  cases m <;> simp only [step] <;> (repeat' split) <;> simp [setRing_length]

theorem step_nextAvail (d : Daemon) (m : Msg) (i : Nat) (h : setsBase i m = false) :
    ((step d m).1.vrings[i]?).map (·.queue.nextAvail) = (d.vrings[i]?).map (·.queue.nextAvail) := by
  cases m with
  | setVringNum index num =>
    simp only [step]
    repeat' split
    all_goals first
      | rfl
      | (apply proj_setRing; intro v _; obtain ⟨s, hs⟩ := setSize_shape v.queue (num.toNat % 65536); simp [hs])
  | setVringAddr index desc used avail =>
    simp only [step]
    split
    · rfl
    · rename_i v0 hv0
      split
      · rfl
      · split
        · rfl
        · split
          · rfl
          · split
            · rfl
            · split
              · rename_i q1 hq
                apply proj_setRing; intro v hv
                rw [hv0] at hv; cases hv
                exact setQueueInfo_nextAvail hq
              · rename_i q1 hq
                split
                · apply proj_setRing; intro v hv
                  rw [hv0] at hv; cases hv
                  exact setQueueInfo_nextAvail hq
                · apply proj_setRing; intro v hv
                  rw [hv0] at hv; cases hv
                  exact (setQueueInfo_nextAvail hq : q1.nextAvail = v0.queue.nextAvail)
  | setVringBase index base =>
    simp only [step]
    split
    · rfl
    · simp only [setsBase, beq_eq_false_iff_ne, ne_eq] at h
      rw [setRing_get]
      cases d.vrings[i]? with
      | none => rfl
      | some v => simp [h]
  | getVringBase index =>
    simp only [step]
    split
    · rfl
    · apply proj_setRing; intro v _; rfl
  | setVringKick p fd =>
    simp only [step]
    split
    · rfl
    · apply proj_setRing; intro v _; unfold initIfNeeded; split <;> rfl
  | setVringCall p fd =>
    simp only [step]
    split
    · rfl
    · apply proj_setRing; intro v _; unfold initIfNeeded; split <;> rfl
  | setVringErr p fd =>
    simp only [step]
    split
    · rfl
    · apply proj_setRing; intro v _; rfl
  | setVringEnable index en =>
    simp only [step]
    repeat' split
    all_goals first | rfl | (apply proj_setRing; intro v _; rfl)
  | setFeatures f =>
    simp only [step]
    split
    · rfl
    · simp only [List.getElem?_map]
      cases d.vrings[i]? <;> rfl
  | setProtocolFeatures f => rfl
  | setBackendReqFd => rfl
  | mem op =>
    simp only [step]
    split <;> rfl
  | addUsed ring head len =>
    simp only [step]
    split
    · rfl
    · rename_i v0 hv0
      show (({ d.setRing ring _ with files := _ } : Daemon).vrings[i]?).map _ = _
      apply proj_setRing; intro v hv
      rw [hv0] at hv; cases hv
      obtain ⟨nu, na, hs⟩ := addUsed_shape v0.queue d.guestMem head len
      simp [hs]
  | signalUsed ring =>
    simp only [step]
    repeat' split
    all_goals rfl

/-! ### what a message does to the memory table, the protocol features and the call descriptors -/

def memOp? : Msg → Option Spec.MemTable.Op
  | .mem op => some op
  | _ => none

theorem step_mem (d : Daemon) (m : Msg) :
    (step d m).1.mem = (match memOp? m with | some op => (Model.MemTable.step d.mem op).1 | none => d.mem) ∧
    (∀ op, m = .mem op → ((step d m).2 = .ok .unit ↔ (Model.MemTable.step d.mem op).2 = true)) := by
  cases m with
  | mem op =>
    simp only [step, memOp?]
    cases hs : Model.MemTable.step d.mem op with
    | mk m' ok =>
      cases ok with
      | true => simp [hs]
      | false =>
        have := Props_failed d.mem op (by rw [hs])
        rw [hs] at this
        simp only at this
        simp [this, hs]
  | setVringNum _ _ => simp only [step, memOp?]; (repeat' split) <;> simp [Daemon.setRing]
  | setVringAddr _ _ _ _ => simp only [step, memOp?]; (repeat' split) <;> simp [Daemon.setRing]
  | setVringBase _ _ => simp only [step, memOp?]; (repeat' split) <;> simp [Daemon.setRing]
  | getVringBase _ => simp only [step, memOp?]; (repeat' split) <;> simp [Daemon.setRing]
  | setVringKick _ _ => simp only [step, memOp?]; (repeat' split) <;> simp [Daemon.setRing]
  | setVringCall _ _ => simp only [step, memOp?]; (repeat' split) <;> simp [Daemon.setRing]
  | setVringErr _ _ => simp only [step, memOp?]; (repeat' split) <;> simp [Daemon.setRing]
  | setVringEnable _ _ => simp only [step, memOp?]; (repeat' split) <;> simp [Daemon.setRing]
  | setFeatures _ => simp only [step, memOp?]; (repeat' split) <;> simp
  | setProtocolFeatures _ => simp [step, memOp?]
  | setBackendReqFd => simp [step, memOp?]
  | addUsed _ _ _ => simp only [step, memOp?]; (repeat' split) <;> simp [Daemon.setRing]
  | signalUsed _ => simp only [step, memOp?]; (repeat' split) <;> simp
where
  Props_failed (s : Model.MemTable.St) (op : Spec.MemTable.Op) (h : (Model.MemTable.step s op).2 = false) :
      (Model.MemTable.step s op).1 = s := by
    cases op with
    | setTable rs =>
      simp only [Model.MemTable.step, Model.MemTable.setMemTable] at h ⊢
      split
      · rfl
      · rename_i regs maps hb
        split
        · rfl
        · rename_i mem hf; simp [hb, hf] at h
    | add r =>
      simp only [Model.MemTable.step, Model.MemTable.addMemRegion] at h ⊢
      split
      · rfl
      · rename_i g hm
        split
        · rfl
        · rename_i mem hi; simp [hm, hi] at h
    | remove g sz =>
      simp only [Model.MemTable.step, Model.MemTable.removeMemRegion] at h ⊢
      split
      · rfl
      · rename_i mem hr; simp [hr] at h

/-- the memory requests of a history -/
def memOps : List Msg → List Spec.MemTable.Op
  | [] => []
  | m :: ms => match memOp? m with
    | some op => op :: memOps ms
    | none => memOps ms

theorem run_mem (d : Daemon) (ms : List Msg) :
    (run d ms).1.mem = (Model.MemTable.run d.mem (memOps ms)).1 := by
  induction ms generalizing d with
  | nil => rfl
  | cons m ms ih =>
    simp only [run, memOps]
    rw [ih]
    have := (step_mem d m).1
    cases hm : memOp? m with
    | none => simp only [hm] at this ⊢; rw [this]
    | some op => simp only [hm] at this ⊢; simp only [Model.MemTable.run]; rw [this]

/-- the call-descriptor event of a message (only accepted messages count: the index must be a ring) -/
def callEvOf (n : Nat) : Msg → Option Spec.Vring.CallEv
  | .setVringCall p fd => if fdIndex p < n then some (.install (fdIndex p) fd) else none
  | .getVringBase idx => if idx.toNat < n then some (.stop idx.toNat) else none
  | _ => none

def callEvs (n : Nat) (ms : List Msg) : List Spec.Vring.CallEv := ms.filterMap (callEvOf n)

theorem initIfNeeded_call (v : Vring) : (initIfNeeded v).call = v.call := by
  unfold initIfNeeded; split <;> rfl

theorem step_call (d : Daemon) (m : Msg) (i : Nat) :
    ((step d m).1.vrings[i]?).map (·.call) =
      (d.vrings[i]?).map fun v => match callEvOf d.vrings.length m with
        | some ev => Spec.Vring.callStep i v.call ev
        | none => v.call := by
  cases m with
  | setVringNum index num =>
    simp only [step, callEvOf]
    repeat' split
    all_goals first
      | rfl
      | (apply proj_setRing; intro v _; rfl)
  | setVringAddr index desc used avail =>
    simp only [step, callEvOf]
    repeat' split
    all_goals first
      | rfl
      | (apply proj_setRing; intro v _; rfl)
  | setVringBase index base =>
    simp only [step, callEvOf]
    split
    · rfl
    · apply proj_setRing; intro v _; rfl
  | getVringBase index =>
    simp only [step, callEvOf]
    split
    · rename_i hnone
      have : ¬ index.toNat < d.vrings.length := by
        intro hlt; rw [List.getElem?_eq_getElem hlt] at hnone; cases hnone
      simp [this]
    · rename_i v0 hv0
      have hlt : index.toNat < d.vrings.length := by
        rcases Nat.lt_or_ge index.toNat d.vrings.length with h | h
        · exact h
        · rw [getElem?_none_of_le h] at hv0; cases hv0
      simp only [hlt, if_true, Spec.Vring.callStep]
      rw [setRing_get]
      cases d.vrings[i]? with
      | none => rfl
      | some v =>
        by_cases e : index.toNat = i
        · simp [e]
        · simp [e]
  | setVringKick p fd =>
    simp only [step, callEvOf]
    split
    · rfl
    · apply proj_setRing; intro v _; rw [initIfNeeded_call]
  | setVringCall p fd =>
    simp only [step, callEvOf]
    split
    · rename_i hnone
      have : ¬ fdIndex p < d.vrings.length := by
        intro hlt; rw [List.getElem?_eq_getElem hlt] at hnone; cases hnone
      simp [this]
    · rename_i v0 hv0
      have hlt : fdIndex p < d.vrings.length := by
        rcases Nat.lt_or_ge (fdIndex p) d.vrings.length with h | h
        · exact h
        · rw [getElem?_none_of_le h] at hv0; cases hv0
      simp only [hlt, if_true, Spec.Vring.callStep]
      rw [setRing_get]
      cases d.vrings[i]? with
      | none => rfl
      | some v =>
        by_cases e : fdIndex p = i
        · simp [e, initIfNeeded_call]
        · simp [e]
  | setVringErr p fd =>
    simp only [step, callEvOf]
    split
    · rfl
    · apply proj_setRing; intro v _; rfl
  | setVringEnable index en =>
    simp only [step, callEvOf]
    repeat' split
    all_goals first | rfl | (apply proj_setRing; intro v _; rfl)
  | setFeatures f =>
    simp only [step, callEvOf]
    split
    · rfl
    · simp only [List.getElem?_map]
      cases d.vrings[i]? <;> rfl
  | setProtocolFeatures f => rfl
  | setBackendReqFd => rfl
  | mem op =>
    simp only [step, callEvOf]
    split <;> rfl
  | addUsed ring head len =>
    simp only [step, callEvOf]
    split
    · rfl
    · show (({ d.setRing ring _ with files := _ } : Daemon).vrings[i]?).map _ = _
      apply proj_setRing; intro v _; rfl
  | signalUsed ring =>
    simp only [step, callEvOf]
    repeat' split
    all_goals rfl

theorem run_length (d : Daemon) (ms : List Msg) : (run d ms).1.vrings.length = d.vrings.length := by
  induction ms generalizing d with
  | nil => rfl
  | cons m ms ih => simp only [run]; rw [ih, step_length]

theorem run_call (d : Daemon) (ms : List Msg) (i : Nat) :
    ((run d ms).1.vrings[i]?).map (·.call) =
      (d.vrings[i]?).map fun v => (callEvs d.vrings.length ms).foldl (Spec.Vring.callStep i) v.call := by
  induction ms generalizing d with
  | nil => simp [run, callEvs]
  | cons m ms ih =>
    simp only [run]
    rw [ih, step_length]
    have hs := step_call d m i
    cases hv : d.vrings[i]? with
    | none =>
      rw [hv] at hs
      simp only [Option.map_none, Option.map_eq_none_iff] at hs
      simp [hs]
    | some v =>
      rw [hv] at hs
      simp only [Option.map_some] at hs
      cases hv' : (step d m).1.vrings[i]? with
      | none => rw [hv'] at hs; simp at hs
      | some v' =>
        rw [hv'] at hs
        simp only [Option.map_some, Option.some.injEq] at hs
        simp only [Option.map_some, callEvs, List.filterMap_cons]
        cases he : callEvOf d.vrings.length m with
        | none => simp only [he] at hs ⊢; rw [hs]
        | some ev => simp only [he] at hs ⊢; rw [List.foldl_cons, hs]

/-! ### guest memory writes -/

theorem writeBytes_regions (m : GuestMem) (a : Nat) (bs : List UInt8) : (m.writeBytes a bs).2.regions = m.regions := by
  induction bs generalizing m a with
  | nil => rfl
  | cons b bs ih =>
    unfold GuestMem.writeBytes
    split
    · rfl
    · rw [ih]

/-- a successful write found a file cell behind every byte address -/
theorem writeBytes_ok_located (m m1 : GuestMem) (a : Nat) (bs : List UInt8) (h : m.writeBytes a bs = (true, m1)) :
    ∀ k, k < bs.length → (Model.MemTable.locate m.regions (a + k)).isSome = true := by
  induction bs generalizing m a with
  | nil => intro k hk; cases hk
  | cons b bs ih =>
    unfold GuestMem.writeBytes at h
    split at h
    · cases h
    · rename_i fs hw
      intro k hk
      cases k with
      | zero =>
        unfold Model.MemTable.writeByte at hw
        cases hl : Model.MemTable.locate m.regions a with
        | none => simp [hl] at hw
        | some c => simp
      | succ k =>
        have := ih { m with files := fs } (a + 1) h k (by simpa using hk)
        have e : a + (k + 1) = a + 1 + k := by omega
        rw [e]; exact this

theorem storeU16_load (m m2 : GuestMem) (a v : Nat) (hv : v < 65536) (h : m.storeU16 a v = some m2) :
    m2.loadU16 a = some v ∧ m2.regions = m.regions := by
  unfold GuestMem.storeU16 at h
  cases hc : m.u16Cell a with
  | none => simp [hc] at h
  | some c =>
    obtain ⟨f, o⟩ := c
    simp only [hc, Option.map_some, Option.some.injEq] at h
    subst h
    refine ⟨?_, rfl⟩
    have hc' : ({ m with files := (m.files.set f o (UInt8.ofNat (v % 256))).set f (o + 1) (UInt8.ofNat (v / 256 % 256)) } :
        GuestMem).u16Cell a = some (f, o) := by
      unfold GuestMem.u16Cell at hc ⊢
      exact hc
    unfold GuestMem.loadU16
    rw [hc']
    simp only [Option.map_some, Model.MemTable.Files.set]
    have h1 : ¬ (o = o + 1) := by omega
    simp only [true_and, h1, if_false, and_self, if_true, Option.some.injEq]
    have e1 : (UInt8.ofNat (v % 256)).toNat = v % 256 := by
      simp [UInt8.toNat_ofNat']
    have e2 : (UInt8.ofNat (v / 256 % 256)).toNat = v / 256 % 256 := by
      simp [UInt8.toNat_ofNat']
    rw [e1, e2]; omega

/-- what a successful `add_used` did -/
theorem addUsed_ok (q q1 : Queue) (m m2 : GuestMem) (head len : Nat) (h : q.addUsed m head len = (q1, m2, true)) :
    head < q.size ∧
    q1 = { q with nextUsed := (q.nextUsed + 1) % 65536, numAdded := (q.numAdded + 1) % 65536 } ∧
    ∃ m1, m.writeBytes (Spec.Vring.usedSlot q.usedRing q.nextUsed q.size) (le32 head ++ le32 len) = (true, m1) ∧
      m1.storeU16 (Spec.Vring.usedIdxAddr q.usedRing) ((q.nextUsed + 1) % 65536) = some m2 := by
  unfold Queue.addUsed at h
  have hslot : q.usedRing + (4 + q.nextUsed % q.size * 8) = Spec.Vring.usedSlot q.usedRing q.nextUsed q.size := by
    unfold Spec.Vring.usedSlot; omega
  by_cases h1 : head ≥ q.size
  · simp [h1] at h
  · simp only [h1, if_false] at h
    by_cases h2 : ¬ q.usedRing + (4 + q.nextUsed % q.size * 8) < 2^64
    · simp [h2] at h
    · simp only [h2, if_false] at h
      cases hw : m.writeBytes (q.usedRing + (4 + q.nextUsed % q.size * 8)) (le32 head ++ le32 len) with
      | mk ok m1 =>
        rw [hw] at h
        cases ok with
        | false => simp at h
        | true =>
          simp only [] at h
          by_cases h3 : ¬ q.usedRing + 2 < 2^64
          · simp [h3] at h
          · simp only [h3, if_false] at h
            cases hs : m1.storeU16 (q.usedRing + 2) ((q.nextUsed + 1) % 65536) with
            | none => simp [hs] at h
            | some m2' =>
              simp only [hs, Prod.mk.injEq] at h
              obtain ⟨rfl, rfl, _⟩ := h
              refine ⟨by omega, rfl, m1, ?_, ?_⟩
              · rw [← hslot]; exact hw
              · exact hs

/-- a located cell is a cell the property's table names -/
theorem locate_some_backed {s : Model.MemTable.St} {T : List Spec.MemTable.Region} (h : Lemmas.MemTable.Rel s T)
    {g : Nat} (hl : (Model.MemTable.locate s.regions g).isSome = true) :
    ∃ f o, Model.MemTable.locate s.regions g = some (f, o) ∧ Spec.MemTable.backedBy T g f o := by
  unfold Model.MemTable.locate at hl ⊢
  cases hf : Model.MemTable.findRegion s.regions g with
  | none => simp [hf] at hl
  | some r =>
    unfold Model.MemTable.findRegion at hf
    have hmem := List.mem_of_find?_eq_some hf
    have hc := List.find?_some hf
    have hx : r ∈ T.map Lemmas.MemTable.toMem := (h.regions.mem_iff).mp hmem
    obtain ⟨t, ht, rfl⟩ := List.mem_map.mp hx
    refine ⟨_, _, rfl, t, ht, ?_, rfl, rfl⟩
    rw [Lemmas.MemTable.contains_iff] at hc
    exact hc

end Lemmas.Vring
