import VhostModel.Model.Stream
namespace Lemmas.Stream
open Base Model.Stream

theorem flatMap_fds_take_le (s : List Cell) (k n : Nat) (h : k ≤ n) :
    ((s.take k).flatMap (·.fds)).length ≤ ((s.take n).flatMap (·.fds)).length := by
  have : s.take n = s.take k ++ (s.drop k).take (n - k) := by
    rw [← List.take_add]; congr 1; omega
  rw [this, List.flatMap_append, List.length_append]; omega

/-- **reassembly**: whatever the chooser does, if the stream holds `want` bytes whose descriptors fit the receive
limit, the loop delivers exactly those bytes in order, leaves the rest untouched and does not block -/
theorem recvAll_complete {σ : Type} (ch : Chooser σ) (cap : Nat) (cl : Bool) :
    ∀ (want : Nat) (st : σ) (s : List Cell) (first : Bool), want ≤ s.length →
      ((s.take want).flatMap (·.fds)).length ≤ cap →
      (recvAll ch cap cl want st s first).bytes = (s.take want).map (·.b) ∧
      (recvAll ch cap cl want st s first).rest = s.drop want ∧
      (recvAll ch cap cl want st s first).outcome = .done := by
  intro want st s first
  fun_induction recvAll ch cap cl want st s first with
  | case1 first st s => intro _ _; simp
  | case2 first n st => intro h; simp at h
  | case3 want st c s first k0 st' hnext k chunk rest cf hgt r ih =>
    intro hlen hfd
    -- the chunk's descriptors are among the first `want+1` cells' descriptors: this branch is impossible
    exfalso
    have hk : k ≤ want + 1 := clampK_le_want _ _ _
    have := flatMap_fds_take_le (c :: s) k (want + 1) hk
    simp only [chunk, cf, Nat.succ_eq_add_one] at hgt hfd this
    omega
  | case4 want st c s first k0 st' hnext k chunk rest cf hle r ih =>
    intro hlen hfd
    simp only [Nat.succ_eq_add_one] at hlen hfd ⊢
    have hk1 : 0 < k := clampK_pos (by omega) (by omega)
    have hk2 : k ≤ want + 1 := clampK_le_want _ _ _
    have hk3 : k ≤ s.length + 1 := clampK_le_avail _ _ _
    have hrl : rest.length = s.length + 1 - k := by simp [rest, List.length_drop]
    have h1 : want + 1 - k ≤ rest.length := by simp only [List.length_cons] at hlen; omega
    have h2 : ((rest.take (want + 1 - k)).flatMap (·.fds)).length ≤ cap := by
      have e : (c :: s).take (want + 1) = (c :: s).take k ++ rest.take (want + 1 - k) := by
        simp only [rest]; rw [← List.take_add]; congr 1; omega
      rw [e, List.flatMap_append, List.length_append] at hfd; omega
    obtain ⟨b1, b2, b3⟩ := ih h1 h2
    refine ⟨?_, ?_, ?_⟩
    · rw [b1]
      have e : (c :: s).take (want + 1) = (c :: s).take k ++ rest.take (want + 1 - k) := by
        simp only [rest]; rw [← List.take_add]; congr 1; omega
      rw [e, List.map_append]
    · rw [b2]; simp only [rest, List.drop_drop]; congr 1; omega
    · exact b3


/-- a closed stream never makes the receive loop wait -/
theorem recvAll_closed_not_blocked {σ : Type} (ch : Chooser σ) (cap : Nat) :
    ∀ (want : Nat) (st : σ) (s : List Cell) (first : Bool), (recvAll ch cap true want st s first).outcome ≠ .blocked := by
  intro want st s first
  fun_induction recvAll ch cap true want st s first with
  | case1 first st s => simp
  | case2 first n st => simp
  | case3 want st c s first k0 st' hnext k chunk rest cf hgt r ih => exact ih
  | case4 want st c s first k0 st' hnext k chunk rest cf hle r ih => exact ih

/-- **truncation**: fewer bytes than requested ⇒ everything there is delivered and the loop reports end-of-stream
(closed) or waits (open) — it never reports completion -/
theorem recvAll_short {σ : Type} (ch : Chooser σ) (cap : Nat) (cl : Bool) :
    ∀ (want : Nat) (st : σ) (s : List Cell) (first : Bool), s.length < want →
      (s.flatMap (·.fds)).length ≤ cap →
      (recvAll ch cap cl want st s first).bytes = s.map (·.b) ∧
      (recvAll ch cap cl want st s first).rest = [] ∧
      (recvAll ch cap cl want st s first).outcome = (if cl then .eof else .blocked) := by
  intro want st s first
  fun_induction recvAll ch cap cl want st s first with
  | case1 first st s => intro h; simp at h
  | case2 first n st => intro _ _; simp
  | case3 want st c s first k0 st' hnext k chunk rest cf hgt r ih =>
    intro hlen hfd
    exfalso
    have e : (c :: s) = (c :: s).take k ++ (c :: s).drop k := (List.take_append_drop k (c :: s)).symm
    rw [e, List.flatMap_append, List.length_append] at hfd
    simp only [chunk, cf] at hgt
    omega
  | case4 want st c s first k0 st' hnext k chunk rest cf hle r ih =>
    intro hlen hfd
    simp only [Nat.succ_eq_add_one] at hlen ⊢
    have hk1 : 0 < k := clampK_pos (by omega) (by omega)
    have hk3 : k ≤ s.length + 1 := clampK_le_avail _ _ _
    have hrl : rest.length = s.length + 1 - k := by simp [rest, List.length_drop]
    have e : (c :: s) = chunk ++ rest := (List.take_append_drop k (c :: s)).symm
    have h1 : rest.length < want + 1 - k := by simp only [List.length_cons] at hlen; omega
    have h2 : (rest.flatMap (·.fds)).length ≤ cap := by
      rw [e, List.flatMap_append, List.length_append] at hfd; omega
    obtain ⟨b1, b2, b3⟩ := ih h1 h2
    refine ⟨?_, b2, b3⟩
    rw [b1, ← List.map_append, ← e]

/-- descriptors riding on the first byte only (and within the limit) are returned to the caller, none is dropped -/
theorem recvAll_fds_first {σ : Type} (ch : Chooser σ) (cap : Nat) (cl : Bool) :
    ∀ (want : Nat) (st : σ) (s : List Cell) (first : Bool), (∀ c ∈ s.tail, c.fds = []) →
      ((s.head?.map (·.fds)).getD []).length ≤ cap → 0 < want →
      (recvAll ch cap cl want st s first).closed = (if first then [] else (s.head?.map (·.fds)).getD []) ∧
      (first = true → (recvAll ch cap cl want st s first).fds = (s.head?.map (·.fds)).getD []) := by
  intro want st s first
  fun_induction recvAll ch cap cl want st s first with
  | case1 first st s => intro _ _ h; simp at h
  | case2 first n st => intro _ _ _; cases first <;> simp
  | case3 want st c s first k0 st' hnext k chunk rest cf hgt r ih =>
    intro htail hcap _
    exfalso
    have hk1 : 0 < k := clampK_pos (by omega) (by omega)
    have : cf = c.fds := by
      simp only [cf, chunk]
      obtain ⟨k', hk'⟩ : ∃ k', k = k' + 1 := ⟨k - 1, by omega⟩
      rw [hk', List.take_succ_cons, List.flatMap_cons]
      have : (s.take k').flatMap (·.fds) = [] := by
        rw [List.flatMap_eq_nil_iff]; intro x hx; exact htail x (List.mem_of_mem_take hx)
      simp [this]
    simp only [List.head?_cons, Option.map_some, Option.getD_some] at hcap
    rw [this] at hgt; omega
  | case4 want st c s first k0 st' hnext k chunk rest cf hle r ih =>
    intro htail hcap _
    have hk1 : 0 < k := clampK_pos (by omega) (by omega)
    obtain ⟨k', hk'⟩ : ∃ k', k = k' + 1 := ⟨k - 1, by omega⟩
    have hcf : cf = c.fds := by
      simp only [cf, chunk]
      rw [hk', List.take_succ_cons, List.flatMap_cons]
      have : (s.take k').flatMap (·.fds) = [] := by
        rw [List.flatMap_eq_nil_iff]; intro x hx; exact htail x (List.mem_of_mem_take hx)
      simp [this]
    have hrest : ∀ x ∈ rest, x.fds = [] := by
      intro x hx
      simp only [rest, hk', List.drop_succ_cons] at hx
      exact htail x (List.mem_of_mem_drop hx)
    -- the remaining run sees no descriptor at all
    have hr : r.closed = [] ∧ True := by
      by_cases hw : want + 1 - k = 0
      · simp only [r]; rw [hw]; simp [recvAll]
      · have hh : ((rest.head?.map (·.fds)).getD []) = [] := by
          cases hrest' : rest with
          | nil => simp
          | cons x xs => simp [hrest x (by rw [hrest']; simp)]
        have := ih (fun x hx => hrest x (List.mem_of_mem_tail hx)) (by rw [hh]; simp) (by omega)
        simp only [hh, Bool.false_eq_true, if_false] at this
        exact ⟨this.1, trivial⟩
    simp only [List.head?_cons, Option.map_some, Option.getD_some]
    refine ⟨?_, ?_⟩
    · show (if first then [] else cf) ++ r.closed = _
      rw [hr.1, hcf]; cases first <;> simp
    · intro hf
      show (if first then cf else r.fds) = _
      rw [hf, hcf]; simp


/-- `recv_data`: with the bytes present and no descriptor riding on them, exactly those bytes are returned -/
theorem recvData_complete {σ : Type} (ch : Chooser σ) (cl : Bool) :
    ∀ (want : Nat) (st : σ) (s : List Cell), want ≤ s.length → (∀ c ∈ s.take want, c.fds = []) →
      (recvData ch cl want st s).bytes = (s.take want).map (·.b) ∧
      (recvData ch cl want st s).rest = s.drop want ∧
      (recvData ch cl want st s).lost = [] ∧
      (recvData ch cl want st s).outcome = .full := by
  intro want st s
  fun_induction recvData ch cl want st s with
  | case1 st s => intro _ _; simp
  | case2 n st => intro h; simp at h
  | case3 want st c s k0 st' hnext k chunk rest cf hne =>
    intro hlen hfd
    exfalso
    apply hne
    simp only [cf, chunk]
    rw [List.flatMap_eq_nil_iff]
    intro x hx
    have hk : k ≤ want + 1 := clampK_le_want _ _ _
    exact hfd x (List.mem_of_mem_take (by
      have : (c :: s).take k = ((c :: s).take (want + 1)).take k := by rw [List.take_take]; congr 1; omega
      rw [this] at hx; exact hx))
  | case4 want st c s k0 st' hnext k chunk rest cf he r ih =>
    intro hlen hfd
    simp only [Nat.succ_eq_add_one] at hlen hfd ⊢
    have hk1 : 0 < k := clampK_pos (by omega) (by omega)
    have hk2 : k ≤ want + 1 := clampK_le_want _ _ _
    have hk3 : k ≤ s.length + 1 := clampK_le_avail _ _ _
    have hrl : rest.length = s.length + 1 - k := by simp [rest, List.length_drop]
    have e : (c :: s).take (want + 1) = (c :: s).take k ++ rest.take (want + 1 - k) := by
      simp only [rest]; rw [← List.take_add]; congr 1; omega
    have h1 : want + 1 - k ≤ rest.length := by simp only [List.length_cons] at hlen; omega
    have h2 : ∀ x ∈ rest.take (want + 1 - k), x.fds = [] := by
      intro x hx; apply hfd; rw [e]; exact List.mem_append_right _ hx
    obtain ⟨b1, b2, b3, b4⟩ := ih h1 h2
    refine ⟨?_, ?_, b3, b4⟩
    · show chunk.map (·.b) ++ r.bytes = _
      rw [b1, e, List.map_append]
    · show r.rest = _
      rw [b2]; simp only [rest, List.drop_drop]; congr 1; omega

/-- a closed stream never makes `recv_data` wait -/
theorem recvData_closed_not_blocked {σ : Type} (ch : Chooser σ) :
    ∀ (want : Nat) (st : σ) (s : List Cell), (recvData ch true want st s).outcome ≠ .blocked := by
  intro want st s
  fun_induction recvData ch true want st s with
  | case1 st s => simp
  | case2 n st => simp
  | case3 want st c s k0 st' hnext k chunk rest cf hne => simp
  | case4 want st c s k0 st' hnext k chunk rest cf he r ih => exact ih

/-- fewer bytes than requested and the stream closed: `short` (the caller turns it into an error) -/
theorem recvData_short {σ : Type} (ch : Chooser σ) (cl : Bool) :
    ∀ (want : Nat) (st : σ) (s : List Cell), s.length < want → (∀ c ∈ s, c.fds = []) →
      (recvData ch cl want st s).outcome = (if cl then .short else .blocked) ∧ (recvData ch cl want st s).rest = [] := by
  intro want st s
  fun_induction recvData ch cl want st s with
  | case1 st s => intro h; simp at h
  | case2 n st => intro _ _; simp
  | case3 want st c s k0 st' hnext k chunk rest cf hne =>
    intro hlen hfd
    exfalso; apply hne
    simp only [cf, chunk]
    rw [List.flatMap_eq_nil_iff]
    intro x hx; exact hfd x (List.mem_of_mem_take hx)
  | case4 want st c s k0 st' hnext k chunk rest cf he r ih =>
    intro hlen hfd
    simp only [Nat.succ_eq_add_one] at hlen ⊢
    have hk1 : 0 < k := clampK_pos (by omega) (by omega)
    have hk3 : k ≤ s.length + 1 := clampK_le_avail _ _ _
    have hrl : rest.length = s.length + 1 - k := by simp [rest, List.length_drop]
    have h1 : rest.length < want + 1 - k := by simp only [List.length_cons] at hlen; omega
    exact ih h1 (fun x hx => hfd x (List.mem_of_mem_drop hx))


end Lemmas.Stream
