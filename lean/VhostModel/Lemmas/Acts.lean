import VhostModel.Lemmas.Guards
/-!
# Every handler invocation an action makes is valid, under the facts the arm's guards establish
(one lemma per action / handler method; used by `Props.C05Args`).
-/
namespace Lemmas.Acts
open Base Model.Stream Model.Msgs Model.BackendSrv Lemmas.Decode
open Spec.Proto (validCall chunks4 validRegionT)

/-- every handler invocation recorded in `o` satisfies the protocol's validity rules -/
def CallsValid (o : Out) : Prop :=
  ∀ c ∈ o.calls, validCall c.name c.args c.payload c.fds.length = true

theorem callsValid_nil {o : Out} (h : o.calls = []) : CallsValid o := by
  intro c hc; rw [h] at hc; simp at hc

theorem callsValid_one {o : Out} {cl : Call} (h : o.calls = [cl])
    (hv : validCall cl.name cl.args cl.payload cl.fds.length = true) : CallsValid o := by
  intro c hc; rw [h] at hc; simp only [List.mem_singleton] at hc; subst hc; exact hv

/-! ### `.ack m` -/

theorem ack_valid (st : BSt) (c : Ctx) (h : HOut) (m : String)
    (hv : validCall m (argsOf m c).1 (argsOf m c).2.1 (argsOf m c).2.2.length = true) :
    CallsValid (runAct st c h (.ack m)) := by
  intro cl hcl
  simp only [runAct, List.mem_singleton] at hcl
  subst hcl
  exact hv

theorem ack_plain (st : BSt) (c : Ctx) (h : HOut) (m : String)
    (hm : m ∈ ["set_owner", "reset_owner", "reset_device", "postcopy_listen", "postcopy_end"])
    (hf : c.file = none) : CallsValid (runAct st c h (.ack m)) := by
  simp only [List.mem_cons, List.not_mem_nil, or_false] at hm
  apply ack_valid
  rcases hm with rfl | rfl | rfl | rfl | rfl <;> simp [argsOf, validCall, hf]

theorem ack_vring_num_base (st : BSt) (c : Ctx) (h : HOut) (m : String)
    (hm : m ∈ ["set_vring_num", "set_vring_base"]) : CallsValid (runAct st c h (.ack m)) := by
  simp only [List.mem_cons, List.not_mem_nil, or_false] at hm
  apply ack_valid
  rcases hm with rfl | rfl <;> simp [argsOf, validCall]

theorem ack_vring_addr (st : BSt) (c : Ctx) (h : HOut)
    (hb : bodyValid "VhostUserVringAddr" c.buf = some true) :
    CallsValid (runAct st c h (.ack "set_vring_addr")) := by
  apply ack_valid
  simp [argsOf, validCall, (body_vringAddr hb).2]

theorem ack_vring_fd (st : BSt) (c : Ctx) (h : HOut) (m : String)
    (hm : m ∈ ["set_vring_call", "set_vring_kick", "set_vring_err"]) (hi : c.index8 < 256) :
    CallsValid (runAct st c h (.ack m)) := by
  simp only [List.mem_cons, List.not_mem_nil, or_false] at hm
  apply ack_valid
  rcases hm with rfl | rfl | rfl <;> cases hf : c.file <;> simp [argsOf, validCall, hi, hf]

theorem ack_vring_enable (st : BSt) (c : Ctx) (h : HOut)
    (he : g c.buf "VhostUserVringState" ["num"] ≤ 1) :
    CallsValid (runAct st c h (.ack "set_vring_enable")) := by
  apply ack_valid
  simp [argsOf, validCall, he]

theorem ack_set_inflight (st : BSt) (c : Ctx) (h : HOut)
    (hb : bodyValid "VhostUserInflight" c.buf = some true) (hf : c.file.isSome = true) :
    CallsValid (runAct st c h (.ack "set_inflight_fd")) := by
  obtain ⟨f, hf⟩ := Option.isSome_iff_exists.1 hf
  apply ack_valid
  simp [argsOf, validCall, hf, (body_inflight hb).2]

theorem ack_add_mem (st : BSt) (c : Ctx) (h : HOut)
    (hb : bodyValid "VhostUserSingleMemoryRegion" c.buf = some true) (hf : c.file.isSome = true) :
    CallsValid (runAct st c h (.ack "add_mem_region")) := by
  obtain ⟨f, hf⟩ := Option.isSome_iff_exists.1 hf
  apply ack_valid
  simp [argsOf, validCall, validRegionT, hf, (body_single hb).2]

theorem ack_remove_mem (st : BSt) (c : Ctx) (h : HOut)
    (hb : bodyValid "VhostUserSingleMemoryRegion" c.buf = some true) (hf : c.file = none) :
    CallsValid (runAct st c h (.ack "remove_mem_region")) := by
  apply ack_valid
  simp [argsOf, validCall, validRegionT, hf, (body_single hb).2]

/-! ### actions whose invocation carries no argument with a rule and never a file -/

theorem getFeatures_valid (st : BSt) (c : Ctx) (h : HOut) : CallsValid (runAct st c h .getFeatures) := by
  intro cl hcl
  simp only [runAct] at hcl
  split at hcl <;> simp only [List.mem_singleton] at hcl <;> subst hcl <;> simp [validCall]

theorem getProtocolFeatures_valid (st : BSt) (c : Ctx) (h : HOut) :
    CallsValid (runAct st c h .getProtocolFeatures) := by
  intro cl hcl
  simp only [runAct] at hcl
  split at hcl <;> simp only [List.mem_singleton] at hcl <;> subst hcl <;> simp [validCall]

theorem setFeatures_valid (st : BSt) (c : Ctx) (h : HOut) : CallsValid (runAct st c h .setFeatures) :=
by
  intro cl hcl
  simp only [runAct, List.mem_singleton] at hcl
  subst hcl; simp [validCall]

theorem setProtocolFeatures_valid (st : BSt) (c : Ctx) (h : HOut) :
    CallsValid (runAct st c h .setProtocolFeatures) :=
by
  intro cl hcl
  simp only [runAct, List.mem_singleton] at hcl
  subst hcl; simp [validCall]

theorem replyU64_valid (st : BSt) (c : Ctx) (h : HOut) (m : String)
    (hm : m ∈ ["get_queue_num", "get_max_mem_slots"]) : CallsValid (runAct st c h (.replyU64 m)) := by
  simp only [List.mem_cons, List.not_mem_nil, or_false] at hm
  intro cl hcl
  simp only [runAct] at hcl
  rcases hm with rfl | rfl <;>
    (split at hcl <;> simp only [List.mem_singleton] at hcl <;> subst hcl <;> simp [validCall])

theorem getVringBase_valid (st : BSt) (c : Ctx) (h : HOut) : CallsValid (runAct st c h .getVringBase) := by
  intro cl hcl
  simp only [runAct] at hcl
  split at hcl <;> simp only [List.mem_singleton] at hcl <;> subst hcl <;> simp [validCall]

theorem getShmem_valid (st : BSt) (c : Ctx) (h : HOut) : CallsValid (runAct st c h .getShmem) := by
  intro cl hcl
  simp only [runAct] at hcl
  split at hcl <;> simp only [List.mem_singleton] at hcl <;> subst hcl <;> simp [validCall]

theorem checkDeviceState_valid (st : BSt) (c : Ctx) (h : HOut) : CallsValid (runAct st c h .checkDeviceState) :=
by
  intro cl hcl
  simp only [runAct, List.mem_singleton] at hcl
  subst hcl; simp [validCall]

theorem postcopyAdvice_valid (st : BSt) (c : Ctx) (h : HOut) :
    CallsValid (runAct st c h (.fdOrEmpty "postcopy_advice")) :=
by
  intro cl hcl
  simp [runAct] at hcl
  subst hcl; simp [validCall]

/-! ### actions that read validated arguments -/

theorem getInflight_valid (st : BSt) (c : Ctx) (h : HOut)
    (hb : bodyValid "VhostUserInflight" c.buf = some true) : CallsValid (runAct st c h .getInflight) := by
  intro cl hcl
  simp only [runAct] at hcl
  split at hcl <;> simp only [List.mem_singleton] at hcl <;> subst hcl <;>
    simp [validCall, (body_inflight hb).2]

theorem setLogBase_valid (st : BSt) (c : Ctx) (h : HOut)
    (hb : bodyValid "VhostUserLog" c.buf = some true) (hf : c.file.isSome = true) :
    CallsValid (runAct st c h .setLogBase) := by
  obtain ⟨f, hf⟩ := Option.isSome_iff_exists.1 hf
  intro cl hcl
  simp only [runAct, hf] at hcl
  split at hcl <;> simp only [List.mem_singleton] at hcl <;> subst hcl <;>
    simp [validCall, (body_log hb).2]

theorem getSharedObject_valid (st : BSt) (c : Ctx) (h : HOut)
    (hb : bodyValid "VhostUserSharedMsg" c.buf = some true) :
    CallsValid (runAct st c h (.fdOrEmpty "get_shared_object")) :=
by
  intro cl hcl
  simp [runAct] at hcl
  subst hcl; simp [validCall, (body_shared hb).2]

theorem deviceStateFd_valid (st : BSt) (c : Ctx) (h : HOut)
    (hb : bodyValid "VhostUserTransferDeviceState" c.buf = some true) (hf : c.file.isSome = true) :
    CallsValid (runAct st c h .deviceStateFd) := by
  obtain ⟨f, hf⟩ := Option.isSome_iff_exists.1 hf
  intro cl hcl
  simp only [runAct, hf, List.mem_singleton] at hcl
  subst hcl; simp [validCall, (body_transfer hb).2]

end Lemmas.Acts
