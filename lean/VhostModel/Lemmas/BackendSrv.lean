import VhostModel.Model.BackendSrv
import VhostModel.Spec.Proto
/-! helper lemmas about `Model.BackendSrv` -/
namespace Lemmas.BackendSrv
open Base Model.Stream Model.BackendSrv

theorem runGuards_error_of_mem_proto (st : BSt) (b : Nat) (hb : bitSet st.ackedProto b = false) :
    ∀ (gs : List Guard) (c : Ctx), Guard.proto b ∈ gs → ∃ e, runGuards st c gs = .error e := by
  intro gs
  induction gs with
  | nil => intro c h; simp at h
  | cons g gs ih =>
    intro c h
    simp only [runGuards]
    cases hg : runGuard st c g with
    | error e => exact ⟨e, rfl⟩
    | ok c' =>
      simp only [List.mem_cons] at h
      rcases h with h | h
      · subst h; simp [runGuard, hb] at hg
      · exact ih c' h

theorem runGuards_error_of_mem_virtio (st : BSt) (b : Nat) (hb : bitSet st.acked b = false) :
    ∀ (gs : List Guard) (c : Ctx), Guard.virtio b ∈ gs → ∃ e, runGuards st c gs = .error e := by
  intro gs
  induction gs with
  | nil => intro c h; simp at h
  | cons g gs ih =>
    intro c h
    simp only [runGuards]
    cases hg : runGuard st c g with
    | error e => exact ⟨e, rfl⟩
    | ok c' =>
      simp only [List.mem_cons] at h
      rcases h with h | h
      · subst h; simp [runGuard, hb] at hg
      · exact ih c' h

theorem find_arm {c : Nat} {a : Arm} (h : arms.find? (·.code == c) = some a) : a ∈ arms ∧ a.code = c := by
  have h1 := List.find?_some h
  have h2 := List.mem_of_find?_eq_some h
  exact ⟨h2, by simpa using h1⟩

/-- every arm of a gated request checks the gating protocol feature before anything else can reach the handler -/
theorem arms_gate : ∀ a ∈ arms, ∀ b, Spec.Proto.gate a.code = some b → Guard.proto b ∈ a.guards := by
  decide

theorem arms_enable : ∀ a ∈ arms, a.code = 18 → Guard.virtio 30 ∈ a.guards := by
  decide

theorem dispatch_of_guard_error {st : BSt} {hdr : Hdr} {buf : Bytes} {files : Option (List Fd)} {h : HOut}
    {a : Arm} (ha : arms.find? (·.code == hdr.code) = some a)
    {e : Err} (he : runGuards st { hdr := hdr, buf := buf, files := files } a.guards = .error e) :
    dispatch st hdr buf files h = { st := st, res := .err e, closed := files.getD [] } := by
  simp [dispatch, ha, he]

theorem dispatch_unknown {st : BSt} {hdr : Hdr} {buf : Bytes} {files : Option (List Fd)} {h : HOut}
    (ha : arms.find? (·.code == hdr.code) = none) :
    dispatch st hdr buf files h = { st := st, res := .err .invalidMsg, closed := files.getD [] } := by
  simp [dispatch, ha]

/-- every handler invocation an action makes is the method of that action -/
theorem runAct_calls_name (st : BSt) (c : Ctx) (h : HOut) (act : Act) :
    ∀ cl ∈ (runAct st c h act).calls, cl.name = act.method := by
  intro cl hcl
  cases act <;> simp only [runAct] at hcl <;> (repeat' split at hcl) <;>
    simp only [List.mem_singleton, List.not_mem_nil] at hcl <;>
    first | (subst hcl; rfl) | (exact absurd hcl (by simp)) | skip

/-- at most one handler invocation per request -/
theorem runAct_calls_length (st : BSt) (c : Ctx) (h : HOut) (act : Act) :
    (runAct st c h act).calls.length ≤ 1 := by
  cases act <;> simp only [runAct] <;> (repeat' split) <;> simp

/-- only SET_PROTOCOL_FEATURES changes the acknowledged protocol features, to the value the handler is told -/
theorem runAct_ackedProto (st : BSt) (c : Ctx) (h : HOut) (act : Act) :
    (runAct st c h act).st.ackedProto =
      if act = .setProtocolFeatures then g c.buf "VhostUserU64" ["value"] else st.ackedProto := by
  cases act <;> simp only [runAct] <;> (repeat' split) <;> (try simp [BSt.updateFlag]) <;> (try simp_all)

theorem runAct_spf_call (st : BSt) (c : Ctx) (h : HOut) :
    (runAct st c h .setProtocolFeatures).calls = [⟨"set_protocol_features", [g c.buf "VhostUserU64" ["value"]], [], []⟩] := by
  simp [runAct]

/-- the only arm whose method is `set_protocol_features` is the SET_PROTOCOL_FEATURES action -/
theorem arms_spf : ∀ a ∈ arms, a.act.method = "set_protocol_features" → a.act = .setProtocolFeatures := by
  decide

end Lemmas.BackendSrv
