import VhostModel.Model.Frontend
/-!
# Inversion of `Model.Frontend.request`

`Built s op req`: the API accepted operation `op` in state `s` and built request `req` — one constructor per accepting
branch of `Model.Frontend.request`, carrying the local checks that branch has passed (those needed downstream).
`request_built` does the (expensive) case analysis of `request` once.
-/
namespace Lemmas.RequestInv
open Base Model.Stream Model.Msgs Model.Frontend

abbrev Regions := List (Nat × Nat × Nat × Nat × Bool)

inductive Built (s : FSt) : Op → Req → Prop
  | get_features (a pl fds bad regs) : Built s ⟨"get_features", a, pl, fds, bad, regs⟩ ⟨1, [], [], .body "VhostUserU64"⟩
  | set_features (v pl fds bad regs) : Built s ⟨"set_features", [v], pl, fds, bad, regs⟩ ⟨2, u64 v, [], .ack⟩
  | set_owner (a pl fds bad regs) : Built s ⟨"set_owner", a, pl, fds, bad, regs⟩ ⟨3, [], [], .ack⟩
  | reset_owner (a pl fds bad regs) : Built s ⟨"reset_owner", a, pl, fds, bad, regs⟩ ⟨4, [], [], .ack⟩
  | set_mem_table (a pl fds bad) (regs : Regions) (h1 : 1 ≤ regs.length) (h32 : regs.length ≤ 32) :
      Built s ⟨"set_mem_table", a, pl, fds, bad, regs⟩ ⟨5, u32 regs.length ++ u32 0 ++ regs.flatMap regionBytes, fds, .ack⟩
  | set_log_base_plain (base pl fds bad regs) : Built s ⟨"set_log_base", [base], pl, fds, bad, regs⟩ ⟨6, u64 base, [], .noWait⟩
  | set_log_base_region (base size off pl fds bad regs) (hp : hasProto s 1 = true) :
      Built s ⟨"set_log_base", [base, size, off], pl, fds, bad, regs⟩ ⟨6, u64 size ++ u64 off, fds, .body "VhostUserLog"⟩
  | set_log_base_noshm (base size off pl fds bad regs) (hp : hasProto s 1 = false) :
      Built s ⟨"set_log_base", [base, size, off], pl, fds, bad, regs⟩ ⟨6, u64 base, [], .noWait⟩
  | set_log_fd (a pl fds bad regs) : Built s ⟨"set_log_fd", a, pl, fds, bad, regs⟩ ⟨7, [], fds, .ack⟩
  | set_vring_num (i n pl fds bad regs) (hq : i < s.maxQ) :
      Built s ⟨"set_vring_num", [i, n], pl, fds, bad, regs⟩ ⟨8, u32 i ++ u32 n, [], .ack⟩
  | set_vring_addr (i fl d u a lg pl fds bad regs) (hq : i < s.maxQ) :
      Built s ⟨"set_vring_addr", [i, fl, d, u, a, lg], pl, fds, bad, regs⟩
        ⟨9, u32 i ++ u32 fl ++ u64 d ++ u64 u ++ u64 a ++ u64 lg, [], .ack⟩
  | set_vring_base (i b pl fds bad regs) (hq : i < s.maxQ) :
      Built s ⟨"set_vring_base", [i, b], pl, fds, bad, regs⟩ ⟨10, u32 i ++ u32 b, [], .ack⟩
  | get_vring_base (i pl fds bad regs) (hq : i < s.maxQ) :
      Built s ⟨"get_vring_base", [i], pl, fds, bad, regs⟩ ⟨11, u32 i ++ u32 0, [], .body "VhostUserVringState"⟩
  | set_vring_call (i pl fds bad regs) (hq : i < s.maxQ) (h8 : i ≤ 0xff) :
      Built s ⟨"set_vring_call", [i], pl, fds, bad, regs⟩ ⟨13, u64 i, fds, .ack⟩
  | set_vring_kick (i pl fds bad regs) (hq : i < s.maxQ) (h8 : i ≤ 0xff) :
      Built s ⟨"set_vring_kick", [i], pl, fds, bad, regs⟩ ⟨12, u64 i, fds, .ack⟩
  | set_vring_err (i pl fds bad regs) (hq : i < s.maxQ) (h8 : i ≤ 0xff) :
      Built s ⟨"set_vring_err", [i], pl, fds, bad, regs⟩ ⟨14, u64 i, fds, .ack⟩
  | get_protocol_features (a pl fds bad regs) :
      Built s ⟨"get_protocol_features", a, pl, fds, bad, regs⟩ ⟨15, [], [], .body "VhostUserU64"⟩
  | set_protocol_features (v pl fds bad regs) :
      Built s ⟨"set_protocol_features", [v], pl, fds, bad, regs⟩ ⟨16, u64 v, [], .ack⟩
  | get_queue_num (a pl fds bad regs) : Built s ⟨"get_queue_num", a, pl, fds, bad, regs⟩ ⟨17, [], [], .body "VhostUserU64"⟩
  | reset_device (a pl fds bad regs) : Built s ⟨"reset_device", a, pl, fds, bad, regs⟩ ⟨34, [], [], .ack⟩
  | set_vring_enable (i e pl fds bad regs) (hq : i < s.maxQ) :
      Built s ⟨"set_vring_enable", [i, e], pl, fds, bad, regs⟩ ⟨18, u32 i ++ u32 e, [], .ack⟩
  | get_config (off size fl x pl fds bad regs) (hv : configValid off size fl = true) (hmax : 12 + pl.length ≤ 0x1000) :
      Built s ⟨"get_config", [off, size, fl, x], pl, fds, bad, regs⟩
        ⟨24, u32 off ++ u32 size ++ u32 fl ++ pl, [], .payload "VhostUserConfig"⟩
  | set_config (off fl pl fds bad regs) (hv : configValid off pl.length fl = true) (hmax : 12 + pl.length ≤ 0x1000) :
      Built s ⟨"set_config", [off, fl], pl, fds, bad, regs⟩ ⟨25, u32 off ++ u32 pl.length ++ u32 fl ++ pl, [], .ack⟩
  | set_backend_req_fd (a pl fds bad regs) : Built s ⟨"set_backend_req_fd", a, pl, fds, bad, regs⟩ ⟨21, [], fds, .ack⟩
  | get_shared_object (u pl fds bad regs) (hv : uuidValid u = true) :
      Built s ⟨"get_shared_object", [u], pl, fds, bad, regs⟩ ⟨41, leBytes 16 u, [], .bodyFiles "VhostUserEmpty"⟩
  | get_inflight_fd (ms mo nq qs pl fds bad regs) :
      Built s ⟨"get_inflight_fd", [ms, mo, nq, qs], pl, fds, bad, regs⟩
        ⟨31, u64 ms ++ u64 mo ++ u16 nq ++ u16 qs ++ [0, 0, 0, 0], [], .bodyFiles "VhostUserInflight"⟩
  | set_inflight_fd (ms mo nq qs pl fds bad regs) (hnq : nq ≠ 0) (hqs : qs ≠ 0) :
      Built s ⟨"set_inflight_fd", [ms, mo, nq, qs], pl, fds, bad, regs⟩
        ⟨32, u64 ms ++ u64 mo ++ u16 nq ++ u16 qs ++ [0, 0, 0, 0], fds, .ack⟩
  | get_max_mem_slots (a pl fds bad regs) : Built s ⟨"get_max_mem_slots", a, pl, fds, bad, regs⟩ ⟨36, [], [], .body "VhostUserU64"⟩
  | add_mem_region (g sz u o pl fds bad regs) :
      Built s ⟨"add_mem_region", [g, sz, u, o], pl, fds, bad, regs⟩ ⟨37, u64 0 ++ u64 g ++ u64 sz ++ u64 u ++ u64 o, fds, .ack⟩
  | remove_mem_region (g sz u o pl fds bad regs) :
      Built s ⟨"remove_mem_region", [g, sz, u, o], pl, fds, bad, regs⟩ ⟨38, u64 0 ++ u64 g ++ u64 sz ++ u64 u ++ u64 o, [], .ack⟩
  | get_shmem_config (a pl fds bad regs) :
      Built s ⟨"get_shmem_config", a, pl, fds, bad, regs⟩ ⟨44, [], [], .body "VhostUserShMemConfig"⟩
  | set_device_state_fd (d p pl fds bad regs) :
      Built s ⟨"set_device_state_fd", [d, p], pl, fds, bad, regs⟩ ⟨42, u32 d ++ u32 p, fds, .bodyOptFiles "VhostUserU64"⟩
  | check_device_state (a pl fds bad regs) :
      Built s ⟨"check_device_state", a, pl, fds, bad, regs⟩ ⟨43, [], [], .body "VhostUserU64"⟩
  | postcopy_advise (a pl fds bad regs) :
      Built s ⟨"postcopy_advise", a, pl, fds, bad, regs⟩ ⟨28, [], [], .bodyFiles "VhostUserEmpty"⟩
  | postcopy_listen (a pl fds bad regs) : Built s ⟨"postcopy_listen", a, pl, fds, bad, regs⟩ ⟨29, [], [], .ack⟩
  | postcopy_end (a pl fds bad regs) : Built s ⟨"postcopy_end", a, pl, fds, bad, regs⟩ ⟨30, [], [], .ack⟩

theorem request_built (s : FSt) (op : Op) (req : Req) (s' : FSt) (hreq : request s op = .ok (req, s')) : Built s op req := by
  obtain ⟨name, a, pl, fds, bad, regs⟩ := op
  unfold request at hreq
  split at hreq
  all_goals (dsimp only at *)
  all_goals (subst_vars)
  all_goals (repeat' split at hreq)
  all_goals (try cases hreq)
  all_goals (first | constructor | skip)
  all_goals (try (simp_all; done))
  all_goals (try (simp_all; omega))
  · rename_i h1 _
    cases regs with
    | nil => simp at h1
    | cons r rs => simp

end Lemmas.RequestInv
