import VhostModel.Model.LtsTable
/-!
# Reading the teardown paths in `Model.Shutdown.TD` (C16: exit events, `Drop for VhostUserHandler`, the tail of `serve()`)

`evsT` interprets the events of `VhostUserHandler::send_exit_event` / `VringEpollHandler::send_exit_event`, of the joins of
`Drop for VhostUserHandler` and of the tail of `serve()` on `Model.Shutdown.TD.St`.

Reading conventions (header of `Model/Shutdown.lean`, part "Teardown"):
* `self.handlers` / `self.worker_threads` have `c.n` elements; the loops run over `0 … c.n - 1`;
* `self.exit_event_fd` is `Some` iff the backend supplied an exit event (`c.supplied`); `notify` raises the event;
* `thread.join()` returns once the worker has left its loop (`gone`), else it blocks; what the worker returned is only logged;
* none of these functions has a hold point: the model takes one step per worker (`svSignal`, `hSignal`, `hJoin`), i.e. it is
  finer than the segments; the theorems say that the *run* of those steps is the interpretation of the segment.
-/
namespace Lemmas.LtsTeardown
open Base Model.Shutdown Model.Shutdown.TD Model.LtsTable

inductive Flow where
  | run | ret | blocked
  deriving DecidableEq, Repr

structure TS where
  t : TD.St
  flow : Flow
  /-- index of the element the enclosing `for` is at -/
  cur : Nat
  /-- `result`: what `wait()` returned -/
  w : WRes
  /-- the value of the function -/
  out : Option WRes

def actT (a : LAct) (s : TS) : TS :=
  match a with
  | .exitEventSend => { s with t := { s.t with evt := upd s.t.evt s.cur true } }
  | .threadJoin _ _ => if s.t.gone s.cur then s else { s with flow := .blocked }
  | .h (.value v) =>
    if v = "Ok(())" then { s with out := some .ok } else if v = "result" then { s with out := some s.w } else s
  | .h .done => { s with flow := .ret }
  | _ => s

def patOkT (scrut pat : String) (s : TS) : Bool :=
  if pat = "_" then true
  else if scrut = "&result" then
    (match s.w with
     | .err _ => pat = "Err(e)"
     | .ok => false)
  else
    (match s.w with
     | .err .disconnected => pat = "Error::HandleRequest(VhostUserError::Disconnected)"
     | .err .partialMsg => pat = "Error::HandleRequest(VhostUserError::PartialMessage)"
     | _ => false)

def isArmT (scrut : String) (s : TS) : LEvent → Bool
  | .node .arm ss _ _ => patOkT scrut (ss.headD "") s
  | _ => false

def afterCallT (s : TS) : TS :=
  match s.flow with
  | .ret => { s with flow := .run }
  | _ => s

mutual
def evT (c : TD.Cfg) : LEvent → TS → TS
  | .act a, s => actT a s
  | .node k ss b1 b2, s =>
    match k with
    | .helperCall _ => afterCallT (evsT c b1 s)
    | .forEach =>
      { (List.range c.n).foldl
          (fun s i => match s.flow with
            | .run => evsT c b1 { s with cur := i }
            | _ => s) s with cur := s.cur }
    | .ifSome => if c.supplied then evsT c b1 s else evsT c b2 s
    | .ifLet => evsT c b2 s
    | .matchOn => armsT c (ss.getD 1 "") b1 s
    | .arm => evsT c b2 s
    | _ => s
def evsT (c : TD.Cfg) : List LEvent → TS → TS
  | [], s => s
  | e :: es, s =>
    match (evT c e s).flow with
    | .run => evsT c es (evT c e s)
    | _ => evT c e s
def armsT (c : TD.Cfg) (scrut : String) : List LEvent → TS → TS
  | [], s => s
  | e :: es, s => if isArmT scrut s e then evT c e s else armsT c scrut es s
end

def startT (t : TD.St) (w : WRes) : TS := ⟨t, .run, 0, w, none⟩

/-! ## the model's runs in closed form -/

/-- the exit events of workers `0 … k-1` raised (if the backend supplies them) -/
def signalAll (c : TD.Cfg) (evt : Nat → Bool) : Nat → (Nat → Bool)
  | 0 => evt
  | k + 1 => if c.supplied then upd (signalAll c evt k) k true else signalAll c evt k

theorem upd_or (e : Nat → Bool) (k : Nat) (b : Bool) : upd e k (e k || b) = if b then upd e k true else e := by
  cases b
  · funext j
    simp only [upd, Bool.or_false, Bool.false_eq_true, if_false]
    split
    · rename_i h; rw [h]
    · rfl
  · simp

theorem run_append (c : TD.Cfg) (l1 l2 : List TD.Lbl) : ∀ t : TD.St,
    TD.run c t (l1 ++ l2) = (TD.run c t l1).bind fun t' => TD.run c t' l2 := by
  induction l1 with
  | nil => intro t; simp [TD.run]
  | cons l l1 ih =>
    intro t
    simp only [List.cons_append, TD.run]
    cases TD.step c t l with
    | none => simp
    | some t' => simp [ih t']

set_option linter.unusedSimpArgs false

/-- `k ≤ n` steps `svSignal` -/
theorem svSignal_steps (c : TD.Cfg) (t : TD.St) (w : WRes) (h : t.sv = .signalling 0 w) :
    ∀ k, k ≤ c.n → TD.run c t (List.replicate k .svSignal) =
      some { t with evt := signalAll c t.evt k, sv := .signalling k w } := by
  intro k
  induction k with
  | zero => intro _; simp [TD.run, signalAll, ← h]
  | succ k ih =>
    intro hk
    rw [List.replicate_succ', run_append, ih (by omega)]
    have hlt : k < c.n := by omega
    simp [TD.run, TD.step, hlt, signalAll, upd_or]

/-- `k ≤ n` steps `hSignal` -/
theorem hSignal_steps (c : TD.Cfg) (t : TD.St) (h : t.h = .signalling 0) :
    ∀ k, k ≤ c.n → TD.run c t (List.replicate k .hSignal) =
      some { t with evt := signalAll c t.evt k, h := .signalling k } := by
  intro k
  induction k with
  | zero => intro _; simp [TD.run, signalAll, ← h]
  | succ k ih =>
    intro hk
    rw [List.replicate_succ', run_append, ih (by omega)]
    have hlt : k < c.n := by omega
    simp [TD.run, TD.step, hlt, signalAll, upd_or]

/-- `k ≤ n` steps `hJoin`, the workers `0 … k-1` being gone -/
theorem hJoin_steps (c : TD.Cfg) (t : TD.St) (h : t.h = .joining 0) (hg : ∀ i, i < c.n → t.gone i = true) :
    ∀ k, k ≤ c.n → TD.run c t (List.replicate k .hJoin) = some { t with h := .joining k } := by
  intro k
  induction k with
  | zero => intro _; simp [TD.run, ← h]
  | succ k ih =>
    intro hk
    rw [List.replicate_succ', run_append, ih (by omega)]
    have hlt : k < c.n := by omega
    simp [TD.run, TD.step, hlt, hg k hlt]

/-! ## the loops of the interpretation in closed form -/

theorem exit_loop (c : TD.Cfg) (s : TS) (hs : s.flow = .run) :
    ∀ k, ∃ j, (List.range k).foldl
      (fun s i => match s.flow with
        | .run => evsT c [workerExitSend] { s with cur := i }
        | _ => s) s = { s with t := { s.t with evt := signalAll c s.t.evt k }, cur := j } := by
  intro k
  induction k with
  | zero => exact ⟨s.cur, rfl⟩
  | succ k ih =>
    obtain ⟨j, hj⟩ := ih
    refine ⟨k, ?_⟩
    rw [List.range_succ, List.foldl_append, hj]
    simp only [List.foldl_cons, List.foldl_nil, hs]
    cases hsup : c.supplied <;>
      simp [workerExitSend, evsT, evT, actT, afterCallT, signalAll, hsup, hs]

theorem join_loop (c : TD.Cfg) (s : TS) (hs : s.flow = .run) (hg : ∀ i, i < c.n → s.t.gone i = true) :
    ∀ k, k ≤ c.n → ∃ j, (List.range k).foldl
      (fun s i => match s.flow with
        | .run => evsT c [.threadJoin "thread" "", .ifLet "Err(e)" "thread.join()" [.libCall "error!"] []] { s with cur := i }
        | _ => s) s = { s with cur := j } := by
  intro k
  induction k with
  | zero => intro _; exact ⟨s.cur, rfl⟩
  | succ k ih =>
    intro hk
    obtain ⟨j, hj⟩ := ih (by omega)
    refine ⟨k, ?_⟩
    rw [List.range_succ, List.foldl_append, hj]
    simp only [List.foldl_cons, List.foldl_nil, hs]
    simp [evsT, evT, actT, hg k (by omega), hs]

theorem evT_helperCall (c : TD.Cfg) (n : String) (a : List String) (p : Bool) (body : List LEvent) (s : TS) :
    evT c (.helperCall n a p body) s = afterCallT (evsT c body s) := by simp only [evT]

theorem evsT_cons (c : TD.Cfg) (e : LEvent) (es : List LEvent) (s : TS) :
    evsT c (e :: es) s = match (evT c e s).flow with
                         | .run => evsT c es (evT c e s)
                         | _ => evT c e s := by rw [evsT]

theorem evT_exitFor (c : TD.Cfg) (s : TS) (hs : s.flow = .run) :
    evT c (.forEach "self.handlers.iter()" [workerExitSend]) s = { s with t := { s.t with evt := signalAll c s.t.evt c.n } } := by
  obtain ⟨j, hj⟩ := exit_loop c s hs c.n
  simp only [evT]
  rw [hj]

theorem evT_joinWorkers (c : TD.Cfg) (s : TS) (hs : s.flow = .run) (hg : ∀ i, i < c.n → s.t.gone i = true) :
    evT c joinWorkers s = s := by
  obtain ⟨j, hj⟩ := join_loop c s hs hg c.n (Nat.le_refl _)
  simp only [joinWorkers, evT]
  rw [hj]

/-- `VhostUserHandler::send_exit_event`, event by event: every worker's exit event is raised -/
theorem evT_sendExitEvent (c : TD.Cfg) (recv : String) (s : TS) (hs : s.flow = .run) :
    evT c (sendExitEvent recv) s = { s with t := { s.t with evt := signalAll c s.t.evt c.n } } := by
  unfold sendExitEvent
  rw [evT_helperCall, evsT_cons, evT_exitFor c s hs]
  simp [hs, evsT, evT, actT, afterCallT]

/-! ## the tail of `serve()` -/

def finishServe (s : TS) : TD.St := { s.t with sv := .done s.w (s.out.getD s.w) }

/-- the result mapping at the end of `serve()` is `classifyServe` -/
theorem serve_result (c : TD.Cfg) (s : TS) (hs : s.flow = .run) :
    (evsT c [serveResultMatch] s).out = some (classifyServe s.w) ∧ (evsT c [serveResultMatch] s).t = s.t ∧
    (evsT c [serveResultMatch] s).w = s.w := by
  obtain ⟨t, flow, cur, w, out⟩ := s
  simp only at hs; subst hs
  cases w with
  | ok => simp [serveResultMatch, evsT, evT, armsT, isArmT, patOkT, actT, classifyServe]
  | err e => cases e <;> simp [serveResultMatch, evsT, evT, armsT, isArmT, patOkT, actT, classifyServe]

/-- **the tail of `serve()`**: from the moment `wait()` has returned `w`, the `c.n + 1` steps `svSignal` of the model are the
interpretation of `send_exit_event` for every worker — whatever `w` — followed by the mapping of the result -/
theorem serveTail_is_segment (c : TD.Cfg) (t : TD.St) (w : WRes) (h : t.sv = .signalling 0 w) :
    TD.run c t (List.replicate (c.n + 1) .svSignal) = some (finishServe (evsT c serveTail (startT t w))) := by
  rw [List.replicate_succ', run_append, svSignal_steps c t w h c.n (Nat.le_refl _)]
  have h1 := evT_sendExitEvent c "self.handler.lock().unwrap()" (startT t w) rfl
  have h2 : evsT c serveTail (startT t w) =
      evsT c [serveResultMatch] { startT t w with t := { t with evt := signalAll c t.evt c.n } } := by
    unfold serveTail
    rw [evsT_cons, h1]
    rfl
  obtain ⟨r1, r2, r3⟩ := serve_result c { startT t w with t := { t with evt := signalAll c t.evt c.n } } rfl
  rw [h2]
  unfold finishServe
  rw [r1, r2, r3]
  simp [TD.run, TD.step, startT]

/-! ## `Drop for VhostUserHandler` -/

/-- **drop, part 1**: `hBegin` and the `c.n + 1` steps `hSignal` are `self.send_exit_event()` -/
theorem handlerDrop_signal_is_segment (c : TD.Cfg) (t : TD.St) (h : t.h = .alive)
    (hsv : t.sv = .off ∨ ∃ w r, t.sv = .done w r) :
    TD.run c t (.hBegin :: List.replicate (c.n + 1) .hSignal) =
      some { (evsT c [sendExitEvent "self"] (startT t .ok)).t with h := .joining 0 } := by
  have hb : TD.step c t .hBegin = some { t with h := .signalling 0 } := by
    rcases hsv with hsv | ⟨w, r, hsv⟩ <;> simp [TD.step, h, hsv]
  simp only [TD.run, hb]
  rw [List.replicate_succ', run_append, hSignal_steps c _ rfl c.n (Nat.le_refl _)]
  have h1 := evT_sendExitEvent c "self" (startT t .ok) rfl
  have h2 : evsT c [sendExitEvent "self"] (startT t .ok) =
      { startT t .ok with t := { t with evt := signalAll c t.evt c.n } } := by
    rw [evsT_cons, h1]
    rfl
  rw [h2]
  simp [TD.run, TD.step, startT]

/-- **drop, part 2**: with every worker gone, the `c.n + 1` steps `hJoin` are the loop of joins and the return -/
theorem handlerDrop_join_is_segment (c : TD.Cfg) (t : TD.St) (h : t.h = .joining 0) (hg : ∀ i, i < c.n → t.gone i = true) :
    TD.run c t (List.replicate (c.n + 1) .hJoin) =
      some { (evsT c [joinWorkers, .done] (startT t .ok)).t with h := .dropped } ∧
    (evsT c [joinWorkers, .done] (startT t .ok)).flow = .ret := by
  have h1 : evT c joinWorkers (startT t .ok) = startT t .ok := evT_joinWorkers c _ rfl hg
  constructor
  · rw [List.replicate_succ', run_append, hJoin_steps c t h hg c.n (Nat.le_refl _)]
    simp only [evsT, h1]
    simp [TD.run, TD.step, startT, evT, actT]
  · simp only [evsT, h1]
    simp [startT, evT, actT]

/-- a worker that has not left its loop blocks the join (the model's `hJoin` is not enabled, the interpretation is
`blocked`) -/
theorem handlerDrop_join_blocks (c : TD.Cfg) (t : TD.St) (h : t.h = .joining 0) (hn : 0 < c.n) (hg : t.gone 0 = false) :
    TD.step c t .hJoin = none ∧ (evsT c [.threadJoin "thread" ""] { startT t .ok with cur := 0 }).flow = .blocked := by
  simp [TD.step, h, hn, hg, evsT, evT, actT, startT]

theorem handler_drop_segment :
    segOf shutdownSegments "handler_drop" "entry" = [sendExitEvent "self"] ++ [joinWorkers, .done] := by decide +kernel

theorem serve_segment : segOf shutdownSegments "serve" "entry" = serveHead ++ serveTail := by decide +kernel

end Lemmas.LtsTeardown
