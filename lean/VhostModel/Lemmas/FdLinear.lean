import VhostModel.Lemmas.Stream
import VhostModel.Lemmas.BackendSrv
import VhostModel.Model.BackendSrv
/-!
# Descriptor bookkeeping of the dispatch arms (helper lemmas for C09)

An arm's guards thread a context `Ctx` whose received descriptors live in `files` (not yet looked at) and `file` (the
single file taken by a `.oneFile` / `.vringFd` guard); `Ctx.leftover` is their concatenation.  The table is
*well-formed* (`Arm.wf`, checked for all 34 arms by `decide`) when an arm has at most one file-taking guard and none
at all if its action does not account for `c.file`.  From that: the guards preserve `leftover` (as a list), and every
action hands each descriptor of `leftover` to the handler or closes it, exactly once.
-/
namespace Lemmas.FdLinear
open Base Model.Stream Model.BackendSrv

/-- guards that move a descriptor from `files` to `file` -/
def Guard.takesFile : Guard → Bool
  | .oneFile _ => true
  | .vringFd => true
  | _ => false

/-- handler methods whose `ack` call does not pass `c.file` on (`argsOf`) -/
def noFileMethods : List String := ["set_vring_num", "set_vring_base", "set_vring_enable", "set_vring_addr"]

/-- actions that account for `c.file` (hand it to the handler or close it) whatever it is -/
def Act.usesFile : Act → Bool
  | .ack m => !noFileMethods.contains m
  | .memTable => false
  | .backendReqFd => false
  | .gpuSocket => false
  | _ => true

def takers (gs : List Guard) : Nat := gs.countP Guard.takesFile

/-- at most one file-taking guard; none if the action ignores `c.file` -/
def Arm.wf (a : Arm) : Bool := takers a.guards ≤ 1 && (Act.usesFile a.act || takers a.guards == 0)

theorem arms_wf : ∀ a ∈ arms, Arm.wf a = true := by decide

/-! ### guards -/

theorem runGuard_of_not_taker {st : BSt} {c c' : Ctx} {gd : Guard} (hg : Guard.takesFile gd = false)
    (h : runGuard st c gd = .ok c') : c' = c := by
  cases gd with
  | proto b => simp only [runGuard] at h; split at h <;> simp_all
  | virtio b => simp only [runGuard] at h; split at h <;> simp_all
  | sizeIs s =>
    cases s with
    | zero => simp only [runGuard] at h; split at h <;> simp_all
    | any => simp only [runGuard] at h; split at h <;> simp_all
    | ofT ty =>
      simp only [runGuard] at h
      split at h
      · split at h <;> simp_all
      · simp at h
  | body ty =>
    simp only [runGuard] at h
    split at h
    · simp at h
    · split at h
      · simp at h
      · split at h <;> simp_all
  | oneFile e => simp [Guard.takesFile] at hg
  | vringFd => simp [Guard.takesFile] at hg
  | enable01 => simp only [runGuard] at h; split at h <;> simp_all

theorem takeSingle_some {files : Option (List Fd)} {f : Fd} {d : List Fd} (h : takeSingle files = (some f, d)) :
    files = some [f] := by
  unfold takeSingle at h
  split at h <;> simp_all

theorem takeSingle_none {files : Option (List Fd)} {d : List Fd} (h : takeSingle files = (none, d)) :
    files.getD [] = d := by
  unfold takeSingle at h
  split at h <;> simp_all

/-- a file-taking guard run with no file taken yet keeps the descriptors held by the context -/
theorem runGuard_leftover {st : BSt} {c c' : Ctx} {gd : Guard} (hf : c.file = none)
    (h : runGuard st c gd = .ok c') : c'.leftover = c.leftover := by
  by_cases hg : Guard.takesFile gd = false
  · rw [runGuard_of_not_taker hg h]
  · cases gd with
    | oneFile e =>
      simp only [runGuard] at h
      split at h
      · rename_i f d hts
        have := takeSingle_some hts
        simp only [Except.ok.injEq] at h
        subst h
        simp [Ctx.leftover, this, hf]
      · simp at h
    | vringFd =>
      simp only [runGuard] at h
      split at h
      · simp at h
      · split at h
        · rename_i f d hts
          have := takeSingle_some hts
          split at h
          · simp only [Except.ok.injEq] at h
            subst h
            simp [Ctx.leftover, this, hf]
          · simp at h
        · rename_i d hts
          have := takeSingle_none hts
          split at h
          · simp at h
          · rename_i hcond
            simp only [Except.ok.injEq] at h
            subst h
            have hd : d = [] := by
              simp only [Bool.or_eq_true, Bool.not_eq_true', not_or] at hcond
              have := hcond.2
              simpa using this
            simp [Ctx.leftover, this, hf, hd]
    | _ => simp [Guard.takesFile] at hg

theorem runGuards_of_no_taker {st : BSt} : ∀ (gs : List Guard) (c c' : Ctx), takers gs = 0 →
    runGuards st c gs = .ok c' → c' = c := by
  intro gs
  induction gs with
  | nil => intro c c' _ h; simp only [runGuards, Except.ok.injEq] at h; exact h.symm
  | cons gd gs ih =>
    intro c c' ht h
    simp only [runGuards] at h
    have ht' : Guard.takesFile gd = false ∧ takers gs = 0 := by
      simp only [takers, List.countP_cons] at ht ⊢
      cases hh : Guard.takesFile gd <;> simp_all
    cases hg : runGuard st c gd with
    | error e => rw [hg] at h; simp at h
    | ok c1 =>
      rw [hg] at h
      have := runGuard_of_not_taker ht'.1 hg
      subst this
      exact ih _ _ ht'.2 h

/-- **guards preserve the held descriptors**: with at most one file-taking guard, starting with no file taken -/
theorem runGuards_leftover {st : BSt} : ∀ (gs : List Guard) (c c' : Ctx), takers gs ≤ 1 → c.file = none →
    runGuards st c gs = .ok c' → c'.leftover = c.leftover ∧ (takers gs = 0 → c'.file = none) := by
  intro gs
  induction gs with
  | nil =>
    intro c c' _ hf h
    simp only [runGuards, Except.ok.injEq] at h
    subst h
    exact ⟨rfl, fun _ => hf⟩
  | cons gd gs ih =>
    intro c c' ht hf h
    simp only [runGuards] at h
    cases hg : runGuard st c gd with
    | error e => rw [hg] at h; simp at h
    | ok c1 =>
      rw [hg] at h
      have hl1 := runGuard_leftover hf hg
      cases htk : Guard.takesFile gd with
      | false =>
        have hc1 := runGuard_of_not_taker htk hg
        subst hc1
        have ht2 : takers (gd :: gs) = takers gs := by simp [takers, htk]
        rw [ht2] at ht ⊢
        exact ih _ _ ht hf h
      | true =>
        have ht2 : takers (gd :: gs) = takers gs + 1 := by simp [takers, htk]
        have ht0 : takers gs = 0 := by omega
        have := runGuards_of_no_taker gs _ _ ht0 h
        subst this
        exact ⟨hl1, fun h0 => by omega⟩

/-! ### actions -/

/-- what `argsOf` hands to the handler: the taken file, except for the four methods that take none -/
theorem argsOf_fds (m : String) (c : Ctx) :
    (argsOf m c).2.2 = if noFileMethods.contains m then [] else c.file.toList := by
  unfold argsOf
  cases c.file <;> dsimp only <;> split <;> simp_all [noFileMethods]

theorem count_leftover (c : Ctx) (f : Fd) :
    c.leftover.count f = (c.files.getD []).count f + c.file.toList.count f := by
  unfold Ctx.leftover
  cases c.file <;> simp [List.count_append]

theorem leftover_of_file_none {c : Ctx} (hf : c.file = none) : c.leftover = c.files.getD [] := by
  simp [Ctx.leftover, hf]

/-- **every action hands each held descriptor to the handler or closes it, exactly once** — provided it accounts for
`c.file` or no file was taken -/
theorem runAct_fds_linear (st : BSt) (c : Ctx) (h : HOut) (act : Act) (f : Fd)
    (hw : Act.usesFile act = true ∨ c.file = none) :
    c.leftover.count f = ((runAct st c h act).calls.flatMap (·.fds)).count f + (runAct st c h act).closed.count f := by
  cases act with
  | ack m =>
    have ha := argsOf_fds m c
    simp only [runAct, List.flatMap_cons, List.flatMap_nil, List.append_nil]
    rw [ha, count_leftover]
    rcases hw with hw | hw
    · simp only [Act.usesFile, Bool.not_eq_true'] at hw
      simp only [hw, Bool.false_eq_true, if_false]; omega
    · rw [hw]; split <;> simp
  | memTable =>
    have hf : c.file = none := by rcases hw with hw | hw; (· simp [Act.usesFile] at hw); exact hw
    have hl := leftover_of_file_none hf
    simp only [runAct]
    repeat' split
    all_goals simp_all
  | backendReqFd =>
    have hf : c.file = none := by rcases hw with hw | hw; (· simp [Act.usesFile] at hw); exact hw
    have hl := leftover_of_file_none hf
    simp only [runAct]
    split
    · rename_i x d hts; simp [hl, takeSingle_some hts]
    · rename_i d hts; simp [hl, takeSingle_none hts]
  | gpuSocket =>
    have hf : c.file = none := by rcases hw with hw | hw; (· simp [Act.usesFile] at hw); exact hw
    have hl := leftover_of_file_none hf
    simp only [runAct]
    split
    · rename_i x d hts; simp [hl, takeSingle_some hts]
    · rename_i d hts; simp [hl, takeSingle_none hts]
  | setLogBase =>
    rw [count_leftover]
    simp only [runAct]; cases c.file <;> (split <;> simp <;> omega)
  | deviceStateFd =>
    rw [count_leftover]
    simp only [runAct]; cases c.file <;> simp <;> omega
  | getConfig => simp only [runAct]; repeat' split
                 all_goals simp
  | setConfig => simp only [runAct]; repeat' split
                 all_goals simp
  | _ => simp only [runAct] <;> (repeat' split) <;> simp

/-! ### `recv_data` -/

/-- descriptors are lost by `recv_data` only on the `ENOBUFS` path -/
theorem recvData_lost_nil {σ : Type} (ch : Chooser σ) (cl : Bool) :
    ∀ (want : Nat) (st : σ) (s : List Cell), (recvData ch cl want st s).outcome ≠ .enobufs →
      (recvData ch cl want st s).lost = [] := by
  intro want st s
  fun_induction recvData ch cl want st s with
  | case1 st s => intro _; rfl
  | case2 n st => intro _; rfl
  | case3 want st c s k0 st' hnext k chunk rest cf hne => intro h; simp at h
  | case4 want st c s k0 st' hnext k chunk rest cf he r ih => intro h; exact ih h

end Lemmas.FdLinear
