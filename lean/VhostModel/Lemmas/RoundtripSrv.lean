import VhostModel.Lemmas.Guards
import VhostModel.Lemmas.Wire
/-!
# What an arm of the request server writes once the handler has been invoked (server half of C03)

`runAct` after the guards: whenever the handler *was* invoked (`calls ≠ []`), the bytes written, the number of
descriptors attached, the new negotiation state and the result of `handle_request` are the closed forms
`actOut` / `actFds` / `actSt` / `actRes` — functions of the server state, the request header, the request body and the
handler's scripted outcome only (the guards never change header or body: `Lemmas.Guards.runGuards_hdr_buf`).
`dispatch_of_calls` lifts this to `dispatch`; `step_segCells_full` is `Lemmas.Wire.step_segCells` with the whole
`Out` record (the descriptor count included).
-/
namespace Lemmas.Roundtrip
open Base Model.Stream Model.Msgs Model.BackendSrv Lemmas.Encode

/-- bytes written by an action whose handler was invoked -/
def actOut (st : BSt) (hdr : Hdr) (buf : Bytes) (h : HOut) : Act → Bytes
  | .ack _ => ackOf st hdr h.ok
  | .getFeatures => if h.ok then replyHdr hdr 8 ++ leBytes 8 h.v else []
  | .getProtocolFeatures => if h.ok then replyHdr hdr 8 ++ leBytes 8 (h.v ||| 8) else []
  | .setFeatures => ackOf ({ st with acked := g buf "VhostUserU64" ["value"] }).updateFlag hdr h.ok
  | .setProtocolFeatures => ackOf ({ st with ackedProto := g buf "VhostUserU64" ["value"] }).updateFlag hdr h.ok
  | .replyU64 _ => if h.ok then replyHdr hdr 8 ++ leBytes 8 h.v else []
  | .getVringBase =>
    if h.ok then replyHdr hdr 8 ++ leBytes 4 (g buf "VhostUserVringState" ["index"]) ++ leBytes 4 h.v else []
  | .getInflight =>
    if h.ok then
      replyHdr hdr 24 ++ leBytes 8 h.v ++ leBytes 8 (g buf "VhostUserInflight" ["mmap_offset"]) ++
        leBytes 2 (g buf "VhostUserInflight" ["num_queues"]) ++ leBytes 2 (g buf "VhostUserInflight" ["queue_size"]) ++ [0, 0, 0, 0]
    else []
  | .getShmem =>
    if h.ok then replyHdr hdr 2056 ++ leBytes 4 h.v ++ leBytes 4 0 ++ (h.b ++ List.replicate 2048 0).take 2048 else []
  | .setLogBase => if h.ok then replyHdr hdr 16 ++ buf else []
  | .fdOrEmpty _ => replyHdr hdr 0
  | .deviceStateFd => replyHdr hdr 8 ++ leBytes 8 (if !h.ok then 0x101 else if h.file then 0 else 0x100)
  | .checkDeviceState => replyHdr hdr 8 ++ leBytes 8 (if h.ok then 0 else 1)
  | .getConfig =>
    let off := g buf "VhostUserConfig" ["offset"]; let sz := g buf "VhostUserConfig" ["size"]
    let fl := g buf "VhostUserConfig" ["flags"]
    if h.ok && h.b.length == sz then replyHdr hdr (12 + sz) ++ leBytes 4 off ++ leBytes 4 sz ++ leBytes 4 fl ++ h.b
    else replyHdr hdr 12 ++ leBytes 4 off ++ leBytes 4 0 ++ leBytes 4 fl
  | .setConfig => ackOf st hdr h.ok
  | .memTable => ackOf st hdr h.ok
  | .backendReqFd => ackOf st hdr true
  | .gpuSocket => ackOf st hdr h.ok

/-- descriptors attached to them -/
def actFds (h : HOut) : Act → Nat
  | .getInflight => if h.ok then 1 else 0
  | .fdOrEmpty _ => if h.ok then 1 else 0
  | .deviceStateFd => if !h.ok then 0 else if h.file then 1 else 0
  | _ => 0

/-- negotiation state after the action -/
def actSt (st : BSt) (buf : Bytes) (h : HOut) : Act → BSt
  | .getFeatures => if h.ok then ({ st with virtio := h.v % 2^64 }).updateFlag else st
  | .getProtocolFeatures => if h.ok then st.updateFlag else st
  | .setFeatures => ({ st with acked := g buf "VhostUserU64" ["value"] }).updateFlag
  | .setProtocolFeatures => ({ st with ackedProto := g buf "VhostUserU64" ["value"] }).updateFlag
  | _ => st

/-- does `handle_request` return `Ok` whatever the handler did (the failure, if any, is reported in band) -/
def actInfallible : Act → Bool
  | .fdOrEmpty _ | .deviceStateFd | .checkDeviceState | .getConfig | .backendReqFd => true
  | _ => false

/-- result of `handle_request` -/
def actRes (h : HOut) (a : Act) : Res := if actInfallible a || h.ok then .ok else .err .handlerErr

local macro "fin4" : tactic => `(tactic| (refine ⟨?_, ?_, ?_, ?_⟩ <;> first | rfl | trivial))

theorem runAct_of_calls (st : BSt) (c : Ctx) (h : HOut) (a : Act) (hc : (runAct st c h a).calls ≠ []) :
    (runAct st c h a).out = actOut st c.hdr c.buf h a ∧ (runAct st c h a).outFds = actFds h a ∧
    (runAct st c h a).st = actSt st c.buf h a ∧ (runAct st c h a).res = actRes h a := by
  cases a with
  | ack m => simp only [runAct, actOut, actFds, actSt, actRes, actInfallible]; cases h.ok <;> fin4
  | getFeatures => simp only [runAct, actOut, actFds, actSt, actRes, actInfallible]; cases h.ok <;> fin4
  | getProtocolFeatures =>
    simp only [runAct, actOut, actFds, actSt, actRes, actInfallible]; cases h.ok <;> fin4
  | setFeatures => simp only [runAct, actOut, actFds, actSt, actRes, actInfallible]; cases h.ok <;> fin4
  | setProtocolFeatures =>
    simp only [runAct, actOut, actFds, actSt, actRes, actInfallible]; cases h.ok <;> fin4
  | replyU64 m => simp only [runAct, actOut, actFds, actSt, actRes, actInfallible]; cases h.ok <;> fin4
  | getVringBase => simp only [runAct, actOut, actFds, actSt, actRes, actInfallible]; cases h.ok <;> fin4
  | getInflight => simp only [runAct, actOut, actFds, actSt, actRes, actInfallible]; cases h.ok <;> fin4
  | getShmem => simp only [runAct, actOut, actFds, actSt, actRes, actInfallible]; cases h.ok <;> fin4
  | setLogBase => simp only [runAct, actOut, actFds, actSt, actRes, actInfallible]; cases h.ok <;> fin4
  | fdOrEmpty m => simp only [runAct, actOut, actFds, actSt, actRes, actInfallible]; cases h.ok <;> fin4
  | deviceStateFd =>
    simp only [runAct, actOut, actFds, actSt, actRes, actInfallible]
    cases h.ok <;> cases h.file <;> fin4
  | checkDeviceState =>
    simp only [runAct, actOut, actFds, actSt, actRes, actInfallible]; cases h.ok <;> fin4
  | getConfig =>
    simp only [runAct, sz_Config, actOut, actFds, actSt, actRes, actInfallible] at hc ⊢
    by_cases h1 : (decide (c.buf.length > 0x1000) || decide (c.buf.length < 12)) = true
    · rw [if_pos h1] at hc; exact absurd rfl hc
    · rw [if_neg h1] at hc ⊢
      cases hv : bodyValid "VhostUserConfig" (c.buf.take 12) with
      | none => rw [hv] at hc; exact absurd rfl hc
      | some b =>
        cases b with
        | false => rw [hv] at hc; exact absurd rfl hc
        | true =>
          rw [hv] at hc
          simp only at hc ⊢
          by_cases h2 : (c.buf.length - 12 != g c.buf "VhostUserConfig" ["size"]) = true
          · rw [if_pos h2] at hc; exact absurd rfl hc
          · rw [if_neg h2]
            by_cases h3 : (h.ok && h.b.length == g c.buf "VhostUserConfig" ["size"]) = true
            · simp only [if_pos h3]; fin4
            · simp only [if_neg h3]; fin4
  | setConfig =>
    simp only [runAct, sz_Config, actOut, actFds, actSt, actRes, actInfallible] at hc ⊢
    by_cases h1 : (decide (c.buf.length > 0x1000) || decide (c.buf.length < 12)) = true
    · rw [if_pos h1] at hc; exact absurd rfl hc
    · rw [if_neg h1] at hc ⊢
      cases hv : bodyValid "VhostUserConfig" (c.buf.take 12) with
      | none => rw [hv] at hc; exact absurd rfl hc
      | some b =>
        cases b with
        | false => rw [hv] at hc; exact absurd rfl hc
        | true =>
          rw [hv] at hc
          simp only at hc ⊢
          by_cases h2 : (c.buf.length - 12 != g c.buf "VhostUserConfig" ["size"]) = true
          · rw [if_pos h2] at hc; exact absurd rfl hc
          · rw [if_neg h2]
            cases h.ok <;> fin4
  | memTable =>
    simp only [runAct, sz_Memory, sz_Region, actOut, actFds, actSt, actRes, actInfallible] at hc ⊢
    by_cases h0 : (!checkSize c.hdr c.buf.length c.hdr.size) = true
    · rw [if_pos h0] at hc; exact absurd rfl hc
    · rw [if_neg h0] at hc ⊢
      by_cases h1 : c.buf.length < 8
      · rw [if_pos h1] at hc; exact absurd rfl hc
      · rw [if_neg h1] at hc ⊢
        cases hv : bodyValid "VhostUserMemory" (c.buf.take 8) with
        | none => rw [hv] at hc; exact absurd rfl hc
        | some b =>
          cases b with
          | false => rw [hv] at hc; exact absurd rfl hc
          | true =>
            rw [hv] at hc
            simp only at hc ⊢
            by_cases h2 : (c.buf.length != 8 + g c.buf "VhostUserMemory" ["num_regions"] * 32) = true
            · rw [if_pos h2] at hc; exact absurd rfl hc
            · rw [if_neg h2] at hc ⊢
              cases hf : c.files with
              | none => rw [hf] at hc; exact absurd rfl hc
              | some fs =>
                rw [hf] at hc
                simp only at hc ⊢
                by_cases h3 : (fs.length != g c.buf "VhostUserMemory" ["num_regions"]) = true
                · rw [if_pos h3] at hc; exact absurd rfl hc
                · rw [if_neg h3] at hc ⊢
                  split at hc
                  · rename_i h4; rw [if_pos h4]; cases h.ok <;> fin4
                  · exact absurd rfl hc
  | backendReqFd =>
    simp only [runAct, actOut, actFds, actSt, actRes, actInfallible] at hc ⊢
    split at hc
    · fin4
    · exact absurd rfl hc
  | gpuSocket =>
    simp only [runAct, actOut, actFds, actSt, actRes, actInfallible] at hc ⊢
    split at hc
    · cases h.ok <;> fin4
    · exact absurd rfl hc

/-- `dispatch`, once the handler was invoked: the closed forms, for the arm of the request's code -/
theorem dispatch_of_calls {st : BSt} {hdr : Hdr} {buf : Bytes} {files : Option (List Fd)} {h : HOut}
    (arm : Arm) (ha : arms.find? (·.code == hdr.code) = some arm) (hc : (dispatch st hdr buf files h).calls ≠ []) :
    (dispatch st hdr buf files h).out = actOut st hdr buf h arm.act ∧
    (dispatch st hdr buf files h).outFds = actFds h arm.act ∧
    (dispatch st hdr buf files h).st = actSt st buf h arm.act ∧
    (dispatch st hdr buf files h).res = actRes h arm.act := by
  unfold dispatch at hc ⊢
  simp only [ha] at hc ⊢
  cases hg : runGuards st { hdr := hdr, buf := buf, files := files } arm.guards with
  | error e => simp [hg] at hc
  | ok c' =>
    simp only [hg] at hc ⊢
    obtain ⟨e1, e2⟩ := Lemmas.Guards.runGuards_hdr_buf arm.guards hg
    have := runAct_of_calls st c' h arm.act hc
    rw [e1, e2] at this
    exact this

/-- `Lemmas.Wire.step_segCells`, with the whole output record -/
theorem step_segCells_full {σ : Type} (ch : Chooser σ) (cl : Bool) (st : BSt) (cst : σ) (h : HOut)
    (code flags : Nat) (body : Bytes) (fds : List Fd)
    (hc : codeOkN Lemmas.Wire.codes code = true) (hc32 : code < 2^32) (hf : flags = 1 ∨ flags = 9) (hs : body.length ≤ 0x1000)
    (hfd : fds.length ≤ 32) (hfc : fds.isEmpty = false → fdCodes.contains code = true) :
    let r := step ch cl st cst (segCells (encHdr code flags body.length ++ body) fds) h
    let d := dispatch st ⟨code, flags, body.length⟩ body (if fds.isEmpty then none else some fds) h
    r.o = { d with closed := [] ++ d.closed } ∧ r.rest = [] := by
  intro r d
  open Lemmas.Wire in
  have hf32 : flags < 2^32 := by rcases hf with rfl | rfl <;> omega
  have hw : (encHdr code flags body.length ++ body).length = 12 + body.length := by simp [encHdr]; omega
  have hne : encHdr code flags body.length ++ body ≠ [] := by
    intro e; have := congrArg List.length e; rw [hw] at this; simp at this
  have hhb : ((segCells (encHdr code flags body.length ++ body) fds).take 12).map (·.b) = encHdr code flags body.length := by
    rw [Lemmas.Wire.map_b_take, Lemmas.Wire.segCells_map_b]; exact take_append_len _ _ 12 (by simp [encHdr])
  obtain ⟨d1, d2, d3⟩ := dec_Header code flags body.length hc32 hf32 (by omega) []
  simp only [List.append_nil] at d1 d2 d3
  have hsf := Props.C08.step_framed ch cl st cst (segCells (encHdr code flags body.length ++ body) fds) h
    (by rw [Lemmas.Wire.segCells_length, hw]; omega) (Lemmas.Wire.segCells_tail _ _)
    (by rw [Lemmas.Wire.segCells_head _ _ hne]; exact hfd)
    (by rw [hhb, d3, Lemmas.Wire.segCells_length, hw]; omega)
  have hbody : (((segCells (encHdr code flags body.length ++ body) fds).drop 12).take body.length).map (·.b) = body := by
    rw [Lemmas.Wire.map_b_take, Lemmas.Wire.map_b_drop, Lemmas.Wire.segCells_map_b, drop_append_len _ _ 12 (by simp [encHdr])]
    simp
  have hrest : ((segCells (encHdr code flags body.length ++ body) fds).drop 12).drop body.length = [] := by
    apply List.eq_nil_of_length_eq_zero
    simp [Lemmas.Wire.segCells_length, hw]
  have hv : (decHeader (encHdr code flags body.length)).map (·.isValid (Gen.Codes.FrontendReq.table.map (·.2))) = some true := by
    rw [Lemmas.Wire.decHeader_enc code flags body.length hc32 hf32 (by omega)]
    exact congrArg some (Lemmas.Wire.hdr_isValid code flags body.length hc hc32 hf hs)
  have hfiles : ((if fds.isEmpty then (none : Option (List Fd)) else some fds).isSome && !fdCodes.contains code) = false := by
    cases he : fds.isEmpty with
    | true => simp
    | false =>
      have hh := hfc he
      simp only [Bool.false_eq_true, if_false, Option.isSome_some, hh, Bool.not_true, Bool.and_false]
  have key : Props.C08.framedOut st (segCells (encHdr code flags body.length ++ body) fds) h =
      ({ d with closed := [] ++ d.closed }, []) := by
    unfold Props.C08.framedOut
    simp only [hhb, Lemmas.Wire.segCells_head _ _ hne, d1, d2, d3, hv, hfiles, Bool.false_eq_true, if_false, hbody, hrest]
    by_cases h0 : body.length = 0
    · have hb0 : body = [] := List.eq_nil_of_length_eq_zero h0
      subst hb0
      simp [d, Lemmas.Wire.segCells_length, encHdr]
    · have : (body.length == 0) = false := by simpa using h0
      simp only [this, Bool.false_eq_true, if_false]
      rfl
  obtain ⟨s1, s2⟩ := hsf
  rw [key] at s1 s2
  exact ⟨s1, s2⟩

end Lemmas.Roundtrip
