import VhostModel.Lemmas.RoundtripRecv
import VhostModel.Lemmas.RoundtripSrv
/-!
# Vocabulary of the C03 composition theorem

* `usable op h` — the handler's scripted outcome is a success the frontend can hand to the caller;
* `expectedValue op h file` — what the API call must then return, in terms of the handler's outcome only;
* `sendState`, `feAfter` — frontend state after the request was written / after the reply was accepted;
* `inStep s bst` — the negotiation states of the two endpoints agree;
* `replyCells o file` — the server's output as the cells of one `sendmsg` (the handler's file is `file`);
* `TurnSpec` — what one API call does against the output of the server turn it caused.
-/
namespace Lemmas.Roundtrip
open Base Model.Stream Model.Msgs Model.Frontend
open Model.BackendSrv (Err Hdr bitSet BSt HOut Out Res)

/-- the handler produced a result the call can return: it succeeded, and
* `get_config`: the configuration bytes have the requested length;
* `get_queue_num`: the number (as transmitted, 64 bits) does not exceed the 0x8000 queues the library supports;
* `set_backend_req_fd`: always — the server installs the channel itself, the application's handler cannot fail it.
(File-returning operations: `get_shared_object`, `postcopy_advise` and `get_inflight_fd` return a file exactly when
the handler succeeds; for `set_device_state_fd` success without a file is a result of its own, `Ret.noFile`.) -/
def usable (op : Op) (h : HOut) : Bool :=
  match op.name, op.a with
  | "set_backend_req_fd", _ => true
  | "get_config", [_, size, _, _] => h.ok && h.b.length == size
  | "get_queue_num", _ => h.ok && decide (h.v % 2^64 ≤ 0x8000)
  | _, _ => h.ok

/-- the value the API call returns for a usable handler outcome `h`; `file` is the file the handler produced -/
def expectedValue (op : Op) (h : HOut) (file : Fd) : Ret :=
  match op.name, op.a with
  | "get_features", _ => .val (h.v % 2^64)
  | "get_protocol_features", _ => .val (((h.v ||| 8) % 2^64) &&& (2^22 - 1))
  | "get_queue_num", _ => .val (h.v % 2^64)
  | "get_max_mem_slots", _ => .val (h.v % 2^64)
  | "get_vring_base", _ => .val (h.v % 2^32)
  | "get_config", [off, size, fl, _] => .config off size fl h.b
  | "get_shared_object", _ => .file file
  | "postcopy_advise", _ => .file file
  | "get_inflight_fd", [_, mo, nq, qs] => .inflight (h.v % 2^64) mo nq qs file
  | "set_device_state_fd", _ => if h.file then .file file else .noFile
  | "get_shmem_config", _ => .shmem (h.v % 2^32) ((h.b ++ List.replicate 2048 0).take 2048)
  | _, _ => .unit

/-- frontend state once the request is on the wire (`request`'s second component) -/
def sendState (s : FSt) (op : Op) : FSt :=
  match op.name, op.a with
  | "set_features", [v] => { s with acked := v &&& s.virtio }
  | "set_protocol_features", [v] => { s with ackedProto := v }
  | _, _ => s

/-- frontend state once the reply to a usable outcome was accepted -/
def feAfter (s' : FSt) (op : Op) (h : HOut) : FSt :=
  match op.name with
  | "get_features" => { s' with virtio := h.v % 2^64 }
  | "get_protocol_features" => { s' with proto := (h.v ||| 8) % 2^64 }
  | "get_queue_num" => { s' with maxQ := h.v % 2^64 }
  | _ => s'

/-- the two endpoints agree on the negotiation: same offered virtio features, same acknowledged protocol features, the
server's REPLY_ACK flag is what these determine (`Props.C04.Inv`), and REPLY_ACK was acknowledged only while
VHOST_USER_F_PROTOCOL_FEATURES is offered -/
def inStep (s : FSt) (bst : BSt) : Bool :=
  s.virtio == bst.virtio && s.ackedProto == bst.ackedProto &&
  (bst.replyAck == (bitSet bst.virtio 30 && bitSet bst.ackedProto 3)) &&
  (!bitSet bst.ackedProto 3 || bitSet bst.virtio 30)

theorem inStep_parts {s : FSt} {bst : BSt} (h : inStep s bst = true) :
    s.virtio = bst.virtio ∧ s.ackedProto = bst.ackedProto ∧ bst.replyAck = bitSet s.ackedProto 3 ∧
    (bitSet bst.ackedProto 3 = true → bitSet bst.virtio 30 = true) := by
  simp only [inStep, Bool.and_eq_true, beq_iff_eq, Bool.or_eq_true, Bool.not_eq_true'] at h
  obtain ⟨⟨⟨h1, h2⟩, h3⟩, h4⟩ := h
  refine ⟨h1, h2, ?_, ?_⟩
  · rw [h3, h2]
    cases hb : bitSet bst.ackedProto 3 with
    | false => simp
    | true => rcases h4 with h4 | h4 <;> simp_all
  · intro hb; rcases h4 with h4 | h4 <;> simp_all

/-- what the server wrote, as the cells of the one `sendmsg` it is written with; the descriptors attached (at most one
in this model) are copies of the handler's file -/
def replyCells (o : Out) (file : Fd) : List Cell := segCells o.out (List.replicate o.outFds file)

/-- outcome of an API call that went on the wire, against the output `d` of the server turn -/
structure TurnSpec {σ : Type} (ch : Chooser σ) (cl : Bool) (s' : FSt) (op : Op) (req : Req) (h : HOut) (d : Out) (cst : σ)
    (file : Fd) : Prop where
  /-- nothing is awaited: success without reading; the server wrote nothing (and the operation is one that returns no
  value and leaves the frontend state alone) -/
  unawaited : awaits s' req = false →
    (callRecv ch cl s' op req cst (replyCells d file)).ret = .unit ∧ (callRecv ch cl s' op req cst (replyCells d file)).st = s' ∧
    (callRecv ch cl s' op req cst (replyCells d file)).rest = [] ∧ d.out = [] ∧
    expectedValue op h file = .unit ∧ feAfter s' op h = s'
  /-- usable outcome: exactly the handler's value, the reply is consumed entirely -/
  ok : awaits s' req = true → usable op h = true →
    (callRecv ch cl s' op req cst (replyCells d file)).ret = expectedValue op h file ∧
    (callRecv ch cl s' op req cst (replyCells d file)).st = feAfter s' op h ∧
    (callRecv ch cl s' op req cst (replyCells d file)).rest = []
  /-- failure or unusable outcome: an error — or, only while the stream is still open and the server wrote nothing
  (its `handle_request` has failed, the serve loop is about to close the connection), the call is still waiting -/
  fail : awaits s' req = true → usable op h = false →
    (callRecv ch cl s' op req cst (replyCells d file)).st = s' ∧
    ((∃ e, (callRecv ch cl s' op req cst (replyCells d file)).ret = .err e) ∨
     ((callRecv ch cl s' op req cst (replyCells d file)).ret = .blocked ∧ cl = false ∧ d.out = [] ∧ d.res = .err .handlerErr))

/-! ## `request`: the state after sending -/

theorem sendState_hdrFlags (s : FSt) (op : Op) : (sendState s op).hdrFlags = s.hdrFlags := by
  unfold sendState; split <;> rfl

theorem reqHdr_sendState (s : FSt) (op : Op) (req : Req) : reqHdr (sendState s op) req = reqHdr s req := by
  simp only [reqHdr, reqFlags, sendState_hdrFlags]

theorem request_state (s : FSt) (op : Op) (req : Req) (s' : FSt) (hreq : request s op = .ok (req, s')) :
    s' = sendState s op ∧ (op.name = "set_protocol_features" → bitSet s.virtio 30 = true) := by
  obtain ⟨name, a, pl, fds, bad, regs⟩ := op
  unfold request at hreq
  split at hreq
  all_goals (dsimp only at *)
  all_goals (subst_vars)
  all_goals (repeat' split at hreq)
  all_goals (try cases hreq)
  all_goals (refine ⟨?_, ?_⟩)
  all_goals first
    | rfl
    | (intro hn; exact absurd hn (by decide))
    | (intro _; simp_all)

end Lemmas.Roundtrip
