import VhostModel.Lemmas.LayoutEq
import VhostModel.Lemmas.BackendSrv
import VhostModel.Props.C20
/-!
# Helper lemmas for C04Owed: field reads, body validators on bytes ⇔ the Spec's validity rules

* `fld_eq_g` — the Spec's field read equals the model's (through `Lemmas.LayoutEq.getField_eq`);
* `bodyValid_*` — the generated validator applied to a body of the right length decides exactly the Spec rule
  on the field values (through `Props.C20`);
* `regions_*` — the memory-table slices of model and Spec.
-/
namespace Lemmas.Owed
open Base Model.BackendSrv Model.Msgs

/-- little-endian read of `w` bytes at `off` -/
def rd (bs : Bytes) (off w : Nat) : Nat := leVal ((bs.drop off).take w)

theorem rd_lt (bs : Bytes) (off w : Nat) : rd bs off w < 256 ^ w := by
  unfold rd
  have h := leVal_lt ((bs.drop off).take w)
  have : ((bs.drop off).take w).length ≤ w := by simp [List.length_take]; omega
  exact Nat.lt_of_lt_of_le h (Nat.pow_le_pow_right (by omega) this)

theorem getField_of {bs : Bytes} {s : String} {p : List String} {off w : Nat}
    (hf : fieldAt s p = some (off, w)) (hl : off + w ≤ bs.length) : getField bs s p = some (rd bs off w) := by
  simp [getField, hf, hl, rd]

theorem g_of {bs : Bytes} {s : String} {p : List String} {off w : Nat}
    (hf : fieldAt s p = some (off, w)) (hl : off + w ≤ bs.length) : g bs s p = rd bs off w := by
  simp [g, getField_of hf hl]

/-- the Spec's field read = the model's field read, for every struct of the specification -/
theorem fld_eq_g (bs : Bytes) {s : String} (hs : s ∈ Props.C01.specStructs) (p : List String) :
    Spec.Proto.fld bs s p = g bs s p := by
  simp only [Spec.Proto.fld, g, Lemmas.LayoutEq.getField_eq bs hs p]

theorem rd_take (bs : Bytes) (n off w : Nat) (h : off + w ≤ n) : rd (bs.take n) off w = rd bs off w := by
  unfold rd
  rw [List.drop_take, List.take_take]
  congr 2
  omega

theorem rd_slice (bs : Bytes) (a n off w : Nat) (h : off + w ≤ n) :
    rd ((bs.drop a).take n) off w = rd bs (a + off) w := by
  rw [rd_take _ _ _ _ h]
  unfold rd
  rw [List.drop_drop]

theorem bool_eq_decide {b : Bool} {p : Prop} [Decidable p] (h : b = true ↔ p) : b = decide p := by
  cases b <;> simp_all

theorem bv_toNat (n x : Nat) {w : Nat} (h : x < 256 ^ w) (hw : 8 * w = n := by rfl) : (bv n x).toNat = x := by
  subst hw
  simp only [bv, BitVec.toNat_ofNat]
  apply Nat.mod_eq_of_lt
  rwa [show (256:Nat) = 2^8 from rfl, ← Nat.pow_mul] at h

/-! ### layout facts (generated layout) -/
theorem sz_u64 : structSize "VhostUserU64" = some 8 := by decide
theorem sz_vstate : structSize "VhostUserVringState" = some 8 := by decide
theorem sz_vaddr : structSize "VhostUserVringAddr" = some 40 := by decide
theorem sz_shared : structSize "VhostUserSharedMsg" = some 16 := by decide
theorem sz_inflight : structSize "VhostUserInflight" = some 24 := by decide
theorem sz_single : structSize "VhostUserSingleMemoryRegion" = some 40 := by decide
theorem sz_transfer : structSize "VhostUserTransferDeviceState" = some 8 := by decide
theorem sz_log : structSize "VhostUserLog" = some 16 := by decide
theorem sz_config : structSize "VhostUserConfig" = some 12 := by decide
theorem sz_memory : structSize "VhostUserMemory" = some 8 := by decide
theorem sz_region : structSize "VhostUserMemoryRegion" = some 32 := by decide

theorem f_u64_value : fieldAt "VhostUserU64" ["value"] = some (0, 8) := by decide
theorem f_vs_index : fieldAt "VhostUserVringState" ["index"] = some (0, 4) := by decide
theorem f_vs_num : fieldAt "VhostUserVringState" ["num"] = some (4, 4) := by decide
theorem f_va_index : fieldAt "VhostUserVringAddr" ["index"] = some (0, 4) := by decide
theorem f_va_flags : fieldAt "VhostUserVringAddr" ["flags"] = some (4, 4) := by decide
theorem f_va_desc : fieldAt "VhostUserVringAddr" ["descriptor"] = some (8, 8) := by decide
theorem f_va_used : fieldAt "VhostUserVringAddr" ["used"] = some (16, 8) := by decide
theorem f_va_avail : fieldAt "VhostUserVringAddr" ["available"] = some (24, 8) := by decide
theorem f_va_log : fieldAt "VhostUserVringAddr" ["log"] = some (32, 8) := by decide
theorem f_sh_uuid : fieldAt "VhostUserSharedMsg" ["uuid"] = some (0, 16) := by decide
theorem f_in_size : fieldAt "VhostUserInflight" ["mmap_size"] = some (0, 8) := by decide
theorem f_in_off : fieldAt "VhostUserInflight" ["mmap_offset"] = some (8, 8) := by decide
theorem f_in_nq : fieldAt "VhostUserInflight" ["num_queues"] = some (16, 2) := by decide
theorem f_in_qs : fieldAt "VhostUserInflight" ["queue_size"] = some (18, 2) := by decide
theorem f_si_pad : fieldAt "VhostUserSingleMemoryRegion" ["padding"] = some (0, 8) := by decide
theorem f_si_gpa : fieldAt "VhostUserSingleMemoryRegion" ["region", "guest_phys_addr"] = some (8, 8) := by decide
theorem f_si_size : fieldAt "VhostUserSingleMemoryRegion" ["region", "memory_size"] = some (16, 8) := by decide
theorem f_si_ua : fieldAt "VhostUserSingleMemoryRegion" ["region", "user_addr"] = some (24, 8) := by decide
theorem f_si_off : fieldAt "VhostUserSingleMemoryRegion" ["region", "mmap_offset"] = some (32, 8) := by decide
theorem f_tr_dir : fieldAt "VhostUserTransferDeviceState" ["direction"] = some (0, 4) := by decide
theorem f_tr_phase : fieldAt "VhostUserTransferDeviceState" ["phase"] = some (4, 4) := by decide
theorem f_lg_size : fieldAt "VhostUserLog" ["mmap_size"] = some (0, 8) := by decide
theorem f_lg_off : fieldAt "VhostUserLog" ["mmap_offset"] = some (8, 8) := by decide
theorem f_cf_off : fieldAt "VhostUserConfig" ["offset"] = some (0, 4) := by decide
theorem f_cf_size : fieldAt "VhostUserConfig" ["size"] = some (4, 4) := by decide
theorem f_cf_flags : fieldAt "VhostUserConfig" ["flags"] = some (8, 4) := by decide
theorem f_me_n : fieldAt "VhostUserMemory" ["num_regions"] = some (0, 4) := by decide
theorem f_me_pad : fieldAt "VhostUserMemory" ["padding1"] = some (4, 4) := by decide
theorem f_rg_gpa : fieldAt "VhostUserMemoryRegion" ["guest_phys_addr"] = some (0, 8) := by decide
theorem f_rg_size : fieldAt "VhostUserMemoryRegion" ["memory_size"] = some (8, 8) := by decide
theorem f_rg_ua : fieldAt "VhostUserMemoryRegion" ["user_addr"] = some (16, 8) := by decide
theorem f_rg_off : fieldAt "VhostUserMemoryRegion" ["mmap_offset"] = some (24, 8) := by decide

/-! ### `fld` → `g` per struct (simp set `fld_g`) -/
theorem fld_u64 (bs p) : Spec.Proto.fld bs "VhostUserU64" p = g bs "VhostUserU64" p := fld_eq_g bs (by decide) p
theorem fld_vstate (bs p) : Spec.Proto.fld bs "VhostUserVringState" p = g bs "VhostUserVringState" p := fld_eq_g bs (by decide) p
theorem fld_vaddr (bs p) : Spec.Proto.fld bs "VhostUserVringAddr" p = g bs "VhostUserVringAddr" p := fld_eq_g bs (by decide) p
theorem fld_shared (bs p) : Spec.Proto.fld bs "VhostUserSharedMsg" p = g bs "VhostUserSharedMsg" p := fld_eq_g bs (by decide) p
theorem fld_inflight (bs p) : Spec.Proto.fld bs "VhostUserInflight" p = g bs "VhostUserInflight" p := fld_eq_g bs (by decide) p
theorem fld_single (bs p) : Spec.Proto.fld bs "VhostUserSingleMemoryRegion" p = g bs "VhostUserSingleMemoryRegion" p :=
  fld_eq_g bs (by decide) p
theorem fld_transfer (bs p) : Spec.Proto.fld bs "VhostUserTransferDeviceState" p = g bs "VhostUserTransferDeviceState" p :=
  fld_eq_g bs (by decide) p
theorem fld_log (bs p) : Spec.Proto.fld bs "VhostUserLog" p = g bs "VhostUserLog" p := fld_eq_g bs (by decide) p
theorem fld_config (bs p) : Spec.Proto.fld bs "VhostUserConfig" p = g bs "VhostUserConfig" p := fld_eq_g bs (by decide) p
theorem fld_memory (bs p) : Spec.Proto.fld bs "VhostUserMemory" p = g bs "VhostUserMemory" p := fld_eq_g bs (by decide) p
theorem fld_region (bs p) : Spec.Proto.fld bs "VhostUserMemoryRegion" p = g bs "VhostUserMemoryRegion" p := fld_eq_g bs (by decide) p

/-! ### the generated validators on bytes -/

theorem bodyValid_u64 (buf : Bytes) (h : buf.length = 8) : bodyValid "VhostUserU64" buf = some true := by
  have h1 := getField_of (bs := buf) f_u64_value (by omega)
  simp [bodyValid, decU64, sz_u64, h, h1]
  rfl

theorem bodyValid_vstate (buf : Bytes) (h : buf.length = 8) : bodyValid "VhostUserVringState" buf = some true := by
  have h1 := getField_of (bs := buf) f_vs_index (by omega)
  have h2 := getField_of (bs := buf) f_vs_num (by omega)
  simp [bodyValid, decVringState, sz_vstate, h, h1, h2]
  rfl

theorem bodyValid_vaddr (buf : Bytes) (h : buf.length = 40) :
    bodyValid "VhostUserVringAddr" buf = some (decide (Spec.validVringAddr (g buf "VhostUserVringAddr" ["flags"])
      (g buf "VhostUserVringAddr" ["descriptor"]) (g buf "VhostUserVringAddr" ["used"])
      (g buf "VhostUserVringAddr" ["available"]))) := by
  simp only [bodyValid, decVringAddr, sz_vaddr, h, getField_of f_va_index (bs := buf) (by omega),
    getField_of f_va_flags (bs := buf) (by omega), getField_of f_va_desc (bs := buf) (by omega),
    getField_of f_va_used (bs := buf) (by omega), getField_of f_va_avail (bs := buf) (by omega),
    getField_of f_va_log (bs := buf) (by omega), g_of f_va_flags (bs := buf) (by omega),
    g_of f_va_desc (bs := buf) (by omega), g_of f_va_used (bs := buf) (by omega), g_of f_va_avail (bs := buf) (by omega)]
  simp
  apply bool_eq_decide
  rw [Props.C20.isValid_vring_addr_iff]
  simp only [bv_toNat _ _ (rd_lt buf _ 4), bv_toNat _ _ (rd_lt buf _ 8)]

theorem bodyValid_shared (buf : Bytes) (h : buf.length = 16) :
    bodyValid "VhostUserSharedMsg" buf = some (decide (Spec.validUuid (g buf "VhostUserSharedMsg" ["uuid"]))) := by
  simp only [bodyValid, decShared, sz_shared, h, getField_of f_sh_uuid (bs := buf) (by omega),
    g_of f_sh_uuid (bs := buf) (by omega)]
  simp
  apply bool_eq_decide
  rw [Props.C20.isValid_shared_iff]
  simp only [bv_toNat _ _ (rd_lt buf _ 16)]

theorem bodyValid_inflight (buf : Bytes) (h : buf.length = 24) :
    bodyValid "VhostUserInflight" buf = some (decide (Spec.validInflight (g buf "VhostUserInflight" ["num_queues"])
      (g buf "VhostUserInflight" ["queue_size"]))) := by
  simp only [bodyValid, decInflight, sz_inflight, h, getField_of f_in_size (bs := buf) (by omega),
    getField_of f_in_off (bs := buf) (by omega), getField_of f_in_nq (bs := buf) (by omega),
    getField_of f_in_qs (bs := buf) (by omega), g_of f_in_nq (bs := buf) (by omega), g_of f_in_qs (bs := buf) (by omega)]
  simp
  apply bool_eq_decide
  rw [Props.C20.isValid_inflight_iff]
  simp only [bv_toNat _ _ (rd_lt buf _ 2)]

theorem bodyValid_single (buf : Bytes) (h : buf.length = 40) :
    bodyValid "VhostUserSingleMemoryRegion" buf = some (decide (Spec.validRegion
      (g buf "VhostUserSingleMemoryRegion" ["region", "guest_phys_addr"])
      (g buf "VhostUserSingleMemoryRegion" ["region", "memory_size"])
      (g buf "VhostUserSingleMemoryRegion" ["region", "user_addr"])
      (g buf "VhostUserSingleMemoryRegion" ["region", "mmap_offset"]))) := by
  simp only [bodyValid, decSingle, decRegionAt, sz_single, h, List.cons_append, List.nil_append,
    getField_of f_si_pad (bs := buf) (by omega),
    getField_of f_si_gpa (bs := buf) (by omega), getField_of f_si_size (bs := buf) (by omega),
    getField_of f_si_ua (bs := buf) (by omega), getField_of f_si_off (bs := buf) (by omega),
    g_of f_si_gpa (bs := buf) (by omega), g_of f_si_size (bs := buf) (by omega),
    g_of f_si_ua (bs := buf) (by omega), g_of f_si_off (bs := buf) (by omega)]
  simp
  apply bool_eq_decide
  rw [Props.C20.isValid_single_iff]
  simp only [bv_toNat _ _ (rd_lt buf _ 8)]

theorem bodyValid_transfer (buf : Bytes) (h : buf.length = 8) :
    bodyValid "VhostUserTransferDeviceState" buf = some (decide (Spec.validTransfer
      (g buf "VhostUserTransferDeviceState" ["direction"]) (g buf "VhostUserTransferDeviceState" ["phase"]))) := by
  simp only [bodyValid, decTransfer, sz_transfer, h, getField_of f_tr_dir (bs := buf) (by omega),
    getField_of f_tr_phase (bs := buf) (by omega), g_of f_tr_dir (bs := buf) (by omega),
    g_of f_tr_phase (bs := buf) (by omega)]
  simp
  apply bool_eq_decide
  rw [Props.C20.isValid_transfer_iff]
  simp only [bv_toNat _ _ (rd_lt buf _ 4)]

theorem bodyValid_log (buf : Bytes) (h : buf.length = 16) :
    bodyValid "VhostUserLog" buf = some (decide (Spec.validLog (g buf "VhostUserLog" ["mmap_size"])
      (g buf "VhostUserLog" ["mmap_offset"]))) := by
  simp only [bodyValid, decLog, sz_log, h, getField_of f_lg_size (bs := buf) (by omega),
    getField_of f_lg_off (bs := buf) (by omega), g_of f_lg_size (bs := buf) (by omega),
    g_of f_lg_off (bs := buf) (by omega)]
  simp
  apply bool_eq_decide
  rw [Props.C20.isValid_log_iff]
  simp only [bv_toNat _ _ (rd_lt buf _ 8)]

theorem bodyValid_config (buf : Bytes) (h : buf.length = 12) :
    bodyValid "VhostUserConfig" buf = some (decide (Spec.validConfig (g buf "VhostUserConfig" ["offset"])
      (g buf "VhostUserConfig" ["size"]) (g buf "VhostUserConfig" ["flags"]))) := by
  simp only [bodyValid, decConfig, sz_config, h, getField_of f_cf_off (bs := buf) (by omega),
    getField_of f_cf_size (bs := buf) (by omega), getField_of f_cf_flags (bs := buf) (by omega),
    g_of f_cf_off (bs := buf) (by omega), g_of f_cf_size (bs := buf) (by omega), g_of f_cf_flags (bs := buf) (by omega)]
  simp
  apply bool_eq_decide
  rw [Props.C20.isValid_config_iff]
  simp only [bv_toNat _ _ (rd_lt buf _ 4)]

theorem bodyValid_memory (buf : Bytes) (h : buf.length = 8) :
    bodyValid "VhostUserMemory" buf = some (decide (Spec.validMemory (g buf "VhostUserMemory" ["num_regions"])
      (g buf "VhostUserMemory" ["padding1"]))) := by
  simp only [bodyValid, decMemory, sz_memory, h, getField_of f_me_n (bs := buf) (by omega),
    getField_of f_me_pad (bs := buf) (by omega), g_of f_me_n (bs := buf) (by omega), g_of f_me_pad (bs := buf) (by omega)]
  simp
  apply bool_eq_decide
  rw [Props.C20.isValid_memory_iff]
  simp only [bv_toNat _ _ (rd_lt buf _ 4)]

theorem bodyValid_region (buf : Bytes) (h : buf.length = 32) :
    bodyValid "VhostUserMemoryRegion" buf = some (decide (Spec.validRegion
      (g buf "VhostUserMemoryRegion" ["guest_phys_addr"]) (g buf "VhostUserMemoryRegion" ["memory_size"])
      (g buf "VhostUserMemoryRegion" ["user_addr"]) (g buf "VhostUserMemoryRegion" ["mmap_offset"]))) := by
  simp only [bodyValid, decRegion, decRegionAt, sz_region, h, List.nil_append,
    getField_of f_rg_gpa (bs := buf) (by omega), getField_of f_rg_size (bs := buf) (by omega),
    getField_of f_rg_ua (bs := buf) (by omega), getField_of f_rg_off (bs := buf) (by omega),
    g_of f_rg_gpa (bs := buf) (by omega), g_of f_rg_size (bs := buf) (by omega),
    g_of f_rg_ua (bs := buf) (by omega), g_of f_rg_off (bs := buf) (by omega)]
  simp
  apply bool_eq_decide
  rw [Props.C20.isValid_region_iff]
  simp only [bv_toNat _ _ (rd_lt buf _ 8)]

/-! ### reading the fixed head of a longer body -/
theorem g_take {bs : Bytes} {s : String} {p : List String} {off w : Nat} (n : Nat)
    (hf : fieldAt s p = some (off, w)) (hn : off + w ≤ n) (hl : n ≤ bs.length) :
    g (bs.take n) s p = g bs s p := by
  rw [g_of hf (by simp [List.length_take]; omega), g_of hf (by omega), rd_take _ _ _ _ hn]

/-- a single-region body: the model's nested read = the Spec's read from the 32-byte slice at offset 8 -/
theorem single_region_eq (buf : Bytes) (h : buf.length = 40) :
    Spec.Proto.regionAt buf 8 =
      (g buf "VhostUserSingleMemoryRegion" ["region", "guest_phys_addr"],
       g buf "VhostUserSingleMemoryRegion" ["region", "memory_size"],
       g buf "VhostUserSingleMemoryRegion" ["region", "user_addr"],
       g buf "VhostUserSingleMemoryRegion" ["region", "mmap_offset"]) := by
  have hl : ((buf.drop 8).take 32).length = 32 := by simp [List.length_take]; omega
  simp only [Spec.Proto.regionAt, fld_region,
    g_of f_rg_gpa (bs := (buf.drop 8).take 32) (by omega), g_of f_rg_size (bs := (buf.drop 8).take 32) (by omega),
    g_of f_rg_ua (bs := (buf.drop 8).take 32) (by omega), g_of f_rg_off (bs := (buf.drop 8).take 32) (by omega),
    g_of f_si_gpa (bs := buf) (by omega), g_of f_si_size (bs := buf) (by omega),
    g_of f_si_ua (bs := buf) (by omega), g_of f_si_off (bs := buf) (by omega),
    rd_slice buf 8 32 0 8 (by omega), rd_slice buf 8 32 8 8 (by omega), rd_slice buf 8 32 16 8 (by omega),
    rd_slice buf 8 32 24 8 (by omega)]

/-! ### memory-table regions -/
def regTuple (r : Bytes) : Nat × Nat × Nat × Nat :=
  (g r "VhostUserMemoryRegion" ["guest_phys_addr"], g r "VhostUserMemoryRegion" ["memory_size"],
   g r "VhostUserMemoryRegion" ["user_addr"], g r "VhostUserMemoryRegion" ["mmap_offset"])

theorem spec_regions_eq (buf : Bytes) : ∀ (n off : Nat),
    Spec.Proto.regionsOf buf n off = (Model.BackendSrv.regionsOf buf n off).map regTuple := by
  intro n
  induction n with
  | zero => intro off; rfl
  | succ n ih =>
    intro off
    simp only [Spec.Proto.regionsOf, Model.BackendSrv.regionsOf, List.map_cons, ih, Spec.Proto.regionAt, fld_region,
      regTuple]

theorem regionsOf_len32 (buf : Bytes) : ∀ (n off : Nat), off + n * 32 ≤ buf.length →
    ∀ r ∈ Model.BackendSrv.regionsOf buf n off, r.length = 32 := by
  intro n
  induction n with
  | zero => intro off _ r hr; simp [Model.BackendSrv.regionsOf] at hr
  | succ n ih =>
    intro off hlen r hr
    simp only [Model.BackendSrv.regionsOf, List.mem_cons] at hr
    rcases hr with hr | hr
    · subst hr; simp [List.length_take, List.length_drop]; omega
    · exact ih (off + 32) (by omega) r hr

/-- the model's per-region validator check = the Spec's rule on the tuple, for 32-byte slices -/
theorem region_check (r : Bytes) (h : r.length = 32) :
    (bodyValid "VhostUserMemoryRegion" r == some true) = Spec.Proto.validRegionT (regTuple r) := by
  rw [bodyValid_region r h]
  simp only [Spec.Proto.validRegionT, regTuple]
  by_cases hv : Spec.validRegion (g r "VhostUserMemoryRegion" ["guest_phys_addr"])
      (g r "VhostUserMemoryRegion" ["memory_size"]) (g r "VhostUserMemoryRegion" ["user_addr"])
      (g r "VhostUserMemoryRegion" ["mmap_offset"]) <;> simp [hv]

theorem regions_all (rs : List Bytes) (h : ∀ r ∈ rs, r.length = 32) :
    rs.all (fun r => bodyValid "VhostUserMemoryRegion" r == some true) =
      (rs.map regTuple).all Spec.Proto.validRegionT := by
  induction rs with
  | nil => rfl
  | cons r rs ih =>
    simp only [List.all_cons, List.map_cons]
    rw [region_check r (h r (by simp)), ih (fun x hx => h x (by simp [hx]))]

theorem regions_args (rs : List Bytes) :
    (rs.map regTuple).flatMap (fun r => [r.1, r.2.1, r.2.2.1, r.2.2.2]) =
      rs.flatMap fun r =>
        [g r "VhostUserMemoryRegion" ["guest_phys_addr"], g r "VhostUserMemoryRegion" ["memory_size"],
         g r "VhostUserMemoryRegion" ["user_addr"], g r "VhostUserMemoryRegion" ["mmap_offset"]] := by
  induction rs with
  | nil => rfl
  | cons r rs ih => simp only [List.map_cons, List.flatMap_cons, ih, regTuple]

end Lemmas.Owed
