import VhostModel.Lemmas.RingReg
/-! Abstraction from `Model.RingReg` to `Spec.RingAutomaton` and the commuting-step lemmas (used by Props/C11). -/
namespace Lemmas.RingReg
open Model.RingReg
open Spec.RingAutomaton (Evt Msg upd Ring)

def absRing (v : VRing) : Ring := ⟨v.ready, v.enabled, v.kick, v.call⟩

/-- the automaton state a model state stands for: started = `queue.ready`, negotiated = bit 30 of the handler's
acknowledged features, pending kicks = eventfd counters -/
def abs (s : St) : Spec.RingAutomaton.St :=
  { n := s.n, base := s.base, nego := s.ackedH, ring := fun r => absRing (s.ring r), pending := s.cnt,
    peerOpen := s.peerOpen, next := s.next }

def absReply : Reply → Option Spec.RingAutomaton.Reply
  | .ok => some .ok
  | .base r v => some (.base r v)
  | .noReply => some .noReply
  | .fail => none
  | .closed => none

theorem spec_ext {a b : Spec.RingAutomaton.St} (h1 : a.n = b.n) (h2 : a.base = b.base) (h3 : a.nego = b.nego)
    (h4 : a.ring = b.ring) (h5 : a.pending = b.pending) (h6 : a.peerOpen = b.peerOpen) (h7 : a.next = b.next) : a = b := by
  cases a; cases b; simp_all

theorem setAll_ring (on : Bool) (s : St) (k : Nat) :
    (setAll on s k).ring = fun r => if r < k then { s.ring r with enabled := on } else s.ring r := by
  induction k with
  | zero => funext r; simp [setAll]
  | succ k ih =>
    simp only [setAll]
    rw [setEnabled_same_ring, ih]
    funext r
    by_cases hr : r = k
    · subst hr; simp
    · rw [upd_other _ _ _ _ hr]
      by_cases h1 : r < k
      · have : r < k + 1 := Nat.lt_succ_of_lt h1
        simp [h1, this]
      · have : ¬ r < k + 1 := by omega
        simp [h1, this]

theorem setAll_frame (on : Bool) (s : St) (k : Nat) :
    let t := setAll on s k
    t.n = s.n ∧ t.base = s.base ∧ t.old = s.old ∧ t.ackedH = s.ackedH ∧ t.ackedC = s.ackedC ∧ t.conn = s.conn ∧
    t.cnt = s.cnt ∧ t.peerOpen = s.peerOpen ∧ t.next = s.next ∧ t.alive = s.alive := by
  induction k with
  | zero => exact ⟨rfl, rfl, rfl, rfl, rfl, rfl, rfl, rfl, rfl, rfl⟩
  | succ k ih =>
    obtain ⟨a1, a2, a3, a4, a5, a6, a7, a8, a9, a10⟩ := setEnabled_frame (setAll on s k) k on
    obtain ⟨b1, b2, b3, b4, b5, b6, b7, b8, b9, b10⟩ := ih
    exact ⟨a1.trans b1, a2.trans b2, a3.trans b3, a4.trans b4, a5.trans b5, a6.trans b6, a7.trans b7, a8.trans b8,
      a9.trans b9, a10.trans b10⟩


theorem control_open (s : St) (m : Msg) (hc : s.conn = true) :
    Model.RingReg.control s m =
      match m with
      | .setFeatures proto => setFeatures s proto
      | .setKick r fd => setVringKick s r fd
      | .setCall r fd => setVringCall s r fd
      | .setEnable r on => setVringEnable s r on
      | .getBase r => getVringBase s r
      | .reset => resetDevice s
      | .guestKick d =>
        (if d < s.next ∧ s.peerOpen d = true then { s with cnt := upd s.cnt d (s.cnt d + 1) } else s, .noReply)
      | .peerClose d =>
        (if daemonHolds { s with peerOpen := upd s.peerOpen d false } d then { s with peerOpen := upd s.peerOpen d false }
         else epollDel { s with peerOpen := upd s.peerOpen d false } d, .noReply) := by
  have hg : (!s.conn) = false := by simp [hc]
  cases m <;> simp only [Model.RingReg.control, isControl, hg, Bool.and_false, Bool.false_and, Bool.false_eq_true, if_false]

/-- the control effect of one event commutes with the abstraction (inside the protocol's domain) -/
theorem control_refines {s : St} (h : Inv s) (hc : s.conn = true) (m : Msg)
    (t : Spec.RingAutomaton.St) (rep : Spec.RingAutomaton.Reply)
    (hs : Spec.RingAutomaton.control (abs s) m = some (t, rep)) :
    abs (Model.RingReg.control s m).1 = t ∧ absReply (Model.RingReg.control s m).2 = some rep ∧
      (Model.RingReg.control s m).1.conn = true := by
  rw [control_open s m hc]
  cases m with
  | setFeatures proto =>
    simp only [Spec.RingAutomaton.control, Option.some.injEq, Prod.mk.injEq] at hs
    obtain ⟨ht, hr⟩ := hs
    subst ht; subst hr
    simp only [setFeatures]
    cases proto with
    | true =>
      refine ⟨?_, rfl, hc⟩
      apply spec_ext <;> rfl
    | false =>
      simp only [Bool.false_eq_true, if_false]
      obtain ⟨f1, f2, f3, f4, f5, f6, f7, f8, f9, f10⟩ := setAll_frame true { s with ackedH := false, ackedC := false } s.n
      refine ⟨?_, rfl, by rw [f6]; exact hc⟩
      apply spec_ext
      · exact f1
      · exact f2
      · exact f4
      · simp only [abs, setAll_ring]
        funext r
        by_cases hr : r < s.n <;> simp [hr, absRing]
      · exact f7
      · exact f8
      · exact f9
  | reset =>
    simp only [Spec.RingAutomaton.control, Option.some.injEq, Prod.mk.injEq] at hs
    obtain ⟨ht, hr⟩ := hs
    subst ht; subst hr
    simp only [resetDevice]
    obtain ⟨f1, f2, f3, f4, f5, f6, f7, f8, f9, f10⟩ := setAll_frame false s s.n
    refine ⟨?_, rfl, by show (setAll false s s.n).conn = true; rw [f6]; exact hc⟩
    apply spec_ext
    · exact f1
    · exact f2
    · rfl
    · simp only [abs, setAll_ring]
      funext r
      by_cases hr : r < s.n <;> simp [hr, absRing]
    · exact f7
    · exact f8
    · exact f9
  | guestKick d =>
    simp only [Spec.RingAutomaton.control, Option.some.injEq, Prod.mk.injEq] at hs
    obtain ⟨ht, hr⟩ := hs
    subst ht; subst hr
    refine ⟨?_, rfl, ?_⟩
    · by_cases hd : d < s.next ∧ s.peerOpen d = true
      · have hd' : d < (abs s).next ∧ (abs s).peerOpen d = true := hd
        simp only [hd, hd', and_self, if_true]
        rfl
      · have hd' : ¬ (d < (abs s).next ∧ (abs s).peerOpen d = true) := hd
        simp only [hd, hd', if_false]
    · by_cases hd : d < s.next ∧ s.peerOpen d = true
      · simp only [hd, and_self, if_true]; exact hc
      · simp only [hd, if_false]; exact hc
  | peerClose d =>
    simp only [Spec.RingAutomaton.control, Option.some.injEq, Prod.mk.injEq] at hs
    obtain ⟨ht, hr⟩ := hs
    subst ht; subst hr
    by_cases hd : daemonHolds { s with peerOpen := upd s.peerOpen d false } d = true
    · simp only [hd, if_true]
      exact ⟨rfl, rfl, hc⟩
    · simp only [hd, Bool.false_eq_true, if_false]
      exact ⟨rfl, rfl, hc⟩
  | setEnable r on =>
    simp only [Spec.RingAutomaton.control] at hs
    by_cases hd : r < (abs s).n ∧ (abs s).nego = true
    · simp only [hd, and_self, if_true, Option.some.injEq, Prod.mk.injEq] at hs
      obtain ⟨ht, hr⟩ := hs
      subst ht; subst hr
      have hH : s.ackedH = true := hd.2
      have hC : s.ackedC = true := h.acked hH
      have hn : r < s.n := hd.1
      obtain ⟨f1, f2, f3, f4, f5, f6, f7, f8, f9, f10⟩ := setEnabled_frame s r on
      simp only [setVringEnable, hH, hC, hn, Bool.not_true, Bool.false_eq_true, if_false, if_true]
      refine ⟨?_, rfl, by rw [f6]; exact hc⟩
      apply spec_ext
      · exact f1
      · exact f2
      · exact f4
      · simp only [abs, setEnabled_same_ring, Spec.RingAutomaton.setRing]
        funext j
        by_cases hj : j = r
        · subst hj; simp [absRing]
        · simp [upd, hj]
      · exact f7
      · exact f8
      · exact f9
    · simp [hd] at hs
  | getBase r =>
    simp only [Spec.RingAutomaton.control] at hs
    by_cases hn : r < (abs s).n
    · simp only [hn, if_true, Option.some.injEq, Prod.mk.injEq] at hs
      obtain ⟨ht, hr⟩ := hs
      subst ht; subst hr
      have hn' : r < s.n := hn
      obtain ⟨f1, f2, f3, f4, f5, f6, f7, f8, f9, f10⟩ := stopRing_frame s r
      simp only [getVringBase, hn', if_true]
      refine ⟨?_, rfl, by rw [f6]; exact hc⟩
      apply spec_ext
      · exact f1
      · exact f2
      · exact f4
      · simp only [abs, stopRing_ring, Spec.RingAutomaton.setRing]
        funext j
        by_cases hj : j = r
        · subst hj; simp [absRing]
        · simp [upd, hj]
      · exact f7
      · exact f8
      · exact f9
    · simp [hn] at hs
  | setCall r fd =>
    simp only [Spec.RingAutomaton.control] at hs
    by_cases hn : r < (abs s).n
    · have hn' : r < s.n := hn
      obtain ⟨hst, hrep⟩ := setVringCall_state h r fd hn'
      rw [hst, hrep]
      simp only [hn, if_true] at hs
      cases fd with
      | true =>
        simp only [if_true, Option.some.injEq, Prod.mk.injEq] at hs
        obtain ⟨ht, hr⟩ := hs
        subst ht; subst hr
        refine ⟨?_, rfl, hc⟩
        apply spec_ext <;> try rfl
        simp only [abs, setRing, alloc, Spec.RingAutomaton.setRing, Spec.RingAutomaton.alloc]
        funext j
        by_cases hj : j = r
        · subst hj; simp [absRing]
        · simp [upd, hj]
      | false =>
        simp only [Bool.false_eq_true, if_false, Option.some.injEq, Prod.mk.injEq] at hs
        obtain ⟨ht, hr⟩ := hs
        subst ht; subst hr
        refine ⟨?_, rfl, hc⟩
        apply spec_ext <;> try rfl
        simp only [abs, setRing, Spec.RingAutomaton.setRing]
        funext j
        by_cases hj : j = r
        · subst hj; simp [absRing]
        · simp [upd, hj]
    · simp [hn] at hs
  | setKick r fd =>
    simp only [Spec.RingAutomaton.control] at hs
    by_cases hn : r < (abs s).n
    · have hn' : r < s.n := hn
      simp only [hn, if_true] at hs
      cases fd with
      | true =>
        simp only [if_true, Option.some.injEq, Prod.mk.injEq] at hs
        obtain ⟨ht, hr⟩ := hs
        subst ht; subst hr
        have hn2 : r < (alloc s).n := hn'
        have hold : (alloc s).old = false := h.repaired
        obtain ⟨f1, f2, f3, f4, f5, f6, f7, f8, f9, f10⟩ := installKick_frame (alloc s) r (some s.next)
        simp only [setVringKick, if_true, hn2]
        refine ⟨?_, rfl, by rw [f6]; exact hc⟩
        apply spec_ext
        · exact f1
        · exact f2
        · exact f4
        · simp only [abs, installKick_ring _ _ _ hold, Spec.RingAutomaton.setRing, Spec.RingAutomaton.alloc]
          funext j
          by_cases hj : j = r
          · subst hj; simp [absRing, alloc]
          · simp [upd, hj, alloc]
        · exact f7
        · exact f8
        · exact f9
      | false =>
        simp only [Bool.false_eq_true, if_false, Option.some.injEq, Prod.mk.injEq] at hs
        obtain ⟨ht, hr⟩ := hs
        subst ht; subst hr
        obtain ⟨f1, f2, f3, f4, f5, f6, f7, f8, f9, f10⟩ := installKick_frame s r none
        simp only [setVringKick, Bool.false_eq_true, if_false, hn', if_true]
        refine ⟨?_, rfl, by rw [f6]; exact hc⟩
        apply spec_ext
        · exact f1
        · exact f2
        · exact f4
        · simp only [abs, installKick_ring _ _ _ h.repaired, Spec.RingAutomaton.setRing]
          funext j
          by_cases hj : j = r
          · subst hj; simp [absRing]
          · simp [upd, hj]
        · exact f7
        · exact f8
        · exact f9
    · simp [hn] at hs


theorem map_snd_nodup (L : List (Evt × Nat)) (h1 : (L.map Prod.fst).Nodup)
    (h2 : ∀ p ∈ L, ∀ q ∈ L, p.2 = q.2 → p.1 = q.1) : (L.map Prod.snd).Nodup := by
  induction L with
  | nil => simp
  | cons a L ih =>
    simp only [List.map_cons, List.nodup_cons] at h1 ⊢
    refine ⟨?_, ih h1.2 (fun p hp q hq => h2 p (List.mem_cons_of_mem _ hp) q (List.mem_cons_of_mem _ hq))⟩
    intro hmem
    obtain ⟨q, hq, hqa⟩ := List.mem_map.1 hmem
    have := h2 q (List.mem_cons_of_mem _ hq) a (List.mem_cons_self ..) hqa
    apply h1.1
    rw [← this]
    exact List.mem_map_of_mem hq

/-- under the invariant, ring `r` gets a handler call in the drain iff it is registered with a readable descriptor -/
theorem mem_batch_snd {c : St} (h : Inv c) (r : Nat) :
    r ∈ (batch c).map Prod.snd ↔ ∃ d, c.reg d = some r ∧ 0 < c.cnt d := by
  constructor
  · intro hm
    obtain ⟨p, hp, hpr⟩ := List.mem_map.1 hm
    obtain ⟨e, r'⟩ := p
    simp only at hpr
    subst hpr
    have := (batch_mem c e r').1 hp
    exact ⟨e, this.2.1, this.2.2⟩
  · rintro ⟨d, hd, hc⟩
    have hcond := (h.reg.reg_iff d r).1 hd
    have hlt := (h.reg.kick_lt r d hcond.2.1).1
    exact List.mem_map.2 ⟨(d, r), (batch_mem c d r).2 ⟨hlt, hd, hc⟩, rfl⟩

theorem due_iff {c : St} (h : Inv c) (r : Nat) :
    Spec.RingAutomaton.due (abs c) r = true ↔ ∃ d, c.reg d = some r ∧ 0 < c.cnt d := by
  unfold Spec.RingAutomaton.due Spec.RingAutomaton.St.active
  simp only [abs, absRing, Bool.and_eq_true]
  constructor
  · rintro ⟨⟨⟨h1, h2⟩, h3⟩, h4⟩
    cases hk : (c.ring r).kick with
    | none => simp [hk] at h4
    | some d =>
      simp only [hk] at h4
      exact ⟨d, (h.reg.reg_iff d r).2 ⟨of_decide_eq_true h1, hk, h2, h3⟩, of_decide_eq_true h4⟩
  · rintro ⟨d, hd, hc⟩
    have hcond := (h.reg.reg_iff d r).1 hd
    refine ⟨⟨⟨decide_eq_true hcond.1, hcond.2.2.1⟩, hcond.2.2.2⟩, ?_⟩
    simp [hcond.2.1, hc]

/-- the worker's drain is the automaton's delivery -/
theorem deliver_refines {c : St} (h : Inv c) (f : Nat) :
    abs (quiesce (f + 1) c).1 = (Spec.RingAutomaton.deliver (abs c)).1 ∧
    (∀ r, r ∈ (quiesce (f + 1) c).2 ↔ r ∈ (Spec.RingAutomaton.deliver (abs c)).2) ∧
    (quiesce (f + 1) c).2.Nodup := by
  rw [quiesce_spec h f]
  have hrs : ∀ r, r ∈ (List.range (abs c).n).filter (Spec.RingAutomaton.due (abs c)) ↔
      ∃ d, c.reg d = some r ∧ 0 < c.cnt d := by
    intro r
    rw [List.mem_filter, List.mem_range, due_iff h]
    constructor
    · exact fun h' => h'.2
    · rintro ⟨d, hd, hc⟩
      exact ⟨((h.reg.reg_iff d r).1 hd).1, d, hd, hc⟩
  refine ⟨?_, ?_, ?_⟩
  · simp only [Spec.RingAutomaton.deliver]
    apply spec_ext <;> try rfl
    funext d
    show (if (c.reg d).isSome then 0 else c.cnt d) = _
    simp only
    by_cases hany : ((List.range (abs c).n).filter (Spec.RingAutomaton.due (abs c))).any
        (fun r => ((abs c).ring r).kick == some d) = true
    · rw [if_pos hany]
      obtain ⟨r, hr, hk⟩ := List.any_eq_true.1 hany
      obtain ⟨d', hd', _⟩ := (hrs r).1 hr
      have hk' : (c.ring r).kick = some d := by simpa [abs, absRing] using hk
      have hc' := (h.reg.reg_iff d' r).1 hd'
      have : d' = d := by
        have := hc'.2.1; rw [hk'] at this; exact (Option.some.inj this).symm
      subst this
      simp [hd']
    · rw [if_neg hany]
      show _ = c.cnt d
      cases hreg : c.reg d with
      | none => simp
      | some r =>
        simp only [Option.isSome_some, if_true]
        cases hcnt : c.cnt d with
        | zero => rfl
        | succ k =>
          exfalso
          apply hany
          apply List.any_eq_true.2
          refine ⟨r, (hrs r).2 ⟨d, hreg, by omega⟩, ?_⟩
          have hc' := (h.reg.reg_iff d r).1 hreg
          simp [abs, absRing, hc'.2.1]
  · intro r
    simp only [Spec.RingAutomaton.deliver]
    rw [hrs, mem_batch_snd h]
  · apply map_snd_nodup _ (batch_fst_nodup c)
    intro p hp q hq hpq
    obtain ⟨e1, r1⟩ := p
    obtain ⟨e2, r2⟩ := q
    simp only at hpq ⊢
    subst hpq
    have h1 := (h.reg.reg_iff e1 r1).1 ((batch_mem c e1 r1).1 hp).2.1
    have h2 := (h.reg.reg_iff e2 r1).1 ((batch_mem c e2 r1).1 hq).2.1
    have := h1.2.1; rw [h2.2.1] at this
    exact (Option.some.inj this).symm

/-- the drain keeps the invariant (it only consumes counters) -/
theorem quiesce_inv {c : St} (h : Inv c) (f : Nat) : Inv (quiesce (f + 1) c).1 := by
  rw [quiesce_spec h f]
  exact h.congr rfl rfl rfl rfl rfl rfl h.acked

theorem quiesce_conn {c : St} (h : Inv c) (f : Nat) : (quiesce (f + 1) c).1.conn = c.conn := by
  rw [quiesce_spec h f]

/-- after the drain no registered descriptor is readable -/
theorem quiesce_quiet {c : St} (h : Inv c) (f : Nat) :
    ∀ e r, (quiesce (f + 1) c).1.reg e = some r → (quiesce (f + 1) c).1.cnt e = 0 := by
  rw [quiesce_spec h f]
  intro e r he
  simp only at he ⊢
  simp [he]


/-! ## counters and rings across one event -/

/-- no event other than a guest kick touches a counter; a guest kick adds one -/
theorem control_cnt {s : St} (h : Inv s) (m : Msg) (d : Evt) :
    (Model.RingReg.control s m).1.cnt d =
      if m = .guestKick d ∧ d < s.next ∧ s.peerOpen d = true then s.cnt d + 1 else s.cnt d := by
  by_cases hc : s.conn = true
  · rw [control_open s m hc]
    cases m with
    | setFeatures proto =>
      simp only [setFeatures, reduceCtorEq, false_and, if_false]
      cases proto with
      | true => rfl
      | false =>
        simp only [Bool.false_eq_true, if_false]
        rw [(setAll_frame true _ _).2.2.2.2.2.2.1]
    | reset =>
      simp only [resetDevice, reduceCtorEq, false_and, if_false]
      rw [(setAll_frame false _ _).2.2.2.2.2.2.1]
    | setEnable r on =>
      simp only [setVringEnable, reduceCtorEq, false_and, if_false]
      split
      · rfl
      · split
        · rfl
        · split
          · rw [(setEnabled_frame s r on).2.2.2.2.2.2.1]
          · rfl
    | getBase r =>
      simp only [getVringBase, reduceCtorEq, false_and, if_false]
      split
      · rw [(stopRing_frame s r).2.2.2.2.2.2.1]
      · rfl
    | setCall r fd =>
      simp only [reduceCtorEq, false_and, if_false]
      by_cases hr : r < s.n
      · rw [(setVringCall_state h r fd hr).1]
        cases fd <;> rfl
      · have hn : (if fd then alloc s else s).n = s.n := by cases fd <;> rfl
        unfold setVringCall
        simp only [hn, hr, if_false]
        cases fd <;> rfl
    | setKick r fd =>
      simp only [reduceCtorEq, false_and, if_false]
      have hn : (if fd then alloc s else s).n = s.n := by cases fd <;> rfl
      unfold setVringKick
      by_cases hr : r < s.n
      · simp only [hn, hr, if_true]
        rw [(installKick_frame _ r _).2.2.2.2.2.2.1]
        cases fd <;> rfl
      · simp only [hn, hr, if_false]
        cases fd <;> rfl
    | guestKick d' =>
      by_cases hd : d' < s.next ∧ s.peerOpen d' = true
      · simp only [hd, and_self, if_true]
        by_cases he : d' = d
        · subst he; simp [hd]
        · have : ¬ (Msg.guestKick d' = Msg.guestKick d ∧ d < s.next ∧ s.peerOpen d = true) := by
            intro h'; exact he (Msg.guestKick.inj h'.1)
          rw [if_neg this]
          exact upd_other _ _ _ _ (fun h' => he h'.symm)
      · simp only [hd, if_false]
        by_cases he : d' = d
        · subst he; simp [hd]
        · have : ¬ (Msg.guestKick d' = Msg.guestKick d ∧ d < s.next ∧ s.peerOpen d = true) := by
            intro h'; exact he (Msg.guestKick.inj h'.1)
          rw [if_neg this]
    | peerClose d' =>
      simp only [reduceCtorEq, false_and, if_false]
      split <;> rfl
  · have hg : (!s.conn) = true := by simpa using hc
    cases m with
    | guestKick d' =>
      simp only [Model.RingReg.control, isControl, Bool.false_and, Bool.false_eq_true, if_false]
      by_cases hd : d' < s.next ∧ s.peerOpen d' = true
      · simp only [hd, and_self, if_true]
        by_cases he : d' = d
        · subst he; simp [hd]
        · have : ¬ (Msg.guestKick d' = Msg.guestKick d ∧ d < s.next ∧ s.peerOpen d = true) := by
            intro h'; exact he (Msg.guestKick.inj h'.1)
          rw [if_neg this]
          exact upd_other _ _ _ _ (fun h' => he h'.symm)
      · simp only [hd, if_false]
        by_cases he : d' = d
        · subst he; simp [hd]
        · have : ¬ (Msg.guestKick d' = Msg.guestKick d ∧ d < s.next ∧ s.peerOpen d = true) := by
            intro h'; exact he (Msg.guestKick.inj h'.1)
          rw [if_neg this]
    | peerClose d' =>
      simp only [Model.RingReg.control, isControl, Bool.false_and, Bool.false_eq_true, if_false, reduceCtorEq, false_and]
      split <;> rfl
    | setFeatures proto => simp [Model.RingReg.control, isControl, hg, carriesFd]
    | reset => simp [Model.RingReg.control, isControl, hg, carriesFd]
    | setEnable r on => simp [Model.RingReg.control, isControl, hg, carriesFd]
    | getBase r => simp [Model.RingReg.control, isControl, hg, carriesFd]
    | setCall r fd => cases fd <;> simp [Model.RingReg.control, isControl, hg, carriesFd, alloc]
    | setKick r fd => cases fd <;> simp [Model.RingReg.control, isControl, hg, carriesFd, alloc]

/-- one step under the invariant, spelled out: the state after the event's control effect `c`, with the counter of
every registered descriptor consumed; handler calls = rings registered in `c` with a readable descriptor -/
theorem step_spec {s : St} (h : Inv s) (m : Msg) :
    let c := (Model.RingReg.control s m).1
    (step s m).1 = { c with cnt := fun d => if (c.reg d).isSome then 0 else c.cnt d } ∧
    (∀ r, r ∈ (step s m).2.dispatched ↔ ∃ d, c.reg d = some r ∧ 0 < c.cnt d) := by
  have hci := control_inv h m
  simp only [step, passes]
  rw [quiesce_spec hci 15]
  exact ⟨rfl, fun r => mem_batch_snd hci r⟩

theorem step_inv {s : St} (h : Inv s) (m : Msg) : Inv (step s m).1 := by
  simp only [step, passes]
  exact quiesce_inv (control_inv h m) 15

/-- no registered descriptor is readable -/
def Quiet (s : St) : Prop := ∀ e r, s.reg e = some r → s.cnt e = 0

theorem step_quiet {s : St} (h : Inv s) (m : Msg) : Quiet (step s m).1 := by
  simp only [step, passes]
  exact quiesce_quiet (control_inv h m) 15

theorem run_inv {s : St} (h : Inv s) (hq : Quiet s) (ms : List Msg) : Inv (run s ms).1 ∧ Quiet (run s ms).1 := by
  induction ms generalizing s with
  | nil => exact ⟨h, hq⟩
  | cons m ms ih => exact ih (step_inv h m) (step_quiet h m)

end Lemmas.RingReg
