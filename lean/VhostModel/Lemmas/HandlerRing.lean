import VhostModel.Model.RingReg
import VhostModel.Model.HandlerTable
/-!
# Reading the handler's rows in `Model.RingReg` (C11)

`evsR` interprets a list of events of `Base.HandlerSig` on the state of `Model.RingReg` (`St`: ring flags, the worker's
epoll set), event by event: the state changes on the vring object (`set_enabled`, `set_queue_ready`, `set_kick`,
`set_call`), and the private helpers `update_vring_registration`, `unregister_vring_kick`, `initialize_vring` *through
their own events* down to `epollRegister` / `epollUnregister`.

Reading conventions of this model (header of `Model/RingReg.lean`):
* one worker owns every ring: the loop over `self.queues_per_thread` runs its body once, and the mask test
  `shifted_queues_mask & 1u64 == 1u64` holds (routing to several workers is C17's subject); `index as u8` is `index`;
* `set_kick` drops the previous `EventConsumer`: the descriptor is closed (`closeFd`);
* `epollRegister`: `EPOLL_CTL_ADD` with `EEXIST` tolerated, no other failure; `epollUnregister`: `EPOLL_CTL_DEL`, result ignored;
* the model keeps bit 30 of `acked_features` only (`ackedH`) and has no offered set (every feature is offered);
* queue configuration, the backend callbacks and the memory table are not this model's.
-/
namespace Lemmas.HandlerRing
open Base Model.RingReg
open Model.HandlerTable (cond val row threadLoop updateRegBody unregisterKickBody initializeVringBody)
open Spec.RingAutomaton (Evt Msg upd)

local notation "tUpdateReg" => Model.HandlerTable.updateReg
local notation "tInitializeVring" => Model.HandlerTable.initializeVring
local notation "tNeedsInit" => Model.HandlerTable.needsInit

/-- the handler's result -/
inductive HRes where
  | ok
  | base (r v : Nat)
  | err
  deriving DecidableEq, Repr

inductive Flow where
  | run
  | brk
  | ret (r : HRes)
  deriving DecidableEq

structure RS where
  st : St
  /-- `index` -/
  r : Nat
  /-- arguments and locals -/
  x : HIn
  /-- the `file` argument -/
  file : Option Evt
  /-- `fd` of `if let Some(fd) = vring_state.get_kick()` -/
  fd : Option Evt
  flow : Flow

def sync (s : RS) : HIn :=
  { s.x with
    ring_ready := (s.st.ring s.r).ready
    ring_enabled := (s.st.ring s.r).enabled
    ring_kick_some := (s.st.ring s.r).kick.isSome
    acked_features := if s.st.ackedH then 0x40000000 else 0
    backend_features := 18446744073709551615 }

def fail (s : RS) : RS := { s with flow := .ret .err }

def fdArg (s : RS) (a : String) : Option Evt := if a = "file" then s.file else none

def vringCallR (s : RS) (m : String) (a : String) : RS :=
  if m = "set_enabled" then { s with st := setRing s.st s.r { s.st.ring s.r with enabled := cond a (sync s) } }
  else if m = "set_queue_ready" then { s with st := setRing s.st s.r { s.st.ring s.r with ready := cond a (sync s) } }
  else if m = "set_kick" then
    let oldk := (s.st.ring s.r).kick
    let s2 := setRing s.st s.r { s.st.ring s.r with kick := fdArg s a }
    { s with st := match oldk with
                   | some k => closeFd s2 k
                   | none => s2 }
  else if m = "set_call" then { s with st := setRing s.st s.r { s.st.ring s.r with call := fdArg s a } }
  else s

def actR (a : HAct) (s : RS) : RS :=
  match a with
  | .indexBound _ => if s.r < s.st.n then s else fail s
  | .featureAcked _ _ => if !s.st.ackedH then fail s else s
  | .valueCheck c _ => if cond c (sync s) then fail s else s
  | .setField n v =>
    if n = "acked_features" then { s with st := { s.st with ackedH := (val v (sync s)).testBit 30 } } else s
  | .vringCall m [a] => vringCallR s m a
  | .vringGet m _ =>
    if m = "queue_next_avail" then { s with x := { s.x with next_avail := s.st.base s.r } } else s
  | .epollRegister _ _ =>
    match s.fd with
    | some fd => { s with st := epollAdd s.st fd s.r }
    | none => s
  | .epollUnregister =>
    match s.fd with
    | some fd => { s with st := epollDel s.st fd }
    | none => s
  | .brk => { s with flow := .brk }
  | .ok | .done => { s with flow := .ret .ok }
  | .okValue _ => { s with flow := .ret (.base s.r s.x.next_avail) }
  | .err _ => fail s
  | _ => s

/-- back in the caller: the helper's `Ok` is consumed, its error travels on if the call propagates it; `fd` was the
helper's own variable -/
def afterCall (p : Bool) (s0 s : RS) : RS :=
  match s.flow with
  | .ret .err => if p then { s with fd := s0.fd } else { s with fd := s0.fd, flow := .run }
  | _ => { s with fd := s0.fd, flow := .run }

def threads : String := "self.queues_per_thread.iter().enumerate()"
def ownsRing : String := "shifted_queues_mask & 1u64 == 1u64"

mutual
def evR : HEvent → RS → RS
  | .act a, s => actR a s
  | .helperCall _ _ p body, s => afterCall p s (evsR body s)
  | .forEachVring body, s =>
    let s' := (List.range s.st.n).foldl
      (fun s i => match s.flow with
        | .run => evsR body { s with r := i }
        | _ => s) s
    { s' with r := s.r }
  | .forEach c body, s =>
    if c = threads then
      let s' := evsR body s
      match s'.flow with
      | .brk => { s' with flow := .run }
      | _ => s'
    else s
  | .ifCond c t f, s => if c = ownsRing then evsR t s else if cond c (sync s) then evsR t s else evsR f s
  | .ifSome w t f, s =>
    if w = "vring_state.get_kick()" then
      match (s.st.ring s.r).kick with
      | some fd => evsR t { s with fd := some fd }
      | none => evsR f s
    else s
def evsR : List HEvent → RS → RS
  | [], s => s
  | e :: es, s =>
    match (evR e s).flow with
    | .run => evsR es (evR e s)
    | _ => evR e s
end

def startR (st : St) (r : Nat) (x : HIn) (file : Option Evt) : RS := ⟨st, r, x, file, none, .run⟩

def resultR (s : RS) : St × HRes :=
  (s.st, match s.flow with
         | .ret r => r
         | _ => .ok)

/-- the events `evs` run as the handler's method on state `st` for ring `r` -/
def handleEvs (evs : List HEvent) (st : St) (r : Nat) (x : HIn) (file : Option Evt) : St × HRes :=
  resultR (evsR evs (startR st r x file))

/-- method `name` of the table -/
def handle (name : String) (st : St) (r : Nat) (x : HIn) (file : Option Evt) : St × HRes :=
  handleEvs (row name) st r x file

/-- the rule of `set_vring_kick` on the pinned tree (F-C11-rekick), as an edit of the row: the call of
`unregister_vring_kick` is absent and nothing is done when the ring needs no initialisation -/
def pinned : List HEvent → List HEvent
  | [] => []
  | .helperCall n a p b :: es => if n = "unregister_vring_kick" then pinned es else .helperCall n a p b :: pinned es
  | .ifCond c t f :: es => (if c = tNeedsInit then .ifCond c t [] else .ifCond c t f) :: pinned es
  | e :: es => e :: pinned es

theorem evsR_step {e : HEvent} {es : List HEvent} {s s1 : RS} (h : evR e s = s1) (hrun : s1.flow = .run) :
    evsR (e :: es) s = evsR es s1 := by
  simp only [evsR, h, hrun]

theorem evsR_stop {e : HEvent} {es : List HEvent} {s s1 : RS} (r : HRes) (h : evR e s = s1) (hret : s1.flow = .ret r) :
    evsR (e :: es) s = s1 := by
  simp only [evsR, h, hret]

/-! ## the helpers -/

theorem cond_readyEnabled : cond "vring_state.get_queue().ready() && vring_state.is_enabled()" =
    (fun x => (x.ring_ready && x.ring_enabled)) := rfl
theorem cond_needsInit : cond tNeedsInit = (fun x => ((!x.ring_ready) && x.ring_kick_some)) := rfl
theorem cond_true : cond "true" = (fun _ => true) := rfl
theorem cond_false : cond "false" = (fun _ => false) := rfl
theorem cond_enable : cond "enable" = (fun x => x.enable) := rfl
theorem cond_subset : cond "(features & !self.backend.features()) != 0" =
    (fun x => ((x.features &&& (18446744073709551615 - x.backend_features)) != 0)) := rfl
theorem cond_noProto : cond "self.acked_features & VhostUserVirtioFeatures::PROTOCOL_FEATURES.bits() == 0" =
    (fun x => ((x.acked_features &&& 0x40000000) == 0)) := rfl
theorem val_features : val "features" = (fun x => x.features) := rfl
theorem val_zero : val "0" = (fun _ => 0) := rfl

set_option linter.unusedSimpArgs false

/-- `update_vring_registration`, event by event, is `Model.RingReg.updateReg` -/
theorem evR_updateReg (idx : String) (s : RS) (hs : s.flow = .run) :
    evR (tUpdateReg idx) s = { s with st := updateReg s.st s.r } := by
  obtain ⟨st, r, x, file, fd, flow⟩ := s
  simp only at hs; subst hs
  cases hk : (st.ring r).kick with
  | none =>
    simp [Model.HandlerTable.updateReg, updateRegBody, threadLoop, evR, evsR, actR, hk, afterCall, Model.RingReg.updateReg, threads, ownsRing]
  | some k =>
    by_cases hc : ((st.ring r).ready && (st.ring r).enabled) = true
    · simp [Model.HandlerTable.updateReg, updateRegBody, threadLoop, evR, evsR, actR, hk, afterCall, Model.RingReg.updateReg, threads, ownsRing,
        cond_readyEnabled, sync, hc]
    · simp [Model.HandlerTable.updateReg, updateRegBody, threadLoop, evR, evsR, actR, hk, afterCall, Model.RingReg.updateReg, threads, ownsRing,
        cond_readyEnabled, sync, hc]

/-- `unregister_vring_kick`, event by event: the ring's current kick descriptor, if any, leaves the epoll set -/
theorem evR_unregister (s : RS) (hs : s.flow = .run) :
    evR (.helperCall "unregister_vring_kick" ["vring", "index"] false unregisterKickBody) s =
      { s with st := match (s.st.ring s.r).kick with
                     | some k => epollDel s.st k
                     | none => s.st } := by
  obtain ⟨st, r, x, file, fd, flow⟩ := s
  simp only at hs; subst hs
  cases hk : (st.ring r).kick with
  | none => simp [unregisterKickBody, threadLoop, evR, evsR, actR, hk, afterCall, threads, ownsRing]
  | some k => simp [unregisterKickBody, threadLoop, evR, evsR, actR, hk, afterCall, threads, ownsRing]

/-- `initialize_vring`, event by event, is `Model.RingReg.initializeVring` -/
theorem evR_initializeVring (s : RS) (hs : s.flow = .run) :
    evR tInitializeVring s = { s with st := initializeVring s.st s.r } := by
  obtain ⟨st, r, x, file, fd, flow⟩ := s
  simp only at hs; subst hs
  simp only [Model.HandlerTable.initializeVring, initializeVringBody, evR, evsR, actR, vringCallR, cond_true]
  simp [evR_updateReg, afterCall, Model.RingReg.initializeVring, actR]

theorem updateReg_base (s : St) (r : Nat) : (updateReg s r).base = s.base := by
  unfold updateReg
  split
  · rfl
  · split
    · unfold epollAdd; split <;> rfl
    · rfl

/-! ## the loop over the vrings -/

theorem evsR_enableBody (b idx : String) (on : Bool) (hb : cond b = fun _ => on) (t : RS) (ht : t.flow = .run) :
    evsR [.vringCall "set_enabled" [b], tUpdateReg idx] t = { t with st := setEnabled t.st t.r on } := by
  obtain ⟨st, r, x, file, fd, flow⟩ := t
  simp only at ht; subst ht
  simp only [evsR, evR, actR, vringCallR, hb]
  simp [evR_updateReg, setEnabled]

theorem loop_setAll (b idx : String) (on : Bool) (hb : cond b = fun _ => on) (s : RS) (hs : s.flow = .run) (k : Nat) :
    ∃ j, (List.range k).foldl
      (fun s i => match s.flow with
        | .run => evsR [.vringCall "set_enabled" [b], tUpdateReg idx] { s with r := i }
        | _ => s) s = { s with st := setAll on s.st k, r := j } := by
  induction k with
  | zero => exact ⟨s.r, rfl⟩
  | succ k ih =>
    obtain ⟨j, hj⟩ := ih
    refine ⟨k, ?_⟩
    rw [List.range_succ, List.foldl_append, hj]
    simp only [List.foldl_cons, List.foldl_nil, hs]
    rw [evsR_enableBody b idx on hb _ rfl]
    rfl

theorem evR_forEachVring_setAll (b idx : String) (on : Bool) (hb : cond b = fun _ => on) (s : RS) (hs : s.flow = .run) :
    evR (.forEachVring [.vringCall "set_enabled" [b], tUpdateReg idx]) s = { s with st := setAll on s.st s.st.n } := by
  simp only [evR]
  obtain ⟨j, hj⟩ := loop_setAll b idx on hb s hs s.st.n
  rw [hj]

theorem loop_noop (body : List HEvent) (hbody : ∀ t : RS, t.flow = .run → evsR body t = t)
    (s : RS) (hs : s.flow = .run) (k : Nat) : ∃ j, (List.range k).foldl
      (fun s i => match s.flow with
        | .run => evsR body { s with r := i }
        | _ => s) s = { s with r := j } := by
  induction k with
  | zero => exact ⟨s.r, rfl⟩
  | succ k ih =>
    obtain ⟨j, hj⟩ := ih
    refine ⟨k, ?_⟩
    rw [List.range_succ, List.foldl_append, hj]
    simp only [List.foldl_cons, List.foldl_nil, hs]
    rw [hbody _ rfl]

/-- a loop over the vrings whose body does nothing this model reads -/
theorem evR_forEachVring_noop (body : List HEvent) (hbody : ∀ t : RS, t.flow = .run → evsR body t = t)
    (s : RS) (hs : s.flow = .run) : evR (.forEachVring body) s = s := by
  simp only [evR]
  obtain ⟨j, hj⟩ := loop_noop body hbody s hs s.st.n
  rw [hj]

end Lemmas.HandlerRing
