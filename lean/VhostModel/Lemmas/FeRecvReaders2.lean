import VhostModel.Lemmas.FeRecvReaders

set_option linter.unusedSimpArgs false
set_option linter.unusedVariables false
/-!
# The reply readers of `FrontendInternal`, interpreted: `recv_reply_with_files`, `wait_for_ack`, `recv_reply_with_payload`

Same form as `Lemmas/FeRecvReaders.lean` (`ReaderSpec`).  `recv_reply_with_files` is a call of
`recv_reply_with_optional_files`; `recv_reply_with_payload` reads the fixed part with `recv_body::<T>` and then
`reply.get_size() - size_of::<T>()` bytes with `recv_data` (`Lemmas.FeRecv.callConn_recvData`).
-/
namespace Lemmas.FeRecv
open ImpFe
open Imp (Var World upd upd_apply Stuck Fd)
open Model.Stream (Cell Chooser recvAll recvData RecvAll RecvData clampK)
open Model.Frontend (Reply RecvOut RecvRes ReplyKind parseHdr hdrValid sizeOfTy bodyValidTy isReplyFor)
open Model.BackendSrv (Err bitSet)
open Lemmas.ConnRecv (optOf)

/-- the model's `recv_reply_with_files` is its `recv_reply_with_optional_files` followed by the `files.is_none()` test -/
theorem recvH_bodyFiles {σ : Type} (ch : Chooser σ) (cl : Bool) (ap : Nat) (rh : Model.BackendSrv.Hdr) (ty : String) (cst : σ) (str : List Cell) :
    recvH ch cl ap rh (.bodyFiles ty) cst str =
      (match (recvH ch cl ap rh (.bodyOptFiles ty) cst str).res with
       | .ok r =>
         if r.files.isNone then
           ⟨.err .invalidMsg, (recvH ch cl ap rh (.bodyOptFiles ty) cst str).rest, (recvH ch cl ap rh (.bodyOptFiles ty) cst str).cst,
             (recvH ch cl ap rh (.bodyOptFiles ty) cst str).closed⟩
         else recvH ch cl ap rh (.bodyOptFiles ty) cst str
       | _ => recvH ch cl ap rh (.bodyOptFiles ty) cst str) := by
  unfold recvH
  cases hr : rh.isReply
  · simp only [Bool.false_eq_true, if_false]
    rcases ho : Model.Frontend.recvBody ch cl ty cst str with ⟨res, rest, cst', closed⟩
    cases res with
    | ok r =>
      simp only []
      cases hi : isReplyFor r.hdr rh <;> simp
    | err e => rfl
    | blocked => rfl
  · simp

theorem recv_reply_with_files_exec {σ : Type} (ch : Chooser σ) (cl : Bool) (T : String) (n : Nat) (hn : sizeOfTy T = some n)
    (hsz : n ≤ 0x1000) (F : Nat) (fr : FFrame) (sf : Self) (w : World σ) (hF : w.stream.length + 1 ≤ F)
    (hh : (fr.b 0).length = 12) (herr : sf.error = none) :
    ReaderSpec w sf (fun r => { bufs := [r.body], fds := r.files })
      (recvH ch cl sf.acked_protocol_features (parseHdr (fr.b 0)) (.bodyFiles T) w.cst w.stream)
      (ImpFe.exec (stdEnv ch cl) (Gen.FeRecv.RecvReplyWithFiles.fnBody T) F fr sf w) := by
  have hS := recv_reply_with_optional_files_exec ch cl T n hn hsz F
    { n := fun _ => 0, b := upd (fun _ => []) 0 (fr.b 0), f := fun _ => none } sf w hF (by simpa using hh) herr
  simp only [upd_apply, reduceIte] at hS
  unfold Gen.FeRecv.RecvReplyWithFiles.fnBody
  rw [recvH_bodyFiles, exec_seq, exec_callFe]
  simp only [argsN, argsB, argsF, movedF]
  rcases hx : ImpFe.exec (stdEnv ch cl) (Gen.FeRecv.RecvReplyWithOptionalFiles.fnBody T) F
    { n := fun _ => 0, b := upd (fun _ => []) 0 (fr.b 0), f := fun _ => none } sf w with ⟨c, fr2, sf2, w2⟩
  rw [hx] at hS
  generalize recvH ch cl sf.acked_protocol_features (parseHdr (fr.b 0)) (.bodyOptFiles T) w.cst w.stream = M at hS ⊢
  obtain ⟨s1, s2, s3, s4⟩ := hS
  simp only at s1 s2 s3 s4
  subst s3
  rcases M with ⟨mres, mrest, mcst, mclosed⟩
  cases mres with
  | blocked =>
    obtain ⟨inner, u1, u2⟩ := s4
    simp only at u1 u2
    subst u1
    exact ⟨s1, s2, rfl, inner, rfl, u2⟩
  | err e =>
    obtain ⟨⟨fe, u1, u2⟩, u3⟩ := s4
    simp only at u1 u3
    subst u1
    simp only [exec_seq, exec_matchOk, upd_apply, reduceIte, exec_retErr, evalErr, errOfR]
    exact ⟨s1, s2, rfl, ⟨fe, rfl, u2⟩, u3⟩
  | ok r =>
    obtain ⟨u1, u3⟩ := s4
    simp only at u1 u3
    subst u1
    simp only [exec_seq, exec_matchOk, upd_apply, reduceIte, exec_skip, bindNs_nil, bindBs_cons, bindBs_nil, exec_ite, evalC, Option.map_some]
    cases hf : r.files with
    | none =>
      simp only [Option.isSome_none, Bool.not_false, exec_seq, exec_dropF, exec_retErr, evalErr, upd_apply, reduceIte, Option.isNone_none, if_true]
      exact ⟨s1, s2, rfl, ⟨_, rfl, rfl⟩, by simp [u3]⟩
    | some l =>
      simp only [Option.isSome_some, Bool.not_true, exec_skip, exec_ret, evalXs, evalFd, upd_apply, reduceIte, Option.isNone_some,
        Bool.false_eq_true, if_false, List.map]
      exact ⟨s1, s2, rfl, by simp [hf], u3⟩

theorem so_U64 : sizeOfTy "VhostUserU64" = some 8 := by decide
theorem fieldAt_u64_value : Model.Msgs.fieldAt "VhostUserU64" ["value"] = some (0, 8) := by decide
theorem g_u64_value (b : Imp.Bytes) (h : b.length = 8) : Model.Frontend.g b "VhostUserU64" ["value"] = Base.leVal b := by
  simp [Model.Frontend.g, Model.Msgs.getField, fieldAt_u64_value, h]
  rw [List.take_of_length_le (by omega)]

theorem recvH_ack {σ : Type} (ch : Chooser σ) (cl : Bool) (ap : Nat) (rh : Model.BackendSrv.Hdr) (cst : σ) (str : List Cell) :
    recvH ch cl ap rh .ack cst str =
      (if !bitSet ap 3 || !rh.needReply then ⟨.ok ⟨rh, Model.Frontend.u64 0, [], none⟩, str, cst, []⟩ else
       match (Model.Frontend.recvBody ch cl "VhostUserU64" cst str).res with
       | .ok r =>
         if !isReplyFor r.hdr rh || r.files.isSome then
           ⟨.err .invalidMsg, (Model.Frontend.recvBody ch cl "VhostUserU64" cst str).rest, (Model.Frontend.recvBody ch cl "VhostUserU64" cst str).cst,
             (Model.Frontend.recvBody ch cl "VhostUserU64" cst str).closed ++ r.files.getD []⟩
         else if Base.leVal r.body != 0 then
           ⟨.err .backendInternal, (Model.Frontend.recvBody ch cl "VhostUserU64" cst str).rest,
             (Model.Frontend.recvBody ch cl "VhostUserU64" cst str).cst, (Model.Frontend.recvBody ch cl "VhostUserU64" cst str).closed⟩
         else Model.Frontend.recvBody ch cl "VhostUserU64" cst str
       | _ => Model.Frontend.recvBody ch cl "VhostUserU64" cst str) := rfl

theorem wait_for_ack_exec {σ : Type} (ch : Chooser σ) (cl : Bool)
    (F : Nat) (fr : FFrame) (sf : Self) (w : World σ) (hF : w.stream.length + 1 ≤ F)
    (hh : (fr.b 0).length = 12) (herr : sf.error = none) :
    ReaderSpec w sf (fun _ => {})
      (recvH ch cl sf.acked_protocol_features (parseHdr (fr.b 0)) .ack w.cst w.stream)
      (ImpFe.exec (stdEnv ch cl) Gen.FeRecv.WaitForAck.fnBody F fr sf w) := by
  have hc : evalC (stdEnv ch cl) fr sf
      (.or (.eq (.band (.self .acked_protocol_features) (.lit 0x8)) (.lit 0)) (.not (Gen.FeRecv.Hdr.isNeedReply Gen.FeRecv.WaitForAck.hdr)))
      = some (!bitSet sf.acked_protocol_features 3 || !(parseHdr (fr.b 0)).needReply) := by
    have h1 := evalC_isNeedReply ch cl fr sf Gen.FeRecv.WaitForAck.hdr hh
    have h2 := Lemmas.Helpers.and_two_pow_beq_zero sf.acked_protocol_features 3
    simp only [evalC, evalX, h1, Option.map_some, Self.get, bitSet]
    rw [← h2, ← eq_dec]
    cases decide (sf.acked_protocol_features &&& 2 ^ 3 = 0) <;> rfl
  unfold Gen.FeRecv.WaitForAck.fnBody
  rw [recvH_ack, exec_seq, exec_ite, hc]
  cases hsk : (!bitSet sf.acked_protocol_features 3 || !(parseHdr (fr.b 0)).needReply)
  · simp only [exec_skip, Bool.false_eq_true, if_false]
    generalize hout : ImpFe.exec _ _ F fr sf w = out
    have hP := read_prefix ch cl "VhostUserU64" 8 so_U64 _ _ _ _ _ _ _ _ F fr sf w hF herr out hout _ rfl
    rw [recvBody_eq ch cl "VhostUserU64" 8 w.cst w.stream so_U64]
    generalize recvAll ch 32 cl (12 + 8) w.cst w.stream true = R at hP ⊢
    by_cases hb : R.outcome = .blocked
    · rw [if_pos hb] at hP ⊢
      obtain ⟨p1, p2, p3, ⟨inner, p4, p5⟩, p6⟩ := hP
      refine ⟨p1, p2, p3, inner, p4, ?_⟩
      rw [p6, p5, optOf_getD, List.append_assoc]
    · rw [if_neg hb] at hP ⊢
      by_cases h1 : R.bytes.length ≠ 12 + 8
      · rw [if_pos h1] at hP ⊢
        obtain ⟨p1, p2, p3, p4, p6⟩ := hP
        exact ⟨p1, p2, p3, ⟨_, p4, rfl⟩, by rw [p6, List.append_assoc]⟩
      · rw [if_neg h1] at hP ⊢
        by_cases h2 : (!hdrValid (R.bytes.take 12) || !(bodyValidTy "VhostUserU64" (R.bytes.drop 12) == some true)) = true
        · rw [if_pos h2] at hP ⊢
          obtain ⟨p1, p2, p3, p4, p6⟩ := hP
          exact ⟨p1, p2, p3, ⟨_, p4, rfl⟩, by rw [p6, List.append_assoc]⟩
        · rw [if_neg h2] at hP ⊢
          obtain ⟨w', q1, q2, q3, q4⟩ := hP
          rw [q4]
          have hlen0 : R.bytes.length = 12 + 8 := Classical.not_not.mp h1
          have hlen : (R.bytes.take 12).length = 12 := by simp [List.length_take]; omega
          have hlen2 : (R.bytes.drop 12).length = 8 := by simp [List.length_drop]; omega
          have hv : bodyValidTy "VhostUserU64" (R.bytes.drop 12) == some true := by
            cases hx : bodyValidTy "VhostUserU64" (R.bytes.drop 12) == some true
            · simp [hx] at h2
            · rfl
          have hirf := evalC_isReplyFor ch cl
            { fr with f := upd fr.f Gen.FeRecv.WaitForAck.rfds.id (optOf R.fds),
                      b := upd (upd fr.b Gen.FeRecv.WaitForAck.reply.id (R.bytes.take 12)) Gen.FeRecv.WaitForAck.body.id (R.bytes.drop 12),
                      r := upd (upd fr.r Gen.FeRecv.WaitForAck.r_check_state.id (.ok {})) Gen.FeRecv.WaitForAck.r_reply.id
                        (.ok { fds := optOf R.fds, bufs := [R.bytes.take 12, R.bytes.drop 12] }) }
            sf Gen.FeRecv.WaitForAck.reply Gen.FeRecv.WaitForAck.hdr (by simpa using hlen) (by simpa using hh)
          have hcd : evalC (stdEnv ch cl)
              { fr with f := upd fr.f Gen.FeRecv.WaitForAck.rfds.id (optOf R.fds),
                        b := upd (upd fr.b Gen.FeRecv.WaitForAck.reply.id (R.bytes.take 12)) Gen.FeRecv.WaitForAck.body.id (R.bytes.drop 12),
                        r := upd (upd fr.r Gen.FeRecv.WaitForAck.r_check_state.id (.ok {})) Gen.FeRecv.WaitForAck.r_reply.id
                          (.ok { fds := optOf R.fds, bufs := [R.bytes.take 12, R.bytes.drop 12] }) } sf
              (.or (.or (.not (Gen.FeRecv.Hdr.isReplyFor Gen.FeRecv.WaitForAck.reply Gen.FeRecv.WaitForAck.hdr))
                (.fIsSome Gen.FeRecv.WaitForAck.rfds)) (.not (.valid "VhostUserU64" Gen.FeRecv.WaitForAck.body)))
              = some (!isReplyFor (parseHdr (R.bytes.take 12)) (parseHdr (fr.b 0)) || (optOf R.fds).isSome) := by
            have hv' : (stdEnv ch cl).tyValid "VhostUserU64" (R.bytes.drop 12) = true := hv
            simp only [evalC, hirf, Option.map_some, upd_apply]
            simp [hv']
            cases isReplyFor (parseHdr (R.bytes.take 12)) (parseHdr (fr.b 0)) <;> cases (optOf R.fds).isSome <;> rfl
          rw [exec_seq, exec_ite, hcd]
          cases hcnd : (!isReplyFor (parseHdr (R.bytes.take 12)) (parseHdr (fr.b 0)) || (optOf R.fds).isSome)
          · have hnone : (optOf R.fds) = none := by
              cases ho : optOf R.fds <;> simp_all
            simp only [hcnd, Bool.false_eq_true, if_false]
            simp only [exec_skip, exec_seq, exec_ite, evalC, evalX, upd_apply, reduceIte]
            have hg : (stdEnv ch cl).fieldVal (R.bytes.drop 12) "VhostUserU64" ["value"] = Base.leVal (R.bytes.drop 12) :=
              g_u64_value _ hlen2
            simp only [show ((2 : Nat) = 2) = True from by simp, if_true, hg, ne_dec]
            cases hz : (Base.leVal (R.bytes.drop 12) != 0)
            · simp only [exec_skip, exec_seq, exec_dropF, exec_ret, evalXs, evalFd, upd_apply, List.map, Bool.false_eq_true, if_false]
              exact ⟨q1, q2, rfl, by simp, by simp [hnone, q3]⟩
            · simp only [exec_seq, exec_dropF, exec_retErr, evalErr, upd_apply, if_true]
              exact ⟨q1, q2, rfl, ⟨_, rfl, rfl⟩, by simp [hnone, q3]⟩
          · simp only [hcnd, if_true]
            simp only [exec_seq, exec_dropF, exec_retErr, evalErr, upd_apply]
            exact ⟨q1, q2, rfl, ⟨_, rfl, rfl⟩, by simp [q3, optOf_getD, List.append_assoc]⟩
  · simp only [if_true, exec_ret, evalXs, evalFd, List.map]
    exact ⟨rfl, rfl, rfl, by simp, by simp⟩

theorem recvAll_rest_le {σ : Type} (ch : Chooser σ) (cap : Nat) (cl : Bool) :
    ∀ (want : Nat) (st : σ) (s : List Cell) (first : Bool), (recvAll ch cap cl want st s first).rest.length ≤ s.length := by
  intro want st s first
  fun_induction recvAll ch cap cl want st s first with
  | case1 first st s => simp
  | case2 first n st => simp
  | case3 want st c s first k0 st' hnext k chunk rest cf hgt r ih =>
    have : rest.length ≤ (c :: s).length := by simp [rest, List.length_drop]
    exact Nat.le_trans ih this
  | case4 want st c s first k0 st' hnext k chunk rest cf hle r ih =>
    have : rest.length ≤ (c :: s).length := by simp [rest, List.length_drop]
    exact Nat.le_trans ih this

theorem recvData_lost_nil {σ : Type} (ch : Chooser σ) (cl : Bool) :
    ∀ (want : Nat) (st : σ) (s : List Cell), (recvData ch cl want st s).outcome ≠ .enobufs → (recvData ch cl want st s).lost = [] := by
  intro want st s
  fun_induction recvData ch cl want st s with
  | case1 st s => simp
  | case2 n st => simp
  | case3 want st c s k0 st' hnext k chunk rest cf hne => simp
  | case4 want st c s k0 st' hnext k chunk rest cf he r ih => exact ih

theorem recvH_payload {σ : Type} (ch : Chooser σ) (cl : Bool) (ap : Nat) (rh : Model.BackendSrv.Hdr) (ty : String) (n : Nat)
    (hn : sizeOfTy ty = some n) (cst : σ) (str : List Cell) :
    recvH ch cl ap rh (.payload ty) cst str =
      (if (decide (rh.size ≤ n) || decide (rh.size > 0x1000) || rh.isReply) = true then ⟨.err .invalidParam, str, cst, []⟩ else
       match (Model.Frontend.recvBody ch cl ty cst str).res with
       | .ok r =>
         if !isReplyFor r.hdr rh || r.files.isSome then
           ⟨.err .invalidMsg, (Model.Frontend.recvBody ch cl ty cst str).rest, (Model.Frontend.recvBody ch cl ty cst str).cst,
             (Model.Frontend.recvBody ch cl ty cst str).closed ++ r.files.getD []⟩
         else if r.hdr.size < n then
           ⟨.err .invalidMsg, (Model.Frontend.recvBody ch cl ty cst str).rest, (Model.Frontend.recvBody ch cl ty cst str).cst,
             (Model.Frontend.recvBody ch cl ty cst str).closed⟩
         else if r.hdr.size - n > rh.size - n then
           ⟨.err .invalidMsg, (Model.Frontend.recvBody ch cl ty cst str).rest, (Model.Frontend.recvBody ch cl ty cst str).cst,
             (Model.Frontend.recvBody ch cl ty cst str).closed⟩
         else
           match (recvData ch cl (r.hdr.size - n) (Model.Frontend.recvBody ch cl ty cst str).cst (Model.Frontend.recvBody ch cl ty cst str).rest).outcome with
           | .blocked => ⟨.blocked, (recvData ch cl (r.hdr.size - n) (Model.Frontend.recvBody ch cl ty cst str).cst (Model.Frontend.recvBody ch cl ty cst str).rest).rest,
               (recvData ch cl (r.hdr.size - n) (Model.Frontend.recvBody ch cl ty cst str).cst (Model.Frontend.recvBody ch cl ty cst str).rest).st,
               (Model.Frontend.recvBody ch cl ty cst str).closed⟩
           | .enobufs => ⟨.err .sockRetry, (recvData ch cl (r.hdr.size - n) (Model.Frontend.recvBody ch cl ty cst str).cst (Model.Frontend.recvBody ch cl ty cst str).rest).rest,
               (recvData ch cl (r.hdr.size - n) (Model.Frontend.recvBody ch cl ty cst str).cst (Model.Frontend.recvBody ch cl ty cst str).rest).st,
               (Model.Frontend.recvBody ch cl ty cst str).closed ++
                 (recvData ch cl (r.hdr.size - n) (Model.Frontend.recvBody ch cl ty cst str).cst (Model.Frontend.recvBody ch cl ty cst str).rest).lost⟩
           | .short => ⟨.err .partialMsg, (recvData ch cl (r.hdr.size - n) (Model.Frontend.recvBody ch cl ty cst str).cst (Model.Frontend.recvBody ch cl ty cst str).rest).rest,
               (recvData ch cl (r.hdr.size - n) (Model.Frontend.recvBody ch cl ty cst str).cst (Model.Frontend.recvBody ch cl ty cst str).rest).st,
               (Model.Frontend.recvBody ch cl ty cst str).closed⟩
           | .full => ⟨.ok { r with payload := (recvData ch cl (r.hdr.size - n) (Model.Frontend.recvBody ch cl ty cst str).cst (Model.Frontend.recvBody ch cl ty cst str).rest).bytes },
               (recvData ch cl (r.hdr.size - n) (Model.Frontend.recvBody ch cl ty cst str).cst (Model.Frontend.recvBody ch cl ty cst str).rest).rest,
               (recvData ch cl (r.hdr.size - n) (Model.Frontend.recvBody ch cl ty cst str).cst (Model.Frontend.recvBody ch cl ty cst str).rest).st,
               (Model.Frontend.recvBody ch cl ty cst str).closed⟩
       | _ => Model.Frontend.recvBody ch cl ty cst str) := by
  unfold recvH
  simp only [hn]
  rfl

theorem recv_reply_with_payload_exec {σ : Type} (ch : Chooser σ) (cl : Bool) (T : String) (n : Nat) (hn : sizeOfTy T = some n)
    (hsz : n ≤ 0x1000) (F : Nat) (fr : FFrame) (sf : Self) (w : World σ) (hF : w.stream.length + 1 ≤ F)
    (hh : (fr.b 0).length = 12) (herr : sf.error = none) :
    ReaderSpec w sf (fun r => { bufs := [r.body, r.payload], fds := r.files })
      (recvH ch cl sf.acked_protocol_features (parseHdr (fr.b 0)) (.payload T) w.cst w.stream)
      (ImpFe.exec (stdEnv ch cl) (Gen.FeRecv.RecvReplyWithPayload.fnBody T) F fr sf w) := by
  have hsT : (stdEnv ch cl).tySize T = n := by
    show (sizeOfTy T).getD 0 = n
    rw [hn]; rfl
  have hc : evalC (stdEnv ch cl) fr sf
      (.or (.or (.or (.gt (.sizeOf T) (.lit 4096)) (.le (Gen.FeRecv.Hdr.getSize Gen.FeRecv.RecvReplyWithPayload.hdr) (.sizeOf T)))
        (.gt (Gen.FeRecv.Hdr.getSize Gen.FeRecv.RecvReplyWithPayload.hdr) (.lit 4096))) (Gen.FeRecv.Hdr.isReply Gen.FeRecv.RecvReplyWithPayload.hdr))
      = some (decide ((parseHdr (fr.b 0)).size ≤ n) || decide ((parseHdr (fr.b 0)).size > 0x1000) || (parseHdr (fr.b 0)).isReply) := by
    have h1 := evalC_isReply ch cl fr sf Gen.FeRecv.RecvReplyWithPayload.hdr hh
    have h2 := evalX_getSize ch cl fr sf Gen.FeRecv.RecvReplyWithPayload.hdr hh
    simp only [evalC, evalX, h1, h2, hsT]
    have : ¬ n > 4096 := by omega
    simp [this]
    cases decide ((parseHdr (fr.b 0)).size ≤ n) <;> cases decide (4096 < (parseHdr (fr.b 0)).size) <;> rfl
  unfold Gen.FeRecv.RecvReplyWithPayload.fnBody
  rw [recvH_payload ch cl _ _ T n hn, exec_seq, exec_ite, hc]
  cases hr : (decide ((parseHdr (fr.b 0)).size ≤ n) || decide ((parseHdr (fr.b 0)).size > 0x1000) || (parseHdr (fr.b 0)).isReply)
  · simp only [exec_skip, Bool.false_eq_true, if_false]
    have hgt : n < (parseHdr (fr.b 0)).size := by
      simp only [Bool.or_eq_false_iff, decide_eq_false_iff_not] at hr
      omega
    generalize hout : ImpFe.exec _ _ F fr sf w = out
    have hP := read_prefix ch cl T n hn _ _ _ _ _ _ _ _ F fr sf w hF herr out hout _ rfl
    rw [recvBody_eq ch cl T n w.cst w.stream hn]
    have hrl := recvAll_rest_le ch 32 cl (12 + n) w.cst w.stream true
    generalize recvAll ch 32 cl (12 + n) w.cst w.stream true = R at hP hrl ⊢
    by_cases hb : R.outcome = .blocked
    · rw [if_pos hb] at hP ⊢
      obtain ⟨p1, p2, p3, ⟨inner, p4, p5⟩, p6⟩ := hP
      refine ⟨p1, p2, p3, inner, p4, ?_⟩
      rw [p6, p5, optOf_getD, List.append_assoc]
    · rw [if_neg hb] at hP ⊢
      by_cases h1 : R.bytes.length ≠ 12 + n
      · rw [if_pos h1] at hP ⊢
        obtain ⟨p1, p2, p3, p4, p6⟩ := hP
        exact ⟨p1, p2, p3, ⟨_, p4, rfl⟩, by rw [p6, List.append_assoc]⟩
      · rw [if_neg h1] at hP ⊢
        by_cases h2 : (!hdrValid (R.bytes.take 12) || !(bodyValidTy T (R.bytes.drop 12) == some true)) = true
        · rw [if_pos h2] at hP ⊢
          obtain ⟨p1, p2, p3, p4, p6⟩ := hP
          exact ⟨p1, p2, p3, ⟨_, p4, rfl⟩, by rw [p6, List.append_assoc]⟩
        · rw [if_neg h2] at hP ⊢
          obtain ⟨w', q1, q2, q3, q4⟩ := hP
          rw [q4]
          have hlen : (R.bytes.take 12).length = 12 := by
            have : R.bytes.length = 12 + n := Classical.not_not.mp h1
            simp [List.length_take]; omega
          have hv : bodyValidTy T (R.bytes.drop 12) == some true := by
            cases hx : bodyValidTy T (R.bytes.drop 12) == some true
            · simp [hx] at h2
            · rfl
          have hirf := evalC_isReplyFor ch cl
            { fr with f := upd fr.f Gen.FeRecv.RecvReplyWithPayload.files.id (optOf R.fds),
                      b := upd (upd fr.b Gen.FeRecv.RecvReplyWithPayload.reply.id (R.bytes.take 12)) Gen.FeRecv.RecvReplyWithPayload.body.id (R.bytes.drop 12),
                      r := upd (upd fr.r Gen.FeRecv.RecvReplyWithPayload.r_check_state.id (.ok {})) Gen.FeRecv.RecvReplyWithPayload.r_reply.id
                        (.ok { fds := optOf R.fds, bufs := [R.bytes.take 12, R.bytes.drop 12] }) }
            sf Gen.FeRecv.RecvReplyWithPayload.reply Gen.FeRecv.RecvReplyWithPayload.hdr (by simpa using hlen) (by simpa using hh)
          have hcd : evalC (stdEnv ch cl)
              { fr with f := upd fr.f Gen.FeRecv.RecvReplyWithPayload.files.id (optOf R.fds),
                        b := upd (upd fr.b Gen.FeRecv.RecvReplyWithPayload.reply.id (R.bytes.take 12)) Gen.FeRecv.RecvReplyWithPayload.body.id (R.bytes.drop 12),
                        r := upd (upd fr.r Gen.FeRecv.RecvReplyWithPayload.r_check_state.id (.ok {})) Gen.FeRecv.RecvReplyWithPayload.r_reply.id
                          (.ok { fds := optOf R.fds, bufs := [R.bytes.take 12, R.bytes.drop 12] }) } sf
              (.or (.or (.not (Gen.FeRecv.Hdr.isReplyFor Gen.FeRecv.RecvReplyWithPayload.reply Gen.FeRecv.RecvReplyWithPayload.hdr))
                (.fIsSome Gen.FeRecv.RecvReplyWithPayload.files)) (.not (.valid T Gen.FeRecv.RecvReplyWithPayload.body)))
              = some (!isReplyFor (parseHdr (R.bytes.take 12)) (parseHdr (fr.b 0)) || (optOf R.fds).isSome) := by
            have hv' : (stdEnv ch cl).tyValid T (R.bytes.drop 12) = true := hv
            simp only [evalC, hirf, Option.map_some, upd_apply]
            simp [hv']
            cases isReplyFor (parseHdr (R.bytes.take 12)) (parseHdr (fr.b 0)) <;> cases (optOf R.fds).isSome <;> rfl
          rw [exec_seq, exec_ite, hcd]
          cases hcnd : (!isReplyFor (parseHdr (R.bytes.take 12)) (parseHdr (fr.b 0)) || (optOf R.fds).isSome)
          · have hnone : (optOf R.fds) = none := by
              cases ho : optOf R.fds <;> simp_all
            simp only [hcnd, Bool.false_eq_true, if_false, exec_skip]
            -- `expected`, `payload_size`
            have hs1 := evalX_getSize ch cl
              { fr with f := upd fr.f Gen.FeRecv.RecvReplyWithPayload.files.id (optOf R.fds),
                        b := upd (upd fr.b Gen.FeRecv.RecvReplyWithPayload.reply.id (R.bytes.take 12)) Gen.FeRecv.RecvReplyWithPayload.body.id (R.bytes.drop 12),
                        r := upd (upd fr.r Gen.FeRecv.RecvReplyWithPayload.r_check_state.id (.ok {})) Gen.FeRecv.RecvReplyWithPayload.r_reply.id
                          (.ok { fds := optOf R.fds, bufs := [R.bytes.take 12, R.bytes.drop 12] }) }
              sf Gen.FeRecv.RecvReplyWithPayload.hdr (by simpa using hh)
            simp only [upd_apply, show ((0 : Nat) = 2) = False from by simp, show ((0 : Nat) = 1) = False from by simp, if_false] at hs1
            rw [exec_seq, exec_assign]
            simp only [evalX, hs1, hsT, if_pos (Nat.le_of_lt hgt)]
            rw [exec_seq, exec_ite]
            have hs2 := evalX_getSize ch cl
              { n := upd fr.n Gen.FeRecv.RecvReplyWithPayload.expected.id ((parseHdr (fr.b 0)).size - n),
                f := upd fr.f Gen.FeRecv.RecvReplyWithPayload.files.id (optOf R.fds),
                b := upd (upd fr.b Gen.FeRecv.RecvReplyWithPayload.reply.id (R.bytes.take 12)) Gen.FeRecv.RecvReplyWithPayload.body.id (R.bytes.drop 12),
                r := upd (upd fr.r Gen.FeRecv.RecvReplyWithPayload.r_check_state.id (.ok {})) Gen.FeRecv.RecvReplyWithPayload.r_reply.id
                  (.ok { fds := optOf R.fds, bufs := [R.bytes.take 12, R.bytes.drop 12] }) }
              sf Gen.FeRecv.RecvReplyWithPayload.reply (by simpa using hlen)
            simp only [upd_apply, show ((1 : Nat) = 2) = False from by simp, if_false, if_true] at hs2
            simp only [evalC, evalX, hs2, hsT]
            by_cases hlt : (parseHdr (R.bytes.take 12)).size < n
            · simp only [hlt, decide_true, if_true, exec_seq, exec_dropF, exec_retErr, evalErr, upd_apply]
              exact ⟨q1, q2, rfl, ⟨_, rfl, rfl⟩, by simp [hnone, q3]⟩
            · simp only [hlt, decide_false, if_false, exec_assign, evalX, hs2, hsT, if_pos (Nat.le_of_not_lt hlt)]
              rw [exec_seq, exec_ite]
              simp only [evalC, evalX, upd_apply, reduceIte, show ((0 : Nat) = 1) = False from by simp, if_false, if_true]
              by_cases hgt2 : (parseHdr (R.bytes.take 12)).size - n > (parseHdr (fr.b 0)).size - n
              · simp only [hgt2, decide_true, if_true, exec_seq, exec_dropF, exec_retErr, evalErr, upd_apply]
                exact ⟨q1, q2, rfl, ⟨_, rfl, rfl⟩, by simp [hnone, q3]⟩
              · simp only [hgt2, decide_false, if_false, exec_skip]
                rw [exec_seq]
                generalize hfr3 : FFrame.mk (upd (upd fr.n 0 ((parseHdr (fr.b 0)).size - n)) 1 ((parseHdr (List.take 12 R.bytes)).size - n))
                    (upd fr.f 0 (optOf R.fds)) (upd (upd fr.b 1 (List.take 12 R.bytes)) 2 (List.drop 12 R.bytes))
                    (upd (upd fr.r 0 (FRVal.ok { })) 1
                      (FRVal.ok { fds := optOf R.fds, bufs := [List.take 12 R.bytes, List.drop 12 R.bytes] })) = fr3
                have he : evalX (stdEnv ch cl) fr3 sf (.var Gen.FeRecv.RecvReplyWithPayload.payload_size)
                    = some ((parseHdr (List.take 12 R.bytes)).size - n) := by
                  rw [← hfr3]; simp [evalX]
                rcases hx : ImpFe.exec (stdEnv ch cl) (.callConn "recv_data" "VhostUserEmpty" Gen.ConnLoops.RecvData.fnBody
                    [(Gen.ConnLoops.RecvData.len, FExp.var Gen.FeRecv.RecvReplyWithPayload.payload_size)]
                    Gen.FeRecv.RecvReplyWithPayload.r_bytes) F fr3 sf w' with ⟨c, fr4, sf4, w4⟩
                have hD := callConn_recvData ch cl _ _ _ _ _ F fr3 sf w' he (by rw [q1]; omega) _ hx _ rfl
                rw [q1, q2] at hD
                have hlost := recvData_lost_nil ch cl ((parseHdr (List.take 12 R.bytes)).size - n) R.st R.rest
                generalize recvData ch cl ((parseHdr (List.take 12 R.bytes)).size - n) R.st R.rest = D at hD hlost ⊢
                obtain ⟨d1, d2, d3, d4, d5⟩ := hD
                simp only at d1 d2 d3 d4 d5
                subst d3
                rcases D with ⟨dbytes, dlost, drest, dst, dout⟩
                cases dout with
                | blocked =>
                  obtain ⟨inner, e1, e2⟩ := d5
                  simp only at e1 e2 hlost
                  subst e1
                  have := hlost (by simp)
                  exact ⟨d1, d2, rfl, inner, rfl, by simp [d4, q3, e2, this]⟩
                | enobufs =>
                  obtain ⟨e1, e2⟩ := d5
                  subst e1 e2
                  simp only [exec_seq, exec_matchOk, upd_apply, reduceIte, exec_dropF, exec_retErr, evalErr, errOfR]
                  refine ⟨d1, d2, rfl, ⟨_, rfl, rfl⟩, ?_⟩
                  rw [← hfr3]
                  simp [d4, q3, hnone, List.append_assoc]
                | short =>
                  obtain ⟨e1, e2, buf, e3⟩ := d5
                  simp only at e1 e2 e3 hlost
                  subst e1 e3
                  have hl := hlost (by simp)
                  have hne : dbytes.length ≠ (parseHdr (List.take 12 R.bytes)).size - n := by omega
                  simp only [exec_seq, exec_matchOk, upd_apply, reduceIte, exec_skip, bindNs_cons, bindNs_nil, bindBs_cons, bindBs_nil,
                    exec_ite, evalC, evalX]
                  rw [← hfr3]
                  simp only [upd_apply, reduceIte, show ((1 : Nat) = 2) = False from by simp, if_false, if_true, hne, ne_eq, not_false_eq_true,
                    decide_true, exec_seq, exec_dropF, exec_retErr, evalErr]
                  exact ⟨d1, d2, rfl, ⟨_, rfl, rfl⟩, by simp [d4, q3, hnone, hl]⟩
                | full =>
                  obtain ⟨e1, e2, e3⟩ := d5
                  simp only at e1 e2 e3 hlost
                  subst e1 e3
                  have hl := hlost (by simp)
                  simp only [exec_seq, exec_matchOk, upd_apply, reduceIte, exec_skip, bindNs_cons, bindNs_nil, bindBs_cons, bindBs_nil,
                    exec_ite, evalC, evalX]
                  rw [← hfr3]
                  simp only [upd_apply, reduceIte, show ((1 : Nat) = 2) = False from by simp, if_false, if_true, ne_eq, not_true_eq_false,
                    decide_false, exec_skip, exec_ret, evalXs, evalFd, List.map]
                  exact ⟨d1, d2, rfl, by simp [hnone], by simp [d4, q3, hl]⟩
          · simp only [hcnd, if_true]
            simp only [exec_seq, exec_dropF, exec_retErr, evalErr, upd_apply]
            exact ⟨q1, q2, rfl, ⟨_, rfl, rfl⟩, by simp [q3, optOf_getD, List.append_assoc]⟩
  · simp only [if_true, exec_retErr, evalErr]
    exact ⟨rfl, rfl, rfl, ⟨_, rfl, rfl⟩, by simp⟩
end Lemmas.FeRecv
