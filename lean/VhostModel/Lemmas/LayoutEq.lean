import VhostModel.Props.C01
import VhostModel.Model.Msgs
import VhostModel.Spec.Layout
/-!
# Bridge: field access through the specification's layout = field access through the generated layout

`Props.C01.layout_matches_spec` proves that the layout rustc gives each message struct equals the
specification's table.  From it: `Spec.getField bs s p = Model.Msgs.getField bs s p` for every struct of
the specification and *every* path (nested paths included).
-/
namespace Lemmas.LayoutEq
open Base

/-- layouts agree (restated with `Model.Msgs.layoutOf`) -/
theorem layoutOf_eq {s : String} (hs : s ∈ Props.C01.specStructs) : Model.Msgs.layoutOf s = Spec.layoutOf s :=
  Props.C01.layout_matches_spec s hs

/-- on every field that exists in a struct of the specification, both sides agree on which struct it nests,
and the nested struct is again one of the specification -/
theorem nested_agree : ∀ s ∈ Props.C01.specStructs, ∀ l, Spec.layoutOf s = some l → ∀ f ∈ l.fields.map (·.1),
    Spec.nestedOf s f = Model.Msgs.nestedOf s f ∧ (∀ n, Spec.nestedOf s f = some n → n ∈ Props.C01.specStructs) := by
  decide

theorem fieldAt_eq : ∀ (p : List String) (s : String), s ∈ Props.C01.specStructs →
    Spec.fieldAt Spec.layoutOf Spec.nestedOf s p = Model.Msgs.fieldAt s p := by
  intro p
  induction p with
  | nil => intro s _; simp [Spec.fieldAt, Model.Msgs.fieldAt]
  | cons f rest ih =>
    intro s hs
    cases rest with
    | nil => simp only [Spec.fieldAt, Model.Msgs.fieldAt, layoutOf_eq hs]
    | cons f2 rest2 =>
      simp only [Spec.fieldAt, Model.Msgs.fieldAt, layoutOf_eq hs]
      cases hl : Spec.layoutOf s with
      | none => simp
      | some l =>
        simp only [Option.bind_some]
        cases hf : l.fields.find? (·.1 == f) with
        | none => simp
        | some e =>
          have hmem : f ∈ l.fields.map (·.1) := by
            have h1 := List.mem_of_find?_eq_some hf
            have h2 := List.find?_some hf
            simp only [beq_iff_eq] at h2
            exact List.mem_map.2 ⟨e, h1, h2⟩
          obtain ⟨hn, hin⟩ := nested_agree s hs l hl f hmem
          simp only [Option.map_some]
          rw [← hn]
          cases hnn : Spec.nestedOf s f with
          | none => rfl
          | some inner =>
            simp only
            rw [ih inner (hin inner hnn)]

/-- **the bridge**: for every struct of the specification and every path -/
theorem getField_eq (bs : Bytes) {s : String} (hs : s ∈ Props.C01.specStructs) (p : List String) :
    Spec.getField bs s p = Model.Msgs.getField bs s p := by
  simp only [Spec.getField, Model.Msgs.getField, fieldAt_eq p s hs]
  cases Model.Msgs.fieldAt s p <;> rfl

end Lemmas.LayoutEq
