import VhostModel.Lemmas.RoundtripAck
import VhostModel.Lemmas.Owed
/-!
# C03, GET_CONFIG (`recv_reply_with_payload`)

The server answers a usable handler outcome with the configuration structure followed by the bytes, and everything else
(handler failure, wrong-length data) with a payload-less structure whose `size` is 0.  The frontend returns the bytes in
the first case and an error — without waiting for a payload — in the second (F-C03-cfg repaired).
-/
namespace Lemmas.Roundtrip
open Base Model.Stream Model.Msgs Model.Frontend Lemmas.Encode
open Model.BackendSrv (Err Hdr bitSet BSt HOut Out Res replyHdr bodyValid)

/-- a fixed part that `recv_body` refuses makes `recv_reply_with_payload` fail with the same error -/
theorem recv_payload_of_body_err {σ : Type} (ch : Chooser σ) (cl : Bool) (s : FSt) (req : Req) (cst : σ) (str : List Cell)
    (ty : String) (n : Nat) (e : Err) (hk : req.kind = .payload ty) (hty : sizeOfTy ty = some n)
    (hsz : n < (reqHdr s req).size) (hmax : (reqHdr s req).size ≤ 0x1000) (hr : (reqHdr s req).isReply = false)
    (hb : (recvBody ch cl ty cst str).res = .err e) :
    (recv ch cl s req cst str).res = .err e := by
  have hpre : (decide ((reqHdr s req).size ≤ n) || decide ((reqHdr s req).size > 0x1000) || (reqHdr s req).isReply) = false := by
    simp [hr]; omega
  unfold recv
  simp only [hk, hty, hpre, Bool.false_eq_true, if_false, hb]

theorem config_valid_args {off size fl : Nat} (ho : off < 2^32) (hs : size < 2^32) (hf : fl < 2^32)
    (hv : bodyValid "VhostUserConfig" (u32 off ++ u32 size ++ u32 fl) = some true) : Spec.validConfig off size fl := by
  obtain ⟨f1, f2, f3⟩ := dec_Config [] off size fl ho hs hf
  simp only [List.append_nil] at f1 f2 f3
  rw [Lemmas.Owed.bodyValid_config _ (by simp [u32]), srv_g _ _ _ _ f1, srv_g _ _ _ _ f2, srv_g _ _ _ _ f3] at hv
  simpa using hv

theorem config_zero_invalid {off fl : Nat} (ho : off < 2^32) (hf : fl < 2^32) :
    bodyValidTy "VhostUserConfig" (leBytes 4 off ++ leBytes 4 0 ++ leBytes 4 fl) ≠ some true := by
  obtain ⟨f1, f2, f3⟩ := dec_Config [] off 0 fl ho (by omega) hf
  simp only [List.append_nil] at f1 f2 f3
  rw [bodyValidTy_of _ _ (by decide) (by decide)]
  show bodyValid "VhostUserConfig" (u32 off ++ u32 0 ++ u32 fl) ≠ some true
  rw [Lemmas.Owed.bodyValid_config _ (by simp [u32]), srv_g _ _ _ _ f1, srv_g _ _ _ _ f2, srv_g _ _ _ _ f3]
  simp [Spec.validConfig]

/-- **GET_CONFIG** -/
theorem turn_config {σ : Type} (ch : Chooser σ) (cl : Bool) (s' : FSt) (off size fl x : Nat) (pl : Bytes) (fds : List Fd)
    (bad : Bool) (regs : List (Nat × Nat × Nat × Nat × Bool)) (h : HOut) (d : Out) (cst : σ) (file : Fd)
    (ho : off < 2^32) (hs : size < 2^32) (hf : fl < 2^32) (hpl : pl.length = size) (hx : x = size)
    (hmax : 12 + pl.length ≤ 0x1000)
    (hv : bodyValid "VhostUserConfig" (u32 off ++ u32 size ++ u32 fl) = some true)
    (hout : d.out =
      if h.ok && h.b.length == size then
        replyHdr (reqHdr s' ⟨24, u32 off ++ u32 size ++ u32 fl ++ pl, [], .payload "VhostUserConfig"⟩) (12 + size) ++
          leBytes 4 off ++ leBytes 4 size ++ leBytes 4 fl ++ h.b
      else replyHdr (reqHdr s' ⟨24, u32 off ++ u32 size ++ u32 fl ++ pl, [], .payload "VhostUserConfig"⟩) 12 ++
          leBytes 4 off ++ leBytes 4 0 ++ leBytes 4 fl)
    (hfds : d.outFds = 0)
    (hq : ReqOk (reqHdr s' ⟨24, u32 off ++ u32 size ++ u32 fl ++ pl, [], .payload "VhostUserConfig"⟩)) :
    TurnSpec ch cl s' ⟨"get_config", [off, size, fl, x], pl, fds, bad, regs⟩
      ⟨24, u32 off ++ u32 size ++ u32 fl ++ pl, [], .payload "VhostUserConfig"⟩ h d cst file := by
  have haw : awaits s' ⟨24, u32 off ++ u32 size ++ u32 fl ++ pl, [], .payload "VhostUserConfig"⟩ = true := rfl
  have hvc := config_valid_args ho hs hf hv
  have hsize : (reqHdr s' ⟨24, u32 off ++ u32 size ++ u32 fl ++ pl, [], .payload "VhostUserConfig"⟩).size = 12 + size := by
    simp [reqHdr, u32, hpl]; omega
  have hty : sizeOfTy "VhostUserConfig" = some 12 := by decide
  have hx' := hx.symm
  subst hx'
  constructor
  · intro hw; rw [haw] at hw; cases hw
  · intro _ hu
    have hu' : (h.ok && h.b.length == size) = true := hu
    have hlen : h.b.length = size := by simp only [Bool.and_eq_true, beq_iff_eq] at hu'; exact hu'.2
    have hcells : replyCells d file =
        segCells (replyHdr (reqHdr s' ⟨24, u32 off ++ u32 size ++ u32 fl ++ pl, [], .payload "VhostUserConfig"⟩) (12 + h.b.length) ++
          (u32 off ++ u32 size ++ u32 fl) ++ h.b) [] := by
      rw [replyCells, hout, hfds, if_pos hu']
      simp only [List.replicate_zero, hlen, u32, List.append_assoc]
    rw [hcells]
    obtain ⟨r1, r2⟩ := recv_payload_reply ch cl s' _ cst "VhostUserConfig" 12 (u32 off ++ u32 size ++ u32 fl) h.b rfl hty
      (by simp [u32]) (by rw [bodyValidTy_of _ _ (by decide) (by decide)]; exact hv) hq
      (by rw [hsize]; have := hvc.1; omega) (by rw [hsize]; omega) (by rw [hsize]; omega)
    obtain ⟨a, b, c⟩ := callRecv_of_ok ch cl s' ⟨"get_config", [off, size, fl, size], pl, fds, bad, regs⟩ _ cst _ r2
    obtain ⟨f1, f2, f3⟩ := dec_Config [] off size fl ho hs hf
    simp only [List.append_nil] at f1 f2 f3
    have hfin : finish s' ⟨"get_config", [off, size, fl, size], pl, fds, bad, regs⟩
        ⟨⟨24, 5, 12 + h.b.length⟩, u32 off ++ u32 size ++ u32 fl, h.b, none⟩ = (.config off size fl h.b, s') := by
      have hz : (size == 0) = false := by have := hvc.1; simp; omega
      simp only [finish, fe_g _ _ _ _ f1, fe_g _ _ _ _ f2, fe_g _ _ _ _ f3, hz, Bool.false_eq_true, if_false, hlen,
        bne_self_eq_false, Bool.or_self]
    rw [show (reqHdr s' ⟨24, u32 off ++ u32 size ++ u32 fl ++ pl, [], .payload "VhostUserConfig"⟩).code = 24 from rfl, hfin] at a b
    exact ⟨a, b, c.trans r1⟩
  · intro _ hu
    have hu' : (h.ok && h.b.length == size) = false := hu
    have hcells : replyCells d file =
        segCells (replyHdr (reqHdr s' ⟨24, u32 off ++ u32 size ++ u32 fl ++ pl, [], .payload "VhostUserConfig"⟩) 12 ++
          (leBytes 4 off ++ leBytes 4 0 ++ leBytes 4 fl) ++ []) [] := by
      rw [replyCells, hout, hfds, if_neg (by rw [hu']; exact Bool.false_ne_true)]
      simp only [List.replicate_zero, List.append_assoc, List.append_nil]
    rw [hcells]
    obtain ⟨_, _, r3⟩ := recvBody_segCells ch cl "VhostUserConfig" 12 cst
      (replyHdr (reqHdr s' ⟨24, u32 off ++ u32 size ++ u32 fl ++ pl, [], .payload "VhostUserConfig"⟩) 12)
      (leBytes 4 off ++ leBytes 4 0 ++ leBytes 4 fl) [] [] hty (replyHdr_length _ _) (by simp) (by simp)
    have hr := recv_payload_of_body_err ch cl s' ⟨24, u32 off ++ u32 size ++ u32 fl ++ pl, [], .payload "VhostUserConfig"⟩ cst _
      "VhostUserConfig" 12 .invalidMsg rfl hty (by rw [hsize]; have := hvc.1; omega) (by rw [hsize]; omega) hq.notReply
      (r3 (Or.inr (config_zero_invalid ho hf)))
    obtain ⟨a, b, _⟩ := callRecv_of_err ch cl s' ⟨"get_config", [off, size, fl, size], pl, fds, bad, regs⟩ _ cst _ hr
    exact ⟨b, Or.inl ⟨_, a⟩⟩

end Lemmas.Roundtrip
