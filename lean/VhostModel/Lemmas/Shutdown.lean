import VhostModel.Model.Shutdown
/-!
# Lemmas for `Model.Shutdown` (C16)

* `Inv` — state invariant of the connection transition system and its preservation (`inv_init`, `inv_step`,
  `inv_run`): program-counter side conditions, "a caller between its two steps has stored the flag",
  "a completed shutdown request ⇒ flag ∧ socket shut down", "thread gone ⇒ socket shut down",
  "`ECONNRESET` pending ⇒ peer closed", "`join` returned ⇒ the thread is gone".
* monotonicity: the flag, the socket shutdown and the thread's exit are never undone within a connection.
* the measure `mu`: every step of the daemon thread on a shut-down socket decreases it, no other step
  increases it; on a shut-down socket the daemon thread is never blocked.
-/
namespace Lemmas.Shutdown
open Model.Shutdown

structure Inv (s : St) : Prop where
  hdrLt : ∀ got, s.d = .hdr got → got < hdrLen
  bodyPos : ∀ r need, s.d = .body r need → 0 < need
  stored : ∀ i, s.callers i = .stored → s.flag = true
  compl : 0 < s.completed → s.flag = true ∧ s.shut = true
  exitedShut : ∀ e, s.d = .exited e → s.shut = true
  resetClosed : s.reset = true → s.peerClosed = true
  noThread : s.hasThread = false → ∃ e, s.d = .exited e
  joined : ∀ e, s.w = .joined e → s.d = .exited e ∧ s.hasThread = false ∧ s.dropped = false
  shutCause : s.shut = true → s.flag = true ∨ s.dropped = true ∨ ∃ e, s.d = .exited e
  exitCause : ∀ e, (s.d = .fin e ∨ s.d = .exited e) →
    s.flag = true ∨ s.peerClosed = true ∨ s.dropped = true ∨ e = .invalidMsg ∨ e = .reqErr

theorem inv_init (reqs : List Req) (prev : List WRes) : Inv (init reqs prev) := by
  constructor <;> simp [init]

theorem afterHdr_cases (r : Req) :
    afterHdr r = .fin .invalidMsg ∨ afterHdr r = .handler r ∨ (afterHdr r = .body r r.body ∧ 0 < r.body) := by
  unfold afterHdr
  by_cases h1 : r.hdrOk = true <;> by_cases hb : r.body = 0 <;> by_cases h3 : r.bodyOk = true <;>
    simp [h1, hb, h3] <;> omega

theorem afterHandler_cases (r : Req) : afterHandler r = .post ∨ afterHandler r = .fin .reqErr := by
  unfold afterHandler; cases r.hOk <;> simp

theorem cause_of_shut (s : St)
    (h9 : s.shut = true → s.flag = true ∨ s.dropped = true ∨ ∃ e, s.d = .exited e)
    (hne : ∀ e, s.d ≠ .exited e) (hc : s.shut = true ∨ s.peerClosed = true) :
    s.flag = true ∨ s.peerClosed = true ∨ s.dropped = true := by
  rcases hc with hc | hc
  · rcases h9 hc with x | x | ⟨e, x⟩
    · exact Or.inl x
    · exact Or.inr (Or.inr x)
    · exact absurd x (hne e)
  · exact Or.inr (Or.inl hc)

macro "inv_close" : tactic =>
  `(tactic| (constructor <;> (first | assumption | (intros; simp_all; done) | (intros; simp_all [hdrLen, upd]; done) | (intros; simp_all [hdrLen]; omega) | (intros; simp_all [hdrLen, upd]; omega) | skip)))

theorem inv_step (s s' : St) (l : Lbl) (hi : Inv s) (h : step s l = some s') : Inv s' := by
  obtain ⟨h1, h2, h3, h4, h5, h6, h7, h8, h9, h10⟩ := hi
  cases l <;> simp only [step] at h
  case dEnter =>
    split at h <;> simp at h
    subst h
    inv_close
  case dRead n =>
    split at h
    · rename_i got hd
      split at h
      · split at h
        · split at h
          · simp at h; subst h; inv_close
          · rename_i r rest hr
            simp at h; subst h
            rcases afterHdr_cases r with e | e | ⟨e, hp⟩ <;> (simp only [e]; inv_close)
            intro r' need hh; cases hh; exact hp
        · simp at h; subst h; inv_close
          intro g hh; cases hh; simp only [hdrLen] at *; omega
      · simp at h
    · rename_i r need hd
      split at h
      · split at h
        · simp at h; subst h
          cases r.bodyOk <;> inv_close
        · simp at h; subst h; inv_close
      · simp at h
    · simp at h
  case dEof =>
    split at h
    · rename_i hc
      split at h
      · rename_i got hd
        simp at h; subst h; inv_close
        intro e _
        rcases cause_of_shut s h9 (by simp [hd]) hc.2.2 with x | x | x <;> simp [x]
      · rename_i r need hd
        simp at h; subst h; inv_close
        intro e _
        rcases cause_of_shut s h9 (by simp [hd]) hc.2.2 with x | x | x <;> simp [x]
      · simp at h
    · simp at h
  case dReset =>
    split at h
    · split at h <;> simp at h <;> (subst h; inv_close)
    · simp at h
  case dHandle =>
    split at h <;> simp at h
    rename_i r hd
    subst h
    by_cases hr : r.reply = 0
    · rw [if_pos hr]
      rcases afterHandler_cases r with e | e <;> (rw [e]; inv_close)
    · rw [if_neg hr]; inv_close
  case dReply =>
    split at h
    · rename_i r hd
      split at h
      · rename_i hc
        simp at h; subst h; inv_close
        intro e _
        rcases cause_of_shut s h9 (by simp [hd]) hc with x | x | x <;> simp [x]
      · simp at h; subst h
        rcases afterHandler_cases r with e | e <;> (rw [e]; inv_close)
    · simp at h
  case dLoop =>
    split at h <;> simp at h
    subst h; inv_close
  case dFinal =>
    split at h <;> simp at h
    subst h; inv_close
  case cStore i =>
    split at h <;> simp at h
    subst h; inv_close
  case cShut i =>
    split at h <;> simp at h
    rename_i hc
    subst h; inv_close
    · intro j hj
      simp only [upd] at hj
      split at hj
      · cases hj
      · exact h3 j hj
    · intro _; exact ⟨h3 i hc, rfl⟩
    · intro _; exact Or.inl (h3 i hc)
  case pWrite n =>
    split at h
    · split at h <;> simp at h <;> (subst h; inv_close)
    · simp at h
  case pRead =>
    split at h <;> simp at h
    subst h; inv_close
  case pClose =>
    split at h <;> simp at h
    subst h; inv_close
  case wJoin =>
    split at h
    · split at h <;> simp at h
      subst h; inv_close
    · simp at h
  case wClassify =>
    split at h <;> simp at h
    subst h; inv_close
  case wNoThread =>
    split at h <;> simp at h
    subst h; inv_close
  case drop =>
    split at h <;> simp at h
    subst h; inv_close

theorem inv_run (s s' : St) (ls : List Lbl) (hi : Inv s) (h : run s ls = some s') : Inv s' := by
  induction ls generalizing s with
  | nil => simp [run] at h; subst h; exact hi
  | cons l ls ih =>
    simp only [run] at h
    split at h
    · simp at h
    · rename_i s1 hs1
      exact ih s1 (inv_step s s1 l hi hs1) h

theorem inv_reachable (reqs : List Req) (prev : List WRes) (ls : List Lbl) (s : St)
    (h : run (init reqs prev) ls = some s) : Inv s :=
  inv_run _ _ ls (inv_init reqs prev) h

theorem rank_le (d : DPc) : rank d ≤ 13 := by cases d <;> simp [rank]

theorem rank_afterHandler (r : Req) : rank (afterHandler r) ≤ 10 := by
  rcases afterHandler_cases r with e | e <;> simp [e, rank]

/-- what a step preserves: flag, socket shutdown, exit of the thread -/
theorem step_mono (s s' : St) (l : Lbl) (h : step s l = some s') :
    (s.flag = true → s'.flag = true) ∧ (s.shut = true → s'.shut = true) ∧
    (∀ e, s.d = .exited e → s'.d = .exited e) ∧ (s.peerClosed = true → s'.peerClosed = true) := by
  cases l <;> simp only [step] at h <;> (repeat' split at h) <;> simp at h <;> subst h <;> simp_all



/-- every step of the daemon thread on a shut-down socket strictly decreases `mu` -/
theorem mu_daemon (s s' : St) (l : Lbl) (hs : s.shut = true) (hd : l.isDaemon = true)
    (h : step s l = some s') : mu s' < mu s := by
  cases l <;> simp [Lbl.isDaemon] at hd <;> simp only [step] at h
  case dEnter =>
    split at h <;> simp at h
    rename_i hp; subst h; simp [mu, rank, hp]
  case dRead n =>
    split at h
    · rename_i got hp
      split at h
      · rename_i hc
        split at h
        · split at h
          · simp at h; subst h; simp only [mu, rank, hp]; omega
          · rename_i r rest hr
            simp at h; subst h
            have := rank_le (afterHdr r)
            have h8 : rank (DPc.hdr got) = 8 := rfl
            simp only [mu, hp, hdrLen] at *; omega
        · simp at h; subst h; simp only [mu, rank, hp]; omega
      · simp at h
    · rename_i r need hp
      split at h
      · rename_i hc
        split at h
        · simp at h; subst h
          simp only [mu, hp]
          cases r.bodyOk <;> simp [rank] <;> omega
        · simp at h; subst h; simp only [mu, rank, hp]; omega
      · simp at h
    · simp at h
  case dEof =>
    split at h
    · split at h <;> simp at h <;> (rename_i hp; subst h; simp [mu, rank, hp])
    · simp at h
  case dReset =>
    split at h
    · split at h <;> simp at h <;> (rename_i hp; subst h; simp [mu, rank, hp])
    · simp at h
  case dHandle =>
    split at h <;> simp at h
    rename_i r hp
    subst h
    have := rank_afterHandler r
    have h12 : rank (DPc.handler r) = 12 := rfl
    have h11 : rank (DPc.reply r) = 11 := rfl
    simp only [mu, hp]
    split <;> omega
  case dReply =>
    split at h
    · rename_i r hp
      split at h
      · simp at h; subst h; simp [mu, rank, hp]
      · rename_i hc; simp [hs] at hc
    · simp at h
  case dLoop =>
    split at h <;> simp at h
    rename_i hp; subst h; simp [mu, rank, hp]
  case dFinal =>
    split at h <;> simp at h
    rename_i e hp; subst h; simp [mu, rank, hp]

/-- no other step changes `mu` on a shut-down socket -/
theorem mu_other (s s' : St) (l : Lbl) (hs : s.shut = true) (hd : l.isDaemon = false)
    (h : step s l = some s') : mu s' = mu s := by
  cases l <;> simp [Lbl.isDaemon] at hd <;> simp only [step] at h <;> (repeat' split at h) <;>
    simp at h <;> (try subst h) <;> simp_all [mu]



/-- on a shut-down socket the daemon thread is never blocked: until it is gone, `nextDaemon` names a step of
the daemon thread and that step is enabled -/
theorem daemon_enabled (s : St) (hi : Inv s) (hs : s.shut = true) (hne : s.d.isExited = false) :
    ∃ l, nextDaemon s = some l ∧ l.isDaemon = true ∧ (step s l).isSome = true := by
  cases hd : s.d with
  | pre => exact ⟨.dEnter, by simp [nextDaemon, hd], rfl, by simp [step, hd]⟩
  | hdr got =>
    have hg := hi.hdrLt got hd
    simp only [hdrLen] at hg
    by_cases hq : 0 < s.inQ
    · refine ⟨.dRead (min (hdrLen - got) s.inQ), by simp [nextDaemon, hd, hq], rfl, ?_⟩
      simp only [step, hd, hdrLen]
      have : 0 < min (12 - got) s.inQ ∧ min (12 - got) s.inQ ≤ s.inQ ∧ got + min (12 - got) s.inQ ≤ 12 := by omega
      simp only [this, and_self, if_true]
      by_cases hc : got + min (12 - got) s.inQ = 12
      · simp only [hc, ↓reduceIte]; cases s.reqs <;> simp
      · simp only [hc, ↓reduceIte]; simp
    · have hq0 : s.inQ = 0 := by omega
      cases hr : s.reset
      · exact ⟨.dEof, by simp [nextDaemon, hd, hq0, hr, hs], rfl, by simp [step, hd, hq0, hr, hs]⟩
      · exact ⟨.dReset, by simp [nextDaemon, hd, hq0, hr], rfl, by simp [step, hd, hq0, hr]⟩
  | body r need =>
    have hg := hi.bodyPos r need hd
    by_cases hq : 0 < s.inQ
    · refine ⟨.dRead (min need s.inQ), by simp [nextDaemon, hd, hq], rfl, ?_⟩
      simp only [step, hd]
      have : 0 < min need s.inQ ∧ min need s.inQ ≤ s.inQ ∧ min need s.inQ ≤ need := by omega
      simp only [this, and_self, if_true]
      by_cases hc : min need s.inQ = need
      · simp only [hc, ↓reduceIte]; simp
      · simp only [hc, ↓reduceIte]; simp
    · have hq0 : s.inQ = 0 := by omega
      cases hr : s.reset
      · exact ⟨.dEof, by simp [nextDaemon, hd, hq0, hr, hs], rfl, by simp [step, hd, hq0, hr, hs]⟩
      · exact ⟨.dReset, by simp [nextDaemon, hd, hq0, hr], rfl, by simp [step, hd, hq0, hr]⟩
  | handler r => exact ⟨.dHandle, by simp [nextDaemon, hd], rfl, by simp [step, hd]⟩
  | reply r => exact ⟨.dReply, by simp [nextDaemon, hd], rfl, by simp [step, hd, hs]⟩
  | post => exact ⟨.dLoop, by simp [nextDaemon, hd], rfl, by simp [step, hd]⟩
  | fin e => exact ⟨.dFinal, by simp [nextDaemon, hd], rfl, by simp [step, hd]⟩
  | exited e => simp [hd, DPc.isExited] at hne

theorem run_append (s : St) (a b : List Lbl) :
    run s (a ++ b) = (run s a).bind fun s1 => run s1 b := by
  induction a generalizing s with
  | nil => simp [run]
  | cons l a ih =>
    simp only [List.cons_append, run]
    cases step s l with
    | none => simp
    | some s1 => simpa using ih s1

theorem run_mono (s s' : St) (ls : List Lbl) (h : run s ls = some s') :
    (s.flag = true → s'.flag = true) ∧ (s.shut = true → s'.shut = true) ∧
    (∀ e, s.d = .exited e → s'.d = .exited e) ∧ (s.peerClosed = true → s'.peerClosed = true) := by
  induction ls generalizing s with
  | nil => simp [run] at h; subst h; simp
  | cons l ls ih =>
    simp only [run] at h
    split at h
    · simp at h
    · rename_i s1 hs1
      have a := step_mono s s1 l hs1
      have b := ih s1 h
      exact ⟨fun x => b.1 (a.1 x), fun x => b.2.1 (a.2.1 x), fun e x => b.2.2.1 e (a.2.2.1 e x),
             fun x => b.2.2.2 (a.2.2.2 x)⟩

/-- along every run on a shut-down socket: (steps of the daemon thread) + (measure at the end) ≤ measure at the start -/
theorem run_mu (s s' : St) (ls : List Lbl) (hs : s.shut = true) (h : run s ls = some s') :
    daemonSteps ls + mu s' ≤ mu s := by
  induction ls generalizing s with
  | nil => simp [run] at h; subst h; simp [daemonSteps]
  | cons l ls ih =>
    simp only [run] at h
    split at h
    · simp at h
    · rename_i s1 hs1
      have hs1' := (step_mono s s1 l hs1).2.1 hs
      have := ih s1 hs1' h
      cases hd : l.isDaemon
      · have := mu_other s s1 l hs hd hs1
        simp only [daemonSteps, List.filter, hd] at *
        omega
      · have := mu_daemon s s1 l hs hd hs1
        simp only [daemonSteps, List.filter, hd, List.length_cons] at *
        omega

theorem mu_zero_iff (s : St) : mu s = 0 → s.d.isExited = true := by
  unfold mu
  cases hd : s.d <;> simp [rank, DPc.isExited]

theorem classifyWait_flag (r : TRes) : classifyWait r true = .ok := by
  cases r with
  | ok => rfl
  | err e => cases e <;> rfl

/-- while the flag is set every `wait()` that returns, returns `Ok` -/
theorem results_ok (s s' : St) (ls : List Lbl) (hf : s.flag = true) (h : run s ls = some s') :
    ∃ k, s'.results = s.results ++ List.replicate k WRes.ok := by
  induction ls generalizing s with
  | nil => simp [run] at h; subst h; exact ⟨0, by simp⟩
  | cons l ls ih =>
    simp only [run] at h
    split at h
    · simp at h
    · rename_i s1 hs1
      have hf1 := (step_mono s s1 l hs1).1 hf
      obtain ⟨k, hk⟩ := ih s1 hf1 h
      have : s1.results = s.results ∨ s1.results = s.results ++ [WRes.ok] := by
        cases l
        case wClassify =>
          simp only [step] at hs1
          split at hs1
          · simp at hs1; subst hs1; right; simp [hf, classifyWait_flag]
          · simp at hs1
        all_goals
          simp only [step] at hs1 <;> (repeat' split at hs1) <;> simp at hs1 <;> subst hs1 <;> simp
      rcases this with e | e
      · exact ⟨k, by rw [hk, e]⟩
      · refine ⟨k + 1, ?_⟩
        rw [hk, e, List.append_assoc]
        simp [List.replicate_succ]



theorem mu_step_le (s s' : St) (l : Lbl) (hs : s.shut = true) (h : step s l = some s') : mu s' ≤ mu s := by
  cases hd : l.isDaemon
  · exact Nat.le_of_eq (mu_other s s' l hs hd h)
  · exact Nat.le_of_lt (mu_daemon s s' l hs hd h)

/-- an infinite schedule: a sequence of states and labels in which every label is enabled -/
structure Exec where
  st : Nat → St
  lbl : Nat → Lbl
  ok : ∀ k, step (st k) (lbl k) = some (st (k + 1))

/-- some step of the daemon thread is enabled -/
def DaemonEnabled (s : St) : Prop := ∃ l, l.isDaemon = true ∧ (step s l).isSome = true

/-- weak fairness for the daemon thread: if from some point on it is always enabled, it eventually steps -/
def WeakFair (x : Exec) : Prop :=
  ∀ k, (∀ j, k ≤ j → DaemonEnabled (x.st j)) → ∃ j, k ≤ j ∧ (x.lbl j).isDaemon = true

theorem exec_facts (x : Exec) (k0 : Nat) (hi : Inv (x.st k0)) (hs : (x.st k0).shut = true) :
    ∀ d, Inv (x.st (k0 + d)) ∧ (x.st (k0 + d)).shut = true ∧ mu (x.st (k0 + d)) ≤ mu (x.st k0) := by
  intro d
  induction d with
  | zero => exact ⟨hi, hs, Nat.le_refl _⟩
  | succ d ih =>
    obtain ⟨i1, s1, m1⟩ := ih
    have hstep := x.ok (k0 + d)
    refine ⟨inv_step _ _ _ i1 hstep, (step_mono _ _ _ hstep).2.1 s1, ?_⟩
    exact Nat.le_trans (mu_step_le _ _ _ s1 hstep) m1

/-- Liveness: in every weakly fair infinite schedule, once the socket has been shut down the daemon thread
terminates. -/
theorem fair_terminates (x : Exec) (hf : WeakFair x) :
    ∀ n k0, mu (x.st k0) ≤ n → Inv (x.st k0) → (x.st k0).shut = true →
      ∃ k, k0 ≤ k ∧ (x.st k).d.isExited = true := by
  intro n
  induction n with
  | zero =>
    intro k0 hm _ _
    exact ⟨k0, Nat.le_refl _, mu_zero_iff _ (by omega)⟩
  | succ n ih =>
    intro k0 hm hi hs
    by_cases hex : ∃ k, k0 ≤ k ∧ (x.st k).d.isExited = true
    · exact hex
    · have hall : ∀ j, k0 ≤ j → DaemonEnabled (x.st j) := by
        intro j hj
        obtain ⟨d, rfl⟩ : ∃ d, j = k0 + d := ⟨j - k0, by omega⟩
        obtain ⟨i1, s1, _⟩ := exec_facts x k0 hi hs d
        have hne : (x.st (k0 + d)).d.isExited = false := by
          cases h : (x.st (k0 + d)).d.isExited
          · rfl
          · exact absurd ⟨k0 + d, hj, h⟩ hex
        obtain ⟨l, _, hl, hsome⟩ := daemon_enabled _ i1 s1 hne
        exact ⟨l, hl, hsome⟩
      obtain ⟨j, hj, hdl⟩ := hf k0 hall
      obtain ⟨d, rfl⟩ : ∃ d, j = k0 + d := ⟨j - k0, by omega⟩
      obtain ⟨i1, s1, m1⟩ := exec_facts x k0 hi hs d
      have hstep := x.ok (k0 + d)
      have hlt := mu_daemon _ _ _ s1 hdl hstep
      obtain ⟨k, hk, hke⟩ := ih (k0 + d + 1) (by omega) (inv_step _ _ _ i1 hstep) ((step_mono _ _ _ hstep).2.1 s1)
      exact ⟨k, by omega, hke⟩



end Lemmas.Shutdown

/-! ## teardown system -/

namespace Lemmas.Shutdown.TD
open Model.Shutdown.TD
open Model.Shutdown (upd classifyServe WRes)

structure TInv (c : Cfg) (t : St) : Prop where
  sig : ∀ k, t.h = .signalling k → c.supplied = true → ∀ i, i < k → i < c.n → t.evt i = true
  join : ∀ k, t.h = .joining k → (c.supplied = true → ∀ i, i < c.n → t.evt i = true) ∧ (∀ i, i < k → i < c.n → t.gone i = true)
  dropped : t.h = .dropped → ∀ i, i < c.n → t.gone i = true
  svSig : ∀ k w, t.sv = .signalling k w → c.supplied = true → ∀ i, i < k → i < c.n → t.evt i = true
  svDone : ∀ w r, t.sv = .done w r → r = classifyServe w ∧ (c.supplied = true → ∀ i, i < c.n → t.evt i = true)

theorem tinv_init (c : Cfg) (b : Bool) : TInv c (Model.Shutdown.TD.init b) := by
  constructor <;> simp [Model.Shutdown.TD.init] <;> cases b <;> simp

theorem upd_same {α : Type} (f : Nat → α) (i : Nat) (v : α) : upd f i v i = v := by simp [upd]
theorem upd_other {α : Type} (f : Nat → α) (i j : Nat) (v : α) (h : j ≠ i) : upd f i v j = f j := by simp [upd, h]

theorem upd_or_true (f : Nat → Bool) (k : Nat) (b : Bool) (i : Nat) (h : f i = true) :
    upd f k (f k || b) i = true := by
  by_cases e : i = k
  · subst e; simp [upd, h]
  · simp [upd, e, h]

theorem tinv_step (c : Cfg) (t t' : St) (l : Lbl) (hi : TInv c t) (h : Model.Shutdown.TD.step c t l = some t') : TInv c t' := by
  obtain ⟨h1, h2, h3, h4, h5⟩ := hi
  cases l <;> simp only [Model.Shutdown.TD.step] at h
  case wkExit i =>
    split at h <;> simp at h
    subst h
    refine ⟨h1, ?_, ?_, h4, h5⟩
    · intro k hk
      refine ⟨(h2 k hk).1, ?_⟩
      intro j hj hn
      have := (h2 k hk).2 j hj hn
      by_cases e : j = i
      · subst e; simp [upd]
      · simp [upd, e, this]
    · intro hd j hn
      have := h3 hd j hn
      by_cases e : j = i
      · subst e; simp [upd]
      · simp [upd, e, this]
  case hBegin =>
    split at h <;> simp at h <;> (subst h; exact ⟨by simp, by simp, by simp, h4, h5⟩)
  case hSignal =>
    split at h
    · rename_i k hk
      split at h
      · rename_i hlt
        simp at h; subst h
        refine ⟨?_, by simp, by simp, ?_, ?_⟩
        · intro k' hk' hs i hi' hn
          simp at hk'; subst hk'
          by_cases e : i = k
          · subst e; simp [upd, hs]
          · simp [upd, e]; exact h1 k hk hs i (by omega) hn
        · intro k' w hk' hs i hi' hn
          exact upd_or_true _ _ _ _ (h4 k' w hk' hs i hi' hn)
        · intro w r hw
          refine ⟨(h5 w r hw).1, fun hs i hn => upd_or_true _ _ _ _ ((h5 w r hw).2 hs i hn)⟩
      · rename_i hge
        simp at h; subst h
        refine ⟨by simp, ?_, by simp, h4, h5⟩
        intro k' hk'
        simp at hk'; subst hk'
        exact ⟨fun hs i hn => h1 k hk hs i (by omega) hn, by intros; omega⟩
    · simp at h
  case hJoin =>
    split at h
    · rename_i k hk
      split at h
      · split at h
        · rename_i hlt hg
          simp at h; subst h
          refine ⟨by simp, ?_, by simp, h4, h5⟩
          intro k' hk'
          simp at hk'; subst hk'
          refine ⟨(h2 k hk).1, ?_⟩
          intro i hi' hn
          by_cases e : i = k
          · subst e; exact hg
          · exact (h2 k hk).2 i (by omega) hn
        · simp at h
      · rename_i hge
        simp at h; subst h
        refine ⟨by simp, by simp, ?_, h4, h5⟩
        intro _ i hn
        exact (h2 k hk).2 i (by omega) hn
    · simp at h
  case svReturn w =>
    split at h <;> simp at h
    subst h
    refine ⟨h1, h2, h3, ?_, by simp⟩
    intro k w' hk
    simp at hk
    obtain ⟨rfl, rfl⟩ := hk
    intros; omega
  case svSignal =>
    split at h
    · rename_i k w hk
      split at h
      · simp at h; subst h
        refine ⟨?_, ?_, h3, ?_, by simp⟩
        · intro k' hk' hs i hi' hn
          exact upd_or_true _ _ _ _ (h1 k' hk' hs i hi' hn)
        · intro k' hk'
          refine ⟨fun hs i hn => upd_or_true _ _ _ _ ((h2 k' hk').1 hs i hn), (h2 k' hk').2⟩
        · intro k' w' hk' hs i hi' hn
          simp at hk'; obtain ⟨rfl, rfl⟩ := hk'
          by_cases e : i = k
          · subst e; simp [upd, hs]
          · simp [upd, e]; exact h4 k w hk hs i (by omega) hn
      · rename_i hge
        simp at h; subst h
        refine ⟨h1, h2, h3, by simp, ?_⟩
        intro w' r hw
        simp at hw; obtain ⟨rfl, rfl⟩ := hw
        exact ⟨rfl, fun hs i hn => h4 k w hk hs i (by omega) hn⟩
    · simp at h


theorem tinv_run (c : Cfg) (t t' : St) (ls : List Lbl) (hi : TInv c t) (h : Model.Shutdown.TD.run c t ls = some t') :
    TInv c t' := by
  induction ls generalizing t with
  | nil => simp [Model.Shutdown.TD.run] at h; subst h; exact hi
  | cons l ls ih =>
    simp only [Model.Shutdown.TD.run] at h
    split at h
    · simp at h
    · rename_i t1 ht1
      exact ih t1 (tinv_step c t t1 l hi ht1) h

theorem alive_upd_ge (gone : Nat → Bool) (i n : Nat) (h : n ≤ i) :
    alive (upd gone i true) n = alive gone n := by
  induction n with
  | zero => rfl
  | succ k ih =>
    have : k ≠ i := by omega
    simp [alive, ih (by omega), upd, this]

theorem alive_upd_lt (gone : Nat → Bool) (i n : Nat) (h : i < n) (hg : gone i = false) :
    alive (upd gone i true) n + 1 = alive gone n := by
  induction n with
  | zero => omega
  | succ k ih =>
    by_cases e : i = k
    · subst e
      simp [alive, alive_upd_ge gone i i (Nat.le_refl _), upd, hg]
    · have hk : k ≠ i := fun x => e x.symm
      have := ih (by omega)
      simp only [alive, upd, hk, if_false] at *
      omega

theorem alive_zero (gone : Nat → Bool) (n : Nat) (h : alive gone n = 0) : ∀ i, i < n → gone i = true := by
  induction n with
  | zero => intro i hi; omega
  | succ k ih =>
    intro i hi
    simp only [alive] at h
    by_cases e : i = k
    · subst e
      cases hg : gone i
      · simp [hg] at h
      · rfl
    · exact ih (by omega) i (by omega)

/-- every step of the teardown system strictly decreases the measure: all its runs are finite -/
theorem td_mu_step (c : Cfg) (t t' : St) (l : Lbl) (h : Model.Shutdown.TD.step c t l = some t') :
    Model.Shutdown.TD.mu c t' < Model.Shutdown.TD.mu c t := by
  cases l <;> simp only [Model.Shutdown.TD.step] at h
  case wkExit i =>
    split at h <;> simp at h
    rename_i hc
    subst h
    have := alive_upd_lt t.gone i c.n hc.1 hc.2.2
    simp only [Model.Shutdown.TD.mu]; omega
  case hBegin =>
    split at h <;> simp at h <;> (rename_i hh _; subst h; simp only [Model.Shutdown.TD.mu, hh, hrank]; omega)
  case hSignal =>
    split at h
    · rename_i k hk
      split at h <;> (simp at h; subst h; simp only [Model.Shutdown.TD.mu, hk, hrank]; omega)
    · simp at h
  case hJoin =>
    split at h
    · rename_i k hk
      split at h
      · split at h
        · simp at h; subst h; simp only [Model.Shutdown.TD.mu, hk, hrank]; omega
        · simp at h
      · simp at h; subst h; simp only [Model.Shutdown.TD.mu, hk, hrank]; omega
    · simp at h
  case svReturn w =>
    split at h <;> simp at h
    rename_i hh; subst h; simp only [Model.Shutdown.TD.mu, hh, svrank]; omega
  case svSignal =>
    split at h
    · rename_i k w hk
      split at h <;> (simp at h; subst h; simp only [Model.Shutdown.TD.mu, hk, svrank]; omega)
    · simp at h

theorem td_run_len (c : Cfg) (t t' : St) (ls : List Lbl) (h : Model.Shutdown.TD.run c t ls = some t') :
    ls.length + Model.Shutdown.TD.mu c t' ≤ Model.Shutdown.TD.mu c t := by
  induction ls generalizing t with
  | nil => simp [Model.Shutdown.TD.run] at h; subst h; simp
  | cons l ls ih =>
    simp only [Model.Shutdown.TD.run] at h
    split at h
    · simp at h
    · rename_i t1 ht1
      have := ih t1 h
      have := td_mu_step c t t1 l ht1
      simp only [List.length_cons]; omega

/-- Progress of `Drop for VhostUserHandler` when the backend supplies exit events: once the drop has begun and
until it is finished, some step is enabled (the drop itself, or the worker it is waiting for). -/
theorem td_progress (c : Cfg) (t : St) (hi : TInv c t) (hs : c.supplied = true)
    (hb : t.h ≠ .alive) (hd : t.h ≠ .dropped) :
    ∃ l, (Model.Shutdown.TD.step c t l).isSome = true := by
  cases hh : t.h with
  | alive => exact absurd hh hb
  | dropped => exact absurd hh hd
  | signalling k =>
    refine ⟨.hSignal, ?_⟩
    simp only [Model.Shutdown.TD.step, hh]
    split <;> simp
  | joining k =>
    by_cases hk : k < c.n
    · cases hg : t.gone k
      · exact ⟨.wkExit k, by simp [Model.Shutdown.TD.step, hk, hg, (hi.join k hh).1 hs k hk]⟩
      · exact ⟨.hJoin, by simp [Model.Shutdown.TD.step, hh, hk, hg]⟩
    · exact ⟨.hJoin, by simp [Model.Shutdown.TD.step, hh, hk]⟩

end Lemmas.Shutdown.TD
