import VhostModel.Model.Routing
import VhostModel.Spec.Routing
/-! helper lemmas for `Props.C17` (population count as a count over bit positions, list lemmas) -/
namespace Lemmas.Routing
open Model.Routing

theorem popcountGo_eq_countP (k x : Nat) :
    popcountGo k x = (List.range k).countP (fun i => x.testBit i) := by
  induction k generalizing x with
  | zero => simp [popcountGo]
  | succ k ih =>
    rw [popcountGo, ih, List.range_succ_eq_map, List.countP_cons, List.countP_map]
    have h0 : x.testBit 0 = decide (x % 2 = 1) := Nat.testBit_zero x
    have : ((fun i => x.testBit i) ∘ Nat.succ) = (fun i => (x / 2).testBit i) := by
      funext i; simp [Nat.testBit_succ]
    rw [this, h0]
    have : x % 2 = 0 ∨ x % 2 = 1 := by omega
    rcases this with h | h <;> simp [h] <;> omega

/-- splitting the population count of a `w`-bit number at bit `q` -/
theorem popcount_split (w x q : Nat) (hx : x < 2 ^ w) (hq : q ≤ w) :
    popcountGo w x = (List.range q).countP (fun i => x.testBit i) + popcountGo w (x >>> q) := by
  rw [popcountGo_eq_countP, popcountGo_eq_countP]
  have e1 : w = q + (w - q) := by omega
  have e2 : w = (w - q) + q := by omega
  conv => lhs; rw [e1, List.range_add, List.countP_append, List.countP_map]
  conv => rhs; rhs; rw [e2, List.range_add, List.countP_append, List.countP_map]
  have hz : List.countP ((fun i => (x >>> q).testBit i) ∘ fun y => w - q + y) (List.range q) = 0 := by
    rw [List.countP_eq_zero]
    intro a _
    simp only [Function.comp, Nat.testBit_shiftRight]
    have : x < 2 ^ (q + (w - q + a)) := Nat.lt_of_lt_of_le hx (Nat.pow_le_pow_right (by omega) (by omega))
    simp [Nat.testBit_lt_two_pow this]
  rw [hz]
  have : ((fun i => x.testBit i) ∘ fun y => q + y) = (fun i => (x >>> q).testBit i) := by
    funext i; simp [Nat.testBit_shiftRight]
  rw [this]; omega

theorem hasQueue_iff (m : U64) (q : Nat) : hasQueue m q = Spec.Routing.inMask m.toNat q := by
  unfold hasQueue Spec.Routing.inMask
  have : ((m >>> q) &&& 1#64) = 1#64 ↔ m.toNat.testBit q = true := by
    constructor
    · intro h
      have := congrArg (fun v => v.getLsbD 0) h
      simpa [BitVec.getLsbD_and, BitVec.getLsbD_ushiftRight, BitVec.getLsbD] using this
    · intro h
      apply BitVec.eq_of_getLsbD_eq
      intro i hi
      simp [BitVec.getLsbD_and, BitVec.getLsbD_ushiftRight]
      by_cases h0 : i = 0
      · subst h0; simpa [BitVec.getLsbD] using h
      · simp [h0]
  cases hb : m.toNat.testBit q
  · simp [hb] at this; simp [this]
  · simp [hb] at this; simp [this]

theorem hasQueue_fun (m : U64) : hasQueue m = Spec.Routing.inMask m.toNat := by
  funext q; exact hasQueue_iff m q

/-- in the increasing enumeration of `{i < n | p i}` the element at position `#{i < q | p i}` is `q` -/
theorem filter_range_at_rank (p : Nat → Bool) (n q : Nat) (hq : q < n) (hp : p q = true) :
    ((List.range n).filter p)[((List.range q).filter p).length]? = some q := by
  have e : n = q + ((n - q - 1) + 1) := by omega
  rw [e, List.range_add, List.range_succ_eq_map, List.map_cons, List.filter_append, List.filter_cons]
  simp [hp]

theorem rank_lt_slice_length (p : Nat → Bool) (n q : Nat) (hq : q < n) (hp : p q = true) :
    ((List.range q).filter p).length < ((List.range n).filter p).length :=
  (List.getElem?_eq_some_iff.1 (filter_range_at_rank p n q hq hp)).1

theorem registrationFrom_eq (q t : Nat) (masks : List U64) :
    registrationFrom q t masks =
      ((masks.map (·.toNat)).findIdx? (fun m => Spec.Routing.inMask m q)).bind
        (fun i => masks[i]?.map (fun m => (t + i, evtIdx m q))) := by
  induction masks generalizing t with
  | nil => simp [registrationFrom]
  | cons m ms ih =>
    simp only [registrationFrom, List.map_cons, List.findIdx?_cons, hasQueue_iff]
    cases hb : Spec.Routing.inMask m.toNat q
    · simp only [Bool.false_eq_true, if_false]
      rw [ih]
      cases List.findIdx? (fun m => Spec.Routing.inMask m q) (ms.map (·.toNat)) with
      | none => rfl
      | some i =>
        simp only [Option.map_some, Option.bind_some, List.getElem?_cons_succ]
        cases ms[i]? <;> simp <;> omega
    · simp

end Lemmas.Routing
