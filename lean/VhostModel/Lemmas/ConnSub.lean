import VhostModel.Gen.ConnLoops
import VhostModel.Lemmas.ConnImp
import VhostModel.Model.Endpoint

set_option linter.unusedSimpArgs false
set_option linter.unusedVariables false
/-!
# `get_sub_iovs_offset`: the interpreted translation computes `Model.Endpoint.subIovsOffset`

Also: the `call` of it from the two loops as one rewriting step, the `for len in &iov_lens { data_total += len }`
prologue of the two loops, and the arithmetic of `IoExpr.suffix`.
-/
namespace Lemmas.ConnSub
open Imp Gen.ConnLoops Model.Endpoint

theorem gsio_forBody {σ : Type} (env : Env σ) (F : Nat) (fr : Frame) (w : World σ) :
    exec env GetSubIovsOffset.forBody F fr w =
      if fr.n 3 ≤ fr.n 1 then (.normal, { fr with n := upd (upd fr.n 1 (fr.n 1 - fr.n 3)) 2 (fr.n 2 + 1) }, w)
      else (.brk, fr, w) := by
  by_cases h : fr.n 3 ≤ fr.n 1 <;> simp [GetSubIovsOffset.forBody, exec, evalB, evalE, h]

/-- loop invariant of the `for`: slot 1 = `size`, slot 2 = `nr_skip`, slot 3 = `len` -/
theorem forLoop_gsio {σ : Type} (body : Frame → World σ → Res σ)
    (hb : ∀ fr w, body fr w = if fr.n 3 ≤ fr.n 1 then (.normal, { fr with n := upd (upd fr.n 1 (fr.n 1 - fr.n 3)) 2 (fr.n 2 + 1) }, w)
      else (.brk, fr, w)) (w : World σ) : ∀ (rest : List Nat) (fr : Frame),
    ∃ fr', forLoop 3 body rest fr w = (.normal, fr', w) ∧
      fr'.n 2 = (subIovsOffset rest (fr.n 1) (fr.n 2)).1 ∧ fr'.n 1 = (subIovsOffset rest (fr.n 1) (fr.n 2)).2 := by
  intro rest
  induction rest with
  | nil => intro fr; exact ⟨fr, by simp [forLoop, subIovsOffset]⟩
  | cons len rest ih =>
    intro fr
    simp only [forLoop, hb, upd_apply]
    by_cases h : len ≤ fr.n 1
    · simp [h]
      obtain ⟨fr', h1, h2, h3⟩ := ih { fr with n := upd (upd (upd fr.n 3 len) 1 (fr.n 1 - len)) 2 (fr.n 2 + 1) }
      refine ⟨fr', h1, ?_⟩
      simp [subIovsOffset, h] at h2 h3 ⊢
      exact ⟨h2, h3⟩
    · simp [h, subIovsOffset]

/-- the whole function: `iov_lens` = list slot 0, `skip_size` = slot 0 -/
theorem get_sub_iovs_offset_exec {σ : Type} (env : Env σ) (F : Nat) (fr : Frame) (w : World σ) :
    ∃ fr', exec env GetSubIovsOffset.fnBody F fr w =
      (.done (.ok { nats := [(subIovsOffset (fr.l 0) (fr.n 0) 0).1, (subIovsOffset (fr.l 0) (fr.n 0) 0).2] }), fr', w) := by
  obtain ⟨fr', h1, h2, h3⟩ := forLoop_gsio (fun fr w => exec env GetSubIovsOffset.forBody F fr w) (gsio_forBody env F) w (fr.l 0)
    { fr with n := upd (upd fr.n 1 (fr.n 0)) 2 0 }
  refine ⟨fr', ?_⟩
  simp [GetSubIovsOffset.fnBody, exec, evalE, evalEs, evalF] at h1 h2 h3 ⊢
  rw [h1]
  simp [h2, h3]

/-- the call `let (nr_skip, offset) = get_sub_iovs_offset(&iov_lens, e)` as one step -/
theorem exec_call_gsio {σ : Type} (env : Env σ) (nm : String) (e : Expr) (l r : Var) (F : Nat) (fr : Frame) (w : World σ) :
    exec env (.call nm GetSubIovsOffset.fnBody [(GetSubIovsOffset.skip_size, e)] [(GetSubIovsOffset.iov_lens, l)] [] [] r) F fr w =
      match evalE env fr e with
      | some p => (.normal, { fr with r := upd fr.r r.id (.ok { nats := [(subIovsOffset (fr.l l.id) p 0).1, (subIovsOffset (fr.l l.id) p 0).2] }) }, w)
      | none => (.stuck .fault, fr, w) := by
  cases he : evalE env fr e with
  | none => simp [exec, bindArgsN, he]
  | some p =>
    simp only [exec, bindArgsN, bindArgsIo, bindArgsL, bindArgsF, he]
    obtain ⟨fr', h⟩ := get_sub_iovs_offset_exec env F
      { n := upd (fun _ => 0) GetSubIovsOffset.skip_size.id p, l := upd (fun _ => []) GetSubIovsOffset.iov_lens.id (fr.l l.id),
        f := fun _ => none, io := fun _ => {} } w
    rw [h]
    simp

/-- `for len in &iov_lens { data_total += len }` with `data_total` = slot 1, `len` = slot 2 -/
theorem forLoop_sum {σ : Type} (body : Frame → World σ → Res σ)
    (hb : ∀ fr w, body fr w = (.normal, { fr with n := upd fr.n 1 (fr.n 1 + fr.n 2) }, w)) (w : World σ) :
    ∀ (lens : List Nat) (fr : Frame),
      ∃ fr', forLoop 2 body lens fr w = (.normal, fr', w) ∧ fr'.n 1 = fr.n 1 + lens.sum ∧
        (∀ j, j ≠ 1 → j ≠ 2 → fr'.n j = fr.n j) ∧ fr'.l = fr.l ∧ fr'.f = fr.f ∧ fr'.io = fr.io ∧ fr'.b = fr.b ∧ fr'.r = fr.r := by
  intro lens
  induction lens with
  | nil => intro fr; exact ⟨fr, by simp [forLoop]⟩
  | cons x xs ih =>
    intro fr
    simp only [forLoop, hb]
    obtain ⟨fr', h1, h2, h3, h4⟩ := ih { fr with n := upd (upd fr.n 2 x) 1 (upd fr.n 2 x 1 + upd fr.n 2 x 2) }
    refine ⟨fr', h1, ?_, ?_, h4⟩
    · rw [h2]; simp; omega
    · intro j hj1 hj2; rw [h3 j hj1 hj2]; simp [hj1, hj2]

/-- the pieces left after cutting `o` bytes into piece `k` add up to the total minus the position -/
theorem suffix_sum (lens : List Nat) (k o : Nat) (hk : k < lens.length) (ho : o ≤ lens.getD k 0) :
    ((lens.getD k 0 - o) :: lens.drop (k + 1)).sum = lens.sum - ((lens.take k).sum + o) := by
  have h := List.take_append_drop k lens
  have h2 : lens.drop k = lens.getD k 0 :: lens.drop (k + 1) := by
    rw [List.getD_eq_getElem?_getD, List.getElem?_eq_getElem hk]
    simp
  have h3 : lens.sum = (lens.take k).sum + (lens.getD k 0 + (lens.drop (k + 1)).sum) := by
    conv => lhs; rw [← h, List.sum_append, h2, List.sum_cons]
  simp only [List.sum_cons]
  omega

end Lemmas.ConnSub
