import VhostModel.Model.Worker
/-! Invariants of `Model.Worker` (all configurations) used by Props/C12. -/
namespace Lemmas.Worker
open Model.Worker Spec.KickDelivery

/-- the control thread is inside a disabling message, past its state change -/
def afterDisable (s : St) : Prop := ∃ m k, s.cpc = .inMsg m (k + 1) ∧ m.disables = true
/-- … inside GET_VRING_BASE, past `set_queue_ready(false)` -/
def afterStop (s : St) : Prop := ∃ k, s.cpc = .inMsg .stop (k + 1)

/-- group A: the disable/reset half of P1 -/
structure InvA (s : St) : Prop where
  a1 : (period s.trace).forbD = true ∨ afterDisable s → s.enabled = false
  a2 : s.wpc = .toDispatch → s.rdStale = true ∨ s.enabled = true
  a3 : ∀ k, s.cpc = .inMsg .enable k → (period s.trace).forbD = false
  g : ∀ fd fs rs cs, GRec.disp fd fs rs cs ∈ s.glog → fd = true → rs = true

theorem period_emit (s : St) (e : Ev) : period (emit s e).trace = (period s.trace).next e := by
  simp [emit, period_append]

@[simp] theorem epollUpdate_cfg (s : St) : (epollUpdate s).cfg = s.cfg := by
  unfold epollUpdate; split <;> rfl
@[simp] theorem epollUpdate_ready (s : St) : (epollUpdate s).ready = s.ready := by
  unfold epollUpdate; split <;> rfl
@[simp] theorem epollUpdate_enabled (s : St) : (epollUpdate s).enabled = s.enabled := by
  unfold epollUpdate; split <;> rfl
@[simp] theorem epollUpdate_kick (s : St) : (epollUpdate s).kick = s.kick := by
  unfold epollUpdate; split <;> rfl
@[simp] theorem epollUpdate_cnt (s : St) : (epollUpdate s).cnt = s.cnt := by
  unfold epollUpdate; split <;> rfl
@[simp] theorem epollUpdate_next (s : St) : (epollUpdate s).next = s.next := by
  unfold epollUpdate; split <;> rfl
@[simp] theorem epollUpdate_wpc (s : St) : (epollUpdate s).wpc = s.wpc := by
  unfold epollUpdate; split <;> rfl
@[simp] theorem epollUpdate_cpc (s : St) : (epollUpdate s).cpc = s.cpc := by
  unfold epollUpdate; split <;> rfl
@[simp] theorem epollUpdate_trace (s : St) : (epollUpdate s).trace = s.trace := by
  unfold epollUpdate; split <;> rfl
@[simp] theorem epollUpdate_rdStale (s : St) : (epollUpdate s).rdStale = s.rdStale := by
  unfold epollUpdate; split <;> rfl
@[simp] theorem epollUpdate_chkStale (s : St) : (epollUpdate s).chkStale = s.chkStale := by
  unfold epollUpdate; split <;> rfl
@[simp] theorem epollUpdate_clean (s : St) : (epollUpdate s).clean = s.clean := by
  unfold epollUpdate; split <;> rfl
@[simp] theorem epollUpdate_glog (s : St) : (epollUpdate s).glog = s.glog := by
  unfold epollUpdate; split <;> rfl
@[simp] theorem unregKick_cfg (s : St) : (unregKick s).cfg = s.cfg := by
  unfold unregKick; split <;> rfl
@[simp] theorem unregKick_ready (s : St) : (unregKick s).ready = s.ready := by
  unfold unregKick; split <;> rfl
@[simp] theorem unregKick_enabled (s : St) : (unregKick s).enabled = s.enabled := by
  unfold unregKick; split <;> rfl
@[simp] theorem unregKick_kick (s : St) : (unregKick s).kick = s.kick := by
  unfold unregKick; split <;> rfl
@[simp] theorem unregKick_cnt (s : St) : (unregKick s).cnt = s.cnt := by
  unfold unregKick; split <;> rfl
@[simp] theorem unregKick_next (s : St) : (unregKick s).next = s.next := by
  unfold unregKick; split <;> rfl
@[simp] theorem unregKick_wpc (s : St) : (unregKick s).wpc = s.wpc := by
  unfold unregKick; split <;> rfl
@[simp] theorem unregKick_cpc (s : St) : (unregKick s).cpc = s.cpc := by
  unfold unregKick; split <;> rfl
@[simp] theorem unregKick_trace (s : St) : (unregKick s).trace = s.trace := by
  unfold unregKick; split <;> rfl
@[simp] theorem unregKick_rdStale (s : St) : (unregKick s).rdStale = s.rdStale := by
  unfold unregKick; split <;> rfl
@[simp] theorem unregKick_chkStale (s : St) : (unregKick s).chkStale = s.chkStale := by
  unfold unregKick; split <;> rfl
@[simp] theorem unregKick_clean (s : St) : (unregKick s).clean = s.clean := by
  unfold unregKick; split <;> rfl
@[simp] theorem unregKick_glog (s : St) : (unregKick s).glog = s.glog := by
  unfold unregKick; split <;> rfl

/-! ## group A: disable/reset half of P1 -/

theorem invA_kick {s : St} (h : InvA s) (d : Evt) (s' : St) (hs : step s (.kick d) = some s') : InvA s' := by
  simp only [step, Option.some.injEq] at hs
  subst hs
  obtain ⟨a1, a2, a3, g⟩ := h
  refine ⟨?_, ?_, ?_, ?_⟩
  · simpa [emit, period_append, Period.next, afterDisable] using a1
  · simpa [emit] using a2
  · simpa [emit, period_append, Period.next] using a3
  · simpa [emit] using g

theorem invA_send {s : St} (h : InvA s) (m : CMsg) (s' : St) (hs : step s (.send m) = some s') : InvA s' := by
  simp only [step] at hs
  cases hc : s.cpc with
  | inMsg m' k => simp [hc] at hs
  | idle =>
    simp only [hc, Option.some.injEq] at hs
    subst hs
    obtain ⟨a1, a2, a3, g⟩ := h
    have hnd : ¬ afterDisable s := by
      rintro ⟨m', k, h1, _⟩; rw [hc] at h1; cases h1
    refine ⟨?_, ?_, ?_, ?_⟩
    · intro h'
      cases m <;> simp_all [emit, period_append, Period.next, afterDisable]
    · simpa [emit] using a2
    · intro k h'
      cases m <;> simp_all [emit, period_append, Period.next]
    · simpa [emit] using g

theorem invA_w {s : St} (h : InvA s) (s' : St) (hs : step s .w = some s') : InvA s' := by
  obtain ⟨a1, a2, a3, g⟩ := h
  simp only [step, wStep] at hs
  cases hw : s.wpc with
  | dead => simp [hw] at hs
  | wait =>
    simp only [hw, Option.some.injEq] at hs
    subst hs
    refine ⟨?_, ?_, ?_, ?_⟩ <;> split <;> simp_all [afterDisable]
  | woken =>
    simp only [hw, Option.some.injEq] at hs
    subst hs
    refine ⟨?_, ?_, ?_, ?_⟩ <;> split <;> simp_all [afterDisable]
  | checked =>
    simp only [hw] at hs
    split at hs
    · simp only [Option.some.injEq] at hs; subst hs
      refine ⟨?_, ?_, ?_, ?_⟩ <;> simp_all [afterDisable]
    · split at hs
      · split at hs
        · split at hs
          · simp only [Option.some.injEq] at hs; subst hs
            refine ⟨?_, ?_, ?_, ?_⟩ <;> simp_all [afterDisable]
          · simp only [Option.some.injEq] at hs; subst hs
            refine ⟨?_, ?_, ?_, ?_⟩ <;> simp_all [afterDisable, emit, period_append, Period.next]
        · split at hs
          · simp only [Option.some.injEq] at hs; subst hs
            refine ⟨?_, ?_, ?_, ?_⟩ <;> simp_all [afterDisable, emit, period_append, Period.next]
          · simp only [Option.some.injEq] at hs; subst hs
            refine ⟨?_, ?_, ?_, ?_⟩ <;> simp_all [afterDisable, emit, period_append, Period.next]
      · split at hs
        · simp only [Option.some.injEq] at hs; subst hs
          refine ⟨?_, ?_, ?_, ?_⟩ <;> simp_all [afterDisable]
        · simp only [Option.some.injEq] at hs; subst hs
          refine ⟨?_, ?_, ?_, ?_⟩ <;> simp_all [afterDisable]
  | toDispatch =>
    simp only [hw, Option.some.injEq] at hs
    subst hs
    refine ⟨?_, ?_, ?_, ?_⟩
    · simpa [emit, period_append, Period.next, afterDisable] using a1
    · simp [emit]
    · simpa [emit, period_append, Period.next] using a3
    · intro fd fs rs cs hm hfd
      simp only [emit, List.mem_append, List.mem_singleton] at hm
      rcases hm with hm | hm
      · exact g fd fs rs cs hm hfd
      · cases hm
        have := a1 (Or.inl hfd)
        rcases a2 hw with h2 | h2
        · exact h2
        · rw [this] at h2; cases h2

theorem invA_c {s : St} (h : InvA s) (s' : St) (hs : step s .c = some s') : InvA s' := by
  obtain ⟨a1, a2, a3, g⟩ := h
  simp only [step, cStep] at hs
  cases hc : s.cpc with
  | idle => simp [hc] at hs
  | inMsg m k =>
    simp only [hc] at hs
    split at hs <;> cases hs <;>
      (refine ⟨?_, ?_, ?_, ?_⟩ <;>
        simp_all [afterDisable, noteDisable, noteStop, reply, emit, period_append, Period.next, CMsg.disables] <;>
        (try (intro h; rcases h with h | ⟨m, ⟨rfl, _⟩, h⟩ <;> simp_all)))

/-! ## group B: stop half of P1 -/

structure InvB (s : St) : Prop where
  b1 : (period s.trace).forbS = true ∨ afterStop s → s.ready = false
  b2 : s.cfg.fixStopped = true → (s.wpc = .checked ∨ s.wpc = .toDispatch) → s.chkStale = true ∨ s.ready = true
  b3 : ∀ k, s.cpc = .inMsg .restart k → (period s.trace).forbS = false
  g : ∀ fd fs rs cs, GRec.disp fd fs rs cs ∈ s.glog → s.cfg.fixStopped = true → fs = true → cs = true
  /-- the `set_queue_ready(true)` segment of a descriptor-less SET_VRING_KICK exists only in the mutated code -/
  b4 : s.cpc ≠ .inMsg .nofd 1

theorem invB_kick {s : St} (h : InvB s) (d : Evt) (s' : St) (hs : step s (.kick d) = some s') : InvB s' := by
  simp only [step, Option.some.injEq] at hs
  subst hs
  obtain ⟨b1, b2, b3, g, b4⟩ := h
  refine ⟨?_, ?_, ?_, ?_, ?_⟩
  · simpa [emit, period_append, Period.next, afterStop] using b1
  · simpa [emit] using b2
  · simpa [emit, period_append, Period.next] using b3
  · simpa [emit] using g
  · simpa [emit] using b4

theorem invB_send {s : St} (h : InvB s) (m : CMsg) (s' : St) (hs : step s (.send m) = some s') : InvB s' := by
  simp only [step] at hs
  cases hc : s.cpc with
  | inMsg m' k => simp [hc] at hs
  | idle =>
    simp only [hc, Option.some.injEq] at hs
    subst hs
    obtain ⟨b1, b2, b3, g, b4⟩ := h
    refine ⟨?_, ?_, ?_, ?_, ?_⟩
    · intro h'
      cases m <;> simp_all [emit, period_append, Period.next, afterStop]
    · simpa [emit] using b2
    · intro k h'
      cases m <;> simp_all [emit, period_append, Period.next]
    · simpa [emit] using g
    · simp [emit]

theorem invB_w {s : St} (h : InvB s) (s' : St) (hs : step s .w = some s') : InvB s' := by
  obtain ⟨b1, b2, b3, g, b4⟩ := h
  simp only [step, wStep] at hs
  cases hw : s.wpc with
  | dead => simp [hw] at hs
  | wait =>
    simp only [hw, Option.some.injEq] at hs
    subst hs
    refine ⟨?_, ?_, ?_, ?_, ?_⟩ <;> split <;> simp_all [afterStop]
  | woken =>
    simp only [hw, Option.some.injEq] at hs
    subst hs
    refine ⟨?_, ?_, ?_, ?_, ?_⟩ <;> split <;> simp_all [afterStop]
  | checked =>
    simp only [hw] at hs
    split at hs
    · simp only [Option.some.injEq] at hs; subst hs
      refine ⟨?_, ?_, ?_, ?_, ?_⟩ <;> simp_all [afterStop]
    · split at hs
      · split at hs
        · split at hs
          · simp only [Option.some.injEq] at hs; subst hs
            refine ⟨?_, ?_, ?_, ?_, ?_⟩ <;> simp_all [afterStop]
          · simp only [Option.some.injEq] at hs; subst hs
            refine ⟨?_, ?_, ?_, ?_, ?_⟩ <;> simp_all [afterStop, emit, period_append, Period.next]
        · split at hs
          · simp only [Option.some.injEq] at hs; subst hs
            refine ⟨?_, ?_, ?_, ?_, ?_⟩ <;> simp_all [afterStop, emit, period_append, Period.next]
          · simp only [Option.some.injEq] at hs; subst hs
            refine ⟨?_, ?_, ?_, ?_, ?_⟩ <;> simp_all [afterStop, emit, period_append, Period.next]
      · split at hs
        · simp only [Option.some.injEq] at hs; subst hs
          refine ⟨?_, ?_, ?_, ?_, ?_⟩ <;> simp_all [afterStop]
        · simp only [Option.some.injEq] at hs; subst hs
          refine ⟨?_, ?_, ?_, ?_, ?_⟩ <;> simp_all [afterStop]
  | toDispatch =>
    simp only [hw, Option.some.injEq] at hs
    subst hs
    refine ⟨?_, ?_, ?_, ?_, ?_⟩
    · simpa [emit, period_append, Period.next, afterStop] using b1
    · simp [emit]
    · simpa [emit, period_append, Period.next] using b3
    · intro fd fs rs cs hm hcfg hfs
      simp only [emit, List.mem_append, List.mem_singleton] at hm
      rcases hm with hm | hm
      · exact g fd fs rs cs hm hcfg hfs
      · cases hm
        have := b1 (Or.inl hfs)
        rcases b2 hcfg (Or.inr hw) with h2 | h2
        · exact h2
        · rw [this] at h2; cases h2
    · simpa [emit] using b4

/-- needs the unmutated guard of `set_vring_kick` (`nofdStarts = false`): with the mutation a descriptor-less
SET_VRING_KICK sets `ready` inside the forbidden period of a stop (`b1` fails) -/
theorem invB_c {s : St} (h : InvB s) (hm : s.cfg.nofdStarts = false) (s' : St) (hs : step s .c = some s') : InvB s' := by
  obtain ⟨b1, b2, b3, g, b4⟩ := h
  simp only [step, cStep] at hs
  cases hc : s.cpc with
  | idle => simp [hc] at hs
  | inMsg m k =>
    simp only [hc] at hs
    split at hs <;> cases hs <;>
      (refine ⟨?_, ?_, ?_, ?_, ?_⟩ <;>
        simp_all [afterStop, noteDisable, noteStop, reply, emit, period_append, Period.next, CMsg.disables] <;>
        (try (intro _ h; rcases h with h | h <;> simp [h])))

/-! ## group C: no wake-up consumed without a handler call -/

structure InvC (s : St) : Prop where
  c1 : (s.wpc = .woken ∨ s.wpc = .checked) → s.clean = true → s.enabled = true
  c2 : ∀ d, s.reg d = true → s.enabled = true ∨ pendingDel s = true
  c3 : ∀ d, s.reg d = true → s.kick = some d
  c4 : s.cpc = .inMsg .stop 2 → ∀ d, s.reg d = false
  c5 : ∀ d, s.kick = some d → d < s.next
  c6 : afterStop s → s.ready = false
  c7 : afterDisable s → s.enabled = false
  g : ∀ c, GRec.dropped c ∈ s.glog → c = false

theorem readyAny_reg {s : St} (h : readyAny s = true) : ∃ d, s.reg d = true := by
  unfold readyAny at h
  obtain ⟨d, _, hd⟩ := List.any_eq_true.1 h
  simp only [Bool.and_eq_true] at hd
  exact ⟨d, hd.1⟩

/-- a step that leaves ring state, registrations and the control thread alone -/
theorem InvC.of_eq {s t : St} (h : InvC s)
    (hw : (t.wpc = .woken ∨ t.wpc = .checked) → t.clean = true → t.enabled = true)
    (e1 : t.reg = s.reg) (e2 : t.enabled = s.enabled) (e3 : t.cpc = s.cpc) (e4 : t.kick = s.kick)
    (e5 : t.next = s.next) (e6 : t.ready = s.ready) (hg : ∀ c, GRec.dropped c ∈ t.glog → c = false) : InvC t := by
  obtain ⟨c1, c2, c3, c4, c5, c6, c7, g⟩ := h
  refine ⟨hw, ?_, ?_, ?_, ?_, ?_, ?_, hg⟩
  · intro d hd; rw [e1] at hd; have := c2 d hd; simpa [pendingDel, e2, e3] using this
  · intro d hd; rw [e1] at hd; rw [e4]; exact c3 d hd
  · intro hc; rw [e3] at hc; rw [e1]; exact c4 hc
  · intro d hd; rw [e4] at hd; rw [e5]; exact c5 d hd
  · intro ha; rw [e6]; apply c6; simpa [afterStop, e3] using ha
  · intro ha; rw [e2]; apply c7; simpa [afterDisable, e3] using ha

theorem invC_kick {s : St} (h : InvC s) (d : Evt) (s' : St) (hs : step s (.kick d) = some s') : InvC s' := by
  simp only [step, Option.some.injEq] at hs
  subst hs
  exact h.of_eq h.c1 rfl rfl rfl rfl rfl rfl h.g

theorem invC_send {s : St} (h : InvC s) (m : CMsg) (s' : St) (hs : step s (.send m) = some s') : InvC s' := by
  simp only [step] at hs
  cases hc : s.cpc with
  | inMsg m' k => simp [hc] at hs
  | idle =>
    simp only [hc, Option.some.injEq] at hs
    subst hs
    obtain ⟨c1, c2, c3, c4, c5, c6, c7, g⟩ := h
    refine ⟨c1, ?_, c3, ?_, c5, ?_, ?_, g⟩
    · intro d hd
      have := c2 d hd
      simpa [emit, pendingDel, hc] using this
    · simp [emit]
    · simp [emit, afterStop]
    · simp [emit, afterDisable]

theorem invC_w {s : St} (h : InvC s) (s' : St) (hs : step s .w = some s') : InvC s' := by
  have hc1 := h.c1
  have hc2 := h.c2
  have hg := h.g
  simp only [step, wStep] at hs
  cases hw : s.wpc with
  | dead => simp [hw] at hs
  | wait =>
    simp only [hw, Option.some.injEq] at hs
    subst hs
    by_cases hr : readyAny s = true
    · simp only [hr, if_true]
      refine h.of_eq ?_ rfl rfl rfl rfl rfl rfl hg
      intro _ hcl
      simp only [Bool.not_eq_true'] at hcl
      obtain ⟨d, hd⟩ := readyAny_reg hr
      rcases hc2 d hd with h2 | h2
      · exact h2
      · rw [hcl] at h2; cases h2
    · simp only [hr, Bool.false_eq_true, if_false]
      exact h
  | woken =>
    simp only [hw, Option.some.injEq] at hs
    subst hs
    split
    · exact h.of_eq (by simp) rfl rfl rfl rfl rfl rfl hg
    · exact h.of_eq (fun _ hcl => hc1 (Or.inl hw) hcl) rfl rfl rfl rfl rfl rfl hg
  | checked =>
    simp only [hw] at hs
    split at hs
    · cases hs
      exact h.of_eq (by simp) rfl rfl rfl rfl rfl rfl hg
    · split at hs
      · split at hs
        · split at hs
          · cases hs
            exact h.of_eq (by simp) rfl rfl rfl rfl rfl rfl hg
          · cases hs
            exact h.of_eq (by simp [emit]) rfl rfl rfl rfl rfl rfl hg
        · split at hs
          · cases hs
            exact h.of_eq (by simp [emit]) rfl rfl rfl rfl rfl rfl hg
          · rename_i hen
            cases hs
            refine h.of_eq (by simp [emit]) rfl rfl rfl rfl rfl rfl ?_
            intro c hc
            simp only [emit, List.mem_append, List.mem_singleton] at hc
            rcases hc with hc | hc
            · exact hg c hc
            · cases hc
              cases hcl : s.clean with
              | false => rfl
              | true => exact absurd (hc1 (Or.inr hw) hcl) hen
      · split at hs
        · cases hs
          exact h.of_eq (by simp) rfl rfl rfl rfl rfl rfl hg
        · cases hs
          exact h.of_eq (by simp) rfl rfl rfl rfl rfl rfl hg
  | toDispatch =>
    simp only [hw, Option.some.injEq] at hs
    subst hs
    refine h.of_eq (by simp [emit]) rfl rfl rfl rfl rfl rfl ?_
    intro c hc
    simp only [emit, List.mem_append, List.mem_singleton] at hc
    rcases hc with hc | hc
    · exact hg c hc
    · cases hc

/-- `epollUpdate` when the new registration value is known -/
theorem epollUpdate_reg (s : St) (d : Evt) :
    (epollUpdate s).reg d = match s.kick with
      | some fd => if d = fd then (s.ready && s.enabled) else s.reg d
      | none => s.reg d := by
  unfold epollUpdate
  cases s.kick with
  | none => rfl
  | some fd => simp [upd]

theorem unregKick_reg_false {s : St} (h : InvC s) (d : Evt) : (unregKick s).reg d = false := by
  unfold unregKick
  cases hk : s.kick with
  | none =>
    cases hr : s.reg d with
    | false => rfl
    | true => have := h.c3 d hr; rw [hk] at this; cases this
  | some k =>
    show upd s.reg k false d = false
    by_cases hd : d = k
    · simp [upd, hd]
    · simp only [upd, hd, if_false]
      cases hr : s.reg d with
      | false => rfl
      | true =>
        have := h.c3 d hr; rw [hk] at this
        exact absurd (Option.some.inj this).symm hd

/-- after `epollUpdate` every registration is the current kick descriptor, and it is there only if ready ∧ enabled -/
theorem epollUpdate_props {s : St} (h : InvC s) (d : Evt) (hd : (epollUpdate s).reg d = true) :
    s.kick = some d ∧ s.ready = true ∧ s.enabled = true := by
  rw [epollUpdate_reg] at hd
  cases hk : s.kick with
  | none =>
    simp only [hk] at hd
    have := h.c3 d hd; rw [hk] at this; cases this
  | some fd =>
    simp only [hk] at hd
    by_cases hdf : d = fd
    · subst hdf
      simp only [if_true, Bool.and_eq_true] at hd
      exact ⟨rfl, hd.1, hd.2⟩
    · simp only [hdf, if_false] at hd
      have := h.c3 d hd; rw [hk] at this
      exact absurd (Option.some.inj this).symm hdf

theorem invC_c {s : St} (h : InvC s) (s' : St) (hs : step s .c = some s') : InvC s' := by
  obtain ⟨c1, c2, c3, c4, c5, c6, c7, g⟩ := h
  have h0 : InvC s := ⟨c1, c2, c3, c4, c5, c6, c7, g⟩
  simp only [step, cStep] at hs
  cases hc : s.cpc with
  | idle => simp [hc] at hs
  | inMsg m k =>
    simp only [hc] at hs
    split at hs <;> cases hs
    -- disable 0
    · refine ⟨?_, ?_, c3, ?_, c5, ?_, ?_, g⟩
      · intro hw hcl
        simp only [noteDisable, Bool.and_eq_true, Bool.not_eq_true', Bool.or_eq_false_iff, decide_eq_false_iff_not] at hcl hw
        rcases hw with hw | hw
        · exact absurd hw hcl.2.1
        · exact absurd hw hcl.2.2
      · intro d _; right; simp [noteDisable, pendingDel, CMsg.disables]
      · simp [noteDisable]
      · simp [noteDisable, afterStop]
      · intro _; simp [noteDisable]
    -- reset 0
    · refine ⟨?_, ?_, c3, ?_, c5, ?_, ?_, g⟩
      · intro hw hcl
        simp only [noteDisable, Bool.and_eq_true, Bool.not_eq_true', Bool.or_eq_false_iff, decide_eq_false_iff_not] at hcl hw
        rcases hw with hw | hw
        · exact absurd hw hcl.2.1
        · exact absurd hw hcl.2.2
      · intro d _; right; simp [noteDisable, pendingDel, CMsg.disables]
      · simp [noteDisable]
      · simp [noteDisable, afterStop]
      · intro _; simp [noteDisable]
    -- enable 0
    · refine ⟨fun _ _ => rfl, fun _ _ => Or.inl rfl, c3, by simp, c5, by simp [afterStop], ?_, g⟩
      rintro ⟨m', k', h1, h2⟩
      simp only [CPc.inMsg.injEq] at h1
      rw [← h1.1] at h2; simp [CMsg.disables] at h2
    -- disable 1
    · have hen : s.enabled = false := c7 ⟨.disable, 0, hc, rfl⟩
      refine ⟨by simpa using c1, ?_, ?_, by simp, by simpa using c5, by simp [afterStop], ?_, by simpa using g⟩
      · intro d hd
        have := epollUpdate_props h0 d hd
        rw [hen] at this; exact absurd this.2.2 (by simp)
      · intro d hd; simpa using (epollUpdate_props h0 d hd).1
      · intro _; simpa using hen
    -- reset 1
    · have hen : s.enabled = false := c7 ⟨.reset, 0, hc, rfl⟩
      refine ⟨by simpa using c1, ?_, ?_, by simp, by simpa using c5, by simp [afterStop], ?_, by simpa using g⟩
      · intro d hd
        have := epollUpdate_props h0 d hd
        rw [hen] at this; exact absurd this.2.2 (by simp)
      · intro d hd; simpa using (epollUpdate_props h0 d hd).1
      · intro _; simpa using hen
    -- enable 1
    · refine ⟨by simpa using c1, ?_, ?_, by simp, by simpa using c5, by simp [afterStop], ?_, by simpa using g⟩
      · intro d hd; left; simpa using (epollUpdate_props h0 d hd).2.2
      · intro d hd; simpa using (epollUpdate_props h0 d hd).1
      · rintro ⟨m', k', h1, h2⟩
        simp only [CPc.inMsg.injEq] at h1
        rw [← h1.1] at h2; simp [CMsg.disables] at h2
    -- disable 2 (reply)
    · refine ⟨c1, ?_, c3, by simp [reply, emit], c5, by simp [reply, emit, afterStop], by simp [reply, emit, afterDisable], g⟩
      intro d hd
      have := c2 d hd
      simpa [pendingDel, hc, reply, emit] using this
    -- reset 2
    · refine ⟨c1, ?_, c3, by simp [reply, emit], c5, by simp [reply, emit, afterStop], by simp [reply, emit, afterDisable], g⟩
      intro d hd
      have := c2 d hd
      simpa [pendingDel, hc, reply, emit] using this
    -- enable 2
    · refine ⟨c1, ?_, c3, by simp [reply, emit], c5, by simp [reply, emit, afterStop], by simp [reply, emit, afterDisable], g⟩
      intro d hd
      have := c2 d hd
      simpa [pendingDel, hc, reply, emit] using this
    -- stop 0
    · refine ⟨c1, ?_, c3, by simp [noteStop], c5, fun _ => rfl, ?_, g⟩
      · intro d hd
        have := c2 d hd
        simpa [pendingDel, hc, noteStop, CMsg.disables] using this
      · rintro ⟨m', k', h1, h2⟩
        simp only [noteStop, CPc.inMsg.injEq] at h1
        rw [← h1.1] at h2; simp [CMsg.disables] at h2
    -- stop 1
    · have hrd : s.ready = false := c6 ⟨0, hc⟩
      have hall : ∀ d, (epollUpdate s).reg d = false := by
        intro d
        cases hr : (epollUpdate s).reg d with
        | false => rfl
        | true => have := (epollUpdate_props h0 d hr).2.1; rw [hrd] at this; cases this
      refine ⟨by simpa using c1, ?_, ?_, fun _ => hall, by simpa using c5, ?_, ?_, by simpa using g⟩
      · intro d hd; rw [hall d] at hd; cases hd
      · intro d hd; rw [hall d] at hd; cases hd
      · intro _; simpa using hrd
      · rintro ⟨m', k', h1, h2⟩
        simp only [CPc.inMsg.injEq] at h1
        rw [← h1.1] at h2; simp [CMsg.disables] at h2
    -- stop 2
    · have hall := c4 hc
      refine ⟨c1, ?_, ?_, by simp, by simp, ?_, ?_, g⟩
      · intro d hd; rw [hall d] at hd; cases hd
      · intro d hd; rw [hall d] at hd; cases hd
      · intro _; exact c6 ⟨1, hc⟩
      · rintro ⟨m', k', h1, h2⟩
        simp only [CPc.inMsg.injEq] at h1
        rw [← h1.1] at h2; simp [CMsg.disables] at h2
    -- stop 3 (reply)
    · refine ⟨c1, ?_, c3, by simp [reply, emit], c5, by simp [reply, emit, afterStop], by simp [reply, emit, afterDisable], g⟩
      intro d hd
      have := c2 d hd
      simpa [pendingDel, hc, reply, emit] using this
    -- restart 0
    · have hall := unregKick_reg_false h0
      refine ⟨by simpa using c1, ?_, ?_, ?_, ?_, ?_, ?_, by simpa using g⟩
      · intro d hd; simp only at hd; rw [hall d] at hd; cases hd
      · intro d hd; simp only at hd; rw [hall d] at hd; cases hd
      · intro h1; simp only [CPc.inMsg.injEq] at h1; cases h1.1
      · intro d hd
        simp only [Option.some.injEq] at hd
        subst hd; exact Nat.lt_succ_self _
      · rintro ⟨k', h1⟩; simp only [CPc.inMsg.injEq] at h1; cases h1.1
      · rintro ⟨m', k', h1, h2⟩
        simp only [CPc.inMsg.injEq] at h1
        rw [← h1.1] at h2; simp [CMsg.disables] at h2
    -- restart 1
    · refine ⟨c1, ?_, c3, by simp, c5, ?_, ?_, g⟩
      · intro d hd
        have := c2 d hd
        simpa [pendingDel, hc, CMsg.disables] using this
      · rintro ⟨k', h1⟩; simp only [CPc.inMsg.injEq] at h1; cases h1.1
      · rintro ⟨m', k', h1, h2⟩
        simp only [CPc.inMsg.injEq] at h1
        rw [← h1.1] at h2; simp [CMsg.disables] at h2
    -- restart 2
    · refine ⟨by simpa using c1, ?_, ?_, by simp, by simpa using c5, ?_, ?_, by simpa using g⟩
      · intro d hd; left; simpa using (epollUpdate_props h0 d hd).2.2
      · intro d hd; simpa using (epollUpdate_props h0 d hd).1
      · rintro ⟨k', h1⟩; simp only [CPc.inMsg.injEq] at h1; cases h1.1
      · rintro ⟨m', k', h1, h2⟩
        simp only [CPc.inMsg.injEq] at h1
        rw [← h1.1] at h2; simp [CMsg.disables] at h2
    -- restart 3 (reply)
    · refine ⟨c1, ?_, c3, by simp [reply, emit], c5, by simp [reply, emit, afterStop], by simp [reply, emit, afterDisable], g⟩
      intro d hd
      have := c2 d hd
      simpa [pendingDel, hc, reply, emit] using this
    -- nofd 0: the current descriptor leaves the epoll set, the ring has no kick descriptor
    · have hall := unregKick_reg_false h0
      refine ⟨by simpa using c1, ?_, ?_, ?_, ?_, ?_, ?_, by simpa using g⟩
      · intro d hd; simp only at hd; rw [hall d] at hd; cases hd
      · intro d hd; simp only at hd; rw [hall d] at hd; cases hd
      · intro h1; simp only [CPc.inMsg.injEq] at h1; cases h1.1
      · intro d hd; simp at hd
      · rintro ⟨k', h1⟩; simp only [CPc.inMsg.injEq] at h1; cases h1.1
      · rintro ⟨m', k', h1, h2⟩
        simp only [CPc.inMsg.injEq] at h1
        rw [← h1.1] at h2; simp [CMsg.disables] at h2
    -- nofd 1 (mutated guard only)
    · refine ⟨c1, ?_, c3, by simp, c5, ?_, ?_, g⟩
      · intro d hd
        have := c2 d hd
        simpa [pendingDel, hc, CMsg.disables] using this
      · rintro ⟨k', h1⟩; simp only [CPc.inMsg.injEq] at h1; cases h1.1
      · rintro ⟨m', k', h1, h2⟩
        simp only [CPc.inMsg.injEq] at h1
        rw [← h1.1] at h2; simp [CMsg.disables] at h2
    -- nofd 2
    · refine ⟨by simpa using c1, ?_, ?_, by simp, by simpa using c5, ?_, ?_, by simpa using g⟩
      · intro d hd; left; simpa using (epollUpdate_props h0 d hd).2.2
      · intro d hd; simpa using (epollUpdate_props h0 d hd).1
      · rintro ⟨k', h1⟩; simp only [CPc.inMsg.injEq] at h1; cases h1.1
      · rintro ⟨m', k', h1, h2⟩
        simp only [CPc.inMsg.injEq] at h1
        rw [← h1.1] at h2; simp [CMsg.disables] at h2
    -- nofd 3 (reply)
    · refine ⟨c1, ?_, c3, by simp [reply, emit], c5, by simp [reply, emit, afterStop], by simp [reply, emit, afterDisable], g⟩
      intro d hd
      have := c2 d hd
      simpa [pendingDel, hc, reply, emit] using this

/-! ## history and ghost log -/

/-- what one step does to the history and the ghost log -/
def TraceStep (s s' : St) : Prop :=
  s'.cfg = s.cfg ∧
  ((s'.trace = s.trace ∧ s'.glog = s.glog) ∨
   ∃ e, s'.trace = s.trace ++ [e] ∧ (∀ r, r ∈ s.glog → r ∈ s'.glog) ∧
     (e = .dispatch → ∃ rs cs, GRec.disp (period s.trace).forbD (period s.trace).forbS rs cs ∈ s'.glog) ∧
     (e = .consumed false → (∃ c, GRec.dropped c ∈ s'.glog) ∧ s.cfg.fixLost = false) ∧
     (e = .workerExit → s.cfg.fixEagain = false))

theorem step_trace {s s' : St} {l : Lbl} (hs : step s l = some s') : TraceStep s s' := by
  cases l with
  | kick d =>
    simp only [step, Option.some.injEq] at hs; subst hs
    exact ⟨rfl, Or.inr ⟨.kick d, rfl, fun _ h => h, by simp, by simp, by simp⟩⟩
  | send m =>
    simp only [step] at hs
    cases hc : s.cpc with
    | inMsg m' k => simp [hc] at hs
    | idle =>
      simp only [hc, Option.some.injEq] at hs; subst hs
      exact ⟨rfl, Or.inr ⟨.start m, rfl, fun _ h => h, by simp, by simp, by simp⟩⟩
  | w =>
    simp only [step, wStep] at hs
    cases hw : s.wpc with
    | dead => simp [hw] at hs
    | wait =>
      simp only [hw, Option.some.injEq] at hs; subst hs
      split <;> exact ⟨rfl, Or.inl ⟨rfl, rfl⟩⟩
    | woken =>
      simp only [hw, Option.some.injEq] at hs; subst hs
      split <;> exact ⟨rfl, Or.inl ⟨rfl, rfl⟩⟩
    | checked =>
      simp only [hw] at hs
      split at hs
      · cases hs; exact ⟨rfl, Or.inl ⟨rfl, rfl⟩⟩
      · rename_i hfl
        split at hs
        · split at hs
          · split at hs
            · cases hs; exact ⟨rfl, Or.inl ⟨rfl, rfl⟩⟩
            · rename_i hfe
              cases hs
              refine ⟨rfl, Or.inr ⟨.workerExit, rfl, fun _ h => h, by simp, by simp, ?_⟩⟩
              intro _; simpa using hfe
          · split at hs
            · cases hs
              exact ⟨rfl, Or.inr ⟨.consumed true, rfl, fun _ h => h, by simp, by simp, by simp⟩⟩
            · rename_i hen
              cases hs
              refine ⟨rfl, Or.inr ⟨.consumed false, rfl, ?_, by simp, ?_, by simp⟩⟩
              · intro r hr; simp [emit, hr]
              · intro _
                refine ⟨⟨s.clean, by simp [emit]⟩, ?_⟩
                have hen' : s.enabled = false := by simpa using hen
                simpa [hen'] using hfl
        · split at hs
          · cases hs; exact ⟨rfl, Or.inl ⟨rfl, rfl⟩⟩
          · cases hs; exact ⟨rfl, Or.inl ⟨rfl, rfl⟩⟩
    | toDispatch =>
      simp only [hw, Option.some.injEq] at hs; subst hs
      refine ⟨rfl, Or.inr ⟨.dispatch, rfl, ?_, ?_, by simp, by simp⟩⟩
      · intro r hr; simp [emit, hr]
      · intro _; exact ⟨s.rdStale, s.chkStale, by simp [emit]⟩
  | c =>
    simp only [step, cStep] at hs
    cases hc : s.cpc with
    | idle => simp [hc] at hs
    | inMsg m k =>
      simp only [hc] at hs
      split at hs <;> cases hs <;>
        first
          | exact ⟨by simp [noteDisable, noteStop], Or.inl ⟨by simp [noteDisable, noteStop], by simp [noteDisable, noteStop]⟩⟩
          | exact ⟨rfl, Or.inr ⟨.reply _, rfl, fun _ h => h, by simp, by simp, by simp⟩⟩

/-! ## all invariants along a run -/

/-- `b` (the stop half of P1) is an invariant of the code as it is — pinned or repaired — but not of the code with the
mutated guard of `set_vring_kick` (`Props.C12.nofd_kick_marks_ready_counterexample`) -/
structure Inv (s : St) : Prop where
  a : InvA s
  b : s.cfg.nofdStarts = false → InvB s
  c : InvC s

theorem inv_init (cfg : Cfg) : Inv (init cfg) := by
  refine ⟨⟨?_, ?_, ?_, ?_⟩, fun _ => ⟨?_, ?_, ?_, ?_, ?_⟩, ⟨?_, ?_, ?_, ?_, ?_, ?_, ?_, ?_⟩⟩ <;>
    simp [init, period, afterDisable, afterStop, pendingDel]

theorem inv_step {s s' : St} {l : Lbl} (h : Inv s) (hs : step s l = some s') : Inv s' := by
  have hcfg : s'.cfg = s.cfg := (step_trace hs).1
  cases l with
  | kick d => exact ⟨invA_kick h.a d s' hs, fun hm => invB_kick (h.b (hcfg ▸ hm)) d s' hs, invC_kick h.c d s' hs⟩
  | send m => exact ⟨invA_send h.a m s' hs, fun hm => invB_send (h.b (hcfg ▸ hm)) m s' hs, invC_send h.c m s' hs⟩
  | w => exact ⟨invA_w h.a s' hs, fun hm => invB_w (h.b (hcfg ▸ hm)) s' hs, invC_w h.c s' hs⟩
  | c => exact ⟨invA_c h.a s' hs, fun hm => invB_c (h.b (hcfg ▸ hm)) (hcfg ▸ hm) s' hs, invC_c h.c s' hs⟩

theorem inv_run {s s' : St} (h : Inv s) (ls : List Lbl) (hs : run s ls = some s') : Inv s' := by
  induction ls generalizing s with
  | nil => simp only [run, Option.some.injEq] at hs; subst hs; exact h
  | cons l ls ih =>
    simp only [run] at hs
    cases hst : step s l with
    | none => simp [hst] at hs
    | some s1 => simp only [hst] at hs; exact ih (inv_step h hst) hs

/-- the link between the history and the ghost log -/
structure Linked (cfg : Cfg) (s : St) : Prop where
  cfg_eq : s.cfg = cfg
  disp : ∀ pre post, s.trace = pre ++ Ev.dispatch :: post →
    ∃ rs cs, GRec.disp (period pre).forbD (period pre).forbS rs cs ∈ s.glog
  drop : Ev.consumed false ∈ s.trace → (∃ c, GRec.dropped c ∈ s.glog) ∧ cfg.fixLost = false
  exit : Ev.workerExit ∈ s.trace → cfg.fixEagain = false

theorem append_singleton_split {α : Type} (tr pre post : List α) (e x : α) (h : tr ++ [e] = pre ++ x :: post) :
    (post = [] ∧ e = x ∧ pre = tr) ∨ ∃ post', post = post' ++ [e] ∧ tr = pre ++ x :: post' := by
  rcases List.eq_nil_or_concat post with hp | ⟨post', y, hp⟩
  · subst hp
    have h' : tr ++ [e] = pre ++ [x] := h
    have := List.append_inj' h' rfl
    left
    exact ⟨rfl, by simpa using this.2, this.1.symm⟩
  · rw [List.concat_eq_append] at hp
    subst hp
    right
    have h' : tr ++ [e] = (pre ++ x :: post') ++ [y] := by simpa using h
    have := List.append_inj' h' rfl
    have hy : e = y := by simpa using this.2
    subst hy
    exact ⟨post', rfl, this.1⟩

theorem linked_init (cfg : Cfg) : Linked cfg (init cfg) := by
  refine ⟨rfl, ?_, ?_, ?_⟩
  · intro pre post h
    simp [init] at h
  · intro h; simp [init] at h
  · intro h; simp [init] at h

theorem linked_step {cfg : Cfg} {s s' : St} {l : Lbl} (h : Linked cfg s) (hs : step s l = some s') : Linked cfg s' := by
  obtain ⟨hcfg, hts⟩ := step_trace hs
  rcases hts with ⟨ht, hg⟩ | ⟨e, ht, hsub, hd, hc, hx⟩
  · refine ⟨hcfg.trans h.cfg_eq, ?_, ?_, ?_⟩
    · rw [ht, hg]; exact h.disp
    · rw [ht, hg]; exact h.drop
    · rw [ht]; exact h.exit
  · refine ⟨hcfg.trans h.cfg_eq, ?_, ?_, ?_⟩
    · intro pre post hsplit
      rw [ht] at hsplit
      rcases append_singleton_split _ _ _ _ _ hsplit with ⟨_, he, hpre⟩ | ⟨post', _, htr⟩
      · subst hpre; exact hd he
      · obtain ⟨rs, cs, hm⟩ := h.disp pre post' htr
        exact ⟨rs, cs, hsub _ hm⟩
    · intro hm
      rw [ht, List.mem_append, List.mem_singleton] at hm
      rcases hm with hm | hm
      · obtain ⟨⟨c, hc'⟩, hf⟩ := h.drop hm
        exact ⟨⟨c, hsub _ hc'⟩, hf⟩
      · have := hc hm.symm
        exact ⟨this.1, by rw [← h.cfg_eq]; exact this.2⟩
    · intro hm
      rw [ht, List.mem_append, List.mem_singleton] at hm
      rcases hm with hm | hm
      · exact h.exit hm
      · rw [← h.cfg_eq]; exact hx hm.symm

theorem linked_run {cfg : Cfg} {s s' : St} (h : Linked cfg s) (ls : List Lbl) (hs : run s ls = some s') : Linked cfg s' := by
  induction ls generalizing s with
  | nil => simp only [run, Option.some.injEq] at hs; subst hs; exact h
  | cons l ls ih =>
    simp only [run] at hs
    cases hst : step s l with
    | none => simp [hst] at hs
    | some s1 => simp only [hst] at hs; exact ih (linked_step h hst) hs

end Lemmas.Worker
