import VhostModel.Model.Frontend
import VhostModel.Spec.Proto
/-!
# decode ∘ encode = id, through the generated struct layouts

Toolkit for `Props.C02Reach`: a little-endian field written by the frontend (`leBytes w v` at the offset the
*generated* layout assigns to the field) is read back by `Model.Msgs.getField` as `v`, whenever `v` fits the
field.  One lemma per message struct; the offsets are obtained from `Gen.Layout.structs` by `decide`.
-/
namespace Lemmas.Encode
open Base Model.Msgs

/-! ## lists -/

theorem slice_mid {α : Type} (pre mid post : List α) :
    ((pre ++ mid ++ post).drop pre.length).take mid.length = mid := by
  simp [List.append_assoc]

theorem slice_mid' {α : Type} (pre mid post : List α) (off w : Nat) (ho : pre.length = off) (hw : mid.length = w) :
    ((pre ++ mid ++ post).drop off).take w = mid := by
  subst ho; subst hw; exact slice_mid pre mid post

theorem take_append_len {α : Type} (a b : List α) (n : Nat) (h : a.length = n) : (a ++ b).take n = a := by
  subst h; simp

theorem drop_append_len {α : Type} (a b : List α) (n : Nat) (h : a.length = n) : (a ++ b).drop n = b := by
  subst h; simp

/-! ## one field -/

/-- a field written as `leBytes w v` at its layout offset is read back as `v` -/
theorem getField_enc {s : String} {p : List String} {off w : Nat} (hf : fieldAt s p = some (off, w))
    (pre post : Bytes) (v : Nat) (hpre : pre.length = off) (hv : v < 256 ^ w) :
    getField (pre ++ leBytes w v ++ post) s p = some v := by
  unfold getField
  rw [hf]
  simp only
  have hl : off + w ≤ (pre ++ leBytes w v ++ post).length := by
    simp only [List.length_append, leBytes_length]; omega
  rw [if_pos hl, slice_mid' pre (leBytes w v) post off w hpre (leBytes_length w v), leVal_leBytes w v hv]

/-- any slice of the right length is read as its little-endian value -/
theorem getField_raw {s : String} {p : List String} {off w : Nat} (hf : fieldAt s p = some (off, w))
    (pre mid post : Bytes) (hpre : pre.length = off) (hm : mid.length = w) :
    getField (pre ++ mid ++ post) s p = some (leVal mid) := by
  unfold getField
  rw [hf]
  simp only
  have hl : off + w ≤ (pre ++ mid ++ post).length := by
    simp only [List.length_append]; omega
  rw [if_pos hl, slice_mid' pre mid post off w hpre hm]

theorem getField_isSome {s : String} {p : List String} {off w : Nat} (hf : fieldAt s p = some (off, w))
    (bs : Bytes) (hl : off + w ≤ bs.length) : getField bs s p = some (leVal ((bs.drop off).take w)) := by
  unfold getField
  rw [hf]
  simp only
  rw [if_pos hl]

/-- the three accessors of the models are the same function -/
theorem srv_g (bs : Bytes) (s : String) (p : List String) (v : Nat) (h : getField bs s p = some v) :
    Model.BackendSrv.g bs s p = v := by simp [Model.BackendSrv.g, h]
theorem fe_g (bs : Bytes) (s : String) (p : List String) (v : Nat) (h : getField bs s p = some v) :
    Model.Frontend.g bs s p = v := by simp [Model.Frontend.g, h]
/-- the Spec's hand-transcribed layout and the generated one agree on a field ⇒ same accessor -/
theorem spec_getField_eq (bs : Bytes) (s : String) (p : List String)
    (h : Spec.fieldAt Spec.layoutOf Spec.nestedOf s p = fieldAt s p) : Spec.getField bs s p = getField bs s p := by
  unfold Spec.getField getField
  rw [h]
  cases fieldAt s p with
  | none => rfl
  | some x => rfl

theorem spec_fld (bs : Bytes) (s : String) (p : List String) (v : Nat)
    (hl : Spec.fieldAt Spec.layoutOf Spec.nestedOf s p = fieldAt s p) (h : getField bs s p = some v) :
    Spec.Proto.fld bs s p = v := by
  simp [Spec.Proto.fld, spec_getField_eq bs s p hl, h]

/-! ## the generated layouts (offsets and sizes), by evaluation of `Base.layoutOf` on `Gen.Layout.structs` -/

theorem sz_U64 : structSize "VhostUserU64" = some 8 := by decide
theorem sz_VringState : structSize "VhostUserVringState" = some 8 := by decide
theorem sz_VringAddr : structSize "VhostUserVringAddr" = some 40 := by decide
theorem sz_Config : structSize "VhostUserConfig" = some 12 := by decide
theorem sz_Memory : structSize "VhostUserMemory" = some 8 := by decide
theorem sz_Region : structSize "VhostUserMemoryRegion" = some 32 := by decide
theorem sz_Single : structSize "VhostUserSingleMemoryRegion" = some 40 := by decide
theorem sz_Inflight : structSize "VhostUserInflight" = some 24 := by decide
theorem sz_Log : structSize "VhostUserLog" = some 16 := by decide
theorem sz_Shared : structSize "VhostUserSharedMsg" = some 16 := by decide
theorem sz_Transfer : structSize "VhostUserTransferDeviceState" = some 8 := by decide
theorem sz_Header : structSize "VhostUserMsgHeader" = some 12 := by decide

open Model.Frontend (u64 u32 u16)

/-! ## per struct: decode (encode fields) = fields -/

section structs
variable (rest : Bytes)

/-- `VhostUserU64` -/
theorem dec_U64 (v : Nat) (hv : v < 2^64) : getField (u64 v ++ rest) "VhostUserU64" ["value"] = some v := by
  have := getField_enc (s := "VhostUserU64") (p := ["value"]) (off := 0) (w := 8) (by decide) [] rest v rfl (by omega)
  simpa [u64] using this

/-- `VhostUserVringState` -/
theorem dec_VringState (i n : Nat) (hi : i < 2^32) (hn : n < 2^32) :
    getField (u32 i ++ u32 n ++ rest) "VhostUserVringState" ["index"] = some i ∧
    getField (u32 i ++ u32 n ++ rest) "VhostUserVringState" ["num"] = some n := by
  constructor
  · have := getField_enc (s := "VhostUserVringState") (p := ["index"]) (off := 0) (w := 4) (by decide) [] (u32 n ++ rest) i rfl
      (by omega)
    simpa [u32, List.append_assoc] using this
  · have := getField_enc (s := "VhostUserVringState") (p := ["num"]) (off := 4) (w := 4) (by decide) (u32 i) rest n
      (by simp [u32]) (by omega)
    simpa [u32, List.append_assoc] using this

/-- `VhostUserTransferDeviceState` -/
theorem dec_Transfer (d p : Nat) (hd : d < 2^32) (hp : p < 2^32) :
    getField (u32 d ++ u32 p ++ rest) "VhostUserTransferDeviceState" ["direction"] = some d ∧
    getField (u32 d ++ u32 p ++ rest) "VhostUserTransferDeviceState" ["phase"] = some p := by
  constructor
  · have := getField_enc (s := "VhostUserTransferDeviceState") (p := ["direction"]) (off := 0) (w := 4) (by decide) []
      (u32 p ++ rest) d rfl (by omega)
    simpa [u32, List.append_assoc] using this
  · have := getField_enc (s := "VhostUserTransferDeviceState") (p := ["phase"]) (off := 4) (w := 4) (by decide) (u32 d) rest p
      (by simp [u32]) (by omega)
    simpa [u32, List.append_assoc] using this

/-- `VhostUserMemory` (header of SET_MEM_TABLE) -/
theorem dec_Memory (n pad : Nat) (hn : n < 2^32) (hp : pad < 2^32) :
    getField (u32 n ++ u32 pad ++ rest) "VhostUserMemory" ["num_regions"] = some n ∧
    getField (u32 n ++ u32 pad ++ rest) "VhostUserMemory" ["padding1"] = some pad := by
  constructor
  · have := getField_enc (s := "VhostUserMemory") (p := ["num_regions"]) (off := 0) (w := 4) (by decide) []
      (u32 pad ++ rest) n rfl (by omega)
    simpa [u32, List.append_assoc] using this
  · have := getField_enc (s := "VhostUserMemory") (p := ["padding1"]) (off := 4) (w := 4) (by decide) (u32 n) rest pad
      (by simp [u32]) (by omega)
    simpa [u32, List.append_assoc] using this

/-- `VhostUserLog` -/
theorem dec_Log (sz off : Nat) (hs : sz < 2^64) (ho : off < 2^64) :
    getField (u64 sz ++ u64 off ++ rest) "VhostUserLog" ["mmap_size"] = some sz ∧
    getField (u64 sz ++ u64 off ++ rest) "VhostUserLog" ["mmap_offset"] = some off := by
  constructor
  · have := getField_enc (s := "VhostUserLog") (p := ["mmap_size"]) (off := 0) (w := 8) (by decide) []
      (u64 off ++ rest) sz rfl (by omega)
    simpa [u64, List.append_assoc] using this
  · have := getField_enc (s := "VhostUserLog") (p := ["mmap_offset"]) (off := 8) (w := 8) (by decide) (u64 sz) rest off
      (by simp [u64]) (by omega)
    simpa [u64, List.append_assoc] using this

/-- `VhostUserConfig` (fixed part; `rest` = payload) -/
theorem dec_Config (off sz fl : Nat) (ho : off < 2^32) (hs : sz < 2^32) (hf : fl < 2^32) :
    getField (u32 off ++ u32 sz ++ u32 fl ++ rest) "VhostUserConfig" ["offset"] = some off ∧
    getField (u32 off ++ u32 sz ++ u32 fl ++ rest) "VhostUserConfig" ["size"] = some sz ∧
    getField (u32 off ++ u32 sz ++ u32 fl ++ rest) "VhostUserConfig" ["flags"] = some fl := by
  refine ⟨?_, ?_, ?_⟩
  · have := getField_enc (s := "VhostUserConfig") (p := ["offset"]) (off := 0) (w := 4) (by decide) []
      (u32 sz ++ u32 fl ++ rest) off rfl (by omega)
    simpa [u32, List.append_assoc] using this
  · have := getField_enc (s := "VhostUserConfig") (p := ["size"]) (off := 4) (w := 4) (by decide) (u32 off)
      (u32 fl ++ rest) sz (by simp [u32]) (by omega)
    simpa [u32, List.append_assoc] using this
  · have := getField_enc (s := "VhostUserConfig") (p := ["flags"]) (off := 8) (w := 4) (by decide) (u32 off ++ u32 sz)
      rest fl (by simp [u32]) (by omega)
    simpa [u32, List.append_assoc] using this

/-- `VhostUserVringAddr` -/
theorem dec_VringAddr (i fl d u a lg : Nat) (hi : i < 2^32) (hfl : fl < 2^32) (hd : d < 2^64) (hu : u < 2^64)
    (ha : a < 2^64) (hl : lg < 2^64) :
    let b := u32 i ++ u32 fl ++ u64 d ++ u64 u ++ u64 a ++ u64 lg ++ rest
    getField b "VhostUserVringAddr" ["index"] = some i ∧ getField b "VhostUserVringAddr" ["flags"] = some fl ∧
    getField b "VhostUserVringAddr" ["descriptor"] = some d ∧ getField b "VhostUserVringAddr" ["used"] = some u ∧
    getField b "VhostUserVringAddr" ["available"] = some a ∧ getField b "VhostUserVringAddr" ["log"] = some lg := by
  intro b
  refine ⟨?_, ?_, ?_, ?_, ?_, ?_⟩
  · have := getField_enc (s := "VhostUserVringAddr") (p := ["index"]) (off := 0) (w := 4) (by decide) []
      (u32 fl ++ u64 d ++ u64 u ++ u64 a ++ u64 lg ++ rest) i rfl (by omega)
    simpa [b, u32, u64, List.append_assoc] using this
  · have := getField_enc (s := "VhostUserVringAddr") (p := ["flags"]) (off := 4) (w := 4) (by decide) (u32 i)
      (u64 d ++ u64 u ++ u64 a ++ u64 lg ++ rest) fl (by simp [u32]) (by omega)
    simpa [b, u32, u64, List.append_assoc] using this
  · have := getField_enc (s := "VhostUserVringAddr") (p := ["descriptor"]) (off := 8) (w := 8) (by decide) (u32 i ++ u32 fl)
      (u64 u ++ u64 a ++ u64 lg ++ rest) d (by simp [u32]) (by omega)
    simpa [b, u32, u64, List.append_assoc] using this
  · have := getField_enc (s := "VhostUserVringAddr") (p := ["used"]) (off := 16) (w := 8) (by decide)
      (u32 i ++ u32 fl ++ u64 d) (u64 a ++ u64 lg ++ rest) u (by simp [u32, u64]) (by omega)
    simpa [b, u32, u64, List.append_assoc] using this
  · have := getField_enc (s := "VhostUserVringAddr") (p := ["available"]) (off := 24) (w := 8) (by decide)
      (u32 i ++ u32 fl ++ u64 d ++ u64 u) (u64 lg ++ rest) a (by simp [u32, u64]) (by omega)
    simpa [b, u32, u64, List.append_assoc] using this
  · have := getField_enc (s := "VhostUserVringAddr") (p := ["log"]) (off := 32) (w := 8) (by decide)
      (u32 i ++ u32 fl ++ u64 d ++ u64 u ++ u64 a) rest lg (by simp [u32, u64]) (by omega)
    simpa [b, u32, u64, List.append_assoc] using this

/-- `VhostUserMemoryRegion` -/
theorem dec_Region (gpa sz ua mo : Nat) (hg : gpa < 2^64) (hs : sz < 2^64) (hu : ua < 2^64) (hm : mo < 2^64) :
    let b := u64 gpa ++ u64 sz ++ u64 ua ++ u64 mo ++ rest
    getField b "VhostUserMemoryRegion" ["guest_phys_addr"] = some gpa ∧
    getField b "VhostUserMemoryRegion" ["memory_size"] = some sz ∧
    getField b "VhostUserMemoryRegion" ["user_addr"] = some ua ∧
    getField b "VhostUserMemoryRegion" ["mmap_offset"] = some mo := by
  intro b
  refine ⟨?_, ?_, ?_, ?_⟩
  · have := getField_enc (s := "VhostUserMemoryRegion") (p := ["guest_phys_addr"]) (off := 0) (w := 8) (by decide) []
      (u64 sz ++ u64 ua ++ u64 mo ++ rest) gpa rfl (by omega)
    simpa [b, u64, List.append_assoc] using this
  · have := getField_enc (s := "VhostUserMemoryRegion") (p := ["memory_size"]) (off := 8) (w := 8) (by decide) (u64 gpa)
      (u64 ua ++ u64 mo ++ rest) sz (by simp [u64]) (by omega)
    simpa [b, u64, List.append_assoc] using this
  · have := getField_enc (s := "VhostUserMemoryRegion") (p := ["user_addr"]) (off := 16) (w := 8) (by decide)
      (u64 gpa ++ u64 sz) (u64 mo ++ rest) ua (by simp [u64]) (by omega)
    simpa [b, u64, List.append_assoc] using this
  · have := getField_enc (s := "VhostUserMemoryRegion") (p := ["mmap_offset"]) (off := 24) (w := 8) (by decide)
      (u64 gpa ++ u64 sz ++ u64 ua) rest mo (by simp [u64]) (by omega)
    simpa [b, u64, List.append_assoc] using this

/-- `VhostUserSingleMemoryRegion` (nested `region`) -/
theorem dec_Single (pad gpa sz ua mo : Nat) (_hp : pad < 2^64) (hg : gpa < 2^64) (hs : sz < 2^64) (hu : ua < 2^64)
    (hm : mo < 2^64) :
    let b := u64 pad ++ u64 gpa ++ u64 sz ++ u64 ua ++ u64 mo ++ rest
    getField b "VhostUserSingleMemoryRegion" ["region", "guest_phys_addr"] = some gpa ∧
    getField b "VhostUserSingleMemoryRegion" ["region", "memory_size"] = some sz ∧
    getField b "VhostUserSingleMemoryRegion" ["region", "user_addr"] = some ua ∧
    getField b "VhostUserSingleMemoryRegion" ["region", "mmap_offset"] = some mo := by
  intro b
  refine ⟨?_, ?_, ?_, ?_⟩
  · have := getField_enc (s := "VhostUserSingleMemoryRegion") (p := ["region", "guest_phys_addr"]) (off := 8) (w := 8)
      (by decide) (u64 pad) (u64 sz ++ u64 ua ++ u64 mo ++ rest) gpa (by simp [u64]) (by omega)
    simpa [b, u64, List.append_assoc] using this
  · have := getField_enc (s := "VhostUserSingleMemoryRegion") (p := ["region", "memory_size"]) (off := 16) (w := 8)
      (by decide) (u64 pad ++ u64 gpa) (u64 ua ++ u64 mo ++ rest) sz (by simp [u64]) (by omega)
    simpa [b, u64, List.append_assoc] using this
  · have := getField_enc (s := "VhostUserSingleMemoryRegion") (p := ["region", "user_addr"]) (off := 24) (w := 8)
      (by decide) (u64 pad ++ u64 gpa ++ u64 sz) (u64 mo ++ rest) ua (by simp [u64]) (by omega)
    simpa [b, u64, List.append_assoc] using this
  · have := getField_enc (s := "VhostUserSingleMemoryRegion") (p := ["region", "mmap_offset"]) (off := 32) (w := 8)
      (by decide) (u64 pad ++ u64 gpa ++ u64 sz ++ u64 ua) rest mo (by simp [u64]) (by omega)
    simpa [b, u64, List.append_assoc] using this

/-- `VhostUserInflight` (`repr(C)`: two u64, two u16, four bytes of tail padding) -/
theorem dec_Inflight (ms mo nq qs : Nat) (h1 : ms < 2^64) (h2 : mo < 2^64) (h3 : nq < 2^16) (h4 : qs < 2^16) :
    let b := u64 ms ++ u64 mo ++ u16 nq ++ u16 qs ++ rest
    getField b "VhostUserInflight" ["mmap_size"] = some ms ∧ getField b "VhostUserInflight" ["mmap_offset"] = some mo ∧
    getField b "VhostUserInflight" ["num_queues"] = some nq ∧ getField b "VhostUserInflight" ["queue_size"] = some qs := by
  intro b
  refine ⟨?_, ?_, ?_, ?_⟩
  · have := getField_enc (s := "VhostUserInflight") (p := ["mmap_size"]) (off := 0) (w := 8) (by decide) []
      (u64 mo ++ u16 nq ++ u16 qs ++ rest) ms rfl (by omega)
    simpa [b, u64, u16, List.append_assoc] using this
  · have := getField_enc (s := "VhostUserInflight") (p := ["mmap_offset"]) (off := 8) (w := 8) (by decide) (u64 ms)
      (u16 nq ++ u16 qs ++ rest) mo (by simp [u64]) (by omega)
    simpa [b, u64, u16, List.append_assoc] using this
  · have := getField_enc (s := "VhostUserInflight") (p := ["num_queues"]) (off := 16) (w := 2) (by decide) (u64 ms ++ u64 mo)
      (u16 qs ++ rest) nq (by simp [u64]) (by omega)
    simpa [b, u64, u16, List.append_assoc] using this
  · have := getField_enc (s := "VhostUserInflight") (p := ["queue_size"]) (off := 18) (w := 2) (by decide)
      (u64 ms ++ u64 mo ++ u16 nq) rest qs (by simp [u64, u16]) (by omega)
    simpa [b, u64, u16, List.append_assoc] using this

/-- `VhostUserSharedMsg` (16 bytes read as one little-endian number) -/
theorem dec_Shared (u : Nat) (hu : u < 2^128) : getField (leBytes 16 u ++ rest) "VhostUserSharedMsg" ["uuid"] = some u := by
  have := getField_enc (s := "VhostUserSharedMsg") (p := ["uuid"]) (off := 0) (w := 16) (by decide) [] rest u rfl (by omega)
  simp at this; exact this

end structs

/-! ## the message header -/

theorem dec_Header (code flags size : Nat) (hc : code < 2^32) (hf : flags < 2^32) (hs : size < 2^32) (rest : Bytes) :
    let b := Model.BackendSrv.encHdr code flags size ++ rest
    leVal (b.take 4) = code ∧ leVal ((b.drop 4).take 4) = flags ∧ leVal ((b.drop 8).take 4) = size := by
  intro b
  have e1 : b.take 4 = leBytes 4 code := by
    simp only [b, Model.BackendSrv.encHdr, List.append_assoc]
    exact take_append_len _ _ 4 (by simp)
  have e2 : (b.drop 4).take 4 = leBytes 4 flags := by
    simp [b, Model.BackendSrv.encHdr, List.append_assoc]
  have e3 : (b.drop 8).take 4 = leBytes 4 size := by
    have := slice_mid' (leBytes 4 code ++ leBytes 4 flags) (leBytes 4 size) rest 8 4 (by simp) (by simp)
    simpa [b, Model.BackendSrv.encHdr, List.append_assoc] using this
  rw [e1, e2, e3]
  exact ⟨leVal_leBytes 4 _ (by omega), leVal_leBytes 4 _ (by omega), leVal_leBytes 4 _ (by omega)⟩

end Lemmas.Encode
