import VhostModel.Lemmas.OwedGuards
/-!
# C04Owed, arm by arm (2): requests with a fixed-size body
(codes 2, 8, 9, 10, 11, 16, 18, 31, 38, 41)
-/
namespace Lemmas.OwedArms
open Base Model.BackendSrv Model.Msgs Spec.Proto Lemmas.Owed Lemmas.OwedGuards

variable (st : BSt) (fl sz : Nat) (buf : Bytes) (files : Option (List Fd)) (h : Model.BackendSrv.HOut)

theorem good_8 (hi : Props.C04.Inv st) (ha : classify (absNeg st) (reqOf ⟨8, fl, sz⟩ buf files) = .accept) :
    Good st ⟨8, fl, sz⟩ buf files h := by
  have F := facts_of_accept ha
  have hsz : sz = 8 := F.fixed 8 rfl
  subst hsz
  have hfind : arms.find? (·.code == (⟨8, fl, 8⟩ : Hdr).code) =
      some ⟨8, [.body "VhostUserVringState"], .ack "set_vring_num"⟩ := rfl
  have hd := dispatch_arm (st := st) (h := h) (buf := buf) (files := files) hfind
    (by rw [rg_body sz_vstate (checkSize_ok rfl F.notReply F.len) (bodyValid_vstate buf F.len), rg_nil])
  refine ⟨?_, ?_, ?_⟩
  · rw [hd]; simp [runAct, argsOf, callOf, expectedCall, reqOf, fld_vstate]
  · rw [hd]; exact sat_ack st _ h.ok _ hi rfl rfl
  · rw [hd]; rfl

theorem good_10 (hi : Props.C04.Inv st) (ha : classify (absNeg st) (reqOf ⟨10, fl, sz⟩ buf files) = .accept) :
    Good st ⟨10, fl, sz⟩ buf files h := by
  have F := facts_of_accept ha
  have hsz : sz = 8 := F.fixed 8 rfl
  subst hsz
  have hfind : arms.find? (·.code == (⟨10, fl, 8⟩ : Hdr).code) =
      some ⟨10, [.body "VhostUserVringState"], .ack "set_vring_base"⟩ := rfl
  have hd := dispatch_arm (st := st) (h := h) (buf := buf) (files := files) hfind
    (by rw [rg_body sz_vstate (checkSize_ok rfl F.notReply F.len) (bodyValid_vstate buf F.len), rg_nil])
  refine ⟨?_, ?_, ?_⟩
  · rw [hd]; simp [runAct, argsOf, callOf, expectedCall, reqOf, fld_vstate]
  · rw [hd]; exact sat_ack st _ h.ok _ hi rfl rfl
  · rw [hd]; rfl

theorem good_9 (hi : Props.C04.Inv st) (ha : classify (absNeg st) (reqOf ⟨9, fl, sz⟩ buf files) = .accept) :
    Good st ⟨9, fl, sz⟩ buf files h := by
  have F := facts_of_accept ha
  have hsz : sz = 40 := F.fixed 40 rfl
  subst hsz
  have hbv := F.valid
  simp only [Spec.Proto.bodyValid, fld_vaddr] at hbv
  have hfind : arms.find? (·.code == (⟨9, fl, 40⟩ : Hdr).code) =
      some ⟨9, [.body "VhostUserVringAddr"], .ack "set_vring_addr"⟩ := rfl
  have hd := dispatch_arm (st := st) (h := h) (buf := buf) (files := files) hfind
    (by rw [rg_body sz_vaddr (checkSize_ok rfl F.notReply F.len) (by rw [bodyValid_vaddr buf F.len, hbv]), rg_nil])
  refine ⟨?_, ?_, ?_⟩
  · rw [hd]; simp [runAct, argsOf, callOf, expectedCall, reqOf, fld_vaddr]
  · rw [hd]; exact sat_ack st _ h.ok _ hi rfl rfl
  · rw [hd]; rfl

theorem good_18 (hi : Props.C04.Inv st) (ha : classify (absNeg st) (reqOf ⟨18, fl, sz⟩ buf files) = .accept) :
    Good st ⟨18, fl, sz⟩ buf files h := by
  have F := facts_of_accept ha
  have hsz : sz = 8 := F.fixed 8 rfl
  subst hsz
  have hbv := F.valid
  simp only [Spec.Proto.bodyValid, fld_vstate, decide_eq_true_eq] at hbv
  have hfind : arms.find? (·.code == (⟨18, fl, 8⟩ : Hdr).code) =
      some ⟨18, [.body "VhostUserVringState", .virtio 30, .enable01], .ack "set_vring_enable"⟩ := rfl
  have hd := dispatch_arm (st := st) (h := h) (buf := buf) (files := files) hfind
    (by rw [rg_body sz_vstate (checkSize_ok rfl F.notReply F.len) (bodyValid_vstate buf F.len),
            rg_virtio (F.virtio rfl), rg_enable hbv, rg_nil])
  refine ⟨?_, ?_, ?_⟩
  · rw [hd]; simp [runAct, argsOf, callOf, expectedCall, reqOf, fld_vstate]
  · rw [hd]; exact sat_ack st _ h.ok _ hi rfl rfl
  · rw [hd]; rfl

theorem good_38 (hi : Props.C04.Inv st) (ha : classify (absNeg st) (reqOf ⟨38, fl, sz⟩ buf files) = .accept) :
    Good st ⟨38, fl, sz⟩ buf files h := by
  have F := facts_of_accept ha
  have hsz : sz = 40 := F.fixed 40 rfl
  subst hsz
  have hbv := F.valid
  simp only [Spec.Proto.bodyValid, single_region_eq buf F.len, validRegionT] at hbv
  have hfind : arms.find? (·.code == (⟨38, fl, 40⟩ : Hdr).code) =
      some ⟨38, [.proto 15, .body "VhostUserSingleMemoryRegion"], .ack "remove_mem_region"⟩ := rfl
  have hd := dispatch_arm (st := st) (h := h) (buf := buf) (files := files) hfind
    (by rw [rg_proto (F.proto 15 rfl),
            rg_body sz_single (checkSize_ok rfl F.notReply F.len) (by rw [bodyValid_single buf F.len, hbv]), rg_nil])
  refine ⟨?_, ?_, ?_⟩
  · rw [hd]; simp [runAct, argsOf, callOf, expectedCall, reqOf, single_region_eq buf F.len]
  · rw [hd]; exact sat_ack st _ h.ok _ hi rfl rfl
  · rw [hd]; rfl

theorem good_11 (_hi : Props.C04.Inv st) (ha : classify (absNeg st) (reqOf ⟨11, fl, sz⟩ buf files) = .accept) :
    Good st ⟨11, fl, sz⟩ buf files h := by
  have F := facts_of_accept ha
  have hsz : sz = 8 := F.fixed 8 rfl
  subst hsz
  have hfind : arms.find? (·.code == (⟨11, fl, 8⟩ : Hdr).code) =
      some ⟨11, [.body "VhostUserVringState"], .getVringBase⟩ := rfl
  have hd := dispatch_arm (st := st) (h := h) (buf := buf) (files := files) hfind
    (by rw [rg_body sz_vstate (checkSize_ok rfl F.notReply F.len) (bodyValid_vstate buf F.len), rg_nil])
  rw [Good, hd]
  cases hok : h.ok <;> simp [runAct, hok, callOf, expectedCall, reqOf, owed, hOut, Sat, updateNeg, fld_vstate]

theorem good_31 (_hi : Props.C04.Inv st) (ha : classify (absNeg st) (reqOf ⟨31, fl, sz⟩ buf files) = .accept) :
    Good st ⟨31, fl, sz⟩ buf files h := by
  have F := facts_of_accept ha
  have hsz : sz = 24 := F.fixed 24 rfl
  subst hsz
  have hbv := F.valid
  simp only [Spec.Proto.bodyValid, fld_inflight] at hbv
  have hfind : arms.find? (·.code == (⟨31, fl, 24⟩ : Hdr).code) =
      some ⟨31, [.proto 12, .body "VhostUserInflight"], .getInflight⟩ := rfl
  have hd := dispatch_arm (st := st) (h := h) (buf := buf) (files := files) hfind
    (by rw [rg_proto (F.proto 12 rfl),
            rg_body sz_inflight (checkSize_ok rfl F.notReply F.len) (by rw [bodyValid_inflight buf F.len, hbv]), rg_nil])
  rw [Good, hd]
  cases hok : h.ok <;> simp [runAct, hok, callOf, expectedCall, reqOf, owed, hOut, Sat, updateNeg, fld_inflight]

theorem good_41 (_hi : Props.C04.Inv st) (ha : classify (absNeg st) (reqOf ⟨41, fl, sz⟩ buf files) = .accept) :
    Good st ⟨41, fl, sz⟩ buf files h := by
  have F := facts_of_accept ha
  have hsz : sz = 16 := F.fixed 16 rfl
  subst hsz
  have hbv := F.valid
  simp only [Spec.Proto.bodyValid, fld_shared] at hbv
  have hfind : arms.find? (·.code == (⟨41, fl, 16⟩ : Hdr).code) =
      some ⟨41, [.proto 18, .sizeIs .any, .body "VhostUserSharedMsg"], .fdOrEmpty "get_shared_object"⟩ := rfl
  have hd := dispatch_arm (st := st) (h := h) (buf := buf) (files := files) hfind
    (by rw [rg_proto (F.proto 18 rfl), rg_any (checkSize_ok rfl F.notReply F.len),
            rg_body sz_shared (checkSize_ok rfl F.notReply F.len) (by rw [bodyValid_shared buf F.len, hbv]), rg_nil])
  rw [Good, hd]
  cases hok : h.ok <;> simp [runAct, hok, callOf, expectedCall, reqOf, owed, hOut, Sat, updateNeg, fld_shared]

theorem good_2 (_hi : Props.C04.Inv st) (ha : classify (absNeg st) (reqOf ⟨2, fl, sz⟩ buf files) = .accept) :
    Good st ⟨2, fl, sz⟩ buf files h := by
  have F := facts_of_accept ha
  have hsz : sz = 8 := F.fixed 8 rfl
  subst hsz
  have hfind : arms.find? (·.code == (⟨2, fl, 8⟩ : Hdr).code) = some ⟨2, [.body "VhostUserU64"], .setFeatures⟩ := rfl
  have hd := dispatch_arm (st := st) (h := h) (buf := buf) (files := files) hfind
    (by rw [rg_body sz_u64 (checkSize_ok rfl F.notReply F.len) (bodyValid_u64 buf F.len), rg_nil])
  refine ⟨?_, ?_, ?_⟩
  · rw [hd]; simp [runAct, callOf, expectedCall, reqOf, fld_u64]
  · rw [hd]
    have := sat_ack (({ st with acked := g buf "VhostUserU64" ["value"] } : BSt).updateFlag) ⟨2, fl, 8⟩ h.ok
      (runAct st { hdr := ⟨2, fl, 8⟩, buf := buf, files := files } h .setFeatures) (Props.C04.updateFlag_inv _) rfl rfl
    simp only [owed, updateNeg, reqOf, fld_u64, Req.needReply]
    exact this
  · rw [hd]; simp [runAct, updateNeg, reqOf, fld_u64, absNeg, BSt.updateFlag]

theorem good_16 (_hi : Props.C04.Inv st) (ha : classify (absNeg st) (reqOf ⟨16, fl, sz⟩ buf files) = .accept) :
    Good st ⟨16, fl, sz⟩ buf files h := by
  have F := facts_of_accept ha
  have hsz : sz = 8 := F.fixed 8 rfl
  subst hsz
  have hfind : arms.find? (·.code == (⟨16, fl, 8⟩ : Hdr).code) =
      some ⟨16, [.body "VhostUserU64"], .setProtocolFeatures⟩ := rfl
  have hd := dispatch_arm (st := st) (h := h) (buf := buf) (files := files) hfind
    (by rw [rg_body sz_u64 (checkSize_ok rfl F.notReply F.len) (bodyValid_u64 buf F.len), rg_nil])
  refine ⟨?_, ?_, ?_⟩
  · rw [hd]; simp [runAct, callOf, expectedCall, reqOf, fld_u64]
  · rw [hd]
    have := sat_ack (({ st with ackedProto := g buf "VhostUserU64" ["value"] } : BSt).updateFlag) ⟨16, fl, 8⟩ h.ok
      (runAct st { hdr := ⟨16, fl, 8⟩, buf := buf, files := files } h .setProtocolFeatures)
      (Props.C04.updateFlag_inv _) rfl rfl
    simp only [owed, updateNeg, reqOf, fld_u64, Req.needReply]
    exact this
  · rw [hd]; simp [runAct, updateNeg, reqOf, fld_u64, absNeg, BSt.updateFlag]

end Lemmas.OwedArms
