import VhostModel.Lemmas.OwedGuards
/-!
# C04Owed, arm by arm (4): requests with a variable-size body
(codes 24, 25: configuration space; code 5: memory table)
-/
namespace Lemmas.OwedArms
open Base Model.BackendSrv Model.Msgs Spec.Proto Lemmas.Owed Lemmas.OwedGuards

variable (st : BSt) (fl sz : Nat) (buf : Bytes) (files : Option (List Fd)) (h : Model.BackendSrv.HOut)

/-- what the Spec's rule for GET/SET_CONFIG bodies gives the model's checks -/
theorem config_facts (hdec : 12 ≤ buf.length)
    (hv : (decide (Spec.validConfig (fld buf "VhostUserConfig" ["offset"]) (fld buf "VhostUserConfig" ["size"])
        (fld buf "VhostUserConfig" ["flags"])) && buf.length == 12 + fld buf "VhostUserConfig" ["size"]) = true) :
    Model.BackendSrv.bodyValid "VhostUserConfig" (buf.take 12) = some true ∧
      buf.length - 12 = g buf "VhostUserConfig" ["size"] := by
  simp only [fld_config, Bool.and_eq_true, decide_eq_true_eq, beq_iff_eq] at hv
  have hl : (buf.take 12).length = 12 := by simp [List.length_take]; omega
  refine ⟨?_, by omega⟩
  rw [bodyValid_config _ hl, g_take 12 f_cf_off (by omega) hdec, g_take 12 f_cf_size (by omega) hdec,
    g_take 12 f_cf_flags (by omega) hdec]
  simp [hv.1]

theorem good_24 (_hi : Props.C04.Inv st) (ha : classify (absNeg st) (reqOf ⟨24, fl, sz⟩ buf files) = .accept) :
    Good st ⟨24, fl, sz⟩ buf files h := by
  have F := facts_of_accept ha
  have hdec : 12 ≤ buf.length := by simpa [bodyDecodable] using F.dec
  obtain ⟨hb, hsize⟩ := config_facts buf hdec F.valid
  have hsmall : buf.length ≤ 4096 := by rw [F.len]; exact F.small
  have hfind : arms.find? (·.code == (⟨24, fl, sz⟩ : Hdr).code) =
      some ⟨24, [.proto 9, .sizeIs .any], .getConfig⟩ := rfl
  have hd := dispatch_arm (st := st) (h := h) (buf := buf) (files := files) hfind
    (by rw [rg_proto (F.proto 9 rfl), rg_any (checkSize_ok rfl F.notReply F.len), rg_nil])
  have h1 : ¬ (4096 < buf.length) := by omega
  have h2 : ¬ (buf.length < 12) := by omega
  rw [Good, hd]
  by_cases hc : (h.ok && h.b.length == g buf "VhostUserConfig" ["size"]) = true
  · have hbl : h.b.length = g buf "VhostUserConfig" ["size"] := by simp at hc; exact hc.2
    have hok : h.ok = true := by simp at hc; exact hc.1
    simp [runAct, sz_config, h1, h2, hb, hsize, hok, callOf, expectedCall, reqOf, owed, hOut, Sat, updateNeg, fld_config,
      hbl]
    congr 1; omega
  · simp [runAct, sz_config, h1, h2, hb, hsize, hc, callOf, expectedCall, reqOf, owed, hOut, Sat, updateNeg, fld_config]

theorem good_25 (hi : Props.C04.Inv st) (ha : classify (absNeg st) (reqOf ⟨25, fl, sz⟩ buf files) = .accept) :
    Good st ⟨25, fl, sz⟩ buf files h := by
  have F := facts_of_accept ha
  have hdec : 12 ≤ buf.length := by simpa [bodyDecodable] using F.dec
  obtain ⟨hb, hsize⟩ := config_facts buf hdec F.valid
  have hsmall : buf.length ≤ 4096 := by rw [F.len]; exact F.small
  have hfind : arms.find? (·.code == (⟨25, fl, sz⟩ : Hdr).code) =
      some ⟨25, [.proto 9, .sizeIs .any], .setConfig⟩ := rfl
  have hd := dispatch_arm (st := st) (h := h) (buf := buf) (files := files) hfind
    (by rw [rg_proto (F.proto 9 rfl), rg_any (checkSize_ok rfl F.notReply F.len), rg_nil])
  have h1 : ¬ (4096 < buf.length) := by omega
  have h2 : ¬ (buf.length < 12) := by omega
  have hr : runAct st { hdr := ⟨25, fl, sz⟩, buf := buf, files := files } h .setConfig =
      { st := st, calls := [⟨"set_config", [g buf "VhostUserConfig" ["offset"], g buf "VhostUserConfig" ["flags"]],
          buf.drop 12, []⟩], out := ackOf st ⟨25, fl, sz⟩ h.ok,
        closed := ({ hdr := ⟨25, fl, sz⟩, buf := buf, files := files } : Ctx).leftover,
        res := if h.ok then .ok else .err .handlerErr } := by
    simp [runAct, sz_config, h1, h2, hb, hsize]
  refine ⟨?_, ?_, ?_⟩
  · rw [hd, hr]; simp [callOf, expectedCall, reqOf, fld_config]
  · rw [hd, hr]; exact sat_ack st ⟨25, fl, sz⟩ h.ok _ hi rfl rfl
  · rw [hd, hr]; rfl

theorem good_5 (hi : Props.C04.Inv st) (ha : classify (absNeg st) (reqOf ⟨5, fl, sz⟩ buf files) = .accept) :
    Good st ⟨5, fl, sz⟩ buf files h := by
  have F := facts_of_accept ha
  have hdec : 8 ≤ buf.length := by simpa [bodyDecodable] using F.dec
  have hv := F.valid
  simp only [Spec.Proto.bodyValid, fld_memory, Bool.and_eq_true, decide_eq_true_eq, beq_iff_eq, spec_regions_eq] at hv
  obtain ⟨⟨hmem, hlen⟩, hall⟩ := hv
  have hn := F.nfds
  simp only [filesPrescribed, fld_memory] at hn
  -- the files
  have hn1 : 1 ≤ g buf "VhostUserMemory" ["num_regions"] := hmem.2.1
  obtain ⟨fs, rfl⟩ : ∃ fs, files = some fs := by
    cases files with
    | none => simp at hn; omega
    | some fs => exact ⟨fs, rfl⟩
  have hfs : fs.length = g buf "VhostUserMemory" ["num_regions"] := hn
  -- the head
  have hl8 : (buf.take 8).length = 8 := by simp [List.length_take]; omega
  have hb : Model.BackendSrv.bodyValid "VhostUserMemory" (buf.take 8) = some true := by
    rw [bodyValid_memory _ hl8, g_take 8 f_me_n (by omega) hdec, g_take 8 f_me_pad (by omega) hdec]
    simp [hmem]
  -- the regions
  have h32 := regionsOf_len32 buf (g buf "VhostUserMemory" ["num_regions"]) 8 (by omega)
  have hregs := regions_all _ h32
  rw [hall] at hregs
  have hfind : arms.find? (·.code == (⟨5, fl, sz⟩ : Hdr).code) = some ⟨5, [], .memTable⟩ := rfl
  have hd := dispatch_arm (st := st) (h := h) (buf := buf) (files := some fs) hfind (rg_nil _ _)
  have hcs : checkSize ⟨5, fl, sz⟩ buf.length sz = true := checkSize_ok rfl F.notReply F.len
  have h1 : ¬ buf.length < 8 := by omega
  have h2 : buf.length = 8 + g buf "VhostUserMemory" ["num_regions"] * 32 := by omega
  have hr : runAct st { hdr := ⟨5, fl, sz⟩, buf := buf, files := some fs } h .memTable =
      { st := st, calls := [⟨"set_mem_table",
          (Model.BackendSrv.regionsOf buf (g buf "VhostUserMemory" ["num_regions"]) 8).flatMap fun r =>
              [g r "VhostUserMemoryRegion" ["guest_phys_addr"], g r "VhostUserMemoryRegion" ["memory_size"],
               g r "VhostUserMemoryRegion" ["user_addr"], g r "VhostUserMemoryRegion" ["mmap_offset"]], [], fs⟩],
        out := ackOf st ⟨5, fl, sz⟩ h.ok, res := if h.ok then .ok else .err .handlerErr } := by
    simp only [runAct, hcs, sz_memory, sz_region, hb, Bool.not_true, Bool.false_eq_true, if_false, h1, ← h2,
      bne_self_eq_false, hfs, hregs, if_true]
  refine ⟨?_, ?_, ?_⟩
  · rw [hd, hr]
    simp only [callOf, expectedCall, reqOf, fld_memory, spec_regions_eq, regions_args, if_true, Option.getD_some]
  · rw [hd, hr]; exact sat_ack st ⟨5, fl, sz⟩ h.ok _ hi rfl rfl
  · rw [hd, hr]; rfl

end Lemmas.OwedArms
