import VhostModel.Model.MemTable
import VhostModel.Model.HandlerTable
/-!
# Reading the handler's rows in `Model.MemTable` (C13)

`evsM` interprets the rows of `set_mem_table`, `add_mem_region`, `remove_mem_region` on the state of `Model.MemTable`
(`regions` behind `atomic_mem`, `mappings`, the `update_memory` notifications), event by event:

* `libTry "mmap_region"` fails iff the operating system refuses the mapping (`Req.mapOk`) or the length is 0;
  `libTry "GuestRegionMmap::new"` fails iff `guest_base + size` overflows; `libTry "GuestMemoryMmap::from_regions"`,
  `"insert_region"`, `"remove_region"` are vm-memory's collection rules (`fromRegions`, `insertRegion`, `removeRegion`);
* `memReplace` installs the memory object built before, `mappingsAssign` / `mappingsPush` / `mappingsRetain` change the
  translation table, `backendTry "update_memory"` appends a notification and — the model's assumption, see the header of
  `Model/MemTable.lean` — cannot fail;
* the helper `log_region` is the identity (no SET_LOG_BASE in this model: that path is `Lemmas/HandlerLog.lean`).

Then: `setMemTable`, `addMemRegion`, `removeMemRegion` *are* these interpretations (`*_is_row`).
-/
namespace Lemmas.HandlerMem
open Base Model.MemTable Model.HandlerTable
open Spec.MemTable (Req Op)

inductive Flow where
  | run
  | ret (ok : Bool)
  deriving DecidableEq

structure MS where
  st : St
  /-- `ctx.iter().zip(files)` of SET_MEM_TABLE -/
  reqs : List Req
  /-- `region` (and `file`): the argument of ADD_MEM_REG / REM_MEM_REG, the loop variable of SET_MEM_TABLE -/
  req : Req
  /-- the locals `regions`, `mappings`, `guest_region`, `mem` -/
  regionsL : List Region
  mappingsL : List AddrMapping
  cur : Option Region
  mem : Option (List Region)
  flow : Flow

def fail (s : MS) : MS := { s with flow := .ret false }

def libTryM (s : MS) (w : String) : MS :=
  if w = "mmap_region" then (if s.req.mapOk && decide (0 < s.req.size) then s else fail s)
  else if w = "GuestRegionMmap::new" then
    (if s.req.gpa + s.req.size < 2^64 then { s with cur := some ⟨s.req.gpa, s.req.size, s.req.fid, s.req.off⟩ } else fail s)
  else if w = "GuestMemoryMmap::from_regions" then
    (match fromRegions s.regionsL with
     | none => fail s
     | some m => { s with mem := some m })
  else if w = "insert_region" then
    (match s.cur with
     | none => s
     | some g =>
       match insertRegion s.st.regions g with
       | none => fail s
       | some m => { s with mem := some m })
  else if w = "remove_region" then
    (match removeRegion s.req.gpa s.req.size s.st.regions with
     | none => fail s
     | some m => { s with mem := some m })
  else s

def actM (a : HAct) (s : MS) : MS :=
  match a with
  | .localNew n =>
    if n = "regions" then { s with regionsL := [] } else if n = "mappings" then { s with mappingsL := [] } else s
  | .libTry w _ => libTryM s w
  | .localPush n _ =>
    if n = "mappings" then { s with mappingsL := s.mappingsL ++ [mappingOf s.req] }
    else if n = "regions" then
      (match s.cur with
       | some g => { s with regionsL := s.regionsL ++ [g] }
       | none => s)
    else s
  | .memReplace =>
    (match s.mem with
     | some m => { s with st := { s.st with regions := m } }
     | none => s)
  | .backendTry m _ _ =>
    if m = "update_memory" then { s with st := { s.st with notified := s.st.notified ++ [s.st.regions] } } else s
  | .mappingsAssign => { s with st := { s.st with mappings := s.mappingsL } }
  | .mappingsPush _ => { s with st := { s.st with mappings := s.st.mappings ++ [mappingOf s.req] } }
  | .mappingsRetain c =>
    let keep := fun (m : AddrMapping) => cond c { mapping_gpa_base := m.gpaBase, region_guest_phys_addr := s.req.gpa }
    { s with st := { s.st with mappings := s.st.mappings.filter keep } }
  | .ok => { s with flow := .ret true }
  | .err _ => fail s
  | _ => s

def memLoop : String := "ctx.iter().zip(files)"

mutual
def evM : HEvent → MS → MS
  | .act a, s => actM a s
  | .helperCall _ _ _ _, s => s
  | .forEach c body, s =>
    if c = memLoop then
      s.reqs.foldl (fun s r => match s.flow with
        | .run => evsM body { s with req := r }
        | _ => s) s
    else s
  | .forEachVring _, s => s
  | .ifCond _ _ _, s => s
  | .ifSome _ _ _, s => s
def evsM : List HEvent → MS → MS
  | [], s => s
  | e :: es, s =>
    match (evM e s).flow with
    | .run => evsM es (evM e s)
    | _ => evM e s
end

def startM (st : St) (reqs : List Req) (req : Req) : MS := ⟨st, reqs, req, [], [], none, none, .run⟩

def resultM (s : MS) : St × Bool :=
  (s.st, match s.flow with
         | .ret b => b
         | .run => true)

def runRow (name : String) (st : St) (reqs : List Req) (req : Req) : St × Bool :=
  resultM (evsM (row name) (startM st reqs req))

theorem evsM_step {e : HEvent} {es : List HEvent} {s s1 : MS} (h : evM e s = s1) (hrun : s1.flow = .run) :
    evsM (e :: es) s = evsM es s1 := by
  simp only [evsM, h, hrun]

theorem evsM_stop {e : HEvent} {es : List HEvent} {s s1 : MS} (b : Bool) (h : evM e s = s1) (hret : s1.flow = .ret b) :
    evsM (e :: es) s = s1 := by
  simp only [evsM, h, hret]

set_option linter.unusedSimpArgs false

/-! ## the loop of `set_mem_table` -/

/-- the body of the loop, as the table has it -/
def loopBody : List HEvent := [
  .libTry "mmap_region" "*", .libTry "GuestRegionMmap::new" "ReqHandlerError", logRegion,
  .localPush "mappings" addrMappingLit, .localPush "regions" "guest_region"]

theorem loopBody_ok (t : MS) (ht : t.flow = .run) (g : Region) (h : mmapRegion t.req = some g) :
    evsM loopBody t = { t with cur := some g, mappingsL := t.mappingsL ++ [mappingOf t.req], regionsL := t.regionsL ++ [g] } := by
  obtain ⟨st, reqs, req, rl, ml, cur, mem, flow⟩ := t
  simp only at ht h; subst ht
  unfold mmapRegion at h
  by_cases h1 : (req.mapOk && decide (0 < req.size)) = true
  · rw [if_pos h1] at h
    by_cases h2 : req.gpa + req.size < 2 ^ 64
    · rw [if_pos h2] at h
      cases h
      simp [loopBody, evsM, evM, actM, libTryM, h1, h2, logRegion]
    · rw [if_neg h2] at h; cases h
  · rw [if_neg h1] at h; cases h

theorem loopBody_fail (t : MS) (ht : t.flow = .run) (h : mmapRegion t.req = none) :
    (evsM loopBody t).flow = .ret false ∧ (evsM loopBody t).st = t.st := by
  obtain ⟨st, reqs, req, rl, ml, cur, mem, flow⟩ := t
  simp only at ht h; subst ht
  unfold mmapRegion at h
  by_cases h1 : (req.mapOk && decide (0 < req.size)) = true
  · rw [if_pos h1] at h
    by_cases h2 : req.gpa + req.size < 2 ^ 64
    · rw [if_pos h2] at h; cases h
    · simp [loopBody, evsM, evM, actM, libTryM, h1, h2, fail]
  · simp [loopBody, evsM, evM, actM, libTryM, h1, fail]

theorem foldl_stuck (body : List HEvent) (rs : List Req) (s : MS) (b : Bool) (h : s.flow = .ret b) :
    rs.foldl (fun s r => match s.flow with
        | .run => evsM body { s with req := r }
        | _ => s) s = s := by
  induction rs with
  | nil => rfl
  | cons r rs ih => simp only [List.foldl_cons, h]; exact ih

/-- the loop builds what `buildAll` builds, appended to the locals; a failure leaves with `Err` and the state as it was -/
theorem loop_buildAll (rs : List Req) (s : MS) (hs : s.flow = .run) :
    match buildAll rs with
    | none =>
      (rs.foldl (fun s r => match s.flow with
        | .run => evsM loopBody { s with req := r }
        | _ => s) s).flow = .ret false ∧
      (rs.foldl (fun s r => match s.flow with
        | .run => evsM loopBody { s with req := r }
        | _ => s) s).st = s.st
    | some (gs, ms) =>
      ∃ c q, rs.foldl (fun s r => match s.flow with
        | .run => evsM loopBody { s with req := r }
        | _ => s) s = { s with regionsL := s.regionsL ++ gs, mappingsL := s.mappingsL ++ ms, cur := c, req := q } := by
  induction rs generalizing s with
  | nil => simp only [buildAll, List.foldl_nil, List.append_nil]; exact ⟨s.cur, s.req, rfl⟩
  | cons r rs ih =>
    obtain ⟨st, reqs, req, rl, ml, cur, mem, flow⟩ := s
    simp only at hs; subst hs
    simp only [buildAll, List.foldl_cons]
    cases hm : mmapRegion r with
    | none =>
      simp only
      obtain ⟨h1, h2⟩ := loopBody_fail ⟨st, reqs, r, rl, ml, cur, mem, .run⟩ rfl hm
      rw [foldl_stuck _ _ _ false h1]
      exact ⟨h1, h2⟩
    | some g =>
      simp only
      rw [loopBody_ok ⟨st, reqs, r, rl, ml, cur, mem, .run⟩ rfl g hm]
      have := ih ⟨st, reqs, r, rl ++ [g], ml ++ [mappingOf r], some g, mem, .run⟩ rfl
      cases hb : buildAll rs with
      | none =>
        rw [hb] at this
        exact this
      | some p =>
        obtain ⟨gs, ms⟩ := p
        rw [hb] at this
        obtain ⟨c, q, h⟩ := this
        refine ⟨c, q, ?_⟩
        simp only at h ⊢
        rw [h]
        simp [List.append_assoc]

/-- the loop event itself -/
theorem evM_loop (s : MS) (hs : s.flow = .run) :
    match buildAll s.reqs with
    | none =>
      (evM (.forEach "ctx.iter().zip(files)" loopBody) s).flow = .ret false ∧
      (evM (.forEach "ctx.iter().zip(files)" loopBody) s).st = s.st
    | some (gs, ms) =>
      ∃ c q, evM (.forEach "ctx.iter().zip(files)" loopBody) s =
        { s with regionsL := s.regionsL ++ gs, mappingsL := s.mappingsL ++ ms, cur := c, req := q } := by
  have h := loop_buildAll s.reqs s hs
  simp only [evM, memLoop, if_true]
  exact h

end Lemmas.HandlerMem
