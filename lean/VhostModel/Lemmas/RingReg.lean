import VhostModel.Model.RingReg
/-! Invariant of `Model.RingReg` (repaired rule) and what the worker's drain does under it (used by Props/C11). -/
namespace Lemmas.RingReg
open Model.RingReg
open Spec.RingAutomaton (Evt Msg upd)

/-- the registration the code wants for ring `r` with descriptor `e` -/
def Cond (s : St) (r : Nat) (e : Evt) : Prop :=
  r < s.n ∧ (s.ring r).kick = some e ∧ (s.ring r).ready = true ∧ (s.ring r).enabled = true

/-- registrations are right for every ring except possibly `r`, whose entries can only be at its current descriptor -/
structure PreReg (s : St) (r : Nat) : Prop where
  others : ∀ e r', r' ≠ r → (s.reg e = some r' ↔ Cond s r' e)
  mine : ∀ e, s.reg e = some r → (s.ring r).kick = some e
  kick_lt : ∀ r' e, (s.ring r').kick = some e → e < s.next ∧ r' < s.n
  kick_inj : ∀ r1 r2 e, (s.ring r1).kick = some e → (s.ring r2).kick = some e → r1 = r2

structure RegOk (s : St) : Prop where
  reg_iff : ∀ e r, s.reg e = some r ↔ Cond s r e
  kick_lt : ∀ r e, (s.ring r).kick = some e → e < s.next ∧ r < s.n
  kick_inj : ∀ r1 r2 e, (s.ring r1).kick = some e → (s.ring r2).kick = some e → r1 = r2

theorem RegOk.pre {s : St} (h : RegOk s) (r : Nat) : PreReg s r :=
  ⟨fun e r' _ => h.reg_iff e r', fun e he => ((h.reg_iff e r).1 he).2.1, h.kick_lt, h.kick_inj⟩

@[simp] theorem upd_same {α : Type} (f : Nat → α) (i : Nat) (v : α) : upd f i v i = v := by simp [upd]
theorem upd_other {α : Type} (f : Nat → α) (i j : Nat) (v : α) (h : j ≠ i) : upd f i v j = f j := by simp [upd, h]

/-- `update_vring_registration` puts ring `r` right -/
theorem updateReg_regOk (s : St) (r : Nat) (h : PreReg s r) : RegOk (updateReg s r) := by
  obtain ⟨ho, hm, hlt, hinj⟩ := h
  unfold updateReg
  cases hk : (s.ring r).kick with
  | none =>
    refine ⟨?_, hlt, hinj⟩
    intro e r'
    by_cases hr : r' = r
    · subst hr
      constructor
      · intro he; have := hm e he; simp [hk] at this
      · intro hc; have := hc.2.1; simp [hk] at this
    · exact ho e r' hr
  | some fd =>
    have hrn : r < s.n := (hlt r fd hk).2
    by_cases hact : ((s.ring r).ready && (s.ring r).enabled) = true
    · simp only [hact, if_true]
      have hact' : (s.ring r).ready = true ∧ (s.ring r).enabled = true := by simpa using hact
      unfold epollAdd
      cases hreg : s.reg fd with
      | some r0 =>
        -- already registered: it can only be our own entry
        have hr0 : r0 = r := by
          by_cases h0 : r0 = r
          · exact h0
          · have := (ho fd r0 h0).1 hreg
            exact hinj r0 r fd this.2.1 hk
        subst hr0
        refine ⟨?_, hlt, hinj⟩
        intro e r'
        by_cases hr : r' = r0
        · subst hr
          constructor
          · intro he
            have hke := hm e he
            exact ⟨hrn, hke, hact'.1, hact'.2⟩
          · intro hc
            have : e = fd := by have := hc.2.1; rw [hk] at this; exact (Option.some.inj this).symm
            subst this; exact hreg
        · exact ho e r' hr
      | none =>
        refine ⟨?_, hlt, hinj⟩
        intro e r'
        show upd s.reg fd (some r) e = some r' ↔ Cond s r' e
        by_cases he : e = fd
        · subst he
          simp only [upd_same]
          constructor
          · intro h1
            have : r = r' := Option.some.inj h1
            subst this
            exact ⟨hrn, hk, hact'.1, hact'.2⟩
          · intro hc
            have := hinj r' r e hc.2.1 hk
            rw [this]
        · rw [upd_other _ _ _ _ he]
          by_cases hr : r' = r
          · subst hr
            constructor
            · intro h1; have := hm e h1; rw [hk] at this; exact absurd (Option.some.inj this).symm he
            · intro hc; have := hc.2.1; rw [hk] at this; exact absurd (Option.some.inj this).symm he
          · exact ho e r' hr
    · simp only [hact, Bool.false_eq_true, if_false]
      unfold epollDel
      refine ⟨?_, hlt, hinj⟩
      intro e r'
      show upd s.reg fd none e = some r' ↔ Cond s r' e
      by_cases he : e = fd
      · subst he
        simp only [upd_same]
        constructor
        · intro h1; cases h1
        · intro hc
          have hr : r' = r := hinj r' r e hc.2.1 hk
          subst hr
          exact absurd (by simp [hc.2.2.1, hc.2.2.2]) hact
      · rw [upd_other _ _ _ _ he]
        by_cases hr : r' = r
        · subst hr
          constructor
          · intro h1; have := hm e h1; rw [hk] at this; exact absurd (Option.some.inj this).symm he
          · intro hc; have := hc.2.1; rw [hk] at this; exact absurd (Option.some.inj this).symm he
        · exact ho e r' hr


/-! ## frame facts: the registration helpers touch only `reg` -/

/-- everything except `reg` (and, where stated, `cnt`) is the same -/
def SameBut (t s : St) : Prop :=
  t.n = s.n ∧ t.base = s.base ∧ t.old = s.old ∧ t.ackedH = s.ackedH ∧ t.ackedC = s.ackedC ∧ t.conn = s.conn ∧
  t.ring = s.ring ∧ t.cnt = s.cnt ∧ t.peerOpen = s.peerOpen ∧ t.next = s.next ∧ t.alive = s.alive

theorem SameBut.rfl' (s : St) : SameBut s s := ⟨rfl, rfl, rfl, rfl, rfl, rfl, rfl, rfl, rfl, rfl, rfl⟩

theorem SameBut.trans {a b c : St} (h1 : SameBut a b) (h2 : SameBut b c) : SameBut a c := by
  unfold SameBut at *
  obtain ⟨a1, a2, a3, a4, a5, a6, a7, a8, a9, a10, a11⟩ := h1
  obtain ⟨b1, b2, b3, b4, b5, b6, b7, b8, b9, b10, b11⟩ := h2
  exact ⟨a1.trans b1, a2.trans b2, a3.trans b3, a4.trans b4, a5.trans b5, a6.trans b6, a7.trans b7, a8.trans b8,
    a9.trans b9, a10.trans b10, a11.trans b11⟩

theorem epollAdd_same (s : St) (e : Evt) (r : Nat) : SameBut (epollAdd s e r) s := by
  unfold epollAdd; split <;> exact SameBut.rfl' _

theorem epollDel_same (s : St) (e : Evt) : SameBut (epollDel s e) s := SameBut.rfl' _

theorem closeFd_same (s : St) (e : Evt) : SameBut (closeFd s e) s := by
  unfold closeFd; split
  · exact SameBut.rfl' _
  · exact epollDel_same s e

theorem updateReg_same (s : St) (r : Nat) : SameBut (updateReg s r) s := by
  unfold updateReg
  split
  · exact SameBut.rfl' _
  · split
    · exact epollAdd_same _ _ _
    · exact epollDel_same _ _

/-! ## ring updates that keep the kick descriptor -/

theorem cond_setRing_other (s : St) (r r' : Nat) (v : VRing) (e : Evt) (h : r' ≠ r) :
    Cond (setRing s r v) r' e ↔ Cond s r' e := by
  unfold Cond setRing
  simp [upd, h]

theorem PreReg.setRing_sameKick {s : St} {r : Nat} (h : PreReg s r) (v : VRing) (hv : v.kick = (s.ring r).kick) :
    PreReg (setRing s r v) r := by
  have hring : ∀ r', ((setRing s r v).ring r').kick = (s.ring r').kick := by
    intro r'
    by_cases hr : r' = r
    · subst hr; simp [setRing, hv]
    · simp [setRing, upd, hr]
  refine ⟨?_, ?_, ?_, ?_⟩
  · intro e r' hr
    rw [cond_setRing_other s r r' v e hr]
    exact h.others e r' hr
  · intro e he
    rw [hring]
    exact h.mine e he
  · intro r' e he
    rw [hring] at he
    exact h.kick_lt r' e he
  · intro r1 r2 e h1 h2
    rw [hring] at h1 h2
    exact h.kick_inj r1 r2 e h1 h2

theorem setEnabled_regOk {s : St} (h : RegOk s) (r : Nat) (on : Bool) : RegOk (setEnabled s r on) :=
  updateReg_regOk _ _ ((h.pre r).setRing_sameKick _ rfl)

/-! ## the invariant of the repaired model -/

structure Inv (s : St) : Prop where
  reg : RegOk s
  kick_ready : ∀ r e, (s.ring r).kick = some e → (s.ring r).ready = true
  alive : s.alive = true
  repaired : s.old = false
  acked : s.ackedH = true → s.ackedC = true

theorem setEnabled_same_ring (s : St) (r : Nat) (on : Bool) :
    (setEnabled s r on).ring = upd s.ring r { s.ring r with enabled := on } := by
  unfold setEnabled
  rw [(updateReg_same _ _).2.2.2.2.2.2.1]
  rfl

theorem setEnabled_frame (s : St) (r : Nat) (on : Bool) :
    let t := setEnabled s r on
    t.n = s.n ∧ t.base = s.base ∧ t.old = s.old ∧ t.ackedH = s.ackedH ∧ t.ackedC = s.ackedC ∧ t.conn = s.conn ∧
    t.cnt = s.cnt ∧ t.peerOpen = s.peerOpen ∧ t.next = s.next ∧ t.alive = s.alive := by
  obtain ⟨a1, a2, a3, a4, a5, a6, _, a8, a9, a10, a11⟩ := updateReg_same (setRing s r { s.ring r with enabled := on }) r
  exact ⟨a1, a2, a3, a4, a5, a6, a8, a9, a10, a11⟩

theorem setEnabled_inv {s : St} (h : Inv s) (r : Nat) (on : Bool) : Inv (setEnabled s r on) := by
  obtain ⟨a1, a2, a3, a4, a5, a6, a8, a9, a10, a11⟩ := setEnabled_frame s r on
  refine ⟨setEnabled_regOk h.reg r on, ?_, ?_, ?_, ?_⟩
  · intro r' e
    rw [setEnabled_same_ring]
    by_cases hr : r' = r
    · subst hr; simp only [upd_same]; exact h.kick_ready r' e
    · rw [upd_other _ _ _ _ hr]; exact h.kick_ready r' e
  · rw [a11]; exact h.alive
  · rw [a3]; exact h.repaired
  · rw [a4, a5]; exact h.acked

theorem setAll_inv {s : St} (h : Inv s) (on : Bool) (k : Nat) : Inv (setAll on s k) := by
  induction k with
  | zero => exact h
  | succ k ih => exact setEnabled_inv ih k on


/-! ## `set_vring_kick` (repaired) -/

theorem alloc_inv {s : St} (h : Inv s) : Inv (alloc s) := by
  refine ⟨⟨h.reg.reg_iff, ?_, h.reg.kick_inj⟩, h.kick_ready, h.alive, h.repaired, h.acked⟩
  intro r e he
  have := h.reg.kick_lt r e he
  exact ⟨Nat.lt_succ_of_lt this.1, this.2⟩

/-- `reg` after `replaceKick` on the repaired tree: the replaced descriptor is gone, nothing else changed -/
theorem replaceKick_reg (s0 : St) (r : Nat) (new : Option Evt) (hold : s0.old = false) (e : Evt) :
    (replaceKick s0 r new).reg e = if (s0.ring r).kick = some e then none else s0.reg e := by
  unfold replaceKick
  simp only [hold, Bool.false_eq_true, if_false]
  cases hk : (s0.ring r).kick with
  | none => simp [setRing]
  | some k =>
    simp only [closeFd, epollDel, setRing]
    by_cases hek : k = e
    · subst hek
      by_cases hp : s0.peerOpen k = true <;> simp [upd, hp]
    · have : ¬ (e = k) := fun h => hek h.symm
      by_cases hp : s0.peerOpen k = true <;> simp [upd, hek, this, hp]

theorem replaceKick_ring (s0 : St) (r : Nat) (new : Option Evt) (hold : s0.old = false) :
    (replaceKick s0 r new).ring = upd s0.ring r { s0.ring r with kick := new } := by
  unfold replaceKick
  simp only [hold, Bool.false_eq_true, if_false]
  cases hk : (s0.ring r).kick with
  | none => simp [setRing]
  | some k =>
    simp only [closeFd, epollDel, setRing]
    by_cases hp : s0.peerOpen k = true <;> simp [hp]

theorem replaceKick_frame (s0 : St) (r : Nat) (new : Option Evt) :
    let t := replaceKick s0 r new
    t.n = s0.n ∧ t.base = s0.base ∧ t.old = s0.old ∧ t.ackedH = s0.ackedH ∧ t.ackedC = s0.ackedC ∧ t.conn = s0.conn ∧
    t.cnt = s0.cnt ∧ t.peerOpen = s0.peerOpen ∧ t.next = s0.next ∧ t.alive = s0.alive := by
  unfold replaceKick
  cases hk : (s0.ring r).kick with
  | none => cases ho : s0.old <;> simp [setRing, ho]
  | some k =>
    cases ho : s0.old <;> by_cases hp : s0.peerOpen k = true <;> simp [closeFd, epollDel, setRing, ho, hp]

/-- after `replaceKick` ring `r` has no registration at all and the others are untouched -/
theorem replaceKick_pre {s0 : St} (h : Inv s0) (r : Nat) (hr : r < s0.n) (new : Option Evt)
    (hnew : ∀ e, new = some e → e < s0.next ∧ ∀ r', (s0.ring r').kick ≠ some e) :
    PreReg (replaceKick s0 r new) r ∧ ∀ e, (replaceKick s0 r new).reg e ≠ some r := by
  have hreg := replaceKick_reg s0 r new h.repaired
  have hring := replaceKick_ring s0 r new h.repaired
  obtain ⟨f1, _, _, _, _, _, _, _, f9, _⟩ := replaceKick_frame s0 r new
  have hnone : ∀ e, (replaceKick s0 r new).reg e ≠ some r := by
    intro e he
    rw [hreg] at he
    split at he
    · cases he
    · rename_i hne
      exact hne ((h.reg.reg_iff e r).1 he).2.1
  have hkick : ∀ r', r' ≠ r → ((replaceKick s0 r new).ring r') = s0.ring r' := by
    intro r' hr'; rw [hring, upd_other _ _ _ _ hr']
  have hkickr : ((replaceKick s0 r new).ring r).kick = new := by rw [hring]; simp
  refine ⟨⟨?_, ?_, ?_, ?_⟩, hnone⟩
  · intro e r' hr'
    have hc : Cond (replaceKick s0 r new) r' e ↔ Cond s0 r' e := by
      unfold Cond; rw [hkick r' hr', f1]
    rw [hc, hreg]
    split
    · rename_i hke
      constructor
      · intro h1; cases h1
      · intro hc'
        exact absurd (h.reg.kick_inj r' r e hc'.2.1 hke) hr'
    · exact h.reg.reg_iff e r'
  · intro e he; exact absurd he (hnone e)
  · intro r' e he
    rw [f9, f1]
    by_cases hr' : r' = r
    · subst hr'
      rw [hkickr] at he
      exact ⟨(hnew e he).1, hr⟩
    · rw [hkick r' hr'] at he
      exact h.reg.kick_lt r' e he
  · intro r1 r2 e h1 h2
    by_cases hr1 : r1 = r
    · by_cases hr2 : r2 = r
      · rw [hr1, hr2]
      · subst hr1
        rw [hkickr] at h1
        rw [hkick r2 hr2] at h2
        exact absurd h2 ((hnew e h1).2 r2)
    · by_cases hr2 : r2 = r
      · subst hr2
        rw [hkickr] at h2
        rw [hkick r1 hr1] at h1
        exact absurd h1 ((hnew e h2).2 r1)
      · rw [hkick r1 hr1] at h1
        rw [hkick r2 hr2] at h2
        exact h.reg.kick_inj r1 r2 e h1 h2

theorem installKick_ring (s0 : St) (r : Nat) (new : Option Evt) (hold : s0.old = false) :
    (installKick s0 r new).ring =
      upd s0.ring r { s0.ring r with kick := new, ready := (s0.ring r).ready || new.isSome } := by
  have hring := replaceKick_ring s0 r new hold
  have hold3 : (replaceKick s0 r new).old = false := by rw [(replaceKick_frame s0 r new).2.2.1]; exact hold
  unfold installKick
  simp only [hold3, Bool.false_eq_true, if_false]
  by_cases hni : needsInit (replaceKick s0 r new) r = true
  · simp only [hni, if_true]
    unfold initializeVring
    rw [(updateReg_same _ _).2.2.2.2.2.2.1]
    simp only [setRing, hring, upd_same]
    have : (s0.ring r).ready = false ∧ new.isSome = true := by
      simpa [needsInit, hring] using hni
    funext j
    by_cases hj : j = r
    · subst hj; simp [upd, this.1, this.2]
    · simp [upd, hj]
  · simp only [hni, Bool.false_eq_true, if_false]
    rw [(updateReg_same _ _).2.2.2.2.2.2.1, hring]
    have : (s0.ring r).ready = true ∨ new.isSome = false := by
      have h2 : ¬ ((s0.ring r).ready = false ∧ new.isSome = true) := by
        simpa [needsInit, hring] using hni
      cases h3 : (s0.ring r).ready <;> cases h4 : new.isSome <;> simp_all
    funext j
    by_cases hj : j = r
    · subst hj
      rcases this with h3 | h3 <;> simp [upd, h3]
    · simp [upd, hj]

theorem installKick_frame (s0 : St) (r : Nat) (new : Option Evt) :
    let t := installKick s0 r new
    t.n = s0.n ∧ t.base = s0.base ∧ t.old = s0.old ∧ t.ackedH = s0.ackedH ∧ t.ackedC = s0.ackedC ∧ t.conn = s0.conn ∧
    t.cnt = s0.cnt ∧ t.peerOpen = s0.peerOpen ∧ t.next = s0.next ∧ t.alive = s0.alive := by
  obtain ⟨f1, f2, f3, f4, f5, f6, f7, f8, f9, f10⟩ := replaceKick_frame s0 r new
  unfold installKick
  simp only []
  split
  · unfold initializeVring
    obtain ⟨a1, a2, a3, a4, a5, a6, _, a8, a9, a10, a11⟩ :=
      updateReg_same (setRing (replaceKick s0 r new) r { (replaceKick s0 r new).ring r with ready := true }) r
    exact ⟨a1.trans f1, a2.trans f2, a3.trans f3, a4.trans f4, a5.trans f5, a6.trans f6, a8.trans f7, a9.trans f8,
      a10.trans f9, a11.trans f10⟩
  · split
    · exact ⟨f1, f2, f3, f4, f5, f6, f7, f8, f9, f10⟩
    · obtain ⟨a1, a2, a3, a4, a5, a6, _, a8, a9, a10, a11⟩ := updateReg_same (replaceKick s0 r new) r
      exact ⟨a1.trans f1, a2.trans f2, a3.trans f3, a4.trans f4, a5.trans f5, a6.trans f6, a8.trans f7, a9.trans f8,
        a10.trans f9, a11.trans f10⟩

theorem installKick_inv {s0 : St} (h : Inv s0) (r : Nat) (hr : r < s0.n) (new : Option Evt)
    (hnew : ∀ e, new = some e → e < s0.next ∧ ∀ r', (s0.ring r').kick ≠ some e) :
    Inv (installKick s0 r new) := by
  obtain ⟨hpre, _⟩ := replaceKick_pre h r hr new hnew
  have hring := installKick_ring s0 r new h.repaired
  obtain ⟨f1, f2, f3, f4, f5, f6, f7, f8, f9, f10⟩ := installKick_frame s0 r new
  have hold3 : (replaceKick s0 r new).old = false := by rw [(replaceKick_frame s0 r new).2.2.1]; exact h.repaired
  have hreg : RegOk (installKick s0 r new) := by
    unfold installKick
    simp only [hold3, Bool.false_eq_true, if_false]
    split
    · exact updateReg_regOk _ _ (hpre.setRing_sameKick _ rfl)
    · exact updateReg_regOk _ _ hpre
  refine ⟨hreg, ?_, ?_, ?_, ?_⟩
  · intro r' e he
    rw [hring] at he ⊢
    by_cases hr' : r' = r
    · subst hr'
      simp only [upd_same] at he ⊢
      simp [he]
    · rw [upd_other _ _ _ _ hr'] at he ⊢
      exact h.kick_ready r' e he
  · rw [f10]; exact h.alive
  · rw [f3]; exact h.repaired
  · rw [f4, f5]; exact h.acked


/-! ## `set_vring_call`, `get_vring_base`, guest-side events -/

/-- a ring update that leaves kick, ready and enabled alone keeps the invariant -/
theorem setRing_inv {s : St} (h : Inv s) (r : Nat) (v : VRing) (hk : v.kick = (s.ring r).kick)
    (hr : v.ready = (s.ring r).ready) (he : v.enabled = (s.ring r).enabled) : Inv (setRing s r v) := by
  have hring : ∀ r', ((setRing s r v).ring r').kick = (s.ring r').kick ∧ ((setRing s r v).ring r').ready = (s.ring r').ready
      ∧ ((setRing s r v).ring r').enabled = (s.ring r').enabled := by
    intro r'
    by_cases hr' : r' = r
    · subst hr'; simp [setRing, hk, hr, he]
    · simp [setRing, upd, hr']
  have hc : ∀ r' e, Cond (setRing s r v) r' e ↔ Cond s r' e := by
    intro r' e
    unfold Cond
    rw [(hring r').1, (hring r').2.1, (hring r').2.2]
    rfl
  refine ⟨⟨?_, ?_, ?_⟩, ?_, h.alive, h.repaired, h.acked⟩
  · intro e r'; rw [hc]; exact h.reg.reg_iff e r'
  · intro r' e h1; rw [(hring r').1] at h1; exact h.reg.kick_lt r' e h1
  · intro r1 r2 e h1 h2
    rw [(hring r1).1] at h1; rw [(hring r2).1] at h2
    exact h.reg.kick_inj r1 r2 e h1 h2
  · intro r' e h1
    rw [(hring r').1] at h1; rw [(hring r').2.1]
    exact h.kick_ready r' e h1

theorem needsInit_false {s : St} (h : Inv s) (r : Nat) : needsInit s r = false := by
  unfold needsInit
  cases hk : (s.ring r).kick with
  | none => simp
  | some e => simp [h.kick_ready r e hk]

theorem setVringCall_state {s : St} (h : Inv s) (r : Nat) (fd : Bool) (hr : r < s.n) :
    (setVringCall s r fd).1 =
      setRing (if fd then alloc s else s) r { s.ring r with call := if fd then some s.next else none } ∧
    (setVringCall s r fd).2 = .ok := by
  have h0 : Inv (if fd then alloc s else s) := by split; exact alloc_inv h; exact h
  have hn : (if fd then alloc s else s).n = s.n := by split <;> rfl
  have hring : (if fd then alloc s else s).ring = s.ring := by split <;> rfl
  have h2 := setRing_inv h0 r { s.ring r with call := if fd then some s.next else none }
    (by rw [hring]) (by rw [hring]) (by rw [hring])
  unfold setVringCall
  simp only [hn, hr, if_true, hring]
  rw [needsInit_false h2]
  simp

theorem setVringCall_inv {s : St} (h : Inv s) (r : Nat) (fd : Bool) (hr : r < s.n) : Inv (setVringCall s r fd).1 := by
  rw [(setVringCall_state h r fd hr).1]
  have h0 : Inv (if fd then alloc s else s) := by split; exact alloc_inv h; exact h
  have hring : (if fd then alloc s else s).ring = s.ring := by split <;> rfl
  exact setRing_inv h0 r _ (by rw [hring]) (by rw [hring]) (by rw [hring])

@[simp] theorem updateReg_ring (s : St) (r : Nat) : (updateReg s r).ring = s.ring :=
  (updateReg_same s r).2.2.2.2.2.2.1
@[simp] theorem closeFd_ring (s : St) (e : Evt) : (closeFd s e).ring = s.ring :=
  (closeFd_same s e).2.2.2.2.2.2.1

theorem stopRing_ring (s : St) (r : Nat) :
    (stopRing s r).ring = upd s.ring r { s.ring r with ready := false, kick := none, call := none } := by
  unfold stopRing
  simp only []
  split
  · simp only [closeFd_ring, setRing, updateReg_ring]
    funext j
    by_cases hj : j = r
    · subst hj; simp
    · simp [upd, hj]
  · simp only [setRing, updateReg_ring]
    funext j
    by_cases hj : j = r
    · subst hj; simp
    · simp [upd, hj]

theorem stopRing_frame (s : St) (r : Nat) :
    let t := stopRing s r
    t.n = s.n ∧ t.base = s.base ∧ t.old = s.old ∧ t.ackedH = s.ackedH ∧ t.ackedC = s.ackedC ∧ t.conn = s.conn ∧
    t.cnt = s.cnt ∧ t.peerOpen = s.peerOpen ∧ t.next = s.next ∧ t.alive = s.alive := by
  obtain ⟨a1, a2, a3, a4, a5, a6, _, a8, a9, a10, a11⟩ := updateReg_same (setRing s r { s.ring r with ready := false }) r
  unfold stopRing
  simp only []
  split
  · rename_i k _
    obtain ⟨b1, b2, b3, b4, b5, b6, _, b8, b9, b10, b11⟩ := closeFd_same
      (setRing (updateReg (setRing s r { s.ring r with ready := false }) r) r
        { (updateReg (setRing s r { s.ring r with ready := false }) r).ring r with kick := none, call := none }) k
    exact ⟨b1.trans a1, b2.trans a2, b3.trans a3, b4.trans a4, b5.trans a5, b6.trans a6, b8.trans a8, b9.trans a9,
      b10.trans a10, b11.trans a11⟩
  · exact ⟨a1, a2, a3, a4, a5, a6, a8, a9, a10, a11⟩

/-- `reg` after `stopRing` is `reg` after the `update_vring_registration` inside it: the dropped descriptor was
unregistered there already (the ring is no longer ready) -/
theorem stopRing_reg {s : St} (h : Inv s) (r : Nat) (e : Evt) :
    (stopRing s r).reg e = (updateReg (setRing s r { s.ring r with ready := false }) r).reg e := by
  have h1 : RegOk (updateReg (setRing s r { s.ring r with ready := false }) r) :=
    updateReg_regOk _ _ ((h.reg.pre r).setRing_sameKick _ rfl)
  have e1 := (updateReg_same (setRing s r { s.ring r with ready := false }) r).2.2.2.2.2.2.1
  unfold stopRing
  simp only []
  split
  · rename_i k hk
    unfold closeFd
    split
    · rfl
    · by_cases hek : e = k
      · subst hek
        simp only [epollDel, setRing, upd_same]
        cases hreg : (updateReg (setRing s r { s.ring r with ready := false }) r).reg e with
        | none => exact hreg.symm
        | some r' =>
          exfalso
          have hc := (h1.reg_iff e r').1 hreg
          have := h1.kick_inj r' r e hc.2.1 hk
          subst this
          have := hc.2.2.1
          rw [e1] at this
          simp [setRing] at this
      · simp [epollDel, setRing, upd, hek]
  · rfl

theorem stopRing_inv {s : St} (h : Inv s) (r : Nat) : Inv (stopRing s r) := by
  have h1 : RegOk (updateReg (setRing s r { s.ring r with ready := false }) r) :=
    updateReg_regOk _ _ ((h.reg.pre r).setRing_sameKick _ rfl)
  have e1 := (updateReg_same (setRing s r { s.ring r with ready := false }) r).2.2.2.2.2.2.1
  have en := (updateReg_same (setRing s r { s.ring r with ready := false }) r).1
  have hring := stopRing_ring s r
  obtain ⟨f1, f2, f3, f4, f5, f6, f7, f8, f9, f10⟩ := stopRing_frame s r
  -- in the intermediate state ring r is not ready, so it has no registration
  have hc1 : ∀ r' e, Cond (updateReg (setRing s r { s.ring r with ready := false }) r) r' e ↔ Cond (stopRing s r) r' e := by
    intro r' e
    unfold Cond
    rw [e1, hring, f1, en]
    by_cases hr' : r' = r
    · subst hr'
      simp [setRing]
    · simp [setRing, upd, hr']
  have hreg : ∀ e r', (stopRing s r).reg e = some r' ↔ Cond (stopRing s r) r' e := by
    intro e r'
    rw [← hc1, stopRing_reg h]
    exact h1.reg_iff e r'
  refine ⟨⟨hreg, ?_, ?_⟩, ?_, ?_, ?_, ?_⟩
  · intro r' e he
    rw [hring] at he
    rw [f9, f1]
    by_cases hr' : r' = r
    · subst hr'; simp at he
    · rw [upd_other _ _ _ _ hr'] at he; exact h.reg.kick_lt r' e he
  · intro r1 r2 e h2 h3
    rw [hring] at h2 h3
    by_cases hr1 : r1 = r
    · subst hr1; simp at h2
    · by_cases hr2 : r2 = r
      · subst hr2; simp at h3
      · rw [upd_other _ _ _ _ hr1] at h2; rw [upd_other _ _ _ _ hr2] at h3
        exact h.reg.kick_inj r1 r2 e h2 h3
  · intro r' e he
    rw [hring] at he ⊢
    by_cases hr' : r' = r
    · subst hr'; simp at he
    · rw [upd_other _ _ _ _ hr'] at he ⊢; exact h.kick_ready r' e he
  · rw [f10]; exact h.alive
  · rw [f3]; exact h.repaired
  · rw [f4, f5]; exact h.acked


theorem daemonHolds_false {s : St} {d : Evt} (h : daemonHolds s d = false) (r : Nat) (hr : r < s.n) :
    (s.ring r).kick ≠ some d := by
  unfold daemonHolds at h
  rw [List.any_eq_false] at h
  have := h r (List.mem_range.2 hr)
  simpa using this

/-- a change of fields the invariant does not mention -/
theorem Inv.congr {s t : St} (h : Inv s) (h1 : t.n = s.n) (h2 : t.ring = s.ring) (h3 : t.reg = s.reg)
    (h4 : t.next = s.next) (h5 : t.alive = s.alive) (h6 : t.old = s.old)
    (h7 : t.ackedH = true → t.ackedC = true) : Inv t := by
  refine ⟨⟨?_, ?_, ?_⟩, ?_, ?_, ?_, h7⟩
  · intro e r; unfold Cond; rw [h3, h2, h1]; exact h.reg.reg_iff e r
  · intro r e; rw [h2, h4, h1]; exact h.reg.kick_lt r e
  · intro r1 r2 e; rw [h2]; exact h.reg.kick_inj r1 r2 e
  · intro r e; rw [h2]; exact h.kick_ready r e
  · rw [h5]; exact h.alive
  · rw [h6]; exact h.repaired

theorem peerClose_inv {s : St} (h : Inv s) (d : Evt) : Inv (control s (.peerClose d)).1 := by
  simp only [Model.RingReg.control, isControl, Bool.false_and, Bool.false_eq_true, if_false]
  by_cases hd : daemonHolds { s with peerOpen := upd s.peerOpen d false } d = true
  · simp only [hd, if_true]
    exact h.congr rfl rfl rfl rfl rfl rfl h.acked
  · simp only [hd, Bool.false_eq_true, if_false]
    have hd' : daemonHolds { s with peerOpen := upd s.peerOpen d false } d = false := by simpa using hd
    have hnone : s.reg d = none := by
      cases hr : s.reg d with
      | none => rfl
      | some r =>
        have hc := (h.reg.reg_iff d r).1 hr
        exact absurd hc.2.1 (daemonHolds_false hd' r hc.1)
    refine ⟨⟨?_, h.reg.kick_lt, h.reg.kick_inj⟩, h.kick_ready, h.alive, h.repaired, h.acked⟩
    intro e r
    show upd s.reg d none e = some r ↔ Cond s r e
    by_cases he : e = d
    · subst he
      simp only [upd_same]
      rw [← h.reg.reg_iff, hnone]
    · rw [upd_other _ _ _ _ he]; exact h.reg.reg_iff e r

theorem guestKick_inv {s : St} (h : Inv s) (d : Evt) : Inv (control s (.guestKick d)).1 := by
  simp only [Model.RingReg.control, isControl, Bool.false_and, Bool.false_eq_true, if_false]
  split
  · exact h.congr rfl rfl rfl rfl rfl rfl h.acked
  · exact h

/-- every event keeps the invariant of the repaired model — inside or outside the protocol's domain -/
theorem control_inv {s : St} (h : Inv s) (m : Msg) : Inv (control s m).1 := by
  cases m with
  | guestKick d => exact guestKick_inv h d
  | peerClose d => exact peerClose_inv h d
  | setFeatures proto =>
    unfold Model.RingReg.control
    by_cases hc : s.conn = true
    · have hg : (!s.conn) = false := by simp [hc]
      simp only [isControl, hg, Bool.and_false, Bool.false_eq_true, if_false, setFeatures]
      have h1 : Inv { s with ackedH := proto, ackedC := proto } := h.congr rfl rfl rfl rfl rfl rfl (fun h' => h')
      cases proto with
      | true => exact h1
      | false =>
        simp only [Bool.false_eq_true, if_false]
        exact setAll_inv h1 true _
    · simp only [isControl, hc, carriesFd, Bool.false_eq_true, if_false, Bool.not_false, Bool.and_true, if_true]
      exact h
  | reset =>
    unfold Model.RingReg.control
    by_cases hc : s.conn = true
    · have hg : (!s.conn) = false := by simp [hc]
      simp only [isControl, hg, Bool.and_false, Bool.false_eq_true, if_false, resetDevice]
      have h1 := setAll_inv h false s.n
      exact h1.congr rfl rfl rfl rfl rfl rfl (fun h' => by cases h')
    · simp only [isControl, hc, carriesFd, Bool.false_eq_true, if_false, Bool.not_false, Bool.and_true, if_true]
      exact h
  | setEnable r on =>
    unfold Model.RingReg.control
    by_cases hc : s.conn = true
    · have hg : (!s.conn) = false := by simp [hc]
      simp only [isControl, hg, Bool.and_false, Bool.false_eq_true, if_false, setVringEnable]
      split
      · exact h.congr rfl rfl rfl rfl rfl rfl h.acked
      · split
        · exact h.congr rfl rfl rfl rfl rfl rfl h.acked
        · split
          · exact setEnabled_inv h r on
          · exact h.congr rfl rfl rfl rfl rfl rfl h.acked
    · simp only [isControl, hc, carriesFd, Bool.false_eq_true, if_false, Bool.not_false, Bool.and_true, if_true]
      exact h
  | getBase r =>
    unfold Model.RingReg.control
    by_cases hc : s.conn = true
    · have hg : (!s.conn) = false := by simp [hc]
      simp only [isControl, hg, Bool.and_false, Bool.false_eq_true, if_false, getVringBase]
      split
      · exact stopRing_inv h r
      · exact h.congr rfl rfl rfl rfl rfl rfl h.acked
    · simp only [isControl, hc, carriesFd, Bool.false_eq_true, if_false, Bool.not_false, Bool.and_true, if_true]
      exact h
  | setCall r fd =>
    unfold Model.RingReg.control
    by_cases hc : s.conn = true
    · have hg : (!s.conn) = false := by simp [hc]
      simp only [isControl, hg, Bool.and_false, Bool.false_eq_true, if_false]
      by_cases hr : r < s.n
      · exact setVringCall_inv h r fd hr
      · have h0 : Inv (if fd then alloc s else s) := by cases fd; exact h; exact alloc_inv h
        have hn : (if fd then alloc s else s).n = s.n := by cases fd <;> rfl
        have : (setVringCall s r fd).1 = { (if fd then alloc s else s) with conn := false } := by
          unfold setVringCall
          simp [hn, hr]
        rw [this]
        exact h0.congr rfl rfl rfl rfl rfl rfl h0.acked
    · simp only [isControl, hc, carriesFd, Bool.not_false, Bool.and_true, if_true]
      cases fd
      · exact h
      · exact alloc_inv h
  | setKick r fd =>
    unfold Model.RingReg.control
    by_cases hc : s.conn = true
    · have hg : (!s.conn) = false := by simp [hc]
      simp only [isControl, hg, Bool.and_false, Bool.false_eq_true, if_false]
      have h0 : Inv (if fd then alloc s else s) := by cases fd; exact h; exact alloc_inv h
      have hn : (if fd then alloc s else s).n = s.n := by cases fd <;> rfl
      unfold setVringKick
      by_cases hr : r < s.n
      · simp only [hn, hr, if_true]
        apply installKick_inv h0 r (by rw [hn]; exact hr)
        intro e he
        cases fd with
        | false => simp at he
        | true =>
          simp only [if_true] at he ⊢
          have : e = s.next := (Option.some.inj he).symm
          subst this
          refine ⟨Nat.lt_succ_self _, ?_⟩
          intro r' hk
          have := (h.reg.kick_lt r' _ hk).1
          exact Nat.lt_irrefl _ this
      · have : (if r < (if fd then alloc s else s).n then
              (installKick (if fd then alloc s else s) r (if fd then some s.next else none), Reply.ok)
            else ({ (if fd then alloc s else s) with conn := false }, Reply.fail)).1
            = { (if fd then alloc s else s) with conn := false } := by
          simp [hn, hr]
        rw [this]
        exact h0.congr rfl rfl rfl rfl rfl rfl h0.acked
    · simp only [isControl, hc, carriesFd, Bool.not_false, Bool.and_true, if_true]
      cases fd
      · exact h
      · exact alloc_inv h

theorem init_inv (n : Nat) (base : Nat → Nat) : Inv (init n base false) := by
  refine ⟨⟨?_, ?_, ?_⟩, ?_, rfl, rfl, ?_⟩
  · intro e r; simp [init, Cond, VRing.init]
  · intro r e h; simp [init, VRing.init] at h
  · intro r1 r2 e h; simp [init, VRing.init] at h
  · intro r e h; simp [init, VRing.init] at h
  · intro h; simp [init] at h


/-! ## the worker's drain under the invariant -/

theorem batch_mem (s : St) (e : Evt) (r : Nat) :
    (e, r) ∈ batch s ↔ e < s.next ∧ s.reg e = some r ∧ 0 < s.cnt e := by
  unfold batch
  rw [List.mem_filterMap]
  constructor
  · rintro ⟨e', he', h⟩
    rw [List.mem_range] at he'
    cases hr : s.reg e' with
    | none => simp [hr] at h
    | some r' =>
      simp only [hr] at h
      by_cases hc : 0 < s.cnt e'
      · simp only [hc, if_true] at h
        have : (e', r') = (e, r) := Option.some.inj h
        cases this
        exact ⟨he', hr, hc⟩
      · simp [hc] at h
  · rintro ⟨h1, h2, h3⟩
    exact ⟨e, List.mem_range.2 h1, by simp [h2, h3]⟩

theorem filterMap_fst_nodup (f : Nat → Option (Nat × Nat)) (hf : ∀ e p, f e = some p → p.1 = e) (l : List Nat)
    (hl : l.Nodup) : ((l.filterMap f).map Prod.fst).Nodup ∧ ∀ x ∈ (l.filterMap f).map Prod.fst, x ∈ l := by
  induction l with
  | nil => simp
  | cons a l ih =>
    rw [List.nodup_cons] at hl
    obtain ⟨ih1, ih2⟩ := ih hl.2
    cases hfa : f a with
    | none =>
      rw [List.filterMap_cons_none hfa]
      exact ⟨ih1, fun x hx => List.mem_cons_of_mem _ (ih2 x hx)⟩
    | some p =>
      rw [List.filterMap_cons_some hfa]
      have hp := hf a p hfa
      simp only [List.map_cons, List.nodup_cons, hp]
      refine ⟨⟨fun h => hl.1 (ih2 a h), ih1⟩, ?_⟩
      intro x hx
      rcases List.mem_cons.1 hx with h | h
      · rw [h]; exact List.mem_cons_self ..
      · exact List.mem_cons_of_mem _ (ih2 x h)

theorem batch_fst_nodup (s : St) : ((batch s).map Prod.fst).Nodup := by
  unfold batch
  refine (filterMap_fst_nodup _ ?_ _ List.nodup_range).1
  intro e p h
  cases hr : s.reg e with
  | none => simp [hr] at h
  | some r =>
    simp only [hr] at h
    by_cases hc : 0 < s.cnt e
    · simp only [hc, if_true] at h
      rw [← Option.some.inj h]
    · simp [hc] at h

theorem quiesce_of_batch_nil (f : Nat) (s : St) (h : batch s = []) : quiesce f s = (s, []) := by
  cases f with
  | zero => rfl
  | succ f => simp [quiesce, h]

theorem pass_spec (L : List (Evt × Nat)) :
    ∀ s : St, s.alive = true →
      (∀ p ∈ L, (s.ring p.2).kick = some p.1 ∧ (s.ring p.2).enabled = true ∧ 0 < s.cnt p.1) →
      (L.map Prod.fst).Nodup →
      pass s L = ({ s with cnt := fun d => if d ∈ L.map Prod.fst then 0 else s.cnt d }, L.map Prod.snd) := by
  induction L with
  | nil => intro s _ _ _; simp [pass]
  | cons p L ih =>
    intro s ha hp hn
    obtain ⟨e, r⟩ := p
    have h0 := hp (e, r) (List.mem_cons_self ..)
    simp only at h0
    have hne : ¬ s.cnt e = 0 := Nat.pos_iff_ne_zero.1 h0.2.2
    have hev : handleEvent s r = ({ s with cnt := upd s.cnt e 0 }, [r]) := by
      unfold handleEvent
      simp [ha, h0.1, hne, h0.2.1]
    simp only [List.map_cons, List.nodup_cons] at hn
    have ih' := ih { s with cnt := upd s.cnt e 0 } ha (by
      intro q hq
      have hq' := hp q (List.mem_cons_of_mem _ hq)
      have hqe : q.1 ≠ e := by
        intro h
        apply hn.1
        rw [← h]
        exact List.mem_map_of_mem hq
      refine ⟨hq'.1, hq'.2.1, ?_⟩
      show 0 < upd s.cnt e 0 q.1
      rw [upd_other _ _ _ _ hqe]; exact hq'.2.2) hn.2
    simp only [pass, hev, ih', List.map_cons, List.singleton_append]
    congr 1
    congr 1
    funext d
    show (if d ∈ List.map Prod.fst L then 0 else upd s.cnt e 0 d) = if d ∈ e :: List.map Prod.fst L then 0 else s.cnt d
    by_cases hd : d = e
    · subst hd
      rw [if_pos (List.mem_cons_self ..)]
      simp
    · by_cases hm : d ∈ List.map Prod.fst L
      · rw [if_pos hm, if_pos (List.mem_cons_of_mem _ hm)]
      · have hm' : ¬ d ∈ e :: List.map Prod.fst L := by
          intro h
          rcases List.mem_cons.1 h with h | h
          · exact hd h
          · exact hm h
        rw [if_neg hm, if_neg hm', upd_other _ _ _ _ hd]

/-- what the drain does to a state that satisfies the invariant: the counter of every registered descriptor is consumed,
the handler is called once for each ring whose registered descriptor was readable; nothing else changes -/
theorem quiesce_spec {s : St} (h : Inv s) (f : Nat) :
    quiesce (f + 1) s =
      ({ s with cnt := fun d => if (s.reg d).isSome then 0 else s.cnt d }, (batch s).map Prod.snd) := by
  have hmem : ∀ p ∈ batch s, (s.ring p.2).kick = some p.1 ∧ (s.ring p.2).enabled = true ∧ 0 < s.cnt p.1 := by
    intro p hp
    obtain ⟨e, r⟩ := p
    have := (batch_mem s e r).1 hp
    have hc := (h.reg.reg_iff e r).1 this.2.1
    exact ⟨hc.2.1, hc.2.2.2, this.2.2⟩
  have hz : (fun d => if d ∈ (batch s).map Prod.fst then 0 else s.cnt d)
      = (fun d => if (s.reg d).isSome then 0 else s.cnt d) := by
    funext d
    by_cases hd : d ∈ (batch s).map Prod.fst
    · obtain ⟨p, hp, hpd⟩ := List.mem_map.1 hd
      obtain ⟨e, r⟩ := p
      simp only at hpd
      subst hpd
      have := (batch_mem s e r).1 hp
      simp [hd, this.2.1]
    · simp only [hd, if_false]
      cases hr : s.reg d with
      | none => simp
      | some r =>
        simp only [Option.isSome_some, if_true]
        have hc := (h.reg.reg_iff d r).1 hr
        have hlt := (h.reg.kick_lt r d hc.2.1).1
        cases hcnt : s.cnt d with
        | zero => rfl
        | succ k =>
          exfalso
          apply hd
          exact List.mem_map.2 ⟨(d, r), (batch_mem s d r).2 ⟨hlt, hr, by omega⟩, rfl⟩
  by_cases hb : batch s = []
  · rw [quiesce_of_batch_nil _ _ hb, hb]
    simp only [List.map_nil]
    have : s.cnt = fun d => if (s.reg d).isSome then 0 else s.cnt d := by
      rw [← hz, hb]; simp
    rw [← this]
  · have hne : (batch s).isEmpty = false := by
      cases hbb : batch s with
      | nil => exact absurd hbb hb
      | cons a l => rfl
    have hp := pass_spec (batch s) s h.alive hmem (batch_fst_nodup s)
    have hg : (s.alive && !(batch s).isEmpty) = true := by simp [h.alive, hne]
    simp only [quiesce, hg, if_true, hp]
    rw [hz]
    have hb' : batch { s with cnt := fun d => if (s.reg d).isSome then 0 else s.cnt d } = [] := by
      apply List.eq_nil_iff_forall_not_mem.2
      intro p hp'
      obtain ⟨e, r⟩ := p
      have := (batch_mem _ e r).1 hp'
      simp only at this
      rw [this.2.1] at this
      simp at this
    rw [quiesce_of_batch_nil _ _ hb']
    simp

end Lemmas.RingReg
