import VhostModel.Model.MemTable
import VhostModel.Spec.MemTable
import VhostModel.Spec.Valid
/-! helper lemmas for `Props/C13.lean`: sortedness of the vm-memory collection, the refinement relation between the
handler's state and the table of the property, translation -/
namespace Lemmas.MemTable
open Model.MemTable
open Spec.MemTable (Req Op)

/-- what the memory object keeps of a region of the property's table -/
def toMem (r : Spec.MemTable.Region) : Region := ⟨r.gpa, r.size, r.fid, r.off⟩
/-- what the translation table keeps of it -/
def toMap (r : Spec.MemTable.Region) : AddrMapping := ⟨r.uaddr, r.size, r.gpa⟩

/-- the order vm-memory maintains: every region ends before every later one starts -/
def Sorted (l : List Region) : Prop := l.Pairwise fun a b => a.lastAddr < b.gpa

/-- every region has a positive length (`mmap` refuses length 0) -/
def Pos (l : List Region) : Prop := ∀ r ∈ l, 0 < r.size

theorem windowsOk_iff (l : List Region) : windowsOk l = true ↔ Sorted l := by
  unfold Sorted
  induction l with
  | nil => simp [windowsOk]
  | cons a l ih =>
    cases l with
    | nil => simp [windowsOk]
    | cons b rest =>
      rw [windowsOk]
      rw [List.pairwise_cons]
      constructor
      · intro h
        split at h
        · cases h
        · split at h
          · cases h
          · rename_i h1 h2
            have hs := ih.mp h
            refine ⟨?_, hs⟩
            intro c hc
            rw [List.pairwise_cons] at hs
            rcases List.mem_cons.mp hc with rfl | hc'
            · omega
            · have := hs.1 c hc'
              unfold Region.lastAddr at *
              omega
      · rintro ⟨h1, h2⟩
        have hb := h1 b (by simp)
        unfold Region.lastAddr at hb
        have : ¬ a.gpa > b.gpa := by omega
        simp only [this, if_false]
        have : ¬ a.lastAddr ≥ b.gpa := by unfold Region.lastAddr; omega
        simp only [this, if_false]
        exact ih.mpr h2

theorem sorted_gpa_lt {l : List Region} (h : Sorted l) : l.Pairwise fun a b => a.gpa < b.gpa := by
  unfold Sorted at h
  refine h.imp ?_
  intro a b hab
  unfold Region.lastAddr at hab; omega

theorem sorted_gpa_ne {l : List Region} (h : Sorted l) : l.Pairwise fun a b => a.gpa ≠ b.gpa :=
  (sorted_gpa_lt h).imp (fun h => Nat.ne_of_lt h)

/-- in a list whose keys are pairwise different, an element is determined by its key -/
theorem pairwise_key_inj {α : Type} {f : α → Nat} {l : List α} (h : l.Pairwise fun a b => f a ≠ f b)
    {a b : α} (ha : a ∈ l) (hb : b ∈ l) (e : f a = f b) : a = b := by
  induction l with
  | nil => cases ha
  | cons x xs ih =>
    rw [List.pairwise_cons] at h
    rcases List.mem_cons.mp ha with rfl | ha'
    · rcases List.mem_cons.mp hb with rfl | hb'
      · rfl
      · exact absurd e (h.1 b hb')
    · rcases List.mem_cons.mp hb with rfl | hb'
      · exact absurd e.symm (h.1 a ha')
      · exact ih h.2 ha' hb'

/-! ### insertSorted -/
theorem insertSorted_perm (g : Region) (l : List Region) : (insertSorted g l).Perm (l ++ [g]) := by
  induction l with
  | nil => simp [insertSorted]
  | cons x xs ih =>
    unfold insertSorted
    split
    · exact (List.Perm.cons x ih)
    · have : (g :: x :: xs).Perm ((x :: xs) ++ [g]) := by
        have := @List.perm_append_comm _ [g] (x :: xs)
        simpa using this
      exact this

/-! ### removeRegion -/
theorem removeRegion_eq_filter {base size : Nat} {l mem : List Region}
    (hs : l.Pairwise fun a b => a.gpa ≠ b.gpa) (h : removeRegion base size l = some mem) :
    mem = l.filter (fun r => r.gpa != base) ∧ (⟨base, size, 0, 0⟩ : Region).gpa = base ∧
      ∃ r ∈ l, r.gpa = base ∧ r.size = size := by
  induction l generalizing mem with
  | nil => simp [removeRegion] at h
  | cons r rs ih =>
    rw [List.pairwise_cons] at hs
    unfold removeRegion at h
    split at h
    · rename_i hg
      split at h
      · rename_i hsz
        cases h
        refine ⟨?_, rfl, r, by simp, hg, hsz⟩
        have hne : ∀ x ∈ rs, (x.gpa != base) = true := by
          intro x hx
          have := hs.1 x hx
          simp only [bne_iff_ne, ne_eq]
          omega
        simp only [List.filter_cons, hg, bne_self_eq_false, Bool.false_eq_true, if_false]
        exact (List.filter_eq_self.mpr hne).symm
      · cases h
    · rename_i hg
      cases hr : removeRegion base size rs with
      | none => simp [hr] at h
      | some m =>
        simp only [hr, Option.map_some, Option.some.injEq] at h
        subst h
        obtain ⟨e, _, x, hx, hxg, hxs⟩ := ih hs.2 hr
        refine ⟨?_, rfl, x, List.mem_cons_of_mem _ hx, hxg, hxs⟩
        have : (r.gpa != base) = true := by simp [hg]
        simp only [List.filter_cons, this, if_true]
        rw [e]

theorem removeRegion_sorted {base size : Nat} {l mem : List Region} (hs : Sorted l)
    (h : removeRegion base size l = some mem) : Sorted mem := by
  obtain ⟨e, _, _⟩ := removeRegion_eq_filter (sorted_gpa_ne hs) h
  subst e
  exact List.Pairwise.filter _ hs

/-! ### building regions -/
theorem mmapRegion_some {r : Req} {g : Region} (h : mmapRegion r = some g) :
    g = toMem r.region ∧ 0 < r.size ∧ r.gpa + r.size < 2^64 ∧ r.mapOk = true := by
  unfold mmapRegion at h
  split at h
  · rename_i h1
    split at h
    · rename_i h2
      cases h
      simp only [Bool.and_eq_true, decide_eq_true_eq] at h1
      exact ⟨rfl, h1.2, h2, h1.1⟩
    · cases h
  · cases h

theorem buildAll_some {rs : List Req} {gs : List Region} {ms : List AddrMapping}
    (h : buildAll rs = some (gs, ms)) :
    gs = rs.map (fun r => toMem r.region) ∧ ms = rs.map (fun r => toMap r.region) ∧ ∀ r ∈ rs, 0 < r.size := by
  induction rs generalizing gs ms with
  | nil => simp [buildAll] at h; simp [h]
  | cons r rs ih =>
    unfold buildAll at h
    cases hm : mmapRegion r with
    | none => simp [hm] at h
    | some g =>
      simp only [hm] at h
      cases hb : buildAll rs with
      | none => simp [hb] at h
      | some p =>
        obtain ⟨gs', ms'⟩ := p
        simp only [hb, Option.some.injEq, Prod.mk.injEq] at h
        obtain ⟨rfl, rfl⟩ := h
        obtain ⟨e1, e2, e3⟩ := ih hb
        obtain ⟨eg, hp, _, _⟩ := mmapRegion_some hm
        refine ⟨?_, ?_, ?_⟩
        · simp [e1, eg]
        · simp [e2, mappingOf, toMap, Spec.MemTable.Req.region]
        · intro x hx
          rcases List.mem_cons.mp hx with rfl | hx'
          · exact hp
          · exact e3 x hx'

theorem fromRegions_some {l mem : List Region} (h : fromRegions l = some mem) : mem = l ∧ Sorted l ∧ l ≠ [] := by
  unfold fromRegions at h
  split at h
  · cases h
  · rename_i hne
    split at h
    · rename_i hw
      cases h
      refine ⟨rfl, (windowsOk_iff _).mp hw, ?_⟩
      intro e; simp [e] at hne
    · cases h

/-! ### the refinement relation -/

/-- the handler's state `s` represents the property's table `T` -/
structure Rel (s : St) (T : List Spec.MemTable.Region) : Prop where
  regions : s.regions.Perm (T.map toMem)
  mappings : s.mappings.Perm (T.map toMap)
  sorted : Sorted s.regions

theorem rel_init : Rel St.init [] := ⟨by simp [St.init], by simp [St.init], by simp [St.init, Sorted]⟩

theorem rel_gpa_ne {s : St} {T : List Spec.MemTable.Region} (h : Rel s T) :
    T.Pairwise fun a b => a.gpa ≠ b.gpa := by
  have h1 := sorted_gpa_ne h.sorted
  have h2 : (T.map toMem).Pairwise fun a b => a.gpa ≠ b.gpa :=
    h.regions.pairwise h1 (fun hxy => fun e => hxy e.symm)
  rw [List.pairwise_map] at h2
  exact h2

theorem rel_step' {s s' : St} {ok : Bool} {T : List Spec.MemTable.Region} (h : Rel s T) (op : Op)
    (hs : step s op = (s', ok)) : Rel s' (if ok then Spec.MemTable.apply T op else T) := by
  cases op with
  | setTable rs =>
    simp only [step, setMemTable] at hs
    split at hs
    · cases hs; simpa using h
    · rename_i regs maps hb
      split at hs
      · cases hs; simpa using h
      · rename_i mem hf
        cases hs
        obtain ⟨e1, e2, _⟩ := buildAll_some hb
        obtain ⟨rfl, hsrt, _⟩ := fromRegions_some hf
        simp only [if_true, Spec.MemTable.apply]
        refine ⟨?_, ?_, hsrt⟩
        · simp [e1, List.map_map, Function.comp_def]
        · simp [e2, List.map_map, Function.comp_def]
  | add r =>
    simp only [step, addMemRegion] at hs
    split at hs
    · cases hs; simpa using h
    · rename_i g hm
      split at hs
      · cases hs; simpa using h
      · rename_i mem hi
        cases hs
        obtain ⟨eg, _, _, _⟩ := mmapRegion_some hm
        unfold insertRegion at hi
        obtain ⟨rfl, hsrt, _⟩ := fromRegions_some hi
        simp only [if_true, Spec.MemTable.apply]
        refine ⟨?_, ?_, hsrt⟩
        · show (insertSorted g s.regions).Perm (List.map toMem (T ++ [r.region]))
          rw [List.map_append, List.map_cons, List.map_nil, ← eg]
          exact (insertSorted_perm g s.regions).trans (List.Perm.append_right _ h.regions)
        · have : mappingOf r = toMap r.region := by simp [mappingOf, toMap, Spec.MemTable.Req.region]
          show (s.mappings ++ [mappingOf r]).Perm (List.map toMap (T ++ [r.region]))
          rw [List.map_append, List.map_cons, List.map_nil, this]
          exact List.Perm.append_right _ h.mappings
  | remove gpa size =>
    simp only [step, removeMemRegion] at hs
    split at hs
    · cases hs; simpa using h
    · rename_i mem hr
      cases hs
      simp only [if_true, Spec.MemTable.apply]
      obtain ⟨e, _, x, hx, hxg, hxs⟩ := removeRegion_eq_filter (sorted_gpa_ne h.sorted) hr
      -- in T the key (gpa, size) and the key gpa alone select the same elements
      have hT := rel_gpa_ne h
      have hkey : ∀ y ∈ T, (!(y.gpa == gpa && y.size == size)) = (y.gpa != gpa) := by
        intro y hy
        by_cases hyg : y.gpa = gpa
        · -- toMem y is the region of s.regions that starts at gpa, hence x
          have hm : toMem y ∈ s.regions := (h.regions.mem_iff).mpr (List.mem_map_of_mem hy)
          have hxy : toMem y = x :=
            pairwise_key_inj (sorted_gpa_ne h.sorted) hm hx (by simp [toMem, hyg, hxg])
          have : y.size = size := by rw [← hxs, ← hxy]; rfl
          simp [hyg, this]
        · have : (y.gpa == gpa) = false := by simp [hyg]
          simp [this, bne]
      refine ⟨?_, ?_, removeRegion_sorted h.sorted hr⟩
      · subst e
        have h1 := h.regions.filter (fun r => r.gpa != gpa)
        rw [List.filter_map] at h1
        have : T.filter ((fun r : Region => r.gpa != gpa) ∘ toMem) =
            T.filter (fun y => !(y.gpa == gpa && y.size == size)) := by
          apply List.filter_congr
          intro y hy
          rw [hkey y hy]; rfl
        rw [this] at h1
        exact h1
      · have h1 := h.mappings.filter (fun m => m.gpaBase != gpa)
        rw [List.filter_map] at h1
        have : T.filter ((fun m : AddrMapping => m.gpaBase != gpa) ∘ toMap) =
            T.filter (fun y => !(y.gpa == gpa && y.size == size)) := by
          apply List.filter_congr
          intro y hy
          rw [hkey y hy]; rfl
        rw [this] at h1
        exact h1

theorem rel_step {s : St} {T : List Spec.MemTable.Region} (h : Rel s T) (op : Op) :
    Rel (step s op).1 (if (step s op).2 then Spec.MemTable.apply T op else T) :=
  rel_step' h op rfl

/-! ### runs -/
theorem rel_run {s : St} {T : List Spec.MemTable.Region} (h : Rel s T) (ops : List Op) :
    Rel (run s ops).1 (Spec.MemTable.foldSuccesses T (ops.zip (run s ops).2)) := by
  induction ops generalizing s T with
  | nil => simpa [run, Spec.MemTable.foldSuccesses] using h
  | cons op ops ih =>
    have hst := rel_step h op
    simp only [run]
    cases hok : (step s op).2 with
    | true =>
      simp only [hok, if_true] at hst
      have := ih hst
      simpa [List.zip_cons_cons, Spec.MemTable.foldSuccesses, hok] using this
    | false =>
      simp only [hok] at hst
      have := ih hst
      simpa [List.zip_cons_cons, Spec.MemTable.foldSuccesses, hok] using this

theorem run_length (s : St) (ops : List Op) : (run s ops).2.length = ops.length := by
  induction ops generalizing s with
  | nil => rfl
  | cons op ops ih => simp [run, ih]

/-! ### region lookup -/
theorem contains_iff (r : Region) (g : Nat) : r.contains g = true ↔ r.gpa ≤ g ∧ g < r.gpa + r.size := by
  simp [Region.contains]

theorem find_unique {l : List Region} (hs : Sorted l) {x : Region} (hx : x ∈ l) {g : Nat}
    (hc : x.contains g = true) : findRegion l g = some x := by
  unfold findRegion
  induction l with
  | nil => cases hx
  | cons a l ih =>
    unfold Sorted at hs
    rw [List.pairwise_cons] at hs
    rcases List.mem_cons.mp hx with rfl | hx'
    · simp [hc]
    · have hlt := hs.1 x hx'
      have : a.contains g = false := by
        rw [contains_iff] at hc
        cases hca : a.contains g with
        | false => rfl
        | true =>
          rw [contains_iff] at hca
          unfold Region.lastAddr at hlt
          omega
      simp only [List.find?_cons, this]
      exact ih hs.2 hx'

theorem find_none {l : List Region} {g : Nat} (h : ∀ x ∈ l, x.contains g = false) : findRegion l g = none := by
  unfold findRegion
  rw [List.find?_eq_none]
  intro x hx
  simp [h x hx]

/-! ### translation -/
def AddrMapping.containsVa (m : AddrMapping) (va : Nat) : Prop := m.vmmAddr ≤ va ∧ va < m.vmmAddr + m.size

theorem translate_some {ms : List AddrMapping} {va g : Nat} (h : translate ms va = some g) :
    ∃ pre m post, ms = pre ++ m :: post ∧ (∀ x ∈ pre, ¬ AddrMapping.containsVa x va) ∧
      AddrMapping.containsVa m va ∧ g = m.gpaBase + (va - m.vmmAddr) := by
  induction ms with
  | nil => simp [translate] at h
  | cons m ms ih =>
    unfold translate at h
    split at h
    · rename_i hc
      cases h
      exact ⟨[], m, ms, rfl, by simp, hc, by omega⟩
    · rename_i hc
      obtain ⟨pre, m', post, e, hp, hm, hg⟩ := ih h
      refine ⟨m :: pre, m', post, by simp [e], ?_, hm, hg⟩
      intro x hx
      rcases List.mem_cons.mp hx with rfl | hx'
      · exact hc
      · exact hp x hx'

theorem translate_none {ms : List AddrMapping} {va : Nat} (h : translate ms va = none) :
    ∀ m ∈ ms, ¬ AddrMapping.containsVa m va := by
  induction ms with
  | nil => simp
  | cons m ms ih =>
    unfold translate at h
    split at h
    · cases h
    · rename_i hc
      intro x hx
      rcases List.mem_cons.mp hx with rfl | hx'
      · exact hc
      · exact ih h x hx'

theorem translate_first {pre post : List AddrMapping} {m : AddrMapping} {va : Nat}
    (hp : ∀ x ∈ pre, ¬ AddrMapping.containsVa x va) (hm : AddrMapping.containsVa m va) :
    translate (pre ++ m :: post) va = some (m.gpaBase + (va - m.vmmAddr)) := by
  induction pre with
  | nil =>
    have : m.vmmAddr ≤ va ∧ va < m.vmmAddr + m.size := hm
    simp only [List.nil_append, translate, this, and_self, if_true]
    congr 1; omega
  | cons x pre ih =>
    have hx : ¬ (x.vmmAddr ≤ va ∧ va < x.vmmAddr + x.size) := hp x (by simp)
    simp only [List.cons_append, translate, hx, if_false]
    exact ih (fun y hy => hp y (List.mem_cons_of_mem _ hy))

/-- the validity rule of the message layer (`Spec.validRegion`), as far as a translation entry records it -/
def MappingValid (m : AddrMapping) : Prop := ∃ off, Spec.validRegion m.gpaBase m.size m.vmmAddr off

theorem translateChecked_eq {ms : List AddrMapping} (hv : ∀ m ∈ ms, MappingValid m) (va : Nat) :
    translateChecked ms va = (match translate ms va with | some g => .ok g | none => .missing) ∧
    (∀ g, translate ms va = some g → g < 2^64) := by
  induction ms with
  | nil => simp [translateChecked, translate]
  | cons m ms ih =>
    obtain ⟨off, h0, h1, h2, _⟩ := hv m (by simp)
    have ih' := ih (fun x hx => hv x (List.mem_cons_of_mem _ hx))
    unfold translateChecked translate
    by_cases ha : m.vmmAddr ≤ va
    · by_cases hb : va < m.vmmAddr + m.size
      · have hlt : va - m.vmmAddr + m.gpaBase < 2^64 := by omega
        simp only [ha, h2, hb, hlt, and_self, if_true]
        refine ⟨trivial, ?_⟩
        intro g hg; cases hg; exact hlt
      · simp only [ha, h2, hb, and_false, if_true, if_false]
        exact ih'
    · simp only [ha, false_and, if_false]
      exact ih'

end Lemmas.MemTable
